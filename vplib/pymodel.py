"""Python mirrors of the selection routines, used only to ENUMERATE pivot scripts
(which sub-array lengths occur for which earlier choices).  They decide nothing: if a
mirror drifted from the code, a script would merely be too short or too long (the hook
then falls back to the drawn pivot, which is logged and replayed in the model anyway)."""


def partition(a, p):
    a = list(a)
    n = len(a)
    pv = a[p]
    a[p], a[0] = a[0], a[p]
    i, j = 1, n - 1
    while True:
        while i <= j and a[i] < pv:
            i += 1
        while j >= 0 and pv <= a[j]:
            if j <= 1:
                break
            j -= 1
        if i >= j:
            break
        a[i], a[j] = a[j], a[i]
        i += 1
        j -= 1
    a[0], a[i - 1] = a[i - 1], a[0]
    return i - 1, a


def select_scripts(a, i, limit=None):
    """all complete pivot scripts of get_from_sorted_mut(a, i): list of tuples"""
    out = []

    def rec(arr, idx, prefix):
        if limit is not None and len(out) >= limit:
            return
        n = len(arr)
        if n <= 1:
            out.append(tuple(prefix))
            return
        for p in range(n):
            k, b = partition(arr, p)
            if idx < k:
                rec(b[:k], idx, prefix + [p])
            elif idx == k:
                out.append(tuple(prefix + [p]))
            else:
                rec(b[k + 1:], idx - (k + 1), prefix + [p])

    rec(list(a), i, [])
    return out


def bulk_scripts(a, idxs, limit=None):
    """all complete pivot scripts of the recursive bulk selection (idxs sorted, distinct)"""
    # continuation-passing enumeration: state = stack of pending (array, idxs) calls
    out = []

    def run(stack, prefix):
        if limit is not None and len(out) >= limit:
            return
        while stack:
            arr, ids = stack[-1]
            if not ids or len(arr) <= 1:
                stack = stack[:-1]
                continue
            break
        if not stack:
            out.append(tuple(prefix))
            return
        arr, ids = stack[-1]
        rest = stack[:-1]
        n = len(arr)
        for p in range(n):
            k, b = partition(arr, p)
            sm = [x for x in ids if x < k]
            bg = [x - (k + 1) for x in ids if x > k]
            # left call runs first, then right: push right below left
            run(rest + [(b[k + 1:], bg), (b[:k], sm)], prefix + [p])

    run([(list(a), list(idxs))], [])
    return out
