"""n-D helpers: shapes, index arithmetic, lanes."""
import itertools


def prod(l):
    n = 1
    for x in l:
        n *= x
    return n


def ravel(shape, idx):
    k = 0
    for s, i in zip(shape, idx):
        k = k * s + i
    return k


def unravel(shape, pos):
    idx = []
    for s in reversed(shape):
        idx.append(pos % s)
        pos //= s
    return list(reversed(idx))


def factorizations(n, maxdim=4):
    """shapes (1..maxdim axes, each >= 1) whose product is n; n >= 1"""
    out = set()

    def rec(rem, cur):
        if len(cur) >= 1 and rem == 1:
            out.add(tuple(cur))
        if len(cur) >= maxdim:
            return
        for d in range(1, rem + 1):
            if rem % d == 0:
                rec(rem // d, cur + [d])

    rec(n, [])
    return sorted(out)


def lane_positions(shape, axis):
    """for each lane along `axis` (in row-major order of the remaining axes): the flat logical
    positions of its elements in lane order"""
    rest = [range(s) for k, s in enumerate(shape) if k != axis]
    lanes = []
    for r in itertools.product(*rest):
        lane = []
        for t in range(shape[axis]):
            idx = list(r[:axis]) + [t] + list(r[axis:])
            lane.append(ravel(shape, idx))
        lanes.append(lane)
    return lanes


def result_shape(shape, axis):
    return [s for k, s in enumerate(shape) if k != axis]
