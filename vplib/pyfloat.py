"""Native-float mirrors used ONLY to locate the arguments of libm calls (oracle tables) and to
build exact-rational oracles; they decide nothing about the model/implementation comparison."""
import struct
from fractions import Fraction
from .codec import f64_bits, bits_f64, f32_bits, bits_f32


class FP:
    def __init__(self, et):
        self.et = et
        self.single = et == "f32"
        self.u = Fraction(1, 2 ** 24) if self.single else Fraction(1, 2 ** 53)

    def r(self, x):
        if self.single:
            try:
                return struct.unpack("<f", struct.pack("<f", x))[0]
            except OverflowError:
                return float("inf") if x > 0 else float("-inf")
        return x

    def bits(self, x):
        return f32_bits(x) if self.single else f64_bits(x)

    def val(self, b):
        return bits_f32(b) if self.single else bits_f64(b)

    def add(self, a, b):
        return self.r(a + b)

    def sub(self, a, b):
        return self.r(a - b)

    def mul(self, a, b):
        return self.r(a * b)

    def div(self, a, b):
        try:
            return self.r(a / b)
        except ZeroDivisionError:
            if a != a or a == 0:
                return float("nan")
            return float("inf") if (a > 0) == (str(b)[0] != "-") else float("-inf")

    def unrolled_sum(self, xs):
        p = [0.0] * 8
        i = 0
        while len(xs) - i >= 8:
            for k in range(8):
                p[k] = self.add(p[k], xs[i + k])
            i += 8
        acc = 0.0
        acc = self.add(acc, self.add(p[0], p[4]))
        acc = self.add(acc, self.add(p[1], p[5]))
        acc = self.add(acc, self.add(p[2], p[6]))
        acc = self.add(acc, self.add(p[3], p[7]))
        for x in xs[i:]:
            acc = self.add(acc, x)
        return acc

    def nd_sum(self, plan, data):
        if plan[0] == "mem":
            return self.unrolled_sum([data[p] for p in plan[1]])
        s = 0.0
        for contig, row in plan[1]:
            xs = [data[p] for p in row]
            if contig:
                s = self.add(s, self.unrolled_sum(xs))
            else:
                a = 0.0
                for x in xs:
                    a = self.add(a, x)
                s = self.add(s, a)
        return s


def frac(x):
    """exact rational value of a finite float"""
    return Fraction(x)


def finite(x):
    return x == x and x not in (float("inf"), float("-inf"))
