"""Generic check flow shared by all properties."""
import json
import os
import sys
import time

from . import core
from .core import log


class Case:
    """one execution of a routine of the implementation"""

    def __init__(self, routine, line, profile="debug", **kw):
        self.routine = routine
        self.line = line  # harness input without the leading id and routine
        self.profile = profile
        self.cid = None
        self.raw = None  # raw harness result
        self.obs = None  # parsed observation
        self.origin = kw.pop("origin", "gen")
        self.__dict__.update(kw)

    def harness_line(self):
        return "%s %s" % (self.routine, self.line)

    def to_json(self):
        d = {k: v for k, v in self.__dict__.items() if k not in ("obs",) and not k.startswith("_")}
        return json.loads(json.dumps(d, default=str))


class Prop:
    id = None
    title = ""
    imports = []  # Coq modules (under NS) needed by cases files
    profiles = ("debug",)
    per_case_timeout = 10.0
    coq_batch = 400
    trusted_base = []
    assumptions = []
    rule = ""
    exhaustive_note = None
    correspondences = {}  # routine -> name of the correspondence

    def gen(self, tier, rng):
        raise NotImplementedError

    def corpus(self):
        return []

    def parse(self, case):
        """raw result string -> case.obs (default: token sections split by |)"""
        raw = case.raw
        secs = [s.split() for s in raw.split("|")]
        case.obs = secs

    def oracle(self, case):
        """independent statement of the property on the implementation's observed behaviour.
        returns a list of failure descriptions"""
        return []

    def chk_term(self, case):
        """Coq boolean: model(input) agrees with the observation; None = no model comparison"""
        return None

    def model_term(self, case):
        return None

    def nontrivial(self, case):
        return True

    def key(self, case):
        return (case.routine, case.line, case.profile)

    def known_class(self, case, reason):
        """id of the known-finding class this failing case falls in, or None"""
        return None

    def extra_checks(self, cases, tier, rng):
        """relational checks across cases; returns list of (case, reason)"""
        return []

    def coverage_extra(self, cases):
        return {}


def _histogram(cases, keyf):
    h = {}
    for c in cases:
        k = keyf(c)
        h[k] = h.get(k, 0) + 1
    return h


def run_check(prop, tier, seed, only_cases=None):
    t0 = time.time()
    rng = core.Rng(seed)
    lines = []  # stdout lines

    # 1. proof obligations
    proofs = core.check_proofs(prop.id, deep=(tier == "thorough"))
    log("[%s] proofs ok=%s obligations=%d axioms=%s %s" % (prop.id, proofs["ok"], proofs["obligations"],
                                                       proofs["axioms"], proofs["detail"][:300]))

    # 2. cases
    if only_cases is not None:
        cases = only_cases
    else:
        cases = list(prop.corpus())
        for c in cases:
            c.origin = "corpus"
        cases += list(prop.gen(tier, rng))
    for k, c in enumerate(cases):
        c.cid = "c%d" % k

    # 3. implementation runs
    build_error = None
    for profile in prop.profiles:
        sel = [c for c in cases if c.profile == profile]
        if not sel:
            continue
        try:
            binpath = core.build_harness(profile)
        except core.BuildError as e:
            build_error = str(e)
            break
        res = core.run_harness(binpath, [(c.cid, c.harness_line()) for c in sel], prop.per_case_timeout)
        for c in sel:
            c.raw = res.get(c.cid, "MISSING")
    if build_error:
        # the tree does not build: nothing can be shown
        replay = core.write_replay(prop.id, {"property": prop.id, "kind": "build-failure", "detail": build_error})
        print("VIOLATION property=%s replay=%s no-failing-input-found" % (prop.id, os.path.relpath(replay, core.ROOT)))
        _evidence(prop, tier, seed, proofs, [], 1, t0, {"build_error": build_error}, 0, 0)
        return 1
    for c in cases:
        try:
            prop.parse(c)
        except Exception as e:  # malformed output is itself an observation
            c.obs = None
            c.parse_error = repr(e)
    if hasattr(prop, "post_run"):
        dbg = core.build_harness("debug")
        prop.post_run(cases, lambda lines: core.run_harness(dbg, lines, prop.per_case_timeout))

    # 4. oracle on the implementation
    failures = []  # (case, reason)
    for c in cases:
        if c.obs is None:
            failures.append((c, "unparsable harness output: %r" % (c.raw[:200] if c.raw else c.raw)))
            continue
        for reason in prop.oracle(c):
            failures.append((c, reason))
    failures += list(prop.extra_checks(cases, tier, rng))

    # 5. correspondence with the model
    with_model = []
    terms = []
    for c in cases:
        if c.obs is None:
            continue
        t = prop.chk_term(c)
        if t is not None:
            with_model.append(c)
            terms.append(t)
    t1 = time.time()
    failing, errors = core.run_coq_checks(prop.id, prop.imports, terms, batch=prop.coq_batch)
    log("[%s] %d cases, %d with model, coq %.1fs, disagreements=%d errors=%d oracle failures=%d" % (
        prop.id, len(cases), len(with_model), time.time() - t1, len(failing), len(errors), len(failures)))
    disagreements = [with_model[k] for k in sorted(failing)]

    # 6. verdict
    known = {k["id"]: k for k in core.load_known_findings() if k.get("status") == "known" and k.get("property") == prop.id}
    violations = 0
    printed_known = set()
    reported = set()
    fail_cases = {}
    for c, reason in failures:
        fail_cases.setdefault(id(c), (c, []))[1].append(reason)
    new_fail = []
    for c, reasons in fail_cases.values():
        kf = prop.known_class(c, reasons)
        if kf is not None and kf in known:
            if kf not in printed_known:
                printed_known.add(kf)
                lines.append("KNOWN-FINDING: property=%s %s: %s [witness %s %s]" % (
                    prop.id, kf, known[kf]["what"], c.routine, c.line[:120]))
            continue
        new_fail.append((c, reasons))
    if new_fail:
        new_fail.sort(key=lambda cr: (len(cr[0].line), cr[0].line))
        # one report per distinct (routine, first reason kind)
        for c, reasons in new_fail:
            kind = (c.routine, reasons[0].split(":")[0])
            if kind in reported:
                continue
            reported.add(kind)
            model_out = None
            mt = prop.model_term(c)
            if mt:
                model_out = core.coq_eval(prop.id, prop.imports, [mt])[0]
            replay = core.write_replay(prop.id, {
                "property": prop.id, "kind": "failing-input", "case": c.to_json(), "harness_line": c.harness_line(),
                "impl_result": c.raw, "oracle_failures": reasons, "model_result": model_out,
                "correspondence": prop.correspondences.get(c.routine, "corr:%s/%s" % (prop.id, c.routine)),
                "proofs_ok": proofs["ok"]})
            lines.append("VIOLATION property=%s replay=%s" % (prop.id, os.path.relpath(replay, core.ROOT)))
            violations += 1
            if len(reported) >= 5:
                break
    # disagreements that the oracle accepts: property no longer shown
    failing_ids = set(id(c) for c, _ in fail_cases.values())
    pure_dis = [c for c in disagreements if id(c) not in failing_ids and prop.known_class(c, ["model-disagreement"]) not in known]
    if pure_dis and not violations:
        pure_dis.sort(key=lambda c: (len(c.line), c.line))
        c = pure_dis[0]
        mt = prop.model_term(c)
        model_out = core.coq_eval(prop.id, prop.imports, [mt])[0] if mt else None
        replay = core.write_replay(prop.id, {
            "property": prop.id, "kind": "correspondence-broken",
            "correspondence": prop.correspondences.get(c.routine, "corr:%s/%s" % (prop.id, c.routine)),
            "case": c.to_json(), "harness_line": c.harness_line(), "impl_result": c.raw, "model_result": model_out,
            "n_disagreements": len(pure_dis),
            "note": "implementation and model disagree on this input; the independent oracle accepted the "
                    "implementation's behaviour on every explored input, so no failing input was found"})
        lines.append("VIOLATION property=%s replay=%s no-failing-input-found" % (prop.id, os.path.relpath(replay, core.ROOT)))
        violations += 1
    if errors and not violations:
        replay = core.write_replay(prop.id, {"property": prop.id, "kind": "model-evaluation-failed",
                                             "correspondence": "corr:%s" % prop.id, "errors": errors[:3]})
        lines.append("VIOLATION property=%s replay=%s no-failing-input-found" % (prop.id, os.path.relpath(replay, core.ROOT)))
        violations += 1
    if not proofs["ok"] and not violations:
        replay = core.write_replay(prop.id, {"property": prop.id, "kind": "proof-obligation-failed",
                                             "theorems": ["%s: %s" % (", ".join(proofs.get("files", ["Props/%s.v" % prop.id])), n) for n in proofs["names"]],
                                             "detail": proofs["detail"]})
        lines.append("VIOLATION property=%s replay=%s no-failing-input-found" % (prop.id, os.path.relpath(replay, core.ROOT)))
        violations += 1

    for ln in lines:
        print(ln)
    _evidence(prop, tier, seed, proofs, cases, violations, t0,
              {"model_disagreements": len(disagreements), "coq_errors": len(errors),
               "oracle_failures": len(fail_cases), "known_findings_seen": sorted(printed_known)},
              len(with_model), len(with_model) - len(disagreements))
    sys.stdout.flush()
    return 1 if violations else 0


def _repo_state(prop_id):
    """which sources this run was tied to: HEAD, whether the working tree differs from it, and a digest of every file
    the property is anchored in (properties.jsonl), so that a reader can tell which text the correspondence was run
    against"""
    import hashlib, subprocess
    out = {}
    try:
        out["head"] = subprocess.run(["git", "-C", core.REPO, "rev-parse", "--short", "HEAD"], stdout=subprocess.PIPE, text=True).stdout.strip()
        st = subprocess.run(["git", "-C", core.REPO, "status", "--porcelain", "--untracked-files=no"], stdout=subprocess.PIPE, text=True).stdout
        out["working_tree_differs_from_head"] = [l[3:] for l in st.splitlines()][:20]
        files = []
        for l in open(os.path.join(core.ROOT, "properties.jsonl")):
            p = json.loads(l)
            if p.get("id") == prop_id:
                files = (p.get("anchors") or {}).get("files", [])
        dig = {}
        for f in files:
            fp = os.path.join(core.REPO, f)
            if os.path.exists(fp):
                dig[f] = hashlib.sha1(open(fp, "rb").read()).hexdigest()[:16]
        out["anchored_files_sha1"] = dig
    except Exception as e:     # never let bookkeeping break a check
        out["error"] = repr(e)
    return out


def _evidence(prop, tier, seed, proofs, cases, violations, t0, extra, n_model, n_agree):
    seen = set()
    nontriv = 0
    for c in cases:
        if c.obs is None:
            continue
        k = prop.key(c)
        if k in seen:
            continue
        seen.add(k)
        try:
            if prop.nontrivial(c):
                nontriv += 1
        except Exception:
            pass
    samples = []
    step = max(1, len(cases) // 5)
    for c in cases[::step][:6]:
        samples.append({"input": c.harness_line()[:400], "impl": (c.raw or "")[:400], "profile": c.profile})
    if not samples:
        samples = [{"note": "no case was executed"}]
    cov = {
        "obligations": max(1, proofs["obligations"]),
        "discharged": proofs["discharged"],
        "checker_cmd": "make -C coq %s && coqc -Q coq NS <each of those files> (one Print Assumptions report per theorem, union compared with the allowlist; forbidden-keyword grep over coq/)%s" % (
            " ".join(f[:-2] + ".vo" for f in proofs.get("files", ["Props/%s.v" % prop.id])),
            "; coqchk -o -silent on the compiled property files: ok=%s axioms=%s" % (proofs["coqchk"]["ok"], proofs["coqchk"]["axioms"]) if "coqchk" in proofs else " (coqchk runs in the thorough tier)"),
        "property_files": proofs.get("files", []),
        "trusted_base": [
            "Coq 8.16.1 kernel (coqc, full .vo build; vm_compute used for model evaluation; no native_compute)",
            "axioms reported by Print Assumptions for this property: " + (", ".join(proofs["axioms"]) or "none (closed under the global context)"),
            "hand-written Gallina model tied to /repo by differential execution (this run's counts below)",
            "Rust harness (harness/), Python orchestrator and oracles (vplib/)",
        ] + list(prop.trusted_base),
        "theorems": proofs["names"],
        "evaluations": len(cases),
        "distinct_nontrivial": nontriv,
        "rule": prop.rule,
        "samples": samples,
        "traces_validated_against_impl": n_agree,
        "compared_with_model": n_model,
        "by_routine": _histogram(cases, lambda c: c.routine),
        "by_profile": _histogram(cases, lambda c: c.profile),
        "by_origin": _histogram(cases, lambda c: c.origin),
    }
    cov["implementation_under_test"] = _repo_state(prop.id)
    if prop.exhaustive_note:
        cov["exhaustive_part"] = prop.exhaustive_note.get(tier, "")
    cov.update(extra)
    try:
        cov.update(prop.coverage_extra(cases))
    except Exception as e:
        cov["coverage_extra_error"] = repr(e)
    ev = {
        "property_id": prop.id,
        "tier": tier,
        "seed": seed,
        "level": "proof",
        "coverage": cov,
        "assumptions": list(prop.assumptions),
        "wall_s": round(time.time() - t0, 2),
        "violations": violations,
    }
    core.write_evidence(prop.id, ev)
