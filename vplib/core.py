"""Orchestrator core: PRNG, harness build/run, Coq evaluation, proofs, evidence, verdict."""
import concurrent.futures as cf
import hashlib
import json
import os, glob
import re
import shutil
import subprocess
import sys
import time

ROOT = os.path.dirname(os.path.dirname(os.path.abspath(__file__)))
COQ = os.path.join(ROOT, "coq")
HARNESS = os.path.join(ROOT, "harness")
WORK = os.path.join(ROOT, "work")
REPO = "/repo"
NCPU = 16
GUARD = "ndarray_stats_verif"

ALLOWED_AXIOMS = {
    "ClassicalDedekindReals.sig_forall_dec",
    "ClassicalDedekindReals.sig_not_dec",
    "FunctionalExtensionality.functional_extensionality_dep",
    "Classical_Prop.classic",
}

FORBIDDEN = re.compile(
    r"\b(Admitted|admit|Axiom|Axioms|Parameter|Parameters|Conjecture|Abort All|"
    r"Admit Obligations|bypass_check|Unset Guard Checking|Unset Positivity Checking|"
    r"Unset Universe Checking|type-in-type|impredicative-set)\b"
)


class Rng:
    """splitmix64; every random choice of a run derives from one state"""

    def __init__(self, seed):
        self.s = (seed * 0x9E3779B97F4A7C15 + 0x1234567) & 0xFFFFFFFFFFFFFFFF

    def next(self):
        self.s = (self.s + 0x9E3779B97F4A7C15) & 0xFFFFFFFFFFFFFFFF
        z = self.s
        z = ((z ^ (z >> 30)) * 0xBF58476D1CE4E5B9) & 0xFFFFFFFFFFFFFFFF
        z = ((z ^ (z >> 27)) * 0x94D049BB133111EB) & 0xFFFFFFFFFFFFFFFF
        return z ^ (z >> 31)

    def below(self, n):
        return self.next() % n

    def range(self, a, b):
        """a <= x <= b"""
        return a + self.below(b - a + 1)

    def choice(self, l):
        return l[self.below(len(l))]

    def shuffle(self, l):
        for i in range(len(l) - 1, 0, -1):
            j = self.below(i + 1)
            l[i], l[j] = l[j], l[i]

    def chance(self, num, den):
        return self.below(den) < num

    def fork(self):
        return Rng(self.next())


def log(msg):
    sys.stderr.write(msg + "\n")
    sys.stderr.flush()


# ---------------------------------------------------------------- harness

def build_harness(profile):
    """(re)build the harness against /repo's working tree; returns the binary path"""
    shutil.copyfile(os.path.join(REPO, "Cargo.lock"), os.path.join(HARNESS, "Cargo.lock"))
    env = dict(os.environ)
    env["CARGO_NET_OFFLINE"] = "true"
    env["RUSTFLAGS"] = "--cfg " + GUARD
    cmd = ["cargo", "build", "--offline", "--quiet"]
    if profile == "release":
        cmd.append("--release")
    t0 = time.time()
    p = subprocess.run(cmd, cwd=HARNESS, env=env, stdout=subprocess.PIPE, stderr=subprocess.STDOUT, text=True)
    if p.returncode != 0:
        log(p.stdout[-4000:])
        raise BuildError("harness build failed (profile %s)" % profile)
    log("[harness] %s build %.1fs" % (profile, time.time() - t0))
    return os.path.join(HARNESS, "target", "debug" if profile == "debug" else "release", "nsv-harness")


class BuildError(Exception):
    pass


def _run_shard(binpath, lines, per_case_timeout):
    """run one shard; an abort or hang is attributed to the case that was running"""
    results = {}
    remaining = list(lines)
    while remaining:
        inp = "\n".join("%s %s" % (cid, l) for cid, l in remaining) + "\n"
        budget = 30 + per_case_timeout + 0.02 * len(remaining)
        try:
            p = subprocess.run([binpath], input=inp, stdout=subprocess.PIPE, stderr=subprocess.DEVNULL,
                               text=True, timeout=budget)
            out, status = p.stdout, ("ABORT" if p.returncode != 0 else None)
        except subprocess.TimeoutExpired as e:
            out = e.stdout or ""
            if isinstance(out, bytes):
                out = out.decode()
            status = "TIMEOUT"
        running = None
        for ln in out.splitlines():
            if ln.startswith("BEGIN "):
                running = ln[6:].strip()
                continue
            sp = ln.split(" ", 1)
            if len(sp) == 2:
                results[sp[0]] = sp[1]
                if sp[0] == running:
                    running = None
        if status is None:
            break
        # the process died or hung while `running` was being executed
        ids = [cid for cid, _ in remaining]
        if running is None or running not in ids:
            # died outside a case: mark everything that has no result
            for cid in ids:
                results.setdefault(cid, status)
            break
        results[running] = status
        k = ids.index(running)
        remaining = remaining[k + 1:]
    return results


def run_harness(binpath, cases, per_case_timeout=10.0, shards=NCPU):
    """cases: list of (id, line). returns {id: result string}"""
    if not cases:
        return {}
    shards = max(1, min(shards, (len(cases) + 19) // 20))
    buckets = [cases[i::shards] for i in range(shards)]
    results = {}
    with cf.ThreadPoolExecutor(max_workers=shards) as ex:
        for r in ex.map(lambda b: _run_shard(binpath, b, per_case_timeout), buckets):
            results.update(r)
    return results


# ---------------------------------------------------------------- Coq

def coq_make(targets, timeout=3000):
    """build the given .vo targets (and what they depend on) through the Makefile"""
    mk = os.path.join(COQ, "Makefile")
    cp = os.path.join(COQ, "_CoqProject")
    if not os.path.exists(mk) or os.path.getmtime(mk) < os.path.getmtime(cp):
        p = subprocess.run(["coq_makefile", "-f", "_CoqProject", "-o", "Makefile"], cwd=COQ,
                           stdout=subprocess.PIPE, stderr=subprocess.STDOUT, text=True)
        if p.returncode != 0:
            return False, p.stdout
    try:
        p = subprocess.run(["make", "-j%d" % NCPU] + targets, cwd=COQ, stdout=subprocess.PIPE,
                           stderr=subprocess.STDOUT, text=True, timeout=timeout)
    except subprocess.TimeoutExpired:
        return False, "make timed out"
    return p.returncode == 0, p.stdout


MAX_BATCH_CHARS = 1500000


def _big_stack():
    try:
        import resource
        soft, hard = resource.getrlimit(resource.RLIMIT_STACK)
        resource.setrlimit(resource.RLIMIT_STACK, (hard, hard))
    except Exception:
        pass


def coqc_file(path, timeout=900):
    """compile a generated file against the built library; returns (ok, stdout)"""
    try:
        p = subprocess.run(["coqc", "-noglob", "-Q", COQ, "NS", path], stdout=subprocess.PIPE, preexec_fn=_big_stack,
                           stderr=subprocess.STDOUT, text=True, timeout=timeout, cwd=os.path.dirname(path))
    except subprocess.TimeoutExpired:
        return False, "coqc timed out on " + path
    return p.returncode == 0, p.stdout


def parse_failing(out):
    """parse the `= [..] : list Z` printed by Eval vm_compute in (failing ...)"""
    m = re.search(r"=\s*\[(.*?)\]\s*:\s*list Z", out, re.S)
    if not m:
        return None
    body = m.group(1).replace("%Z", "")
    toks = [t.strip() for t in body.replace("\n", " ").split(";")]
    return [int(t) for t in toks if t]


def run_coq_checks(prop_id, imports, terms, batch=400, per_file_timeout=900, prelude=""):
    """terms: list of Coq boolean terms, one per case. Returns (failing index set, errors)."""
    wd = os.path.join(WORK, prop_id)
    os.makedirs(wd, exist_ok=True)
    for f in os.listdir(wd):
        if f.startswith("cases_"):
            os.remove(os.path.join(wd, f))
    files = []
    # batches of at most [batch] terms and about MAX_BATCH_CHARS characters (coqc's parser and
    # vm_compute use the C stack in proportion to the size of one vernacular sentence)
    starts, start, size = [], 0, 0
    for i, t in enumerate(terms):
        if i > start and (i - start >= batch or size + len(t) > MAX_BATCH_CHARS):
            starts.append((start, i)); start, size = i, 0
        size += len(t)
    if terms:
        starts.append((start, len(terms)))
    for b, (start, end) in enumerate(starts):
        chunk = terms[start:end]
        path = os.path.join(wd, "cases_%d.v" % b)
        with open(path, "w") as f:
            f.write("From Coq Require Import List ZArith.\nImport ListNotations.\n")
            for imp in ["Base.Res", "Run.RunBase"] + list(imports):
                f.write("From NS Require Import %s.\n" % imp)
            f.write("Open Scope Z_scope.\n")
            f.write(prelude)
            f.write("Definition verdicts : list bool := [\n")
            f.write(";\n".join("  " + t for t in chunk))
            f.write("\n].\nEval vm_compute in (failing verdicts).\n")
        files.append((start, len(chunk), path))
    failing, errors = set(), []

    def one(item):
        start, n, path = item
        ok, out = coqc_file(path, per_file_timeout)
        return start, n, path, ok, out

    with cf.ThreadPoolExecutor(max_workers=NCPU) as ex:
        for start, n, path, ok, out in ex.map(one, files):
            if not ok:
                errors.append("%s: %s" % (path, out[-800:]))
                continue
            fl = parse_failing(out)
            if fl is None:
                errors.append("%s: unparsable output %s" % (path, out[-400:]))
                continue
            for k in fl:
                failing.add(start + k)
    return failing, errors


def coq_eval(prop_id, imports, terms, tag="explain", timeout=600):
    """evaluate a few terms and return Coq's raw printed values (for replay files)"""
    wd = os.path.join(WORK, prop_id)
    os.makedirs(wd, exist_ok=True)
    path = os.path.join(wd, "%s.v" % tag)
    with open(path, "w") as f:
        f.write("From Coq Require Import List ZArith.\nImport ListNotations.\n")
        for imp in ["Base.Res", "Run.RunBase"] + list(imports):
            f.write("From NS Require Import %s.\n" % imp)
        f.write("Open Scope Z_scope.\n")
        for t in terms:
            f.write("Eval vm_compute in (%s).\n" % t)
    ok, out = coqc_file(path, timeout)
    if not ok:
        return ["<coq error: %s>" % out[-300:]] * len(terms)
    parts = re.split(r"^\s*= ", out, flags=re.M)[1:]
    parts = [" ".join(p.split()) for p in parts]
    while len(parts) < len(terms):
        parts.append("<missing>")
    return parts


def z(x):
    """Coq Z literal"""
    return str(x) if x >= 0 else "(%d)" % x


def zlist(xs):
    return "[" + ";".join(z(x) for x in xs) + "]"


# ---------------------------------------------------------------- proofs

def run_coqchk(modules, timeout=3000):
    """independent re-check of the compiled property files and everything they depend on;
    returns (ok, axioms, detail)"""
    try:
        p = subprocess.run(["coqchk", "-o", "-silent", "-Q", COQ, "NS"] + modules, stdout=subprocess.PIPE,
                           stderr=subprocess.STDOUT, text=True, timeout=timeout, preexec_fn=_big_stack)
    except subprocess.TimeoutExpired:
        return False, [], "coqchk timed out"
    out = p.stdout
    if p.returncode != 0 or "CONTEXT SUMMARY" not in out:
        return False, [], "coqchk failed: " + out[-800:]
    summ = out[out.index("CONTEXT SUMMARY"):]
    m = re.search(r"\* Axioms:(.*?)\n\s*\n\* Constants", summ, re.S)
    body = m.group(1).strip() if m else ""
    axioms = [] if body.startswith("<none>") or not body else [l.strip() for l in body.splitlines() if l.strip()]
    bad = []
    for sect in ("type-in-type", "unsafe (co)fixpoints", "positivity is assumed"):
        mm = re.search(re.escape(sect) + r":\s*(\S.*)", summ)
        if mm and not mm.group(1).startswith("<none>"):
            bad.append("%s: %s" % (sect, mm.group(1)))
    short = [a.replace("Coq.Reals.", "").replace("Coq.Logic.", "") for a in axioms]
    unexpected = [a for a in short if a not in ALLOWED_AXIOMS]
    if unexpected or bad:
        return False, short, "coqchk: " + "; ".join(unexpected + bad)
    return True, short, ""


def check_proofs(prop_id, extra_files=(), deep=False):
    """build Props/<id>.vo and what it depends on; check assumptions and forbidden words.
    deep: also re-check the compiled files with coqchk.
    Returns dict(ok, obligations, discharged, axioms, detail, names)."""
    info = {"ok": True, "obligations": 0, "discharged": 0, "axioms": [], "detail": "", "names": []}
    src = os.path.join(COQ, "Props", prop_id + ".v")
    if not os.path.exists(src):
        info.update(ok=False, detail="missing " + src)
        return info
    # the property's theorem files: Props/<id>.v and any Props/<id>_*.v (statements on the code model)
    srcs = [src] + sorted(glob.glob(os.path.join(COQ, "Props", prop_id + "_*.v")))
    names = []
    per_file = {}
    for f in srcs:
        text = open(f).read()
        text = re.sub(r"\(\*.*?\*\)", "", text, flags=re.S)
        ns = re.findall(r"^\s*(?:Theorem|Lemma|Corollary|Example|Fact|Proposition)\s+([A-Za-z0-9_']+)", text, re.M)
        per_file[f] = ns
        names += ns
    info["names"] = names
    info["files"] = [os.path.relpath(f, COQ) for f in srcs]
    info["obligations"] = len(names)
    # forbidden keywords anywhere in the development
    bad = []
    for dp, _, fs in os.walk(COQ):
        for fn in fs:
            if fn.endswith(".v"):
                body = open(os.path.join(dp, fn)).read()
                body = re.sub(r"\(\*.*?\*\)", "", body, flags=re.S)
                for m in FORBIDDEN.finditer(body):
                    bad.append("%s: %s" % (os.path.relpath(os.path.join(dp, fn), COQ), m.group(0)))
    if bad:
        info.update(ok=False, detail="forbidden keyword: " + "; ".join(bad[:5]))
    ok, out = coq_make([os.path.relpath(f, COQ)[:-2] + ".vo" for f in srcs] + list(extra_files))
    if not ok:
        info.update(ok=False, detail="make failed: " + out[-1500:])
        return info
    # re-run the leaf files to capture Print Assumptions (the captured output is reused as long as no .v file of
    # the development has changed: the key is a digest of every source file, the .vo files were just brought up
    # to date by make)
    wd = os.path.join(WORK, prop_id)
    os.makedirs(wd, exist_ok=True)
    h = hashlib.sha1()
    for dp, _, fs in sorted(os.walk(COQ)):
        for fn in sorted(fs):
            if fn.endswith(".v") or fn == "_CoqProject":
                h.update(fn.encode())
                h.update(open(os.path.join(dp, fn), "rb").read())
    tree_key = h.hexdigest()
    cache_path = os.path.join(wd, "assumptions_cache.json")
    cache = {}
    try:
        c = json.load(open(cache_path))
        if c.get("key") == tree_key:
            cache = c.get("out", {})
    except Exception:
        cache = {}
    new_cache = {}
    axioms = set()
    n_reports = 0
    for f in srcs:
        base = os.path.basename(f)[:-2]
        if base in cache:
            class _P:       # noqa
                returncode = 0
                stdout = cache[base]
            p = _P()
            new_cache[base] = p.stdout
            out = p.stdout
            n_closed = len(re.findall(r"Closed under the global context", out))
            blocks = re.split(r"^Axioms:\s*$", out, flags=re.M)
            for blk in blocks[1:]:
                for m in re.finditer(r"^([A-Za-z_][\w.']*)\s*$|^([A-Za-z_][\w.']*)\s+:", blk, re.M):
                    axioms.add(m.group(1) or m.group(2))
            nr = n_closed + len(blocks) - 1
            if nr < len(per_file[f]):
                info.update(ok=False, detail="only %d Print Assumptions reports for %d theorems in %s.v" % (nr, len(per_file[f]), base))
            n_reports += nr
            continue
        p = None
        for attempt in range(2):
            # a proof that fails fails deterministically: one retry separates that from a coqc killed by the
            # environment (observed once under heavy load: non-zero status, no error message)
            try:
                p = subprocess.run(["coqc", "-noglob", "-Q", COQ, "NS", f, "-o", os.path.join(wd, base + ".vo")],
                                   stdout=subprocess.PIPE, stderr=subprocess.STDOUT, text=True, timeout=1200,
                                   preexec_fn=_big_stack)
            except subprocess.TimeoutExpired:
                info.update(ok=False, detail="coqc timed out on " + base + ".v")
                return info
            if p.returncode == 0 or re.search(r"^Error", p.stdout, re.M):
                break
        if p.returncode != 0:
            info.update(ok=False, detail="property file %s.v does not compile (coqc status %d): %s" % (base, p.returncode, p.stdout[-1500:]))
            return info
        out = p.stdout
        n_closed = len(re.findall(r"Closed under the global context", out))
        blocks = re.split(r"^Axioms:\s*$", out, flags=re.M)
        for blk in blocks[1:]:
            for m in re.finditer(r"^([A-Za-z_][\w.']*)\s*$|^([A-Za-z_][\w.']*)\s+:", blk, re.M):
                axioms.add(m.group(1) or m.group(2))
        nr = n_closed + len(blocks) - 1
        if nr < len(per_file[f]):
            info.update(ok=False, detail="only %d Print Assumptions reports for %d theorems in %s.v" % (nr, len(per_file[f]), base))
        n_reports += nr
        new_cache[base] = out
    try:
        json.dump({"key": tree_key, "out": new_cache}, open(cache_path, "w"))
    except Exception:
        pass
    info["axioms"] = sorted(axioms)
    unexpected = [a for a in axioms if a not in ALLOWED_AXIOMS]
    if unexpected:
        info.update(ok=False, detail="axioms outside the allowlist: " + ", ".join(unexpected))
    if n_reports < len(names):
        info.update(ok=False, detail="only %d Print Assumptions reports for %d theorems" % (n_reports, len(names)))
    if deep and info["ok"]:
        mods = ["NS.Props." + os.path.basename(f)[:-2] for f in srcs]
        ok2, ax2, det2 = run_coqchk(mods)
        info["coqchk"] = {"ok": ok2, "axioms": ax2, "modules": mods}
        if not ok2:
            info.update(ok=False, detail=det2)
    if info["ok"]:
        info["discharged"] = len(names)
    return info


# ---------------------------------------------------------------- findings / evidence

def load_known_findings():
    p = os.path.join(ROOT, "known_findings.json")
    if not os.path.exists(p):
        return []
    return json.load(open(p))


def write_replay(prop_id, payload):
    d = os.path.join(ROOT, "replays")
    os.makedirs(d, exist_ok=True)
    blob = json.dumps(payload, sort_keys=True, indent=1, default=str)
    h = hashlib.sha1(blob.encode()).hexdigest()[:12]
    path = os.path.join(d, "%s_%s.json" % (prop_id, h))
    with open(path, "w") as f:
        f.write(blob)
    return path


def write_evidence(prop_id, ev):
    d = os.path.join(ROOT, "evidence")
    os.makedirs(d, exist_ok=True)
    with open(os.path.join(d, prop_id + ".json"), "w") as f:
        json.dump(ev, f, indent=1, sort_keys=True, default=str)
        f.write("\n")
