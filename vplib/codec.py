"""Element encodings shared by the property modules (mirrors harness Elem)."""
import struct

INT_RANGES = {
    "i8": (-2 ** 7, 2 ** 7 - 1), "i16": (-2 ** 15, 2 ** 15 - 1), "i32": (-2 ** 31, 2 ** 31 - 1),
    "i64": (-2 ** 63, 2 ** 63 - 1), "i128": (-2 ** 127, 2 ** 127 - 1),
    "u8": (0, 2 ** 8 - 1), "u16": (0, 2 ** 16 - 1), "u32": (0, 2 ** 32 - 1), "u64": (0, 2 ** 64 - 1),
    "u128": (0, 2 ** 128 - 1), "usize": (0, 2 ** 64 - 1),
}


def f64_bits(x):
    return struct.unpack("<Q", struct.pack("<d", x))[0]


def bits_f64(b):
    return struct.unpack("<d", struct.pack("<Q", b))[0]


def f32_bits(x):
    return struct.unpack("<I", struct.pack("<f", x))[0]


def bits_f32(b):
    return struct.unpack("<f", struct.pack("<I", b))[0]


def f64_is_nan_bits(b):
    return (b >> 52) & 0x7FF == 0x7FF and (b & ((1 << 52) - 1)) != 0


def f32_is_nan_bits(b):
    return (b >> 23) & 0xFF == 0xFF and (b & ((1 << 23) - 1)) != 0


def f64_key(b):
    """order-preserving integer key of a non-NaN binary64 bit pattern (+0 and -0 share key 0)"""
    mag = b & 0x7FFFFFFFFFFFFFFF
    return -mag if b >> 63 else mag


def f32_key(b):
    mag = b & 0x7FFFFFFF
    return -mag if b >> 31 else mag


class Codec:
    """tok(v): harness token of a Python-side value; key(tok): integer the model compares"""

    def __init__(self, et):
        self.et = et
        self.is_float = et in ("n64", "f64", "f32", "n32")

    def tok(self, v):
        if self.et in ("n64", "f64"):
            return str(f64_bits(float(v)))
        if self.et in ("n32", "f32"):
            return str(f32_bits(float(v)))
        return str(int(v))

    def key_of_tok(self, t):
        if self.et in ("n64", "f64"):
            return f64_key(int(t))
        if self.et in ("n32", "f32"):
            return f32_key(int(t))
        return int(t)

    def key(self, v):
        return self.key_of_tok(self.tok(v))
