"""ndarray's layout-dependent traversal orders, mirrored from ndarray 0.16.1 (trusted base):
ArrayBase::sum (impl_numeric.rs) and Dimension::is_contiguous (dimension_trait.rs).  The plan is
handed to the Coq model (Num/Kernels.v: plan / nd_sum); a wrong mirror shows up as a bit mismatch
of float sums, never as a silent pass."""
from .nd import prod, lane_positions


def view_strides(lay):
    ps = lay.pstrides()
    return [ps[p] * lay.slices[p][2] for p in lay.perm]


def default_strides(shape):
    st = [0] * len(shape)
    if all(d != 0 for d in shape) and shape:
        st[-1] = 1
        c = 1
        for i in range(len(shape) - 2, -1, -1):
            c *= shape[i + 1]
            st[i] = c
    return st


def is_contiguous(shape, strides):
    if strides == default_strides(shape):
        return True
    if len(shape) == 1:
        return shape[0] <= 1 or strides[0] == -1
    order = sorted(range(len(shape)), key=lambda i: abs(strides[i]))
    c = 1
    for i in order:
        if shape[i] != 1 and abs(strides[i]) != c:
            return False
        c *= shape[i]
    return True


def sum_plan(lay):
    """('mem', order) or ('rows', [(contig, positions)...]) over logical positions"""
    shape = lay.shape()
    strides = view_strides(lay)
    cells = lay.cells()
    n = len(cells)
    if len(shape) == 0 or is_contiguous(shape, strides):
        order = sorted(range(n), key=lambda p: cells[p])
        return ("mem", order)
    rows = lane_positions(shape, len(shape) - 1)
    st = strides[-1]
    out = []
    for r in rows:
        contig = len(r) <= 1 or st == 1
        out.append((contig, r))
    return ("rows", out)


def std_plan(n):
    return ("mem", list(range(n)))


def plan_term(pl):
    if pl[0] == "mem":
        return "(PMem [%s])" % ";".join("%d%%nat" % p for p in pl[1])
    rows = ";".join("(%s, [%s])" % ("true" if c else "false", ";".join("%d%%nat" % p for p in r)) for c, r in pl[1])
    return "(PRows [%s])" % rows


def zip_orders(shape):
    """candidate traversal orders of Zip over logical positions: C order and F order"""
    n = prod(shape)
    c_order = list(range(n))
    if len(shape) <= 1:
        return [c_order]
    # F order: first index fastest
    from .nd import ravel
    import itertools
    f_order = []
    for idx in itertools.product(*[range(s) for s in reversed(shape)]):
        f_order.append(ravel(shape, list(reversed(idx))))
    return [c_order, f_order]
