"""C15 - partition_mut places the pivot at its sorted rank."""
from ..runner import Prop, Case
from ..layouts import lay1, weak_orders
from ..core import zlist, z

GUARD = 7777000


def mk_partition_case(data, p, stride, off, tail, et="i64", own=0, **kw):
    """own: 0 mutable view, 1 shared array with a second live handle, 2 copy-on-write array borrowing the parent"""
    lay = lay1(len(data), stride, off, tail)
    buf = lay.embed(list(data), lambda k: GUARD + k)
    line = "%s | %s | %d %s | %d" % (et, lay.tokens(), len(buf), " ".join(map(str, buf)), p)
    if own:
        line += " %d" % own
        kw["ownership"] = {1: "shared (second handle alive)", 2: "copy-on-write (borrowing)"}[own]
    return Case("partition", line, data=list(data), p=p, lay=lay.view1(), cells=lay.cells(), buf=buf, **kw)


def parse_part(case):
    raw = case.raw
    secs = [s.split() for s in raw.split("|")]
    head = secs[0]
    if head[0] == "OK":
        post = [int(x) for x in secs[1][1:]]
        case.obs = ("OK", int(head[1]), post)
    elif head[0] == "PANIC":
        post = [int(x) for x in secs[1][1:]] if len(secs) > 1 else None
        case.obs = ("PANIC", None, post)
    else:
        case.obs = (head[0], None, None)


class C15(Prop):
    id = "C15"
    imports = ["Run.RunSort"]
    rule = ("all weak-order patterns up to the tier's length bound x every pivot position x view strides "
            "{1,2,-1,3,-2} inside guarded parents, plus random longer arrays, plus shared (ArcArray with a second handle) and "
            "copy-on-write arrays; a case is non-trivial when the "
            "array has >= 2 elements; distinct = distinct (pattern, pivot, layout)")
    exhaustive_note = {"quick": "all weak orders of length <= 5 x every pivot position (x 3 layouts)",
                       "thorough": "all weak orders of length <= 7 x every pivot position (x rotating layouts)"}
    correspondences = {"partition": "corr:C15/partition/exact-k-and-parent-buffer"}
    trusted_base = ["ndarray indexing/swap/slicing semantics (index -> offset map of a 1-D view)"]
    assumptions = ["element type Ord is a total order (instantiated with i64; the code only compares and clones)"]

    def gen(self, tier, rng):
        maxn = 5 if tier == "quick" else 7
        lays = [(1, 0, 0), (2, 1, 1), (-1, 0, 1), (3, 2, 0), (-2, 1, 0)]
        k = 0
        for n in range(1, maxn + 1):
            for pat in weak_orders(n):
                for p in range(n):
                    if n <= 5:
                        chosen = [lays[0], lays[1 + (k % 2)], lays[3 + (k % 2)]] if tier == "quick" else lays
                    else:
                        chosen = [lays[k % 5]]
                    k += 1
                    for (s, o, t) in chosen:
                        yield mk_partition_case([10 * v for v in pat], p, s, o, t)
        nrand = 500 if tier == "quick" else 5000
        for _ in range(nrand):
            n = rng.range(1, 64)
            hi = rng.choice([1, 2, 3, n, 1000])
            data = [rng.range(-hi, hi) for _ in range(n)]
            s, o, t = rng.choice(lays)
            yield mk_partition_case(data, rng.below(n), s, o, t)
        # ownership: the array the routine is called on shares its storage (an ArcArray with a second live handle, a
        # copy-on-write array still borrowing its source): same result, never a panic, and the other handle / the
        # source must come out unchanged
        for _ in range(80 if tier == "quick" else 2000):
            n = rng.range(1, 12)
            data = [rng.range(0, 6) for _ in range(n)]
            s, o, t = rng.choice(lays)
            yield mk_partition_case(data, rng.below(n), s, o, t, own=rng.choice([1, 2]))
        # a few out-of-range positions (C16 covers them systematically)
        for n in range(0, 4):
            for p in (n, n + 1):
                yield mk_partition_case(list(range(n)), p, 1, 1, 1)

    def corpus(self):
        # D1 witness (fixed): single-element array
        return [mk_partition_case([5], 0, 1, 0, 0), mk_partition_case([5], 0, 2, 1, 1),
                mk_partition_case([3, 1, 4, 5, 2], 2, 1, 0, 0)]

    def parse(self, case):
        parse_part(case)

    def oracle(self, case):
        tag, k, post = case.obs
        a, p, cells, buf = case.data, case.p, case.cells, case.buf
        n = len(a)
        out = []
        if p >= n:
            if tag != "PANIC":
                out.append("oob-accepted: pivot position %d >= length %d did not panic" % (p, n))
            return out
        if tag != "OK":
            return ["in-range-rejected: outcome %s for in-range pivot position" % tag]
        pv = a[p]
        a2 = [post[c] for c in cells]
        if sorted(a2) != sorted(a):
            out.append("multiset: lane contents changed")
        for c in range(len(buf)):
            if c not in cells and post[c] != buf[c]:
                out.append("frame: parent cell %d outside the view modified" % c)
                break
        want = sum(1 for x in a if x < pv)
        if k != want:
            out.append("rank: returned %d, %d elements are strictly smaller" % (k, want))
        if not (0 <= k < n) or a2[k] != pv:
            out.append("pivot-place: position k does not hold the pivot value")
        else:
            if any(not (x < pv) for x in a2[:k]):
                out.append("left: element before k not strictly smaller")
            if any(not (x >= pv) for x in a2[k + 1:]):
                out.append("right: element after k smaller than pivot")
        return out

    def chk_term(self, case):
        tag, k, post = case.obs
        off, n, st = case.lay
        if tag == "OK":
            o = "(OP_Ok %s %s)" % (z(k), zlist(post))
        elif tag == "PANIC" and post is not None:
            o = "(OP_Panic %s)" % zlist(post)
        else:
            return "false"
        return "chk_partition %s %s %s %s %s %s" % (zlist(case.buf), z(off), z(n), z(st), z(case.p), o)

    def model_term(self, case):
        off, n, st = case.lay
        return "m_partition %s %s %s %s %s" % (zlist(case.buf), z(off), z(n), z(st), z(case.p))

    def nontrivial(self, case):
        return len(case.data) >= 2 and case.p < len(case.data)

    def key(self, case):
        return (tuple(case.data), case.p, case.lay)


PROP = C15()
