"""C12 - strategy-built bins start at the minimum and cover every observation."""
import math
from fractions import Fraction
from ..runner import Prop, Case
from ..core import zlist
from ..codec import Codec, INT_RANGES, f64_bits, bits_f64
from ..layouts import lay1, zoo, contiguous
from ..nd import prod
from .c02 import pivot_tokens

STRATS = ["sqrt", "rice", "sturges", "fd", "auto"]
INT_ETS = ["i8", "u8", "i32", "i64", "u16", "usize"]
KIND = {"sqrt": 0, "rice": 1, "sturges": 2, "fd": 3, "auto": 4}
SGBITS = {"i8": ("true", 8), "u8": ("false", 8), "i32": ("true", 32), "i64": ("true", 64), "u16": ("false", 16), "usize": ("false", 64)}
UMAX = {"i8": 127, "u8": 255, "i32": 2 ** 31 - 1, "i64": 2 ** 63 - 1, "u16": 65535, "usize": 2 ** 64 - 1}


def mk_strategy_case(name, et, data, lay, mode=None):
    """mode: pivot mode for the two quartile selections inside FreedmanDiaconis / Auto (None = drawn pivots)"""
    cd = Codec(et)
    toks = [cd.tok(v) for v in data]
    g = cd.tok(data[0] if data else 0)
    buf = lay.embed(toks, lambda k: g)
    line = "%s %s | %s | %d %s" % (name, et, lay.tokens(), len(buf), " ".join(buf))
    if mode is not None:
        line += " | " + pivot_tokens(mode)
    return Case("strategy", " ".join(line.split()), name=name, et=et, data=list(data),
                data_m=[int(t) for t in toks], layout=lay.describe(), mode=mode)


def mk_gridb_case(name, et, rows, lay, mode=None):
    cd = Codec(et)
    flat = [v for r in rows for v in r]
    toks = [cd.tok(v) for v in flat]
    g = cd.tok(flat[0] if flat else 0)
    buf = lay.embed(toks, lambda k: g)
    line = "%s %s | %s | %d %s" % (name, et, lay.tokens(), len(buf), " ".join(buf))
    if mode is not None:
        line += " | " + pivot_tokens(mode)
    ncols = len(rows[0]) if rows else 0
    return Case("gridb", " ".join(line.split()), name=name, et=et, rows=[list(r) for r in rows], layout=lay.describe(),
                rows_t=[[toks[r * ncols + c] for c in range(ncols)] for r in range(len(rows))], mode=mode)


def random_mode(rng, n):
    """pivot modes for the selections hidden inside a strategy: drawn, the three fixed policies, hashed policies and
    scripts biased towards the ends of the (sub)array"""
    k = rng.below(8)
    if k == 0:
        return ("R",)
    if k <= 3:
        return ("P", k - 1)
    if k <= 5:
        return ("P", rng.range(3, 1000))
    return ("S", [rng.choice([0, n - 1 if n else 0, rng.below(max(n, 1)), (3 * n) // 4, n // 4]) for _ in range(rng.range(1, 8))])


def parse_gridb(case):
    """OK shape | total | nproj | (nb | edges)* | C cshape | counts"""
    secs = [s.split() for s in case.raw.split("|")]
    head = secs[0]
    if head[0] == "OK":
        shape = [int(x) for x in head[2:]]
        total = int(secs[1][0])
        nproj = int(secs[2][0])
        projs = []
        for k in range(nproj):
            nb = int(secs[3 + 2 * k][0])
            edges_t = secs[4 + 2 * k][1:]
            projs.append((nb, edges_t))
        rest = secs[3 + 2 * nproj:]
        cshape, counts = None, None
        if len(rest) >= 2 and rest[0] and rest[0][0] == "C":
            cshape = [int(x) for x in rest[0][2:]]
            counts = [int(x) for x in rest[1][1:]]
        case.obs = dict(tag="OK", shape=shape, total=total, projs=projs, cshape=cshape, counts=counts)
    elif head[0] == "ERR":
        case.obs = dict(tag="ERR", kind=head[1])
    else:
        case.obs = dict(tag=head[0])


def gridb_recount(case):
    """the counts of the histogram over the built grid, recounted from the grid's own bin ranges: cell (i_0..i_d-1)
    must hold the number of rows whose j-th coordinate lies in [edge_j[i_j], edge_j[i_j + 1]) for every j"""
    o = case.obs
    et = case.et
    out = []
    if o.get("counts") is None:
        return out
    edges = [[num(et, t) for t in e] for _, e in o["projs"]]
    shape = [max(len(e) - 1, 0) for e in edges]
    if o["cshape"] != shape:
        return ["counts-shape: counts array has shape %s, the grid has %s bins per axis" % (o["cshape"], shape)]
    size = prod(shape)
    want = [0] * size
    for r in case.rows_t:
        idx = []
        for c, t in enumerate(r):
            x = num(et, t)
            e = edges[c]
            hit = [i for i in range(len(e) - 1) if e[i] <= x < e[i + 1]]
            if len(hit) != 1:
                idx = None
                break
            idx.append(hit[0])
        if idx is not None:
            k = 0
            for sdim, i in zip(shape, idx):
                k = k * sdim + i
            want[k] += 1
    if want != o["counts"]:
        bad = [k for k in range(size) if want[k] != o["counts"][k]][:3]
        out.append("counts: cells %s hold %s, but %s observations lie in those bins (recount from the grid's own ranges)"
                   % (bad, [o["counts"][k] for k in bad], [want[k] for k in bad]))
    return out


def rround(x):
    """f64::round: half away from zero"""
    return math.floor(x + 0.5) if x >= 0 else -math.floor(-x + 0.5)


def nearest_quantile(srt, q):
    x = q * float(len(srt) - 1)
    lo, hi = math.floor(x), math.ceil(x)
    return srt[lo] if (x - math.trunc(x)) < 0.5 else srt[hi]


def advised_width_int(name, data):
    """the advised width for an integer element type (None = the strategy rejects); mirrors
    strategies.rs with exact integer arithmetic. Used only to delimit the property's scope
    (max + width representable) and to classify rejections; never to fail a check."""
    n = len(data)
    mn, mx = min(data), max(data)
    if name in ("sqrt", "rice", "sturges"):
        nb = {"sqrt": rround(math.sqrt(n)), "rice": rround(2.0 * float(n) ** (1.0 / 3.0)),
              "sturges": rround(math.log2(n)) + 1}[name]
        if nb <= 0:
            return None
        w = (mx - mn) // nb
        return w if (w > 0 and mn < mx) else None
    srt = sorted(data)
    iqr = nearest_quantile(srt, 0.75) - nearest_quantile(srt, 0.25)
    den = math.trunc(float(n) ** (1.0 / 3.0))
    fd = (2 * iqr) // den if den else None
    fd = fd if (fd is not None and fd > 0 and mn < mx) else None
    if name == "fd":
        return fd
    st = advised_width_int("sturges", data)
    if fd is None:
        return st
    if st is None:
        return fd
    return st if fd > st else fd


def num(et, tok):
    return Fraction(bits_f64(int(tok))) if et == "n64" else Fraction(int(tok))


def k4_class(et, nbins_needed):
    """T::from_usize(k) is None for some k <= n_bins"""
    if et == "n64":
        return False
    return nbins_needed > UMAX[et]


class C12(Prop):
    id = "C12"
    imports = ["Run.RunStrat", "Run.RunWidths"]
    per_case_timeout = 15.0
    coq_batch = 40
    rule = ("five strategies x element types {i8, u8, i32, i64, u16, usize, N64}; data sets of length 1..200 (quick) / up to "
            "10^4 (thorough) with values not exactly representable in binary, large offsets with small spread, heavy ties "
            "(zero inter-quartile range), constant and empty data; 1-3 columns through GridBuilder with a histogram over the "
            "built grid (counts recounted from the grid's own bin ranges). The whole strategy is modelled (Hist/Widths.v): the "
            "model COMPUTES the width from the data (sqrt and round in Flocq, the quartiles by the sort-based specification, "
            "integer arithmetic overflow-checked) and the two libm values powf(n, 1/3), log2(n) recorded by the harness; "
            "outcome, width, n_bins, number of bins built and every edge are compared exactly (integers as values, N64 as bit "
            "patterns). FreedmanDiaconis / Auto run under scripted, policy and drawn pivots. Each case may hang (the D4 "
            "outcome): per-case timeout. Non-trivial: the strategy accepted the data and built >= 2 bins.")
    correspondences = {"strategy": "corr:C12/strategy/outcome+n_bins+edges", "gridb": "corr:C12/gridbuilder/(oracle only)"}
    trusted_base = ["libm powf(n, 1/3) and log2(n): oracle values recorded from the implementation for each n (everything else of the width formulas is computed by the model); data sets of more than 1500 values under FreedmanDiaconis / Auto are evaluated with the observed width as a model input (insertion sort inside Coq)",
                    "a hang is observed as TIMEOUT by the harness driver (15 s per case)"]
    assumptions = ["integer data stays far enough from the type's limits that max + width is representable (generator stays inside)",
                   "known-finding class K4: T::from_usize(k) is None for some k <= n_bins (narrow integer types)",
                   "known-finding class K6: finite N64 data whose range max - min overflows to +inf (the infinite width is accepted, the first edge is NaN: panic in the debug profile)",
                   "binary64: termination of the counting loop is established per executed case (fuel not exhausted), not by a theorem"]

    def gen(self, tier, rng):
        self._tier = tier
        maxlen = 200 if tier == "quick" else 10000
        reps = 7 if tier == "quick" else 120
        for rep in range(reps):
            for name in STRATS:
                for et in INT_ETS + ["n64", "n64"]:
                    n = rng.range(1, maxlen if rng.chance(1, 6) else 40)
                    data = self._data(et, n, rng)
                    lay = lay1(n, rng.choice([1, 1, 2, -1]), rng.below(2), 0)
                    yield mk_strategy_case(name, et, data, lay, random_mode(rng, n) if name in ("fd", "auto") else None)
        # degenerate inputs
        for name in STRATS:
            for et in ("i32", "n64", "u8"):
                yield mk_strategy_case(name, et, [], lay1(0))
                yield mk_strategy_case(name, et, [5] * 7 if et != "n64" else [0.3] * 7, lay1(7))
                yield mk_strategy_case(name, et, [3] if et != "n64" else [0.1], lay1(1))
                yield mk_strategy_case(name, et, ([1] * 10 + [2]) if et != "n64" else ([0.5] * 10 + [0.75]), lay1(11))
        # a bulk with a small but non-zero inter-quartile range plus a far outlier: the Freedman-Diaconis width is
        # tiny relative to the range, so the grid has about 70 000 bins (nothing may cap or truncate it); the
        # outlier is placed so that the count stays within what the model evaluates in about a minute
        for rep in range(1 if tier == "quick" else 3):
            for name, et in (("fd", "i64"), ("auto", "n64"), ("auto", "i32"), ("fd", "n64"))[:2 if tier == "quick" else 4]:
                m = rng.range(25, 40)
                bulk = [rng.range(0, 100) for _ in range(m)]
                w = advised_width_int("fd", bulk + [10 ** 6])
                if not w:
                    continue
                far = min(bulk) + w * rng.range(66000, 72000)
                if advised_width_int("fd", bulk + [far]) != w:
                    continue
                data = bulk + [far]
                if et == "n64":
                    data = [v / 8.0 for v in data]
                yield mk_strategy_case(name, et, data, lay1(len(data)))
        # GridBuilder with 1-3 columns
        for rep in range(10 if tier == "quick" else 400):
            for name in STRATS:
                et = rng.choice(["i32", "i64", "n64", "u16"])
                ncols = rng.range(1, 3)
                nrows = rng.range(2, 60)
                cols = [self._data(et, nrows, rng) for _ in range(ncols)]
                rows = [[cols[c][r] for c in range(ncols)] for r in range(nrows)]
                lay = rng.choice(zoo([nrows, ncols], rng, 2))
                yield mk_gridb_case(name, et, rows, lay, random_mode(rng, nrows) if name in ("fd", "auto") else None)
        # the quartile selections inside FreedmanDiaconis / Auto work on a scratch copy; whatever pivots they draw, the
        # grid must start at the minimum of the DATA: short data sets under every fixed policy and many scripts
        for rep in range(30 if tier == "quick" else 1500):
            for name in ("fd", "auto"):
                et = rng.choice(["i64", "n64", "i32"])
                n = rng.range(5, 16)
                data = [rng.range(0, 60) for _ in range(n)]
                data[rng.below(n)] = rng.range(300, 2000)
                if et == "n64":
                    data = [v / 4.0 for v in data]
                for mode in (("P", 0), ("P", 1), ("P", 2), ("S", [rng.below(n) for _ in range(6)]),
                             ("S", [n - 1 - rng.below(max(n // 3, 1)) for _ in range(6)])):
                    yield mk_strategy_case(name, et, data, lay1(n), mode)
        # data of large magnitude relative to its spread: consecutive placed edges min + i * w round to the same value
        for rep in range(6 if tier == "quick" else 200):
            for name in STRATS:
                nrows = rng.range(4, 30)
                ncols = rng.range(1, 2)
                base = 2.0 ** rng.choice([52, 53, 54, 60])
                step = base * 2.0 ** -52 * rng.choice([1, 2])
                cols = [[base + step * rng.choice([0, 0, 1, 2, 2, 3]) for _ in range(nrows)] for _ in range(ncols)]
                rows = [[cols[c][r] for c in range(ncols)] for r in range(nrows)]
                yield mk_gridb_case(name, "n64", rows, contiguous([nrows, ncols]), random_mode(rng, nrows))

    def _data(self, et, n, rng):
        if et == "n64":
            style = rng.below(5)
            if style == 0:
                return [0.6 * i / max(n - 1, 1) for i in range(n)]
            if style == 1:
                return [1.0e16 + 2.0 * (i % 2) for i in range(n)] if n > 1 else [1.0e16]
            if style == 2:
                return [rng.range(-1000, 1000) / 10.0 for _ in range(n)]
            if style == 3:
                return [rng.choice([0.1, 0.2, 0.3]) for _ in range(n)]
            return [1.0e9 + rng.range(0, 100) / 7.0 for _ in range(n)]
        lo, hi = INT_RANGES.get(et, (0, 2 ** 64 - 1))
        style = rng.below(4)
        if et in ("i8", "u8"):
            base = lo + (hi - lo) // 4
            span = rng.choice([3, 20, (hi - lo) // 2 - 5])
        else:
            base = rng.choice([0, max(lo, -1000), min(hi // 2, 10 ** 9)])
            span = rng.choice([3, 50, 1000, 10 ** 6 if et not in ("u16",) else 5000])
        if style == 0:
            return [base + rng.range(0, span) for _ in range(n)]
        if style == 1:
            return [base + rng.choice([0, 0, 0, span]) for _ in range(n)]      # heavy ties / zero IQR
        if style == 2:
            return [base + (i * span) // max(n - 1, 1) for i in range(n)]
        return [base + rng.choice([0, 1, span]) for _ in range(n)]

    def corpus(self):
        out = []
        # D4 witnesses (fixed): the maximum fell out of the last bin / n_bins never returned
        out.append(mk_strategy_case("sqrt", "n64", [0.6 * i / 99 for i in range(100)], lay1(100)))
        out.append(mk_strategy_case("sqrt", "n64", [1.0e16 + 2.0 * (i % 2) for i in range(100)], lay1(100)))
        # K4 witness (known finding): 128 bins of width 1 over i8
        data = [(-60 + (i * 127) // 9999) for i in range(10000)]
        out.append(mk_strategy_case("sqrt", "i8", data, lay1(10000)))
        # K6 witness (known finding): the range of finite N64 data overflows to +inf, the infinite width is accepted
        out.append(mk_strategy_case("sqrt", "n64", [-1.0e308, 1.0e308], lay1(2)))
        return out

    def parse(self, case):
        secs = [s.split() for s in case.raw.split("|")]
        head = secs[0]
        et = case.et
        if case.routine == "strategy":
            if head[0] == "OK":
                w_t, nb = head[1], int(head[2])
                nbuilt = int(secs[1][0])
                edges_t = secs[2][1:]
                case.obs = dict(tag="OK", w_t=w_t, nb=nb, nbuilt=nbuilt, edges_t=edges_t)
            elif head[0] == "ERR":
                case.obs = dict(tag="ERR", kind=head[1])
            else:
                case.obs = dict(tag=head[0])
            for sec in secs[1:]:
                if sec and sec[0] == "M":
                    case.obs["libm"] = (int(sec[1]), int(sec[2]))
        else:
            parse_gridb(case)

    def _check_bins(self, et, data_vals, w, nb, nbuilt, edges):
        """data_vals, edges: Fractions; w: Fraction"""
        out = []
        mn, mx = min(data_vals), max(data_vals)
        tol = Fraction(0) if et != "n64" else (abs(mx) + abs(mn) + abs(w)) * Fraction(4, 2 ** 52)
        if not edges or len(edges) != nbuilt + 1:
            return ["bins: %d bins reported with %d edges" % (nbuilt, len(edges))]
        if edges[0] != mn:
            out.append("start: first edge %s is not the data minimum %s" % (float(edges[0]), float(mn)))
        if any(edges[i] >= edges[i + 1] for i in range(len(edges) - 1)):
            out.append("sorted: edges not strictly increasing")
        for i in range(len(edges) - 1):
            if abs((edges[i + 1] - edges[i]) - w) > tol:
                out.append("width: bin %d has width %s, advised width %s" % (i, float(edges[i + 1] - edges[i]), float(w)))
                break
        if not (edges[-1] > mx):
            out.append("cover: last edge %s is not strictly above the maximum %s (the maximum falls into no bin)" % (float(edges[-1]), float(mx)))
        if edges[-1] > mx + w + tol:
            out.append("cover: last edge %s exceeds max + width %s" % (float(edges[-1]), float(mx + w)))
        for x in set(data_vals):
            inb = [i for i in range(len(edges) - 1) if edges[i] <= x < edges[i + 1]]
            if len(inb) != 1:
                out.append("cover: observation %s falls into %d bins" % (float(x), len(inb)))
                break
        # "as long as the width is large enough to separate consecutive edges": the edges as placed
        # (min + i * w in the element type's arithmetic) must be pairwise distinct
        if et == "n64":
            fm, fw = float(mn), float(w)
            placed = [fm + float(i) * fw for i in range(min(nb, 100000) + 1)]
            distinct = all(placed[i] < placed[i + 1] for i in range(len(placed) - 1))
        else:
            distinct = True
        if distinct and nb != nbuilt:
            out.append("n_bins: advertised %d, built %d" % (nb, nbuilt))
        return out

    def oracle(self, case):
        o = case.obs
        et = case.et
        if case.routine == "strategy":
            data = case.data
            if not data:
                return [] if (o["tag"] == "ERR" and o["kind"] == "E") else ["error: empty data must yield EmptyInput, got %s" % o]
            vals = [num(et, t) for t in map(str, case.data_m)]
            if min(vals) == max(vals):
                return [] if (o["tag"] == "ERR" and o["kind"] == "S") else ["error: constant data must yield the Strategy error, got %s" % o]
            if o["tag"] == "ERR":
                # a strategy may reject non-constant data (zero advised width); EmptyInput would be wrong
                return [] if o["kind"] == "S" else ["error: non-empty data rejected with %s" % o["kind"]]
            if et != "n64":
                wa = advised_width_int(case.name, case.data)
                hi = INT_RANGES[et][1]
                if wa is not None and max(case.data) + wa > hi:
                    return []  # outside the property's scope: max + one bin width is not representable
                if case.name in ("fd", "auto") and 2 * (max(case.data) - min(case.data)) > hi:
                    return []  # 2 * iqr may overflow inside the width computation itself
            if o["tag"] != "OK":
                return ["termination: construction outcome %s on accepted data" % o["tag"]]
            w = num(et, o["w_t"])
            return self._check_bins(et, vals, w, o["nb"], o["nbuilt"], [num(et, t) for t in o["edges_t"]])
        # gridb
        rows = case.rows
        if o["tag"] == "ERR":
            cols = list(zip(*rows)) if rows else []
            const = any(len(set(c)) <= 1 for c in cols)
            return [] if (o["kind"] == "S" or not rows) else ([] if const else ["error: GridBuilder rejected with %s" % o["kind"]])
        if o["tag"] != "OK":
            return ["termination: GridBuilder outcome %s" % o["tag"]]
        out = []
        if o["total"] != len(rows):
            out.append("all-counted: histogram over the built grid counts %d of %d observations" % (o["total"], len(rows)))
        ncols = len(rows[0]) if rows else 0
        if len(o["projs"]) != ncols or o["shape"] != [p[0] for p in o["projs"]]:
            out.append("shape: grid shape %s" % o["shape"])
        cd = Codec(et)
        for c, (nb, edges_t) in enumerate(o["projs"]):
            vals = [num(et, cd.tok(r[c])) for r in rows]
            edges = [num(et, t) for t in edges_t]
            if edges and (edges[0] != min(vals) or not edges[-1] > max(vals)):
                out.append("cover: column %d bins [%s, %s) do not start at min / end above max" % (c, float(edges[0]), float(edges[-1])))
            if any(edges[i] >= edges[i + 1] for i in range(len(edges) - 1)):
                out.append("sorted: column %d edges are not strictly increasing" % c)
        return out + gridb_recount(case)

    def known_class(self, case, reasons):
        if case.routine == "strategy" and case.et == "n64" and case.data:
            o = case.obs or {}
            vals = [bits_f64(b) for b in case.data_m]
            if o.get("tag") == "PANIC" and all(math.isfinite(v) for v in vals) and math.isinf(max(vals) - min(vals)):
                return "K6"
        if case.routine == "strategy" and case.et != "n64" and case.data:
            o = case.obs or {}
            if o.get("tag") == "PANIC":
                # narrow type: would need more bins than from_usize can express?
                vals = case.data
                span = max(vals) - min(vals)
                # any width >= 1 gives at most span + 1 bins; K4 needs span+1 > umax only as an upper bound,
                # so decide with the smallest possible width 1
                if span + 1 > UMAX[case.et]:
                    return "K4"
                # K5: from_usize(i) * width overflows a narrow signed type although min + i * width is
                # representable (negative minimum); over-approximated by 2 * span > T::MAX
                if min(vals) < 0 and 2 * span > UMAX[case.et] and case.profile == "debug":
                    return "K5"
        return None

    def chk_term(self, case):
        """the whole strategy against the model of Hist/Widths.v + Hist/Strategies.v: the width is COMPUTED by the model
        from the data and the two libm values the harness recorded for this n; outcome, width, advertised and built
        bin counts and every edge are compared exactly"""
        if case.routine != "strategy":
            return None
        o = case.obs
        et = case.et
        libm = o.get("libm")
        n = len(case.data)
        if libm is None or (case.name in ("fd", "auto") and n > 1500):
            return self._chk_term_width_input(case)     # insertion sort of > 1500 values inside Coq: too slow
        case._full = True
        if o["tag"] == "OK":
            edges = [int(t) for t in o["edges_t"]]
            w = int(o["w_t"])
            obs = [0, w, o["nb"], o["nbuilt"], len(edges)] + edges
            if o["nb"] > 20000:
                # more than 20 000 bins: the model's unary bin index makes the evaluation quadratic (minutes for ~70 000
                # bins); only the decision, the width and the extremes are compared (the grid itself by the oracle)
                cd = Codec(et)
                vals = [num(et, t) for t in map(str, case.data_m)]
                imn = min(range(n), key=lambda i: (vals[i], i))
                imx = max(range(n), key=lambda i: (vals[i], -i))
                return "chkw (%s) %s" % (self._model(case, head=True), zlist([0, w, case.data_m[imn], case.data_m[imx]]))
            if len(edges) > 2000:
                ws = sum((i + 1) * e for i, e in enumerate(edges))
                dig = obs[:5] + [len(edges), edges[0], edges[-1], sum(edges), ws]
                return "chkwd (%s) %s" % (self._model(case), zlist(dig))
            return "chkw (%s) %s" % (self._model(case), zlist(obs))
        if o["tag"] == "ERR" and o["kind"] in ("E", "S"):
            return "chkw (%s) %s" % (self._model(case), zlist([1] if o["kind"] == "E" else [2]))
        if o["tag"] == "PANIC":
            # width arithmetic that leaves the element type, from_usize(i) = None (K4), an infinite N64 width (K6): the
            # model panics too; a panic while placing min + i * w in a narrow signed type (K5) is outside the model
            return "chkw (%s) %s" % (self._model(case), zlist([3]))
        return "false"

    def _chk_term_width_input(self, case):
        o = case.obs
        et = case.et
        case._full = False
        if o["tag"] == "OK":
            edges = [int(t) for t in o["edges_t"]]
            obs = [0, o["nb"], o["nbuilt"], len(edges)] + edges
            w = int(o["w_t"])
        elif o["tag"] == "ERR" and o["kind"] == "E":
            obs, w = [1], 0
        elif o["tag"] == "ERR" and o["kind"] == "S":
            if case.data and len(set(case.data_m)) == 1:
                obs, w = [2], 1 if et != "n64" else f64_bits(1.0)
            else:
                return None
        elif o["tag"] == "PANIC":
            return None
        else:
            return "false"
        case._w = w
        if o["tag"] == "OK" and o["nb"] > 20000:
            return None
        if o["tag"] == "OK" and len(edges) > 2000:
            ws = sum((i + 1) * e for i, e in enumerate(edges))
            dig = obs[:4] + [len(edges), edges[0], edges[-1], sum(edges), ws]
            return "chksd (%s) %s" % (self._model_w(case, w), zlist(dig))
        return "chks (%s) %s" % (self._model_w(case, w), zlist(obs))

    def _model(self, case, head=False):
        cb, l2 = case.obs["libm"]
        k = KIND[case.name]
        if case.et == "n64":
            return "%s %d %s %d %d" % ("m_head_n64" if head else "m_full_n64", k, zlist(case.data_m), cb, l2)
        sg, bits = SGBITS[case.et]
        return "%s %s %d %d %s %d %d" % ("m_head_int" if head else "m_full_int", sg, bits, k, zlist(case.data_m), cb, l2)

    def _model_w(self, case, w):
        if case.et == "n64":
            return "m_strategy_n64 %s %d" % (zlist(case.data_m), w)
        return "m_strategy_int %d %s %s" % (UMAX[case.et], zlist(case.data_m), "(%d)" % w if w < 0 else str(w))

    def model_term(self, case):
        if case.routine != "strategy":
            return None
        if getattr(case, "_full", False) or (case.obs or {}).get("libm") is not None and not hasattr(case, "_w"):
            return self._model(case)
        return self._model_w(case, getattr(case, "_w", 1))

    def nontrivial(self, case):
        o = case.obs
        if case.routine == "strategy":
            return o.get("tag") == "OK" and o["nbuilt"] >= 2
        return o.get("tag") == "OK" and o["total"] >= 2

    def key(self, case):
        return (case.routine, case.name, case.et, case.line)

    def coverage_extra(self, cases):
        h = {}
        for c in cases:
            k = "%s/%s" % (c.name, (c.obs or {}).get("tag"))
            h[k] = h.get(k, 0) + 1
        return {"by_strategy_and_outcome": h}


PROP = C12()
