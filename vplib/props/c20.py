"""C20 - results do not depend on memory layout, strides or ownership."""
import math
import re
from fractions import Fraction
from ..runner import Prop, Case
from ..layouts import zoo, contiguous, fortran
from ..nd import prod
from ..pyfloat import FP
from ..codec import bits_f64
from .numcommon import arr_tokens, float_pool, model_ints, alias_pairs, enc_vals
from ..plans import sum_plan, plan_term
from ..core import zlist

FLOAT_SUMS = {"mean", "wmean", "cm3", "ent", "kl", "sql2", "cross", "klab", "l1"}


def parse_bundle(raw):
    assert raw.startswith("OK")
    parts = raw.split(" # ")[1:]
    out = {}
    for p in parts:
        name, body = p.split("|", 1)
        d = {}
        for item in body.split(";"):
            k, v = item.split(" ", 1)
            d[k] = v
        out[name] = d
    return out


def fbits(v):
    m = re.match(r"Some\((\d+)\)", v)
    return bits_f64(int(m.group(1))) if m else None


class C20(Prop):
    id = "C20"
    imports = ["Num.Kernels", "Run.RunNum"]
    coq_batch = 100
    rule = ("a bundle of statistics (mean, weighted sum/mean/variance, central moment, entropy, KL, squared-L2 / L-inf / count, "
            "min, max, argmin, argmax, skip-NaN min and argmin; for integers also L1, L2, quantiles along every axis with a "
            "selecting and an interpolating strategy) evaluated on logically equal pairs of arrays built from a canonical one "
            "by every layout of the zoo (C/F order, stepped, reversed, permuted axes, offset into a larger parent) x ownership "
            "{view, mutable view, owned, shared, copy-on-write} x {dynamic, static} dimensionality, 1-4 dimensions: order-based "
            "and integer results and code-ordered float results (weighted_sum, weighted_var) must be bit-identical, "
            "layout-ordered float sums within the proved summation bound. Non-trivial: >= 2 elements and >= 2 distinct layouts.")
    correspondences = {"layoutinv": "corr:C20/cross-layout-agreement (each statistic's model tie is its own property's correspondence: C05-C10, C01)"}
    trusted_base = ["ndarray's logical iterators and ownership conversions (to_owned, to_shared, CowArray::from, into_dimensionality)"]
    assumptions = ["float sums: |f(layout1) - f(layout2)| <= 2 gamma_(n+13) sum|terms| (Num/SumF64.v nd_sum_layout_indep), applied with a x128 safety factor to composite statistics"]

    def gen(self, tier, rng):
        reps = 30 if tier == "quick" else 1200
        for g in range(reps):
            nd = rng.range(1, 4)
            shape = [rng.range(1, 4) for _ in range(nd)]
            n = prod(shape)
            lays = [contiguous(shape)] + ([fortran(shape)] if nd >= 2 else []) + zoo(shape, rng, 4)
            # f64
            a = float_pool(rng.choice([0, 1, 3]), n, rng, "f64")
            b = float_pool(5, n, rng, "f64")
            if rng.chance(1, 4) and n > 1:
                a[rng.below(n)] = a[0]
            for li, lay in enumerate(lays):
                lb = lays[(li + 1 + g) % len(lays)]
                line = "f64 | %s | %s" % (arr_tokens("f64", a, lay), arr_tokens("f64", b, lb))
                c = Case("layoutinv", " ".join(line.split()), et="f64", grp="f%d" % g, a=a, b=b, shape=shape, layout=lay.describe() + "//" + lb.describe())
                c._la, c._lb = lay, lb
                yield c
            ia = [rng.range(-9, 9) for _ in range(n)]
            ib = [rng.range(-9, 9) for _ in range(n)]
            for li, lay in enumerate(lays):
                lb = lays[(li + 2 + g) % len(lays)]
                line = "i64 | %s | %s" % (arr_tokens("i64", ia, lay), arr_tokens("i64", ib, lb))
                c = Case("layoutinv", " ".join(line.split()), et="i64", grp="i%d" % g, a=ia, b=ib, shape=shape, layout=lay.describe() + "//" + lb.describe())
                c._la, c._lb = lay, lb
                yield c

        # two operands that are views into ONE allocation (same first and last element with different strides: a square
        # block against its transpose, a cube against an axis permutation of itself, reversed against forward, stepped
        # against prefix): the statistics of the pair must be those of two independent arrays with the same contents
        for g in range(10 if tier == "quick" else 400):
            nd = rng.range(1, 3)
            side = rng.range(2, 3)
            shape = [side] * nd
            for et in ("f64", "i64"):
                for k, (la, lb) in enumerate(alias_pairs(shape, rng)[:4]):
                    m = la.parent_len()
                    pbuf = float_pool(5, m, rng, "f64") if et == "f64" else [rng.range(-9, 9) for _ in range(m)]
                    if len(set(pbuf)) < 2:
                        pbuf[0] = pbuf[0] + 1
                    a = [pbuf[c] for c in la.cells()]
                    b = [pbuf[c] for c in lb.cells()]
                    grp = "%sx%d_%d" % (et[0], g, k)
                    ca, cb = contiguous(la.shape()), contiguous(lb.shape())
                    line = "%s | %s | %s" % (et, arr_tokens(et, a, ca), arr_tokens(et, b, cb))
                    c = Case("layoutinv", " ".join(line.split()), et=et, grp=grp, a=a, b=b, shape=la.shape(), layout="independent copies")
                    c._la, c._lb = ca, cb
                    yield c
                    toks = enc_vals(et, pbuf)
                    line = "%s | %s | %d %s | %s | @" % (et, la.tokens(), len(toks), " ".join(toks), lb.tokens())
                    c = Case("layoutinv", " ".join(line.split()), et=et, grp=grp, a=a, b=b, shape=la.shape(),
                             layout="aliased: " + la.describe() + "//" + lb.describe())
                    c._la, c._lb = la, lb
                    yield c

    def parse(self, case):
        case.obs = parse_bundle(case.raw)

    def _tol(self, case, stat, vals):
        fp = FP("f64")
        a = [Fraction(x) for x in case.a]
        b = [Fraction(x) for x in case.b]
        n = len(a)
        u = float(fp.u)
        m = sum(a) / n
        if stat == "mean":
            s = float(sum(abs(x) for x in a)) / n
        elif stat == "wmean":
            sw = sum(b)
            s = float(sum(abs(x * y) for x, y in zip(a, b)) / abs(sw)) * (1 + float(sum(abs(y) for y in b) / abs(sw))) if sw != 0 else 1.0
        elif stat == "cm3":
            sc = max(abs(x) for x in a)
            delta = 4 * (n + 14) * fp.u * sc      # error of the computed mean: enters only through the deviations (D7 repaired)
            s = float(sum((abs(x - m) + delta) ** 3 for x in a)) / n
        elif stat in ("ent", "kl"):
            s = sum(abs(y * math.log(y)) for y in case.b if y > 0) + 1e-300
        elif stat in ("cross", "klab"):
            s = sum(abs(y) * (abs(math.log(abs(x) + 0.5)) + abs(math.log(y)) + 1) for x, y in zip(case.a, case.b) if y > 0) + 1e-300
        else:
            s = max(abs(v) for v in vals)
        return 128 * (n + 13) * u * s + 1e-300

    def oracle(self, case):
        return []

    def extra_checks(self, cases, tier, rng):
        groups = {}
        for c in cases:
            if c.obs:
                groups.setdefault(c.grp, []).append(c)
        out = []
        for gname, cs in groups.items():
            ref_case = cs[0]
            ref = ref_case.obs["view"]
            for c in cs:
                for variant, d in c.obs.items():
                    for stat, v in d.items():
                        r = ref.get(stat)
                        if v == r:
                            continue
                        if c.et == "f64" and stat in FLOAT_SUMS:
                            x, y = fbits(v), fbits(r)
                            if x is not None and y is not None and (x == y or abs(x - y) <= self._tol(c, stat, [x, y])):
                                continue
                        if c.et == "f64" and stat in ("min", "max", "minsk"):
                            x, y = fbits(v) if stat != "minsk" else bits_f64(int(v)), fbits(r) if stat != "minsk" else bits_f64(int(r))
                            if x == y:      # +0 / -0
                                continue
                        out.append((c, "layout: %s under %s/%s = %s, canonical layout gives %s" % (stat, c.layout[:60], variant, v, r)))
                        break
                    else:
                        continue
                    break
        return out

    def chk_term(self, case):
        """direct model tie under THIS layout: mean (layout-dependent summation plan) and weighted_sum"""
        d = case.obs.get("view", {})
        m = re.match(r"Some\((-?\d+)\)", d.get("mean", ""))
        w = re.match(r"Some\((-?\d+)\)", d.get("wsum", ""))
        if not m or not w:
            return None
        pre = "f64" if case.et == "f64" else "z"
        tabs = " [] []" if pre == "f64" else ""
        a = zlist(model_ints(case.et, case.a))
        b = zlist(model_ints(case.et, case.b))
        t1 = "chkn (%s_stat1%s 0 %s %s 0) [%s]" % (pre, tabs, plan_term(sum_plan(case._la)), a, m.group(1) if int(m.group(1)) >= 0 else "(%s)" % m.group(1))
        t2 = "chkn (%s_stat2%s 0 %s %s %s 0) [%s]" % (pre, tabs, plan_term(sum_plan(case._lb)), a, b, w.group(1) if int(w.group(1)) >= 0 else "(%s)" % w.group(1))
        return "(andb (%s) (%s))" % (t1, t2)

    def nontrivial(self, case):
        return len(case.a) >= 2

    def key(self, case):
        return (case.et, tuple(case.a), tuple(case.b), case.layout)

    def coverage_extra(self, cases):
        nvar = sum(len(c.obs) for c in cases if c.obs)
        nstat = sum(len(d) for c in cases if c.obs for d in c.obs.values())
        return {"variant_evaluations": nvar, "statistics_compared": nstat, "distinct_layout_pairs": len(set(c.layout for c in cases))}


PROP = C20()
