"""C05 - min / max / argmin / argmax designate a true extremum or the right error."""
from ..runner import Prop, Case
from ..core import zlist
from ..codec import Codec, f64_bits, f32_bits
from ..layouts import zoo, weak_orders, Layout
from ..nd import factorizations, ravel, prod

NANK = -777777777
FVALS = [float("-inf"), -1.5, 0.0, 2.5, float("inf"), 7.25]
NAN64 = 0x7FF8000000000000
NAN32 = 0x7FC00000


def tok_and_key(et, v, rng):
    """v: rank (int) or None for NaN -> (token, model key)"""
    if et in ("f64", "f32"):
        if v is None:
            return (str(NAN64 if et == "f64" else NAN32), NANK)
        x = FVALS[v]
        if x == 0.0 and rng.chance(1, 2):
            x = -0.0
        b = f64_bits(x) if et == "f64" else f32_bits(x)
        return (str(b), Codec(et).key_of_tok(str(b)))
    val = {"i32": [-2 ** 31, -7, 0, 5, 2 ** 31 - 1, 100], "u8": [0, 1, 7, 200, 255, 9], "i64": [-2 ** 63, -1, 0, 1, 2 ** 63 - 1, 55]}[et][v]
    return (str(val), val)


def mk_case(et, shape, ranks, lay, rng):
    toks, keys = [], []
    for r in ranks:
        t, k = tok_and_key(et, r, rng)
        toks.append(t)
        keys.append(k)
    gt, _ = tok_and_key(et, 0, rng)
    buf = lay.embed(toks, lambda k: gt)
    line = "%s | %s | %d %s" % (et, lay.tokens(), len(buf), " ".join(buf))
    return Case("minmax", " ".join(line.split()), et=et, shape=list(shape), keys=keys, layout=lay.describe())


class C05(Prop):
    id = "C05"
    imports = ["Run.RunNan"]
    rule = ("all weak-order patterns of length <= 5 (quick) with 0, 1 or 2 NaNs at every position, arranged in every shape "
            "of 0-4 dimensions with that many elements (zero-length axes and the 0-dimensional array included), presented "
            "through the layout zoo (C/F order, stepped, reversed, permuted, offset); element types i32/u8/i64 (no NaN) and "
            "f32/f64 (signed zeros, infinities). Non-trivial: >= 2 elements.")
    exhaustive_note = {"quick": "weak orders of length <= 4 x NaN placements (<= 2) x all shapes; length 5 without NaN",
                       "thorough": "weak orders of length <= 5 x NaN placements (<= 2) x all shapes x 4 layouts"}
    correspondences = {"minmax": "corr:C05/argmin+argmax+min+max/index-and-value"}
    trusted_base = ["ndarray first()/indexed_iter() logical order; ArrayBase::fold visiting every element exactly once (its order is an oracle: any permutation)"]
    assumptions = ["partial_cmp is a total preorder on non-NaN values and None exactly when an operand is NaN (f32/f64, integers)"]

    def gen(self, tier, rng):
        ets = ["i32", "f64", "u8", "f32", "i64"]
        k = 0
        maxn = 5
        for n in range(1, maxn + 1):
            shapes = [list(s) for s in factorizations(n, 4)]
            if n == 1:
                shapes.append([])
            for pat in weak_orders(n):
                nan_sets = [()]
                if n <= 4 or tier == "thorough":
                    nan_sets += [(i,) for i in range(n)] + [(i, j) for i in range(n) for j in range(i + 1, n)]
                for ns in nan_sets:
                    k += 1
                    et = ets[k % 5] if not ns else ("f64" if k % 2 else "f32")
                    ranks = [None if i in ns else pat[i] for i in range(n)]
                    shape = shapes[k % len(shapes)]
                    lays = zoo(shape, rng, 1 if tier == "quick" else 3)
                    if tier == "quick":
                        lays = [lays[k % len(lays)]]
                    for lay in lays:
                        yield mk_case(et, shape, ranks, lay, rng)
        # empty arrays with zero-length axes
        for shape in ([0], [0, 3], [2, 0], [2, 0, 2], [1, 0, 1, 2]):
            for et in ets:
                for lay in zoo(shape, rng, 1):
                    yield mk_case(et, shape, [], lay, rng)
        # larger random
        for _ in range(300 if tier == "quick" else 12000):
            nd = rng.range(1, 4)
            shape = [rng.range(1, 4) for _ in range(nd)]
            n = prod(shape)
            et = rng.choice(ets)
            ranks = [rng.below(6) for _ in range(n)]
            if et in ("f64", "f32") and rng.chance(1, 3):
                ranks[rng.below(n)] = None
            yield mk_case(et, shape, ranks, rng.choice(zoo(shape, rng, 3)), rng)

        # arrays with axes of length 1: ndarray leaves the stride of such an axis arbitrary and still calls the array
        # contiguous, so every contiguous non-row-major arrangement of a shape with unit axes is presented
        # (row vector from a transposed column, F order, permuted axes), with the extrema away from the first cell
        from ..layouts import contig_variant
        for shape in ([1, 4], [4, 1], [1, 5], [2, 1, 3], [1, 3, 1], [1, 1, 4], [3, 1, 2], [2, 3, 1], [1, 2, 1, 3]):
            n = prod(shape)
            for rep in range(4 if tier == "quick" else 40):
                et = rng.choice(ets)
                ranks = [rng.below(4) + 1 for _ in range(n)]
                ranks[rng.range(1, n - 1)] = 0
                ranks[rng.range(1, n - 1)] = 5
                yield mk_case(et, shape, ranks, contig_variant(shape, rng), rng)

    def parse(self, case):
        secs = [s.split() for s in case.raw.split("|")]
        assert secs[0][0] == "OK"
        shape = [int(x) for x in secs[0][2:]]
        cd = Codec(case.et)

        def idx(sec):
            if sec[0] == "S":
                return ("S", [int(x) for x in sec[2:]])
            return (sec[0], None)

        def val(sec):
            if sec[0] == "S":
                return ("S", cd.key_of_tok(sec[1]))
            return (sec[0], None)

        st = dict(shape=shape, argmin=idx(secs[1]), argmax=idx(secs[2]), min=val(secs[3]), max=val(secs[4]))
        flat = []
        for key in ("argmin", "argmax"):
            tag, ix = st[key]
            flat += [0, ravel(shape, ix)] if tag == "S" else ([1] if tag == "E" else [2])
        for key in ("min", "max"):
            tag, v = st[key]
            flat += [0, v] if tag == "S" else ([1] if tag == "E" else [2])
        case.obs = (flat, st)

    def oracle(self, case):
        flat, st = case.obs
        keys = case.keys
        out = []
        if st["shape"] != case.shape:
            return ["shape: view shape %s, expected %s (harness/layout mismatch)" % (st["shape"], case.shape)]
        if not keys:
            for k in ("argmin", "argmax", "min", "max"):
                if st[k][0] != "E":
                    out.append("empty: %s on an empty array returned %s" % (k, st[k]))
            return out
        if any(x == NANK for x in keys):
            for k in ("argmin", "argmax", "min", "max"):
                if st[k][0] != "U":
                    out.append("nan: %s on data containing NaN returned %s instead of UndefinedOrder" % (k, st[k]))
            return out
        lo, hi = min(keys), max(keys)
        for k, want in (("argmin", lo), ("argmax", hi)):
            tag, ix = st[k]
            if tag != "S":
                out.append("error: %s returned %s on NaN-free non-empty data" % (k, tag))
                continue
            if len(ix) != len(case.shape) or any(i >= s for i, s in zip(ix, case.shape)):
                out.append("index: %s index %s outside shape %s" % (k, ix, case.shape))
                continue
            if keys[ravel(case.shape, ix)] != want:
                out.append("extremum: %s designates %s which is not extremal" % (k, ix))
        for k, want in (("min", lo), ("max", hi)):
            tag, v = st[k]
            if tag != "S" or v != want:
                out.append("extremum: %s returned %s, expected %s" % (k, st[k], want))
        return out

    def chk_term(self, case):
        flat, _ = case.obs
        return "chkl (%s) %s" % (self.model_term(case), zlist(flat))

    def model_term(self, case):
        return "m_minmax %s %s" % (zlist(case.keys), zlist(case.keys))

    def nontrivial(self, case):
        return len(case.keys) >= 2

    def key(self, case):
        return (case.et, tuple(case.shape), tuple(case.keys), case.layout)


PROP = C05()
