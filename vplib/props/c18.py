"""C18 - bulk routines equal their single-item counterparts item by item."""
from ..runner import Prop
from ..layouts import fortran, zoo, lay1
from ..nd import prod, lane_positions, result_shape
from .c01 import mk_q_case, parse_q, C01, out_shape, lane_values, q_grid
from .c02 import mk_select_case, mk_many_case, parse_sel, chk_term_sel, model_term_sel, LAYS
from .c07 import C07
from .c06 import C06
from .numcommon import mk_num_case, parse_num, float_pool, enc_vals

_c01, _c07, _c06 = C01(), C07(), C06()


class C18(Prop):
    id = "C18"
    imports = ["Num.Kernels", "Run.RunSort", "Run.RunQuant", "Run.RunNum"]
    coq_batch = 120
    rule = ("request lists of length 0..32 (unordered, with repeats, q values sharing a lower/higher index) against the same "
            "requests one at a time on a fresh copy of the same view: quantiles_axis_mut / quantiles_mut vs quantile_axis_mut / "
            "quantile_mut (all strategies, axes, layouts, pivot modes), get_many_from_sorted_mut vs get_from_sorted_mut, "
            "central_moments(p)[k] vs central_moment(k) for every k <= p <= 10 (bit for bit), and each element of a per-axis "
            "weighted sum / mean / variance / standard deviation vs the whole-array routine applied to that lane (bit for bit). "
            "Both sides are ALSO compared with the model. Non-trivial: the bulk request has >= 2 items.")
    correspondences = {"*": "corr:C18/bulk-vs-single/item-by-item + each side against its model"}
    trusted_base = ["ndarray index_axis_move / map_axis / lanes"]
    assumptions = []

    def gen(self, tier, rng):
        reps = 60 if tier == "quick" else 2400
        g = 0
        for _ in range(reps):
            g += 1
            # quantiles: bulk vs singles
            nd = rng.range(1, 3)
            shape = [rng.range(1, 6) for _ in range(nd)]
            n = prod(shape)
            et = rng.choice(["i32", "i64", "u8", "n64", "u64"])
            vals = [rng.range(0, 9) for _ in range(n)] if et != "n64" else [rng.range(0, 9) * 0.3 for _ in range(n)]
            axis = rng.below(nd)
            N = shape[axis]
            pool = q_grid(N, rng, 3)
            qs = [rng.choice(pool) for _ in range(rng.choice([0, 1, 2, 3, 5, 9, 32]))]
            shape_q = rng.below(4)
            if shape_q == 1:        # requests already in non-decreasing order, with adjacent repeats
                qs = sorted(qs + qs[:3])
            elif shape_q == 2:      # non-increasing
                qs = sorted(qs + qs[:2], reverse=True)
            strat = rng.below(5)
            lay = rng.choice(zoo(shape, rng, 3))
            mode = ("P", rng.below(3))
            one_d = nd == 1 and rng.chance(1, 2)
            b = mk_q_case("quantiles1" if one_d else "quantiles", et, strat, shape, axis, vals, qs, lay, mode, il=g % 4)
            b.grp, b.role, b.kind = "q%d" % g, "bulk", "q"
            yield b
            for j, q in enumerate(qs[:6]):
                s = mk_q_case("quantile1" if one_d else "quantile", et, strat, shape, axis, vals, [q], lay, ("P", rng.below(3)))
                s.grp, s.role, s.kind, s.j = "q%d" % g, "single", "q", j
                yield s
            # selection: bulk vs singles
            m = rng.range(1, 30)
            data = [rng.range(0, 7) for _ in range(m)]
            idxs = [rng.below(m) for _ in range(rng.range(0, 8))]
            l1 = rng.choice(LAYS)
            b = mk_many_case(data, idxs, l1, rng.choice([("R",), ("P", 1), ("S", [0] * 9)]))
            b.grp, b.role, b.kind = "s%d" % g, "bulk", "sel"
            yield b
            for i in sorted(set(idxs))[:5]:
                s = mk_select_case(data, i, l1, rng.choice([("R",), ("P", 0), ("P", 2)]))
                s.grp, s.role, s.kind = "s%d" % g, "single", "sel"
                yield s
            # moments
            fet = rng.choice(["f64", "f32"])
            # layouts whose memory order differs from the logical order matter here: both routines must add
            # the same values in the same order (reversed 1-D views, F order, transposed blocks)
            mk = g % 4
            if mk == 0:
                mshape = [rng.range(1, 16)]
                ml = rng.choice(zoo(mshape, rng, 2))
            elif mk == 1:
                mshape = [rng.range(3, 16)]
                ml = lay1(mshape[0], -1, rng.below(2), rng.below(2))
            else:
                mshape = [rng.range(2, 4), rng.range(2, 5)]
                ml = fortran(mshape) if mk == 2 else rng.choice(zoo(mshape, rng, 3)[1:])
            md = float_pool(rng.choice([1, 2, 1, 0]), prod(mshape), rng, fet)
            if g % 5 == 0:
                # non-finite observations, or finite ones whose sum overflows: every order k <= p must still agree bit
                # for bit between the bulk and the single routine (orders 0 and 1 are the constants 1 and 0 in both)
                big = 3.0e38 if fet == "f32" else 1.7e308
                sp = rng.choice([[float("inf")], [float("nan")], [big, big], [float("-inf"), 1.0], [big, -big, big]])
                for v in sp:
                    md[rng.below(len(md))] = v
            p = rng.range(0, 10)
            b = mk_num_case("central_moments", fet, [(mshape, md, ml)], "%d" % p, order=p)
            b.grp, b.role, b.kind = "m%d" % g, "bulk", "mom"
            yield b
            for k in range(p + 1):
                s = mk_num_case("central_moment", fet, [(mshape, md, ml)], "%d" % k, order=k)
                s.grp, s.role, s.kind = "m%d" % g, "single", "mom"
                yield s
            # per-axis weighted family vs whole-array routine per lane
            wshape = [rng.range(1, 4) for _ in range(rng.range(2, 3))]
            wn = prod(wshape)
            wd = float_pool(rng.choice([0, 1, 5]), wn, rng, fet)
            waxis = rng.below(len(wshape))
            W = wshape[waxis]
            w1 = float_pool(5, W, rng, fet)
            if g % 3 == 0 and W >= 2:
                # observations masked out by a zero weight may be anything (infinite, NaN, or so far from the running mean
                # that the deviation overflows): the per-axis and the whole-array routine must treat them alike
                zpos = rng.below(W)
                w1[zpos] = 0.0
                huge = 3.0e38 if fet == "f32" else 1.7e308
                for fp_, ln in enumerate(lane_positions(wshape, waxis)):
                    if rng.chance(2, 3):
                        wd[ln[zpos]] = rng.choice([float("inf"), float("-inf"), float("nan"), huge, -huge])
                        if rng.chance(1, 2) and W >= 3:
                            wd[ln[(zpos + 1) % W]] = -huge if wd[ln[zpos]] == huge else huge * 0.5
            lw = lay1(W, rng.choice([1, 2, -1]), 0, 0)
            la = rng.choice(zoo(wshape, rng, 2))
            dd = enc_vals(fet, [0.5])[0]
            for r, single, extra in (("weighted_sum_axis", "weighted_sum", ""), ("weighted_mean_axis", "weighted_mean", ""),
                                     ("weighted_var_axis", "weighted_var", dd), ("weighted_std_axis", "weighted_std", dd)):
                b = mk_num_case(r, fet, [(wshape, wd, la), ([W], w1, lw)], ("%d %s" % (waxis, extra)).strip(), axis=waxis, ddof=0.5)
                b.grp, b.role, b.kind = "w%d%s" % (g, r), "bulk", "wax"
                yield b
                for li, ln in enumerate(lane_positions(wshape, waxis)):
                    lane = [wd[p_] for p_ in ln]
                    s = mk_num_case(single, fet, [([W], lane, lay1(W)), ([W], w1, lw)], extra, ddof=0.5)
                    s.grp, s.role, s.kind, s.j = "w%d%s" % (g, r), "single", "wax", li
                    yield s

    def parse(self, case):
        if case.kind == "q":
            parse_q(case)
        elif case.kind == "sel":
            parse_sel(case)
        else:
            parse_num(case)

    def oracle(self, case):
        return []

    def extra_checks(self, cases, tier, rng):
        groups = {}
        for c in cases:
            if c.obs is not None:
                groups.setdefault(c.grp, []).append(c)
        out = []
        for gname, cs in groups.items():
            bulk = [c for c in cs if c.role == "bulk"]
            if not bulk:
                continue
            b = bulk[0]
            singles = [c for c in cs if c.role == "single"]
            if b.kind == "q":
                if b.obs["tag"] != "OK":
                    for s in singles:
                        if s.obs["tag"] == "OK":
                            out.append((b, "bulk: bulk call failed (%s) where the single call succeeded" % b.obs["tag"]))
                            break
                    continue
                blanes = lane_values(b, b.obs["vals_m"])
                for s in singles:
                    if s.obs["tag"] != "OK":
                        out.append((s, "single: single call failed (%s) where the bulk call succeeded" % s.obs["tag"]))
                        continue
                    want = [l[s.j] for l in blanes]
                    if s.obs["vals_m"] != want:
                        out.append((b, "bulk-vs-single: slice %d of the bulk result %s differs from the single call's %s (q=%r)" % (s.j, want, s.obs["vals_m"], s.qs[0])))
            elif b.kind == "sel":
                if b.obs[0] != "OK":
                    continue
                keys, vals = b.obs[1]
                m = dict(zip(keys, vals))
                for s in singles:
                    if s.obs[0] == "OK" and m.get(s.i) != s.obs[1]:
                        out.append((b, "bulk-vs-single: entry for index %d is %s, single selection returns %s" % (s.i, m.get(s.i), s.obs[1])))
            elif b.kind == "mom":
                if b.obs["tag"] != "OK":
                    continue
                for s in singles:
                    if s.obs["tag"] == "OK" and s.obs["vals"][0] != b.obs["vals"][s.order]:
                        out.append((b, "bulk-vs-single: central_moments(%d)[%d] = %d (bits), central_moment(%d) = %d" % (b.order, s.order, b.obs["vals"][s.order], s.order, s.obs["vals"][0])))
            else:
                if b.obs["tag"] != "OK":
                    continue
                for s in singles:
                    if s.obs["tag"] == "OK" and s.obs["vals"][0] != b.obs["vals"][s.j]:
                        out.append((b, "axis-vs-lane: element %d of %s = %d (bits), whole-array routine on that lane = %d" % (s.j, b.routine, b.obs["vals"][s.j], s.obs["vals"][0])))
        return out

    def _delegate(self, case):
        if case.kind == "q":
            return _c01
        if case.kind == "sel":
            return None
        if case.routine.startswith("central") or case.routine.startswith("weighted_var") or case.routine.startswith("weighted_std"):
            return _c07
        return _c06

    def chk_term(self, case):
        if case.kind == "sel":
            return chk_term_sel(case)
        d = self._delegate(case)
        if case.kind == "q" and case.obs["tag"] == "PANIC":
            return None
        return d.chk_term(case)

    def model_term(self, case):
        if case.kind == "sel":
            return model_term_sel(case)
        return self._delegate(case).model_term(case)

    def known_class(self, case, reasons):
        if case.kind == "q":
            return _c01.known_class(case, ["model-disagreement"] if reasons == ["model-disagreement"] else reasons)
        return None

    def nontrivial(self, case):
        if case.role != "bulk":
            return False
        if case.kind == "q":
            return len(case.qs) >= 2
        if case.kind == "sel":
            return len(set(case.idxs)) >= 2
        if case.kind == "mom":
            return case.order >= 2
        return True

    def key(self, case):
        return (case.routine, case.line)

    def coverage_extra(self, cases):
        h = {}
        for c in cases:
            k = "%s/%s" % (c.kind, c.role)
            h[k] = h.get(k, 0) + 1
        return {"by_kind_and_role": h}


PROP = C18()
