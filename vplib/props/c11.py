"""C11 - histogram counts are exact for every grid and observation history."""
import itertools
from ..runner import Prop, Case
from ..core import zlist
from ..codec import Codec
from ..layouts import contiguous, fortran, zoo
from .c13 import vals_for, lst, expected_bin
from .c12 import mk_gridb_case, parse_gridb, gridb_recount, random_mode, STRATS

ETS = ["i64", "n64", "u8", "i32"]


def mk_hist_case(et, axes_letters, pts_letters):
    cd = Codec(et)
    axes = [vals_for(et, a) for a in axes_letters]
    pts = [vals_for(et, p) for p in pts_letters]
    line = "%s | %d %s | %d %s" % (et, len(axes), " ".join(lst(cd, a) for a in axes), len(pts),
                                  " ".join(lst(cd, p) for p in pts))
    return Case("hist", " ".join(line.split()), et=et, axes_k=[[cd.key(v) for v in a] for a in axes],
                pts_k=[[cd.key(v) for v in p] for p in pts])


def mk_histm_case(et, axes_letters, rows_letters, lay):
    cd = Codec(et)
    axes = [vals_for(et, a) for a in axes_letters]
    rows = [vals_for(et, r) for r in rows_letters]
    flat = [v for r in rows for v in r]
    guard = vals_for(et, [0])[0]
    buf = lay.embed(flat, lambda k: guard)
    line = "%s | %d %s | %s | %d %s" % (et, len(axes), " ".join(lst(cd, a) for a in axes), lay.tokens(), len(buf),
                                       " ".join(cd.tok(v) for v in buf))
    return Case("histm", " ".join(line.split()), et=et, axes_k=[[cd.key(v) for v in a] for a in axes],
                rows_k=[[cd.key(v) for v in r] for r in rows], layout=lay.describe())


def ravel(shape, idx):
    k = 0
    for s, i in zip(shape, idx):
        k = k * s + i
    return k


class C11(Prop):
    id = "C11"
    imports = ["Run.RunHist"]
    rule = ("grids of 1-3 axes from small edge sets (axes with 0 and 1 edges included); point alphabet = the edges, "
            "midpoints and outside points; EVERY history up to the tier's length over that alphabet, with the counts "
            "compared after every single insert (so every prefix is a checked history); random histories up to length "
            "200 with rejected and wrong-arity inserts interleaved; matrix form over C-order, F-order and stepped "
            "observation matrices. Non-trivial: at least one accepted and the history has >= 2 observations.")
    exhaustive_note = {"quick": "1 axis: all histories of length <= 4 over 6 points; 2 axes: all histories of length <= 2 over 25 points",
                       "thorough": "1 axis: length <= 5 over 7 points; 2 axes: length <= 3 over 25 points; 3 axes: length <= 2 over 27 points"}
    correspondences = {"hist": "corr:C11/add_observation/outcome+counts-after-every-insert", "histm": "corr:C11/histogram/shape+counts",
                       "gridb": "corr:C11/histogram-over-strategy-built-grid/shape+counts (model on the observed edges)"}
    trusted_base = ["ndarray ArrayD indexing by &[usize] (row-major flat index) and axis_iter(Axis(0)) row order"]
    assumptions = ["Ord is a total order (integer and N64 element types)"]

    def gen(self, tier, rng):
        k = 0
        # 1 axis, exhaustive histories
        alpha1 = [-1, 0, 2, 4, 8, 9] if tier == "quick" else [-1, 0, 2, 4, 6, 8, 9]
        L1 = 4 if tier == "quick" else 5
        for axes in ([[0, 4, 8]], [[8, 0, 4, 4]]):
            for hist in itertools.product(alpha1, repeat=L1):
                k += 1
                yield mk_hist_case(ETS[k % 4], axes, [[p] for p in hist])
        # 2 axes
        alpha2 = [list(p) for p in itertools.product([-1, 0, 3, 4, 9], repeat=2)]
        L2 = 2 if tier == "quick" else 3
        for hist in itertools.product(alpha2, repeat=L2):
            k += 1
            if L2 == 3 and k % 2:
                continue
            yield mk_hist_case(ETS[k % 4], [[0, 4, 8], [0, 4]], list(hist))
        if tier == "thorough":
            alpha3 = [list(p) for p in itertools.product([0, 5, 9], repeat=3)]
            for hist in itertools.product(alpha3, repeat=2):
                k += 1
                yield mk_hist_case(ETS[k % 4], [[0, 4, 8], [0, 4], [2, 6, 8]], list(hist))
        # degenerate axes (0 or 1 edges), every short history
        for axes in ([[]], [[4]], [[0, 4], []], [[0, 4], [7]], [[], [0, 4, 8]], []):
            pts = [list(p) for p in itertools.product([0, 4, 5], repeat=len(axes))]
            for hist in itertools.product(pts, repeat=2):
                k += 1
                yield mk_hist_case(ETS[k % 4], axes, list(hist))
        # random, long, with wrong-arity inserts
        nrand = 300 if tier == "quick" else 12000
        for _ in range(nrand):
            nax = rng.range(1, 3)
            axes = []
            for _a in range(nax):
                m = rng.range(0, 5)
                axes.append([rng.range(0, 8) for _ in range(m)])
            L = rng.range(1, 200 if rng.chance(1, 5) else 30)
            pts = []
            for _p in range(L):
                if rng.chance(1, 25):
                    pts.append([rng.range(-1, 9) for _ in range(nax + rng.choice([-1, 1]))])
                else:
                    pts.append([rng.range(-1, 9) for _ in range(nax)])
            k += 1
            yield mk_hist_case(ETS[k % 4], axes, pts)
        # matrix form over layouts
        nmat = 150 if tier == "quick" else 6000
        for _ in range(nmat):
            nax = rng.range(1, 3)
            axes = [[rng.range(0, 8) for _ in range(rng.range(0, 4))] for _a in range(nax)]
            nrows = rng.range(0, 12)
            ncols = nax if not rng.chance(1, 12) else nax + rng.choice([-1, 1])
            rows = [[rng.range(-1, 9) for _ in range(ncols)] for _r in range(nrows)]
            lays = zoo([nrows, ncols], rng, 2)
            k += 1
            for lay in lays:
                yield mk_histm_case(ETS[k % 4], axes, rows, lay)

        # grids built by the bin-building strategies (GridBuilder), including data of large magnitude relative to its
        # spread, where the placed edges min + i * w collide after rounding and observations sit exactly on edges
        for rep in range(12 if tier == "quick" else 500):
            for name in STRATS:
                nrows = rng.range(4, 40)
                ncols = rng.range(1, 3)
                if rep % 2:
                    base = 2.0 ** rng.choice([52, 53, 54, 58])
                    step = base * 2.0 ** -52 * rng.choice([1, 2])
                    cols = [[base + step * rng.choice([0, 0, 1, 2, 2, 3, 5]) for _ in range(nrows)] for _ in range(ncols)]
                    et = "n64"
                else:
                    et = rng.choice(["n64", "i64", "i32"])
                    cols = [[rng.range(-50, 50) * (0.3 if et == "n64" else 1) for _ in range(nrows)] for _ in range(ncols)]
                rows = [[cols[c][r] for c in range(ncols)] for r in range(nrows)]
                lay = rng.choice(zoo([nrows, ncols], rng, 2))
                yield mk_gridb_case(name, et, rows, lay, random_mode(rng, nrows))

    def parse(self, case):
        if case.routine == "gridb":
            parse_gridb(case)
            o = case.obs
            if o["tag"] == "OK" and o.get("counts") is not None:
                cd = Codec(case.et)
                case.axes_k = [[cd.key_of_tok(t) for t in e] for _, e in o["projs"]]
                case.rows_k = [[cd.key_of_tok(t) for t in r] for r in case.rows_t]
                case.obs = ([len(o["cshape"])] + o["cshape"] + o["counts"],
                            dict(panic=False, shape=o["cshape"], counts=o["counts"], gridb=o))
            else:
                case.obs = ([-2], dict(panic=False, gridb=o, rejected=True, shape=[], counts=[]))
            return
        secs = [s.split() for s in case.raw.split("|")]
        if case.routine == "hist":
            assert secs[0][0] == "OK"
            ndim = int(secs[0][1])
            shape = [int(x) for x in secs[1][1:]]
            c0 = [int(x) for x in secs[2][1:]]
            steps = []
            for s in secs[3:]:
                steps.append((s[0], [int(x) for x in s[2:]]))
            flat = [len(shape)] + shape + c0
            for tag, c in steps:
                flat += [{"A": 0, "R": 1, "P": 2}[tag]] + c
            case.obs = (flat, dict(ndim=ndim, shape=shape, c0=c0, steps=steps))
        else:
            if secs[0][0] == "PANIC":
                case.obs = ([-1], dict(panic=True))
            else:
                shape = [int(x) for x in secs[0][2:]]
                c = [int(x) for x in secs[1][1:]]
                case.obs = ([len(shape)] + shape + c, dict(panic=False, shape=shape, counts=c))

    def _expect(self, axes_k, pts):
        axes = [sorted(set(a)) for a in axes_k]
        shape = [max(len(a) - 1, 0) for a in axes]
        size = 1
        for s in shape:
            size *= s
        counts = [0] * size
        trace = []
        for p in pts:
            if len(p) != len(axes):
                trace.append(("P", list(counts)))
                continue
            bins = [expected_bin(a, v) for a, v in zip(axes, p)]
            if any(b is None for b in bins):
                trace.append(("R", list(counts)))
            else:
                counts[ravel(shape, bins)] += 1
                trace.append(("A", list(counts)))
        return shape, size, trace

    def oracle(self, case):
        flat, st = case.obs
        out = []
        if case.routine == "gridb":
            if st.get("rejected"):
                return []       # the strategy did not accept the data (or panicked): C12's business
            saved = case.obs
            case.obs = st["gridb"]
            try:
                out = gridb_recount(case)
            finally:
                case.obs = saved
            # the same through this property's own recount on the observed (strict) edges
            if not out and all(a == sorted(set(a)) for a in case.axes_k):
                shape, size, trace = self._expect(case.axes_k, case.rows_k)
                want = trace[-1][1] if trace else [0] * size
                if st["shape"] != shape or st["counts"] != want:
                    out.append("counts: %s (shape %s), recount %s (shape %s)" % (st["counts"][:8], st["shape"], want[:8], shape))
            return out
        if case.routine == "hist":
            shape, size, trace = self._expect(case.axes_k, case.pts_k)
            if st["shape"] != shape or st["ndim"] != len(shape):
                out.append("shape: counts shape %s, grid shape %s" % (st["shape"], shape))
            if st["c0"] != [0] * size:
                out.append("init: initial counts %s" % st["c0"])
            for k, ((tag, c), (wtag, wc)) in enumerate(zip(st["steps"], trace)):
                if tag != wtag:
                    out.append("outcome: insert %d reported %s, expected %s" % (k, tag, wtag))
                    break
                if c != wc:
                    out.append("counts: after insert %d counts %s, recount %s" % (k, c, wc))
                    break
        else:
            nax = len(case.axes_k)
            if any(len(r) != nax for r in case.rows_k):
                if not st.get("panic"):
                    out.append("arity: observation matrix with %d columns accepted by a %d-axis grid" % (len(case.rows_k[0]), nax))
                return out
            if st.get("panic"):
                return ["panic: matrix form panicked on rows of the right arity"]
            shape, size, trace = self._expect(case.axes_k, case.rows_k)
            want = trace[-1][1] if trace else [0] * size
            if st["shape"] != shape:
                out.append("shape: counts shape %s, grid shape %s" % (st["shape"], shape))
            if st["counts"] != want:
                out.append("counts: %s, recount %s" % (st["counts"], want))
        return out

    def chk_term(self, case):
        flat, st = case.obs
        if case.routine == "gridb" and (st.get("rejected") or len(case.rows_k) * max(sum(len(a) for a in case.axes_k), 1) > 20000):
            return None
        return "chk (%s) %s" % (self.model_term(case), zlist(flat))

    def model_term(self, case):
        ll = lambda xs: "[" + ";".join(zlist(x) for x in xs) + "]"
        if case.routine == "hist":
            return "m_hist %s %s" % (ll(case.axes_k), ll(case.pts_k))
        if case.routine == "gridb" and not hasattr(case, "axes_k"):
            return None
        return "m_histm %s %s" % (ll(case.axes_k), ll(case.rows_k))

    def nontrivial(self, case):
        flat, st = case.obs
        if case.routine == "gridb":
            return (not st.get("rejected")) and sum(st["counts"]) >= 2
        if case.routine == "hist":
            return len(st["steps"]) >= 2 and any(t == "A" for t, _ in st["steps"])
        return (not st.get("panic")) and sum(st["counts"]) >= 1 and len(case.rows_k) >= 2


PROP = C11()
