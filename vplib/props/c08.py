"""C08 - covariance and Pearson correlation follow their definitions."""
import math
from fractions import Fraction
from ..runner import Prop
from ..core import zlist
from ..layouts import zoo
from ..pyfloat import FP, finite
from .numcommon import mk_num_case, parse_num, model_ints, float_pool, fval, enc_vals

C_BOUND = 64


def proved_cov_bound(et, n, xi, xj, mi, mj, dof):
    """the bound PROVED for binary64 in Num/CovF64.v (C08_cov_entry_error_means_f64) for ANY evaluation order
    of the dot product (fused or not) and of the means, instantiated with tree heights h = hm = n; for
    binary32 the same expression with u = 2^-24, eta = 2^-150 (analogue, not separately proved)"""
    u = Fraction(1, 2 ** 53) if et == "f64" else Fraction(1, 2 ** 24)
    eta = Fraction(1, 2 ** 1075) if et == "f64" else Fraction(1, 2 ** 150)

    def g(k):
        return (1 + u) ** k - 1
    ei = g(n + 1) * sum(abs(v) for v in xi) / n + eta
    ej = g(n + 1) * sum(abs(v) for v in xj) / n + eta
    axy = sum(abs(a - mi) * abs(b - mj) for a, b in zip(xi, xj))
    adi = sum(abs(a - mi) for a in xi)
    adj = sum(abs(b - mj) for b in xj)
    covq = axy + ej * adi + ei * adj + n * ei * ej
    return (g(n + 5) * covq + (1 + g(2)) * (n * ei * ej + n * (1 + g(n)) * eta)) / abs(dof) + eta


class C08(Prop):
    id = "C08"
    imports = ["Run.RunCov", "Run.RunPearson", "Run.RunWelford"]
    coq_batch = 25
    rule = ("2-D arrays of 1..8 variables x 2..64 observations (quick: up to 24), f64 and f32, ddof in {0, 1, fractional < n}, "
            "data styles incl. large common offset, not exactly representable values and (every fourth case) an extreme common "
            "scale 2^+-40..55 (f32) / 2^+-300..450 (f64) of all or all but one variable, C/F/transposed/stepped inputs. cov: "
            "every entry of the implementation's matrix is compared with the reference model evaluated EXACTLY over Q on the "
            "dyadic input values (inside Coq) within the bound PROVED for binary64 in Props/C08_f64.v for every evaluation order of the dot product (fused or not) and of the means (tree heights instantiated by n); an "
            "independent Fraction oracle re-checks it together with symmetry, diagonal >= 0, and for pearson: diagonal 1, "
            "range [-1,1], cov/(sigma sigma), affine invariance and sign flip (each up to roundoff). Non-trivial: >= 2 "
            "variables and >= 3 observations.")
    correspondences = {"cov": "corr:C08/cov/entrywise-bound-against-exact-model", "pearson_correlation": "corr:C08/pearson/entrywise-proved-bound-against-exact-rho (small matrices) + oracle",
                       "nd_std_axis": "corr:C08/ndarray-std_axis/bits (the Welford model the Pearson theorems rest on)"}
    trusted_base = ["ndarray mean_axis / dot (matrixmultiply) / std_axis: their operation order (possibly FMA kernels) is not modelled; entries are compared through a bound, not bit for bit"]
    assumptions = ["cov (f64): the entrywise bound is the one proved in Num/CovF64.v; f32: the same expression with binary32 constants (analogue, not proved); pearson: tolerances ASSUMED", "each variable non-constant for correlation"]

    def gen(self, tier, rng):
        maxobs = 24 if tier == "quick" else 64
        reps = 40 if tier == "quick" else 1200
        for rep in range(reps):
            et = "f64" if rep % 3 else "f32"
            k = rng.range(1, 8 if rng.chance(1, 4) else 4)
            n = rng.range(2, maxobs)
            style = rng.choice([0, 1, 2, 5])
            rows = [float_pool(style, n, rng, et) for _ in range(k)]
            for r in rows:
                if len(set(r)) == 1:
                    r[0] = FP(et).r(r[0] + 1.0)
            if rep % 4 == 3:
                # extreme common scale (an exact power of two): every quantity the documented computation
                # forms (x, cov ~ scale^2, sigma_i sigma_j ~ scale^2) stays representable, anything of
                # magnitude scale^4 or a lost factor does not
                rows = [float_pool(rng.choice([0, 5]), n, rng, et) for _ in range(k)]
                for r in rows:
                    if len(set(r)) == 1:
                        r[0] = FP(et).r(r[0] + 1.0)
                top = max(abs(v) for r in rows for v in r) or 1.0
                E = rng.choice([40, -40, 55, -35] if et == "f32" else [300, -300, 450, -420])
                sh = E - math.frexp(top)[1]
                rows = [[math.ldexp(v, sh) for v in r] for r in rows]
                if k >= 2 and rng.chance(1, 3):
                    rows[0] = [math.ldexp(v, -sh) for v in rows[0]]   # only the other variables are rescaled
            flat = [v for r in rows for v in r]
            lay = rng.choice(zoo([k, n], rng, 3))
            ddof = rng.choice([0.0, 1.0, 0.5, float(n) - 1.5])
            if ddof < 0:
                ddof = 0.0
            dd = enc_vals(et, [ddof])[0]
            grp = "g%d" % rep
            yield mk_num_case("cov", et, [([k, n], flat, lay)], dd, ddof=ddof, k=k, n=n, grp=grp, role="base")
            yield mk_num_case("cov", et, [([k, n], flat, lay)], enc_vals(et, [0.0])[0], ddof=0.0, k=k, n=n, grp=grp, role="cov0")
            pc = mk_num_case("pearson_correlation", et, [([k, n], flat, lay)], "", k=k, n=n, grp=grp, role="base")
            # small matrices of ordinary magnitude are also checked entry by entry against the PROVED bound
            # (Props/C08_f64_pearson.v), evaluated exactly over Q inside Coq (about a second per entry)
            pc.proved_check = (et == "f64" and rep % 4 != 3 and style in (0, 1, 5) and k <= 3 and n <= 8)
            yield pc
            if et == "f64":
                # ndarray's own std_axis on the same rows, against the Welford model (bit for bit)
                yield mk_num_case("nd_std_axis", "f64", [([k, n], flat, lay)], "", k=k, n=n, grp=grp, role="nd_std")
            if k >= 2:
                a, b = rng.range(1, 9) / 2.0, rng.range(-8, 8) / 4.0
                if rep % 4 == 3:
                    b = 0.0   # a shift would swamp (or be swamped by) the extreme scale
                fp = FP(et)
                resc = [[fp.r(fp.r(a * v) + b) for v in rows[0]]] + rows[1:]
                neg = [[-v for v in rows[0]]] + rows[1:]
                yield mk_num_case("pearson_correlation", et, [([k, n], [v for r in resc for v in r], lay)], "", k=k, n=n, grp=grp, role="affine")
                yield mk_num_case("pearson_correlation", et, [([k, n], [v for r in neg for v in r], lay)], "", k=k, n=n, grp=grp, role="neg")

        # small matrices of ordinary magnitude: every entry of pearson_correlation against the PROVED binary64 bound
        # (C08_pearson_check_sound), the exact correlation and the bound evaluated over Q inside Coq
        for rep in range(6 if tier == "quick" else 80):
            k = rng.range(2, 3)
            n = rng.range(3, 7)
            style = rng.choice([0, 1, 5])
            rows = [float_pool(style, n, rng, "f64") for _ in range(k)]
            for r in rows:
                if len(set(r)) < 3:
                    r[0], r[1] = r[0] + 1.0, r[1] - 0.5
            flat = [v for r in rows for v in r]
            lay = rng.choice(zoo([k, n], rng, 2))
            pc = mk_num_case("pearson_correlation", "f64", [([k, n], flat, lay)], "", k=k, n=n, grp="s%d" % rep, role="base")
            pc.proved_check = True
            yield pc
            yield mk_num_case("nd_std_axis", "f64", [([k, n], flat, lay)], "", k=k, n=n, grp="s%d" % rep, role="nd_std")

    def parse(self, case):
        parse_num(case)

    def _rows(self, case):
        k, n = case.k, case.n
        v = case.vals[0]
        return [v[i * n:(i + 1) * n] for i in range(k)]

    def oracle(self, case):
        o = case.obs
        et = case.et
        fp = FP(et)
        if case.routine == "nd_std_axis":
            return []       # not a routine of ndarray-stats: observed only to tie the Welford model to ndarray
        if o["tag"] != "OK":
            return ["error: %s on non-empty input" % o]
        k, n = case.k, case.n
        if o["shape"] != [k, k] or len(o["vals"]) != k * k:
            return ["shape: %s, expected %dx%d" % (o["shape"], k, k)]
        m = [[fval(et, o["vals"][i * k + j]) for j in range(k)] for i in range(k)]
        rows = [[Fraction(v) for v in r] for r in self._rows(case)]
        means = [sum(r) / n for r in rows]
        out = []
        if case.routine == "cov":
            dof = Fraction(n) - Fraction(case.ddof)
            for i in range(k):
                for j in range(k):
                    exact = sum((a - means[i]) * (b - means[j]) for a, b in zip(rows[i], rows[j])) / dof
                    bound = proved_cov_bound(et, n, rows[i], rows[j], means[i], means[j], dof)
                    g = m[i][j]
                    if not finite(g) or abs(Fraction(g) - exact) > bound:
                        return ["value: cov[%d][%d] = %r, definition %r (|err| %.3e > %.3e)" % (i, j, g, float(exact), float(abs(Fraction(g) - exact)) if finite(g) else float("inf"), float(bound))]
                    if abs(Fraction(m[i][j]) - Fraction(m[j][i])) > 2 * bound:
                        return ["symmetry: cov[%d][%d] and cov[%d][%d] differ beyond roundoff" % (i, j, j, i)]
                if dof > 0 and m[i][i] < 0:
                    out.append("sign: cov[%d][%d] = %r is negative" % (i, i, m[i][i]))
        else:
            kap = self._kappa(case)
            sd = [math.sqrt(float(sum((a - means[i]) ** 2 for a in rows[i]))) for i in range(k)]
            for i in range(k):
                for j in range(k):
                    if sd[i] == 0 or sd[j] == 0:
                        continue
                    tol = 64 * (n + 1) * float(fp.u) + 64 * (kap[i] + kap[j])
                    exact = float(sum((a - means[i]) * (b - means[j]) for a, b in zip(rows[i], rows[j]))) / (sd[i] * sd[j])
                    g = m[i][j]
                    if not finite(g) or abs(g - exact) > tol:
                        return out + ["value: pearson[%d][%d] = %r, definition %r (tolerance %.2e)" % (i, j, g, exact, tol)]
                    if abs(g) > 1 + tol:
                        return out + ["range: pearson[%d][%d] = %r outside [-1, 1]" % (i, j, g)]
                    if i == j and abs(g - 1.0) > tol:
                        return out + ["diagonal: pearson[%d][%d] = %r" % (i, i, g)]
        return out

    def extra_checks(self, cases, tier, rng):
        """invariances: positive affine rescaling leaves the coefficients unchanged, negation flips the sign"""
        groups = {}
        for c in cases:
            if c.obs and c.obs.get("tag") == "OK" and c.routine == "pearson_correlation":
                groups.setdefault(c.grp, {})[c.role] = c
        out = []
        for g in groups.values():
            if "base" not in g:
                continue
            b = g["base"]
            fp = FP(b.et)
            k, n = b.k, b.n
            kb = self._kappa(b)
            mb = [fval(b.et, x) for x in b.obs["vals"]]
            for role, sign in (("affine", 1.0), ("neg", -1.0)):
                if role not in g:
                    continue
                mo = [fval(b.et, x) for x in g[role].obs["vals"]]
                ko = self._kappa(g[role])
                for i in range(k):
                    for j in range(k):
                        s = sign if (i == 0) != (j == 0) else 1.0
                        t2 = 128 * (n + 1) * float(fp.u) + 64 * (kb[i] + kb[j] + ko[i] + ko[j])
                        if abs(mo[i * k + j] - s * mb[i * k + j]) > t2:
                            out.append((g[role], "invariance: pearson[%d][%d] after %s = %r, before %r" % (i, j, role, mo[i * k + j], mb[i * k + j])))
                            break
        return out

    def _kappa(self, case):
        """relative centring error of each variable: u * sum|x| / sqrt(sum (x - mean)^2)"""
        u = float(FP(case.et).u)
        out = []
        for r in self._rows(case):
            m = sum(Fraction(x) for x in r) / len(r)
            sd = math.sqrt(float(sum((Fraction(x) - m) ** 2 for x in r)))
            out.append(u * sum(abs(x) for x in r) / sd if sd > 0 else 0.0)
        return out

    def chk_term(self, case):
        if case.obs["tag"] != "OK":
            return None
        if case.routine == "nd_std_axis":
            rows = self._rows(case)
            rl = "[" + ";".join(zlist(model_ints("f64", r)) for r in rows) + "]"
            return "chk_nd_std %s %s" % (rl, zlist(case.obs["vals"]))
        if case.routine == "pearson_correlation" and getattr(case, "proved_check", False):
            k = case.k
            rows = self._rows(case)
            rl = "[" + ";".join(zlist(model_ints("f64", r)) for r in rows) + "]"
            v = case.obs["vals"]
            if len(v) != k * k:
                return "false"
            il = "[" + ";".join(zlist(v[i * k:(i + 1) * k]) for i in range(k)) + "]"
            return "m_pearson_check %s %s" % (rl, il)
        if case.routine != "cov" or case.et != "f64":
            return None
        k, n = case.k, case.n
        rows = self._rows(case)
        rl = "[" + ";".join(zlist(model_ints("f64", r)) for r in rows) + "]"
        v = case.obs["vals"]
        il = "[" + ";".join(zlist(v[i * k:(i + 1) * k]) for i in range(k)) + "]"
        dd = int(enc_vals("f64", [case.ddof])[0])
        return "chk_cov_proved %s %d %s" % (rl, dd, il)

    def model_term(self, case):
        return None

    def nontrivial(self, case):
        return case.k >= 2 and case.n >= 3

    def key(self, case):
        return (case.routine, case.et, tuple(case.vals[0]), case.layouts[0], case.params, case.role)


PROP = C08()
