"""C13 - edges are strictly sorted and bin lookup is left-closed, right-open."""
import itertools
from ..runner import Prop, Case
from ..core import zlist
from ..codec import Codec

USIZE_MAX = 2 ** 64 - 1
ALPHA = [0, 2, 4, 6, 8]
PROBES = list(range(-1, 10))
ETS = ["i64", "u8", "n64", "i128", "i32"]


def vals_for(et, letters):
    """map abstract letters (small ints, possibly -1) to values of the element type"""
    if et == "u8":
        return [x + 1 for x in letters]          # shift so that -1 stays representable
    if et == "n64":
        return [x * 0.25 - 0.5 for x in letters]  # includes -0.75 .. and the value 0.0 / -0.5
    if et == "i128":
        return [x * (2 ** 100) for x in letters]
    return list(letters)


def lst(cd, vals):
    return "%d %s" % (len(vals), " ".join(cd.tok(v) for v in vals))


def mk_bins_case(et, letters, probes, positions):
    cd = Codec(et)
    data = vals_for(et, letters)
    pr = vals_for(et, probes)
    line = "%s | %s | %s | %d %s" % (et, lst(cd, data), lst(cd, pr), len(positions), " ".join(map(str, positions)))
    return Case("bins", " ".join(line.split()), et=et, data_k=[cd.key(v) for v in data], probes_k=[cd.key(v) for v in pr],
                positions=list(positions))


def mk_grid_case(et, axes_letters, pts_letters, idxs):
    cd = Codec(et)
    axes = [vals_for(et, a) for a in axes_letters]
    pts = [vals_for(et, p) for p in pts_letters]
    line = "%s | %d %s | %d %s | %d %s" % (
        et, len(axes), " ".join(lst(cd, a) for a in axes), len(pts), " ".join(lst(cd, p) for p in pts),
        len(idxs), " ".join("%d %s" % (len(ix), " ".join(map(str, ix))) for ix in idxs))
    return Case("grid", " ".join(line.split()), et=et, axes_k=[[cd.key(v) for v in a] for a in axes],
                pts_k=[[cd.key(v) for v in p] for p in pts], idxs=[list(ix) for ix in idxs])


class Reader:
    def __init__(self, toks):
        self.t = toks
        self.i = 0

    def next(self):
        x = self.t[self.i]
        self.i += 1
        return x

    def done(self):
        return self.i >= len(self.t)


def flatten_bins(case, cd):
    """harness output -> the flat encoding RunHist.m_bins produces"""
    secs = [s.split() for s in case.raw.split("|")]
    assert secs[0][0] == "OK"
    n = int(secs[0][1])
    edges = [cd.key_of_tok(x) for x in secs[0][2:2 + n]]
    elen, blen, bempty, consistent = [int(x) for x in secs[1]]
    flat = [n] + edges + [elen, blen, bempty]
    r = Reader(secs[2])
    per_probe = []
    for _ in case.probes_k:
        ent = {}
        if r.next() == "N":
            flat += [0]
            ent["indices"] = None
        else:
            i, j = int(r.next()), int(r.next())
            flat += [1, i, j]
            ent["indices"] = (i, j)
        if r.next() == "N":
            flat += [0]
            ent["index"] = None
        else:
            i = int(r.next())
            flat += [1, i]
            ent["index"] = i
        if r.next() == "N":
            flat += [0]
            ent["range"] = None
        else:
            a, b = cd.key_of_tok(r.next()), cd.key_of_tok(r.next())
            flat += [1, a, b]
            ent["range"] = (a, b)
        per_probe.append(ent)
    r = Reader(secs[3]) if len(secs) > 3 else Reader([])
    per_pos = []
    for _ in case.positions:
        if r.next() == "P":
            flat += [2]
            per_pos.append(None)
        else:
            a, b = cd.key_of_tok(r.next()), cd.key_of_tok(r.next())
            flat += [1, a, b]
            per_pos.append((a, b))
    return flat, dict(edges=edges, elen=elen, blen=blen, bempty=bempty, consistent=consistent, probes=per_probe, pos=per_pos)


def flatten_grid(case, cd):
    secs = [s.split() for s in case.raw.split("|")]
    assert secs[0][0] == "OK"
    ndim = int(secs[0][1])
    shape = [int(x) for x in secs[1][1:]]
    plens = [int(x) for x in secs[2][1:]]
    flat = [ndim, len(shape)] + shape
    r = Reader(secs[3])
    pts = []
    for _ in case.pts_k:
        t = r.next()
        if t == "P":
            flat += [2]
            pts.append("P")
        elif t == "N":
            flat += [0]
            pts.append(None)
        else:
            k = int(r.next())
            idx = [int(r.next()) for _ in range(k)]
            flat += [1, k] + idx
            pts.append(idx)
    r = Reader(secs[4]) if len(secs) > 4 else Reader([])
    rngs = []
    for _ in case.idxs:
        t = r.next()
        if t == "P":
            flat += [2]
            rngs.append("P")
        else:
            k = int(r.next())
            l = []
            for _ in range(k):
                a, b = cd.key_of_tok(r.next()), cd.key_of_tok(r.next())
                l.append((a, b))
            flat += [1, k] + [x for ab in l for x in ab]
            rngs.append(l)
    return flat, dict(ndim=ndim, shape=shape, plens=plens, pts=pts, ranges=rngs)


def expected_bin(edges, v):
    for i in range(len(edges) - 1):
        if edges[i] <= v < edges[i + 1]:
            return i
    return None


class C13(Prop):
    id = "C13"
    imports = ["Run.RunHist"]
    rule = ("every sequence over a 5-letter alphabet of length <= 4 (plus every multiset of size 5) as edge input, probed "
            "at every letter and every half-step below, on, between and above the edges, every by-position access in "
            "0..len+1 and usize::MAX; grids of 1-3 axes with every point over the probe alphabet (<= 2 axes) and every "
            "index tuple, wrong arities included; element types i64/u8/N64/i128/i32. Non-trivial: at least two edges.")
    exhaustive_note = {"quick": "all edge sequences of length <= 4 over 5 letters + all multisets of size 5; grids from 3-letter edge sets",
                       "thorough": "all edge sequences of length <= 5 over 5 letters; grids of up to 3 axes over 4-letter edge sets"}
    correspondences = {"bins": "corr:C13/bins/edges+lookups+accessors", "grid": "corr:C13/grid/shape+index_of+index"}
    trusted_base = ["slice::sort_unstable / Vec::dedup / slice::binary_search (modelled by insertion sort, adjacent dedup and a search uniquely determined on strictly sorted lists)"]
    assumptions = ["Ord is a total order and == agrees with it (true of the integer and N64 element types used)"]

    def gen(self, tier, rng):
        maxlen = 4 if tier == "quick" else 5
        k = 0
        for n in range(0, maxlen + 1):
            for seq in itertools.product(ALPHA, repeat=n):
                k += 1
                et = ETS[k % len(ETS)]
                yield mk_bins_case(et, list(seq), PROBES, list(range(0, n + 2)) + [USIZE_MAX])
        if tier == "quick":
            for ms in itertools.combinations_with_replacement(ALPHA, 5):
                k += 1
                l = list(ms)
                rng.shuffle(l)
                yield mk_bins_case(ETS[k % len(ETS)], l, PROBES, list(range(0, 7)) + [USIZE_MAX])
        # grids
        letters = [0, 4, 8] if tier == "quick" else [0, 2, 4, 8]
        axis_sets = []
        for m in range(0, len(letters) + 1):
            for sub in itertools.combinations(letters, m):
                axis_sets.append(list(sub))
        pr = [-1, 0, 2, 4, 7, 8, 9]
        for nax in (1, 2, 3):
            combos = list(itertools.product(axis_sets, repeat=nax))
            if nax == 3:
                rng.shuffle(combos)
                combos = combos[:60 if tier == "quick" else 600]
            for axes in combos:
                k += 1
                et = ETS[k % len(ETS)]
                if nax <= 2:
                    pts = [list(p) for p in itertools.product(pr, repeat=nax)]
                else:
                    pts = [[rng.choice(pr) for _ in range(nax)] for _ in range(40)]
                pts += [[], [0] * (nax + 1), [4] * (nax - 1)]
                lens = [max(len(set(a)) - 1, 0) for a in axes]
                idxs = [list(ix) for ix in itertools.product(*[range(0, l + 2) for l in lens])][:200]
                idxs += [[], [0] * (nax + 1), [0] * (nax - 1), [USIZE_MAX] * nax]
                yield mk_grid_case(et, [list(a) for a in axes], pts, idxs)

    def parse(self, case):
        cd = Codec(case.et)
        if case.routine == "bins":
            flat, st = flatten_bins(case, cd)
        else:
            flat, st = flatten_grid(case, cd)
        case.obs = (flat, st)

    def oracle(self, case):
        flat, st = case.obs
        out = []
        if case.routine == "bins":
            want = sorted(set(case.data_k))
            if st["edges"] != want:
                out.append("edges: %s, expected the distinct inputs in increasing order %s" % (st["edges"], want))
                return out
            n = len(want)
            if st["elen"] != n or st["blen"] != max(n - 1, 0) or st["bempty"] != (1 if n < 2 else 0):
                out.append("len: edges.len=%d bins.len=%d is_empty=%d for %d edges" % (st["elen"], st["blen"], st["bempty"], n))
            if not st["consistent"]:
                out.append("accessors: Edges constructors / index / as_array_view / is_empty disagree")
            for v, ent in zip(case.probes_k, st["probes"]):
                b = expected_bin(want, v)
                if b is None:
                    if ent["indices"] is not None or ent["index"] is not None or ent["range"] is not None:
                        out.append("lookup: probe %d lies in no bin but got %s" % (v, ent))
                        break
                else:
                    if ent["indices"] != (b, b + 1) or ent["index"] != b or ent["range"] != (want[b], want[b + 1]):
                        out.append("lookup: probe %d belongs to bin %d but got %s" % (v, b, ent))
                        break
            for i, r in zip(case.positions, st["pos"]):
                if i < max(n - 1, 0):
                    if r != (want[i], want[i + 1]):
                        out.append("by-position: bins.index(%d) = %s" % (i, r))
                        break
                elif r is not None:
                    out.append("oob-accepted: bins.index(%d) returned %s with %d bins" % (i, r, max(n - 1, 0)))
                    break
        else:
            axes = [sorted(set(a)) for a in case.axes_k]
            nax = len(axes)
            lens = [max(len(a) - 1, 0) for a in axes]
            if st["ndim"] != nax or st["shape"] != lens or st["plens"] != lens:
                out.append("shape: ndim=%d shape=%s for axes with %s bins" % (st["ndim"], st["shape"], lens))
            for p, r in zip(case.pts_k, st["pts"]):
                if len(p) != nax:
                    if r != "P":
                        out.append("arity: point of %d coordinates accepted by a %d-axis grid" % (len(p), nax))
                        break
                    continue
                bins = [expected_bin(a, v) for a, v in zip(axes, p)]
                want = None if any(b is None for b in bins) else bins
                if r != want:
                    out.append("grid-lookup: point %s -> %s, expected %s" % (p, r, want))
                    break
            for ix, r in zip(case.idxs, st["ranges"]):
                ok = len(ix) == nax and all(i < l for i, l in zip(ix, lens))
                if not ok:
                    if r != "P":
                        out.append("oob-accepted: grid.index(%s) returned %s" % (ix, r))
                        break
                else:
                    want = [(a[i], a[i + 1]) for a, i in zip(axes, ix)]
                    if r != want:
                        out.append("grid-by-position: grid.index(%s) = %s expected %s" % (ix, r, want))
                        break
        return out

    def chk_term(self, case):
        flat, _ = case.obs
        return "chk (%s) %s" % (self.model_term(case), zlist(flat))

    def model_term(self, case):
        if case.routine == "bins":
            return "m_bins %s %s %s" % (zlist(case.data_k), zlist(case.probes_k), zlist(case.positions))
        ll = lambda xs: "[" + ";".join(zlist(x) for x in xs) + "]"
        return "m_grid %s %s %s" % (ll(case.axes_k), ll(case.pts_k), ll(case.idxs))

    def nontrivial(self, case):
        if case.routine == "bins":
            return len(set(case.data_k)) >= 2
        return any(len(set(a)) >= 2 for a in case.axes_k)


PROP = C13()
