"""C17 - every fallible routine reports exactly the documented error."""
import itertools
from ..runner import Prop, Case
from ..core import zlist
from ..codec import f64_bits
from ..layouts import contiguous, fortran, zoo, lay1
from ..nd import prod
from .numcommon import mk_num_case, parse_num, enc_vals
from .c01 import mk_q_case, parse_q
from .c12 import mk_strategy_case, mk_gridb_case

F_SINGLE, F_PAIR, F_PAIR_DDOF, F_PAIR_SUM, F_AXIS, F_AXIS_DDOF, F_AXIS_SUM, F_QUANT, F_PEARSON, F_COV = range(10)

SINGLE = ["mean", "harmonic_mean", "geometric_mean", "kurtosis", "skewness", "central_moment", "central_moments", "entropy"]
DEV = ["count_eq", "count_neq", "sq_l2_dist", "l2_dist", "l1_dist", "linf_dist", "mean_abs_err", "mean_sq_err",
       "root_mean_sq_err", "peak_signal_to_noise_ratio"]
PAIR = ["weighted_mean", "kl_divergence", "cross_entropy"]
QUANT = ["quantiles", "quantile", "quantiles1", "quantile1"]

SHAPES_SELF = [[0], [3], [2, 3], [0, 3], [2, 0], [2, 3, 2], [1]]


def others_for(shape):
    """same shape, different shape with equal element count, different rank-compatible shape, empty/non-empty"""
    outs = [list(shape)]
    n = prod(shape)
    if len(shape) == 2:
        outs.append([shape[1], shape[0]])
        outs.append([shape[0], shape[1] + 1])
    outs.append([n] if len(shape) != 1 else [n + 1])
    outs.append([1, n] if shape != [1, n] else [n, 1])
    outs.append([0] if shape != [0] else [2])
    seen, res = set(), []
    for s in outs:
        if tuple(s) not in seen:
            seen.add(tuple(s))
            res.append(s)
    return res


def fill(et, n, k=1):
    if et in ("f64", "f32"):
        return [0.25 * (i % 5 + k) for i in range(n)]
    return [(i % 5) + k for i in range(n)]


class C17(Prop):
    id = "C17"
    imports = ["Run.RunErr"]
    rule = ("the full decision table: {empty, non-empty} x {same shape, different shape with equal element count, different "
            "rank, longer/shorter} x {valid q, q < 0, q > 1, several invalid, NaN-free} x every fallible public routine "
            "(8 single-input statistics, 10 deviation measures, weighted_mean/sum/var/std and their 4 per-axis forms, "
            "kl/cross entropy, 4 + 1 quantile entry points, cov, pearson, 5 strategy constructors, GridBuilder) x element "
            "types {f64, i32/i64 where the routine exists, N64 for quantiles} x layouts {C, F, stepped}; the observed outcome "
            "(Ok / EmptyInput / ShapeMismatch with both shapes / InvalidQuantile with its q / panic) is compared with the "
            "decision model and with an independent restatement of the property. Non-trivial: the call is an error case.")
    exhaustive_note = {"quick": "the whole table", "thorough": "the whole table, 3 layouts per cell"}
    correspondences = {"*": "corr:C17/decision-table/outcome+payload"}
    trusted_base = ["ndarray shape()/len()/len_of(); the harness maps each error enum to a token"]
    assumptions = ["cov: ddof >= n_observations is the documented panic and is exercised separately (c_ddof_ok = false); known finding K2: cov on shape (0, k), k > 0 returns Ok"]

    # ------------------------------------------------------------------ generation
    def gen(self, tier, rng):
        nlay = 1 if tier == "quick" else 3
        for shape in SHAPES_SELF:
            n = prod(shape)
            lays = ([contiguous(shape), fortran(shape)] + zoo(shape, rng, 2))[:nlay + 1] if n else [contiguous(shape)]
            for la in lays[:nlay]:
                for et in ("f64", "i32"):
                    if et == "i32":
                        singles = ["mean"]
                    else:
                        singles = SINGLE
                    for r in singles:
                        params = "3" if r.startswith("central_moment") else ""
                        yield self._num(r, et, [(shape, fill(et, n), la)], params, F_SINGLE, shape, [], 0)
                    for other in others_for(shape):
                        lb = contiguous(other)
                        m = prod(other)
                        pairs = (DEV + PAIR) if et == "f64" else (DEV[:5] + ["weighted_mean"])
                        for r in pairs:
                            params = ""
                            if r in DEV:
                                params = "0" + (" " + enc_vals(et, [255])[0] if r == "peak_signal_to_noise_ratio" else "")
                            yield self._num(r, et, [(shape, fill(et, n), la), (other, fill(et, m, 2), lb)], params, F_PAIR, shape, other, 0)
                        yield self._num("weighted_sum", et, [(shape, fill(et, n), la), (other, fill(et, m, 2), lb)], "", F_PAIR_SUM, shape, other, 0)
                        if et == "f64":
                            for r in ("weighted_var", "weighted_std"):
                                yield self._num(r, et, [(shape, fill(et, n), la), (other, fill(et, m, 2), lb)],
                                                enc_vals(et, [0.5])[0], F_PAIR_DDOF, shape, other, 0)
                    # per-axis forms: weights of the right / wrong length
                    for axis in range(len(shape)):
                        for wl in sorted(set([shape[axis], shape[axis] + 1, 0, 1])):
                            lw = lay1(wl)
                            yield self._num("weighted_sum_axis", et, [(shape, fill(et, n), la), ([wl], fill(et, wl, 2), lw)], "%d" % axis, F_AXIS_SUM, shape, [wl], axis)
                            yield self._num("weighted_mean_axis", et, [(shape, fill(et, n), la), ([wl], fill(et, wl, 2), lw)], "%d" % axis, F_AXIS, shape, [wl], axis)
                            if et == "f64":
                                for r in ("weighted_var_axis", "weighted_std_axis"):
                                    yield self._num(r, et, [(shape, fill(et, n), la), ([wl], fill(et, wl, 2), lw)],
                                                    "%d %s" % (axis, enc_vals(et, [1.0])[0]), F_AXIS_DDOF, shape, [wl], axis)
                # quantiles
                qsets = [[0.5], [0.0, 1.0], [-0.1], [1.5], [0.5, 2.0, -1.0], [0.2, -0.5, 3.0], [], [float("inf")], [-0.0],
                         [0.5, 1.25, 0.75, -2.0, 0.1, 9.0],
                         # the validity test is exact: the smallest violations on either side are violations
                         [-2.7755575615628914e-17], [0.5, -2.7755575615628914e-17, 7.0], [-5e-324], [1.0000000000000002],
                         [0.25, 1.0000000000000002, -5e-324]]
                for et in ("i64", "n64"):
                    vals = fill("f64" if et == "n64" else "i32", n)
                    for axis in range(len(shape)):
                        for qs in qsets:
                            yield self._quant("quantiles", et, shape, axis, vals, qs, la)
                            if qs:
                                yield self._quant("quantile", et, shape, axis, vals, qs[:1], la)
                    if len(shape) == 1:
                        for qs in qsets:
                            yield self._quant("quantiles1", et, shape, 0, vals, qs, la)
                            if qs:
                                yield self._quant("quantile1", et, shape, 0, vals, qs[:1], la)
                # correlation
                if len(shape) == 2:
                    for ddof, ok in ((-1.0, True), (0.0, shape[1] > 0), (float(shape[1]) + 0.5, False)):
                        yield self._num("cov", "f64", [(shape, fill("f64", n), la)], enc_vals("f64", [ddof])[0], F_COV, shape, [], 0, ddof_ok=ok)
                    yield self._num("pearson_correlation", "f64", [(shape, fill("f64", n), la)], "", F_PEARSON, shape, [], 0)
        # strategies
        for name in ("sqrt", "rice", "sturges", "fd", "auto"):
            for et in ("i32", "n64"):
                for data in ([], [5] * 6, [1, 2, 3, 4, 5, 9], [7]):
                    d = [float(x) / 4 for x in data] if et == "n64" else data
                    c = mk_strategy_case(name, et, d, lay1(len(d)))
                    c.fam, c.expect = "strategy", ("E" if not d else ("S" if len(set(d)) == 1 else None))
                    yield c
            rows = [[1, 10], [2, 20], [3, 30], [4, 50]]
            for variant, expect in ((rows, None), ([], "E"), ([[1, 5], [2, 5], [3, 5]], "S")):
                lay = contiguous([len(variant), 2 if variant else 2])
                c = mk_gridb_case(name, "i32", variant, lay)
                c.fam, c.expect = "strategy", expect
                yield c

    def _num(self, r, et, arrays, params, fam, s1, s2, axis, ddof_ok=True):
        c = mk_num_case(r, et, arrays, params)
        c.fam, c.s1, c.s2, c.axis, c.qs, c.ddof_ok = fam, list(s1), list(s2), axis, [], ddof_ok
        return c

    def _quant(self, routine, et, shape, axis, vals, qs, lay):
        # the q array itself comes in four memory layouts (the first offender is the first in LOGICAL order)
        self._qk = getattr(self, "_qk", 0) + 1
        c = mk_q_case(routine, et, 1, shape, axis, vals, qs, lay, ("P", 0), il=self._qk % 4)
        c.fam, c.s1, c.s2, c.ddof_ok = F_QUANT, list(shape), [], True
        return c

    # ------------------------------------------------------------------ observation
    def parse(self, case):
        if case.fam == F_QUANT:
            parse_q(case)
            o = case.obs
            if o["tag"] == "OK":
                case.flat = [0]
            elif o["tag"] == "ERR":
                case.flat = [1] if o["kind"] == "E" else [3, o["qbits"]]
            elif o["tag"] == "PANIC":
                case.flat = [4]
            else:
                case.flat = [99]
            return
        if case.fam == "strategy":
            head = case.raw.split()
            case.obs = dict(tag=head[0], kind=head[1] if head[0] == "ERR" else None)
            return
        parse_num(case)
        o = case.obs
        if o["tag"] == "OK":
            case.flat = [0]
        elif o["tag"] == "ERR" and o["kind"] == "E":
            case.flat = [1]
        elif o["tag"] == "ERR":
            case.flat = [2, len(o["first"])] + o["first"] + [len(o["second"])] + o["second"]
        elif o["tag"] == "PANIC":
            case.flat = [4]
        else:
            case.flat = [99]

    # ------------------------------------------------------------------ the property, restated
    def oracle(self, case):
        if case.fam == "strategy":
            o = case.obs
            if case.expect == "E":
                return [] if (o["tag"] == "ERR" and o["kind"] == "E") else ["error: empty data must give EmptyInput, got %s" % o]
            if case.expect == "S":
                return [] if (o["tag"] == "ERR" and o["kind"] == "S") else ["error: constant data must give the Strategy error, got %s" % o]
            return [] if o["tag"] in ("OK", "ERR") else ["panic: strategy constructor outcome %s" % o["tag"]]
        flat = case.flat
        s1 = case.s1
        n = prod(s1)
        fam = case.fam
        if fam == F_QUANT:
            bad = [q for q in case.qs if not (0.0 <= q <= 1.0)]
            if bad:
                want = [3, f64_bits(bad[0])]
            elif (s1[case.axis] if s1 else 1) == 0:
                want = [1]
            else:
                want = [0]
        elif fam == F_PEARSON:
            want = [0] if (s1[0] > 0 and s1[1] > 0) else [1]
        elif fam == F_COV:
            if not case.ddof_ok:
                want = [4]
            elif n == 0:
                want = [1]
            else:
                want = [0]
        elif fam in (F_PAIR_SUM,):
            want = [0] if s1 == case.s2 else [2, len(s1)] + s1 + [len(case.s2)] + case.s2
        elif fam == F_AXIS_SUM:
            want = [0] if s1[case.axis] == prod(case.s2) else [2, len(s1)] + s1 + [len(case.s2)] + case.s2
        elif n == 0:
            want = [1]
        elif fam == F_SINGLE:
            want = [0]
        elif fam in (F_PAIR, F_PAIR_DDOF):
            want = [0] if s1 == case.s2 else [2, len(s1)] + s1 + [len(case.s2)] + case.s2
        else:  # F_AXIS, F_AXIS_DDOF
            want = [0] if s1[case.axis] == prod(case.s2) else [2, len(s1)] + s1 + [len(case.s2)] + case.s2
        if flat == want:
            return []
        names = {0: "Ok", 1: "EmptyInput", 2: "ShapeMismatch", 3: "InvalidQuantile", 4: "panic", 99: "?"}
        return ["outcome: %s returned %s %s, documented outcome %s %s" % (case.routine, names.get(flat[0]), flat[1:], names.get(want[0]), want[1:])]

    def known_class(self, case, reasons):
        if case.fam == F_COV and case.s1 and case.s1[0] == 0 and len(case.s1) == 2 and case.s1[1] > 0 and case.ddof_ok:
            return "K2"
        return None

    def chk_term(self, case):
        if case.fam == "strategy":
            return None
        qs = zlist([f64_bits(q) for q in case.qs]) if case.fam == F_QUANT else "[]"
        axis = case.axis if case.fam in (F_AXIS, F_AXIS_DDOF, F_AXIS_SUM, F_QUANT) else 0
        return "chke (m_decide %d %s %s %d %s %s) %s" % (case.fam, zlist(case.s1), zlist(case.s2), axis, qs,
                                                         "true" if case.ddof_ok else "false", zlist(case.flat))

    def model_term(self, case):
        if case.fam == "strategy":
            return None
        qs = zlist([f64_bits(q) for q in case.qs]) if case.fam == F_QUANT else "[]"
        axis = case.axis if case.fam in (F_AXIS, F_AXIS_DDOF, F_AXIS_SUM, F_QUANT) else 0
        return "m_decide %d %s %s %d %s %s" % (case.fam, zlist(case.s1), zlist(case.s2), axis, qs, "true" if case.ddof_ok else "false")

    def nontrivial(self, case):
        if case.fam == "strategy":
            return case.obs.get("tag") == "ERR"
        return case.flat != [0]

    def key(self, case):
        return (case.routine, case.line)

    def coverage_extra(self, cases):
        h = {}
        for c in cases:
            if c.fam != "strategy" and hasattr(c, "flat"):
                k = {0: "Ok", 1: "EmptyInput", 2: "ShapeMismatch", 3: "InvalidQuantile", 4: "panic"}.get(c.flat[0], "?")
                h[k] = h.get(k, 0) + 1
        return {"by_outcome": h, "routines": len(set(c.routine for c in cases))}


PROP = C17()
