"""C04 - NaN-stripped views are sound for every stride and element type."""
import itertools
from ..runner import Prop, Case
from ..core import zlist
from ..codec import Codec
from ..layouts import lay1

NANK = -777777777
NAN64 = 0x7FF8000000000000
NAN32 = 0x7FC00000
# distinct missing values of the float types (quiet NaNs differing in sign and payload): variant j has
# model key NANK - j; the model's znan accepts NANK-15 .. NANK.  Option types have the single None.
NAN64S = [0x7FF8000000000000, 0xFFF8000000000000, 0x7FF8000000000123, 0xFFF800000000BEEF]
NAN32S = [0x7FC00000, 0xFFC00000, 0x7FC00123, 0xFFC0BEEF]
UNKNOWN_NAN = NANK - 9


def is_missing(k):
    return NANK - 15 <= k <= NANK
QUICK_ETS = ["f64", "oi32", "f32", "ou8", "oi128", "on64"]
ALL_ETS = QUICK_ETS + ["ou16", "ou32", "ou64", "ou128", "oi8", "oi16", "oi64", "on32"]


def base_et(et):
    return et[1:] if et.startswith("o") else et


def tok_key(et, v, var=0):
    """v: small positive int or None (missing; var selects the NaN variant of a float type)"""
    if v is None:
        if et == "f64":
            return str(NAN64S[var % 4]), NANK - var % 4
        if et == "f32":
            return str(NAN32S[var % 4]), NANK - var % 4
        return "N", NANK
    b = base_et(et)
    cd = Codec(b)
    t = cd.tok(float(v) * 0.5 - 3 if cd.is_float else v)
    return t, cd.key_of_tok(t)


def mk_remove_case(et, pattern, stride, off, tail, nanvar=0):
    """pattern: list of None / int; nanvar: the i-th element, if missing, is NaN variant (nanvar + i) % 4
    when nanvar > 0, the canonical NaN when nanvar == 0"""
    lay = lay1(len(pattern), stride, off, tail)
    toks, keys = [], []
    for i, v in enumerate(pattern):
        t, k = tok_key(et, v, (nanvar + i) if nanvar else 0)
        toks.append(t)
        keys.append(k)
    gtoks = [tok_key(et, 100 + (k % 20))[0] for k in range(lay.parent_len())]
    gkeys = [tok_key(et, 100 + (k % 20))[1] for k in range(lay.parent_len())]
    buf_t = lay.embed(toks, lambda k: gtoks[k])
    buf_k = lay.embed(keys, lambda k: gkeys[k])
    line = "%s | %s | %d %s" % (et, lay.tokens(), len(buf_t), " ".join(buf_t))
    return Case("remove_nan", " ".join(line.split()), et=et, keys=keys, buf_k=buf_k, lay=lay.view1(), cells=lay.cells())


def key_of(et, tok):
    if tok == "N":
        return NANK
    b = base_et(et)
    if b in ("f64", "n64"):
        bits = int(tok)
        if (bits >> 52) & 0x7FF == 0x7FF and bits & ((1 << 52) - 1):
            return NANK - NAN64S.index(bits) if bits in NAN64S else UNKNOWN_NAN
    if b in ("f32", "n32"):
        bits = int(tok)
        if (bits >> 23) & 0xFF == 0xFF and bits & ((1 << 23) - 1):
            return NANK - NAN32S.index(bits) if bits in NAN32S else UNKNOWN_NAN
    return Codec(b).key_of_tok(tok)


def norm_view(off, n, st):
    return [0 if n == 0 else off, n, st]


class C04(Prop):
    id = "C04"
    imports = ["Run.RunNan"]
    per_case_timeout = 20.0
    rule = ("every missing/non-missing pattern up to the tier's length x view strides {1,2,3,-1,-2,-3} x offsets {0,1} inside "
            "a guarded parent buffer x element types (quick: f32, f64, Option<i32>, Option<u8>, Option<i128>, Option<N64>; "
            "thorough: all fourteen MaybeNan types). MaybeNan::remove_nan_mut is called directly; the returned view is "
            "described by (pointer offset, len, stride) WITHOUT dereferencing it and compared, with the whole parent buffer, "
            "against the model; then the returned prefix is stripped again (idempotence). Non-trivial: the lane has both a "
            "missing and a non-missing element.")
    exhaustive_note = {"quick": "all 2^n patterns, n <= 8, x 6 strides x 2 offsets (element type rotating over 6)",
                       "thorough": "all 2^n patterns, n <= 11, x 6 strides x 2 offsets (element type rotating over 14)"}
    correspondences = {"remove_nan": "corr:C04/remove_nan_mut/returned-view-descriptor+parent-buffer+second-call"}
    trusted_base = ["the pointer offset, len and stride reported by ndarray for the returned view describe the cells it will access (ndarray's view representation)",
                    "what an out-of-bounds or mistyped access does at run time is not modelled: the model exhibits the violated precondition (a returned cell outside the input view or holding a missing value), not its consequence"]
    assumptions = ["the input view satisfies ndarray's invariant for mutable views (distinct cells inside the allocation): wf_view"]

    def gen(self, tier, rng):
        maxn = 8 if tier == "quick" else 11
        ets = QUICK_ETS if tier == "quick" else ALL_ETS
        k = 0
        for n in range(0, maxn + 1):
            for mask in range(1 << n):
                pattern = [None if mask >> i & 1 else i + 1 for i in range(n)]
                for stride in (1, 2, 3, -1, -2, -3):
                    for off in (0, 1):
                        k += 1
                        if n >= 10 and k % 3:
                            continue
                        yield mk_remove_case(ets[k % len(ets)], pattern, stride, off, (k // 7) % 2, nanvar=(k // 3) % 5)
        for _ in range(200 if tier == "quick" else 12000):
            n = rng.range(9, 60)
            dens = rng.choice([1, 2, 5, 9])
            pattern = [None if rng.below(10) < dens else i + 1 for i in range(n)]
            yield mk_remove_case(rng.choice(ets), pattern, rng.choice([1, 2, 3, -1, -2, -3, 5, -4]), rng.below(3), rng.below(2), nanvar=rng.below(5))
        # lane lengths at and around the machine-word sizes (a bitmask or chunked implementation changes behaviour exactly
        # there): 15..17, 31..33, 63..65, 127..129, 255..257, with a missing value in front of a present one
        for n in (15, 16, 17, 31, 32, 33, 63, 64, 65, 127, 128, 129, 255, 256, 257):
            for rep in range(2 if tier == "quick" else 12):
                dens = rng.choice([0, 1, 3, 8])
                pattern = [None if rng.below(10) < dens else (i % 100) + 1 for i in range(n)]     # fits every element type
                if rep % 2 == 0 and n >= 2:
                    pattern[0], pattern[-1] = None, 101
                yield mk_remove_case(rng.choice(ets), pattern, rng.choice([1, -1, 2, -3]), rng.below(2), rng.below(2), nanvar=rng.below(5))

    def corpus(self):
        # D3 witness (fixed): Option lane of stride 2 with pattern [v; None; v]
        return [mk_remove_case("oi32", [1, None, 2], 2, 0, 0), mk_remove_case("oi32", [1, None, 2], -2, 1, 1),
                mk_remove_case("f64", [1, None, 2], 2, 0, 0), mk_remove_case("on64", [None, 1, 2, None, 3], 3, 1, 0),
                # a negative NaN with a payload in front of a value: the swap must keep its bits
                mk_remove_case("f64", [None, 1], 1, 0, 0, nanvar=1), mk_remove_case("f32", [None, None, 1, 2], -1, 1, 0, nanvar=2)]

    def parse(self, case):
        secs = [s.split() for s in case.raw.split("|")]
        et = case.et
        if secs[0][0] != "OK":
            case.obs = ([2], dict(tag=secs[0][0]))
            return
        v1 = [int(x) for x in secs[0][1:4]]
        b1 = [key_of(et, x) for x in secs[1][1:]]
        v2 = [int(x) for x in secs[2][:3]] if secs[2][0] != "PANIC" else None
        b2 = [key_of(et, x) for x in secs[3][1:]]
        if v2 is None:
            case.obs = ([2], dict(tag="PANIC2"))
            return
        flat = [1] + norm_view(*v1) + b1 + norm_view(*v2) + b2
        case.obs = (flat, dict(tag="OK", v1=v1, b1=b1, v2=v2, b2=b2))

    def oracle(self, case):
        flat, st = case.obs
        if st["tag"] != "OK":
            return ["panic: remove_nan_mut outcome %s on a well-formed view" % st["tag"]]
        out = []
        keys, cells, buf = case.keys, case.cells, case.buf_k
        off, n, stride = st["v1"]
        want = [x for x in keys if not is_missing(x)]
        ret_cells = [off + k * stride for k in range(n)]
        if n != len(want):
            out.append("length: returned view has %d elements, %d non-missing in the input" % (n, len(want)))
        if any(c not in cells for c in ret_cells):
            out.append("aliasing: returned view covers cells %s outside the input view's cells %s" % (
                [c for c in ret_cells if c not in cells], cells))
            return out
        got = [st["b1"][c] for c in ret_cells]
        if any(is_missing(x) for x in got):
            out.append("not-nan: a missing value is handed out as a not-NaN element")
        if sorted(got) != sorted(want):
            out.append("multiset: returned elements %s, non-missing input elements %s" % (sorted(got), sorted(want)))
        lane_after = [st["b1"][c] for c in cells]
        if sorted(lane_after) != sorted(keys):
            out.append("lane-multiset: the lane no longer holds its original multiset")
        cs = set(cells)
        if any(st["b1"][c] != buf[c] for c in range(len(buf)) if c not in cs):
            out.append("frame: a cell outside the view was modified")
        if norm_view(*st["v2"]) != norm_view(*st["v1"]) or st["b2"] != st["b1"]:
            out.append("idempotence: stripping the returned prefix again changed the view or the buffer")
        return out

    def chk_term(self, case):
        flat, _ = case.obs
        return "chkl (%s) %s" % (self.model_term(case), zlist(flat))

    def model_term(self, case):
        off, n, st = case.lay
        return "m_remove_nan %s %d %d %s" % (zlist(case.buf_k), off, n, "(%d)" % st if st < 0 else str(st))

    def nontrivial(self, case):
        return any(is_missing(k) for k in case.keys) and any(not is_missing(k) for k in case.keys)

    def key(self, case):
        return (case.et, tuple(case.keys), case.lay)


PROP = C04()
