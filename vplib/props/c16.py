"""C16 - out-of-range positions are always rejected, in-range ones never are."""
import itertools
from ..runner import Prop
from .. import pymodel
from .c02 import (mk_select_case, mk_many_case, parse_sel, oracle_sel, chk_term_sel, model_term_sel, LAYS)
from .c15 import mk_partition_case, parse_part, C15
from .c13 import mk_bins_case, mk_grid_case, C13

USIZE_MAX = 2 ** 64 - 1
_c15 = C15()
_c13 = C13()


class C16(Prop):
    id = "C16"
    imports = ["Run.RunSort", "Run.RunHist"]
    profiles = ("debug", "release")
    rule = ("array lengths 0..8 x positions {in range, n, n+1, 2n, usize::MAX} x pivot scripts (every script for n <= 3, "
            "policies and recorded-random beyond) for selection, bulk selection (index sets mixing in-range and "
            "out-of-range entries in every order) and partitioning; Bins::index and Grid::index for every position in "
            "0..len+2 and usize::MAX and wrong arities; every case in BOTH build profiles (debug: overflow checks and "
            "debug assertions on; release: off). Non-trivial: the request contains an out-of-range position.")
    exhaustive_note = {"quick": "lengths 0..8 x the listed positions, both profiles; every pivot script for n <= 3",
                       "thorough": "same with every pivot script for n <= 4 and 5x the random volume"}
    correspondences = {"select": "corr:C16/select/outcome+parent-buffer", "select_many": "corr:C16/select_many/outcome+parent-buffer",
                       "partition": "corr:C16/partition/outcome+parent-buffer", "bins": "corr:C16/bins/by-position",
                       "grid": "corr:C16/grid/by-position"}
    trusted_base = ["catch_unwind in the harness observes a panic as outcome PANIC (an abort or hang would be reported as ABORT/TIMEOUT and fail the oracle)",
                    "the two cargo profiles of harness/Cargo.toml (debug: overflow-checks + debug-assertions on; release: both off) stand for 'every build profile'"]
    assumptions = ["element type Ord is a total order (i64)"]

    def gen(self, tier, rng):
        full_n = 3 if tier == "quick" else 4
        for profile in self.profiles:
            k = 0
            for n in range(0, 9):
                data = [rng.range(0, 3) * 10 for _ in range(n)]
                positions = sorted(set(list(range(n)) + [n, n + 1, 2 * n, 2 * n + 7, USIZE_MAX]))
                for i in positions:
                    k += 1
                    c = mk_partition_case(data, i, *LAYS[k % 5])
                    c.profile = profile
                    yield c
                    if n <= full_n and i < n:
                        scripts = [("S", list(s)) for s in pymodel.select_scripts(data, i)]
                    elif n <= full_n:
                        # out of range: any prefix of choices the old code could have consumed
                        scripts = [("S", list(s)) for s in itertools.product(range(max(n, 1)), repeat=min(n, 2))][:9] or [("R",)]
                    else:
                        scripts = [("R",), ("P", 0), ("P", 1), ("P", k % 7 + 2)]
                    for mode in scripts:
                        yield mk_select_case(data, i, LAYS[k % 5], mode, profile=profile)
                # index sets mixing in-range and out-of-range entries, in every order
                pool = list(range(min(n, 3))) + [n, n + 1, USIZE_MAX]
                for m in (1, 2, 3):
                    for sub in itertools.permutations(pool, m):
                        k += 1
                        if m == 3 and k % 3:
                            continue
                        mode = rng.choice([("R",), ("P", 0), ("P", 1), ("S", [0] * 6), ("S", [max(n - 1, 0)] * 6)])
                        yield mk_many_case(data, list(sub), LAYS[k % 5], mode, profile=profile)
                yield mk_many_case(data, [], LAYS[0], ("R",), profile=profile)
            # Bins / Grid by position
            for ne in range(0, 5):
                letters = [0, 2, 4, 6][:ne]
                c = mk_bins_case("i64", letters, [1], list(range(0, ne + 3)) + [USIZE_MAX - 1, USIZE_MAX])
                c.profile = profile
                yield c
            for axes in itertools.product([[], [0], [0, 4], [0, 4, 8]], repeat=2):
                lens = [max(len(a) - 1, 0) for a in axes]
                idxs = [list(ix) for ix in itertools.product(range(0, lens[0] + 2), range(0, lens[1] + 2))]
                idxs += [[], [0], [0, 0, 0], [USIZE_MAX, 0], [0, USIZE_MAX]]
                c = mk_grid_case("i64", [list(a) for a in axes], [[1, 1]], idxs)
                c.profile = profile
                yield c
            nrand = 150 if tier == "quick" else 3000
            for _ in range(nrand):
                n = rng.range(0, 40)
                data = [rng.range(-5, 5) for _ in range(n)]
                mode = rng.choice([("R",), ("P", rng.below(9))])
                if rng.chance(1, 2):
                    i = rng.choice([n, n + 1, n + rng.below(100), USIZE_MAX, rng.below(max(n, 1))])
                    yield mk_select_case(data, i, rng.choice(LAYS), mode, profile=profile)
                else:
                    idxs = [rng.below(max(n, 1)) for _ in range(rng.below(5))] + [rng.choice([n, n + 3, USIZE_MAX])]
                    rng.shuffle(idxs)
                    yield mk_many_case(data, idxs, rng.choice(LAYS), mode, profile=profile)

    def corpus(self):
        # D2 witnesses (fixed): array![42].get_from_sorted_mut(7), get_many(&[5]); D1: array![5].partition_mut(0)
        out = []
        for profile in self.profiles:
            out += [mk_select_case([42], 7, LAYS[0], ("R",), profile=profile),
                    mk_many_case([42], [5], LAYS[0], ("R",), profile=profile),
                    mk_select_case([3, 1, 2, 5, 4], 5, LAYS[0], ("S", [4, 3, 2, 1, 0]), profile=profile),
                    mk_many_case([3, 1, 2, 5, 4], [1, 7], LAYS[0], ("S", [0, 0, 0, 0]), profile=profile)]
            c = mk_partition_case([5], 0, 1, 0, 0)
            c.profile = profile
            out.append(c)
        return out

    def parse(self, case):
        if case.routine == "partition":
            parse_part(case)
        elif case.routine in ("bins", "grid"):
            _c13.parse(case)
        else:
            parse_sel(case)

    def oracle(self, case):
        if case.routine == "partition":
            return _c15.oracle(case)
        if case.routine in ("bins", "grid"):
            return [r for r in _c13.oracle(case) if r.startswith("oob-accepted") or r.startswith("by-position")
                    or r.startswith("grid-by-position") or r.startswith("arity")]
        return [r for r in oracle_sel(case) if r.startswith("oob-accepted") or r.startswith("in-range-rejected")]

    def chk_term(self, case):
        if case.routine == "partition":
            return _c15.chk_term(case)
        if case.routine in ("bins", "grid"):
            return _c13.chk_term(case)
        return chk_term_sel(case)

    def model_term(self, case):
        if case.routine == "partition":
            return _c15.model_term(case)
        if case.routine in ("bins", "grid"):
            return _c13.model_term(case)
        return model_term_sel(case)

    def nontrivial(self, case):
        d = case.__dict__
        if case.routine == "select":
            return d["i"] >= len(d["data"])
        if case.routine == "select_many":
            return any(i >= len(d["data"]) for i in d["idxs"])
        if case.routine == "partition":
            return d["p"] >= len(d["data"])
        return True

    def key(self, case):
        return (case.routine, case.line, case.profile)


PROP = C16()
