"""C07 - variance, central moments, skewness and kurtosis agree with exact arithmetic."""
from fractions import Fraction
from ..runner import Prop
from ..core import zlist
from ..layouts import zoo, lay1
from ..nd import prod, lane_positions, result_shape
from ..plans import sum_plan, plan_term
from ..pyfloat import FP, finite
from .numcommon import mk_num_case, parse_num, model_ints, float_pool, fval, enc_vals, plan_of
from .c06 import tab_term

FLOATS = ("f64", "f32")
STAT1 = {"kurtosis": 3, "skewness": 4, "central_moment": 5, "central_moments": 6}
STAT2 = {"weighted_var": 2, "weighted_std": 3}
AXIS = {"weighted_var_axis": 2, "weighted_std_axis": 3}


def k3_class(ws):
    """a non-empty prefix of the weights ending in a non-zero weight sums to zero"""
    s = Fraction(0)
    for w in ws:
        s += Fraction(w)
        if w != 0 and s == 0:
            return True
    return False


class C07(Prop):
    id = "C07"
    imports = ["Num.Kernels", "Run.RunNum"]
    coq_batch = 40
    rule = ("weighted_var/std (+ per-axis), central_moment(p) and central_moments(p) for p = 0..8, skewness, kurtosis over f64 "
            "and f32: bit-for-bit against the Flocq model (West's recurrence, shifted raw moments by powi, binomial "
            "coefficients, Horner) under ndarray's summation plan; ddof in {0, 1/2, 1}; non-uniform, zero and (for the K3 "
            "witness) negative weights; data with large mean relative to spread; lengths 1..40 (quick) / 1..200; 1-3-D, "
            "every axis, mixed layouts. Independent oracle: exact rational arithmetic with the forward-error bound 64 n u x the "
            "condition terms of the proved theorems (Props/C07_f64_west_error.v, Props/C07_f64_moments_error.v; the constant "
            "64 n is the oracle's own, smaller than the proved ones), orders 0 and 1 exact, variance >= 0 for non-negative "
            "weights. "
            "Non-trivial: >= 2 elements.")
    correspondences = {r: "corr:C07/%s/bits" % r for r in list(STAT1) + list(STAT2) + list(AXIS)}
    trusted_base = ["ndarray sum / mapv / map / map_axis (summation plan mirrored in vplib/plans.py)",
                    "compiler-rt powi = square and multiply (Num/Kernels.v powi); checked bit for bit by this run",
                    "Flocq binary64/binary32 under vm_compute = the hardware's IEEE arithmetic"]
    assumptions = ["binary64 forward-error bounds of West's recurrence and of the central moments / kurtosis / skewness are PROVED for the model (explicit constants, Props/C07_f64_*_error.v); the oracle applies the same condition terms with its own constant 64 n (binary32: the same expression with binary32 constants, analogue, not proved)",
                   "known-finding class K3: a non-empty prefix of the weights ending in a non-zero weight sums to zero"]

    def gen(self, tier, rng):
        maxlen = 40 if tier == "quick" else 200
        reps = 40 if tier == "quick" else 1200
        for rep in range(reps):
            for et in FLOATS:
                fp = FP(et)
                nd = rng.range(1, 3)
                shape = [rng.range(1, maxlen if rng.chance(1, 3) else 10)] if nd == 1 else [rng.range(1, 4) for _ in range(nd)]
                n = prod(shape)
                style = rng.choice([0, 1, 2, 3, 5])
                data = float_pool(style, n, rng, et)
                ws = float_pool(5, n, rng, et)
                if rng.chance(1, 3):
                    for _ in range(rng.range(1, 3)):
                        ws[rng.below(n)] = 0.0
                    if rng.chance(1, 2):
                        ws[0] = 0.0
                if sum(ws) == 0:
                    ws[-1] = 1.0
                lays = zoo(shape, rng, 3)
                la, lb = rng.choice(lays), rng.choice(lays)
                ddof = rng.choice([0.0, 0.5, 1.0])
                dd = enc_vals(et, [ddof])[0]
                yield mk_num_case(rng.choice(["weighted_var", "weighted_std"]), et, [(shape, data, la), (shape, ws, lb)], dd, ddof=ddof)
                if nd >= 2 and n >= 4:
                    # both operands contiguous in memory but in different non-row-major orders (F order against an inverted
                    # axis, two different axis permutations): data and weights are still paired by LOGICAL index
                    from ..layouts import contig_variant
                    yield mk_num_case(rng.choice(["weighted_var", "weighted_std"]), et,
                                      [(shape, data, contig_variant(shape, rng)), (shape, ws, contig_variant(shape, rng))], dd, ddof=ddof)
                p = rng.range(0, 8)
                yield mk_num_case("central_moment", et, [(shape, data, la)], "%d" % p, order=p)
                yield mk_num_case("central_moments", et, [(shape, data, la)], "%d" % p, order=p)
                if n >= 2 and len(set(data)) > 1:
                    yield mk_num_case(rng.choice(["kurtosis", "skewness"]), et, [(shape, data, la)])
                for axis in range(nd):
                    N = shape[axis]
                    w1 = float_pool(5, N, rng, et)
                    if rng.chance(1, 4):
                        w1[0] = 0.0
                        if sum(w1) == 0:
                            w1[-1] = 1.0
                    lw = lay1(N, rng.choice([1, 2, -1]), rng.below(2), 0)
                    yield mk_num_case(rng.choice(["weighted_var_axis", "weighted_std_axis"]), et,
                                      [(shape, data, la), ([N], w1, lw)], "%d %s" % (axis, dd), axis=axis, ddof=ddof)

        # extreme scales: every documented quantity (mu_2, mu_3, mu_4, sigma^3, sigma^4 ratios) is representable,
        # but intermediate forms such as mu_2^3 or mu_2^2 * mu_2 are not (the scales keep n |x|^3, resp. n |x|^4, finite)
        for rep in range(10 if tier == "quick" else 300):
            for et in FLOATS:
                n = rng.range(3, 12)
                base = float_pool(0, n, rng, et)
                if len(set(base)) < 2:
                    base[0] += 1.0
                for r, ks in (("skewness", (30, -30) if et == "f32" else (300, -300)), ("kurtosis", (24, -24) if et == "f32" else (240, -240))):
                    k = rng.choice(ks)
                    data = [FP(et).r(x * 2.0 ** k) for x in base]
                    la = rng.choice(zoo([n], rng, 2))
                    yield mk_num_case(r, et, [([n], data, la)])

    def corpus(self):
        from ..layouts import contiguous
        z = enc_vals("f64", [0.0])[0]
        return [
            # D5 witness (fixed): leading zero weight
            mk_num_case("weighted_var", "f64", [([3], [5.0, 7.0, 9.0], contiguous([3])), ([3], [0.0, 1.0, 1.0], contiguous([3]))], z, ddof=0.0),
            mk_num_case("weighted_std", "f64", [([3], [5.0, 7.0, 9.0], contiguous([3])), ([3], [0.0, 0.0, 2.0], contiguous([3]))], z, ddof=0.0),
            # K3 witness (known finding): weights [1, -1, 1]
            mk_num_case("weighted_var", "f64", [([3], [5.0, 7.0, 9.0], contiguous([3])), ([3], [1.0, -1.0, 1.0], contiguous([3]))], z, ddof=0.0),
            # D6 witness (fixed): a weight that absorbs the accumulated weight (fl(2^-100 + 1) = 1) made the running
            # mean overshoot the observation, so the increment w (x - m)(x - m') was negative: variance -5.55e-17
            mk_num_case("weighted_var", "f64", [([2], [-1.0, 1.5 * 2.0 ** -53], contiguous([2])), ([2], [2.0 ** -100, 1.0], contiguous([2]))], z, ddof=0.0),
            mk_num_case("weighted_std", "f64", [([2], [-1.0, 1.5 * 2.0 ** -53], contiguous([2])), ([2], [2.0 ** -100, 1.0], contiguous([2]))], z, ddof=0.0),
            mk_num_case("weighted_var", "f32", [([2], [-1.0, 1.5 * 2.0 ** -24], contiguous([2])), ([2], [2.0 ** -60, 1.0], contiguous([2]))], enc_vals("f32", [0.0])[0], ddof=0.0),
        ] + self._d7_witnesses()

    def _d7_witnesses(self):
        """D7 (fixed): the coefficients of the correction polynomial were the binomials of order p + 1, so the error of
        the computed mean was not cancelled: mean 1e8, unit spread, third central moment off by 1e-9 (1e7 u sum|x - xbar|^3 / n)"""
        from ..layouts import contiguous
        xs = [100000000.25, 100000001.5, 100000002.75, 100000000.0, 100000001.0, 100000002.5, 100000000.75,
              100000001.25, 100000002.0, 100000000.5, 100000001.75]
        out = []
        for p in (2, 3, 4, 5):
            out.append(mk_num_case("central_moment", "f64", [([11], xs, contiguous([11]))], "%d" % p, order=p))
        out.append(mk_num_case("central_moments", "f64", [([11], xs, contiguous([11]))], "5", order=5))
        out.append(mk_num_case("skewness", "f64", [([11], xs, contiguous([11]))]))
        out.append(mk_num_case("kurtosis", "f64", [([11], xs, contiguous([11]))]))
        xs32 = [4096.0 + v for v in (0.25, 1.5, 2.75, 0.0, 1.0, 2.5, 0.75, 1.25, 2.0, 0.5, 1.75)]
        out.append(mk_num_case("central_moment", "f32", [([11], xs32, contiguous([11]))], "3", order=3))
        return out

    def parse(self, case):
        parse_num(case)

    def known_class(self, case, reasons):
        if case.routine in STAT2 or case.routine in AXIS:
            if k3_class(case.vals[1]):
                return "K3"
        return None

    def oracle(self, case):
        o = case.obs
        et = case.et
        if o["tag"] != "OK":
            return ["error: %s on valid non-empty input" % o]
        r = case.routine
        x = case.vals[0]
        out = []
        if r in AXIS:
            lanes = lane_positions(case.shapes[0], case.axis)
            if o["shape"] != result_shape(case.shapes[0], case.axis) or len(o["vals"]) != len(lanes):
                return ["shape: result shape %s" % o["shape"]]
            for ln, got in zip(lanes, o["vals"]):
                out += self._var(et, [x[p] for p in ln], case.vals[1], case.ddof, got, r == "weighted_std_axis")
                if out:
                    break
            return out
        if r in STAT2:
            return self._var(et, x, case.vals[1], case.ddof, o["vals"][0], r == "weighted_std")
        X = [Fraction(v) for v in x]
        n = len(X)
        mean = sum(X) / n
        fp = FP(et)

        def mu(p):
            return sum((v - mean) ** p for v in X) / n

        def amu(p):
            return sum(abs(v - mean) ** p for v in X) / n

        # the error of the computed mean (delta) is cancelled to first order by the Horner correction with the
        # order-p binomial coefficients (defect D7 was exactly that it was not): it enters the bound only through
        # the deviations |x_i - xbar| + delta that the rounding errors are relative to
        scale = max(abs(v) for v in X) if X else Fraction(1)
        delta = 4 * (n + 14) * fp.u * scale

        def amu_d(p):
            return sum((abs(v - mean) + delta) ** p for v in X) / n

        def cm_bound(p):
            return 64 * (n + p) * fp.u * amu_d(p) + Fraction(1, 2 ** (140 if et == "f32" else 1000))

        def check(p, got):
            g = fval(et, got)
            if p == 0:
                return [] if g == 1.0 else ["value: central moment of order 0 is %r, must be exactly 1" % g]
            if p == 1:
                return [] if g == 0.0 else ["value: central moment of order 1 is %r, must be exactly 0" % g]
            if not finite(g):
                return ["value: central moment of order %d not finite" % p]
            bound = cm_bound(p)
            if abs(Fraction(g) - mu(p)) > bound:
                return ["value: central moment order %d = %r, exact %r (|err| %.3e > bound %.3e = 64 (n + p) u (1/n) sum (|x - xbar| + delta)^p)" % (
                    p, g, float(mu(p)), float(abs(Fraction(g) - mu(p))), float(bound))]
            return []

        if r == "central_moment":
            return check(case.order, o["vals"][0])
        if r == "central_moments":
            if len(o["vals"]) != case.order + 1:
                return ["shape: central_moments(%d) returned %d values" % (case.order, len(o["vals"]))]
            for p, got in enumerate(o["vals"]):
                out += check(p, got)
                if out:
                    break
            return out
        # skewness / kurtosis: ratio of moments; loose relative check
        g = fval(et, o["vals"][0])
        m2 = mu(2)
        if m2 == 0:
            return []
        if r == "kurtosis":
            want = float(mu(4)) / float(m2) ** 2
        else:
            want = float(mu(3)) / float(m2) ** 1.5
        b2 = cm_bound(2)
        if 4 * b2 > m2:
            return []       # the variance is not resolved by the arithmetic: no bound on the ratio
        if r == "kurtosis":
            m4 = mu(4)
            tol = float(2 * (cm_bound(4) + 3 * abs(m4) * b2 / m2) / m2 ** 2)
        else:
            m3 = mu(3)
            tol = float(2 * (cm_bound(3) + 3 * abs(m3) * b2 / m2) / (m2 * Fraction(float(m2) ** 0.5)))
        tol += 64 * float(fp.u) * abs(want) + float(Fraction(1, 2 ** (120 if et == "f32" else 900)))
        if not finite(g) or abs(g - want) > tol:
            return ["value: %s = %r, definition gives %r (|err| %.3e > bound %.3e)" % (r, g, want, abs(g - want), tol)]
        return []

    def _var(self, et, x, w, ddof, got, is_std):
        fp = FP(et)
        X = [Fraction(v) for v in x]
        W = [Fraction(v) for v in w]
        sw = sum(W)
        if sw == 0 or sw - Fraction(ddof) == 0:
            return []
        xbar = sum(a * b for a, b in zip(X, W)) / sw
        ssq = sum(b * (a - xbar) ** 2 for a, b in zip(X, W))
        exact = ssq / (sw - Fraction(ddof))
        g = fval(et, got)
        n = len(X)
        if is_std and exact < 0:
            return [] if g != g else ["value: weighted std of a negative variance is %r, expected NaN" % g]
        if not finite(g):
            return ["value: weighted variance/std is %r (definition gives %r)" % (g, float(exact))]
        if all(v >= 0 for v in W) and sw - Fraction(ddof) > 0 and g < 0:
            return ["sign: variance %r is negative with non-negative weights" % g]
        gv = Fraction(g) ** 2 if is_std else Fraction(g)
        scale = max([abs(v) for v in X] + [Fraction(1)])
        aw = sum(abs(v) for v in W)
        cond = (sum(abs(b) * (a - xbar) ** 2 for a, b in zip(X, W)) + 2 * scale * sum(abs(b) * abs(a - xbar) for a, b in zip(X, W))
                + aw * (scale * fp.u * 16) ** 2 * n)
        bound = 64 * (n + 2) * fp.u * cond / abs(sw - Fraction(ddof)) * (3 if is_std else 1) + Fraction(1, 2 ** (120 if et == "f32" else 900))
        if abs(gv - exact) > bound:
            return ["value: weighted %s = %r, definition gives %r (|err| %.3e > bound %.3e)" % (
                "std^2" if is_std else "var", float(gv), float(exact), float(abs(gv - exact)), float(bound))]
        return []

    def chk_term(self, case):
        if case.obs["tag"] != "OK":
            return "false"
        return "chkn (%s) %s" % (self.model_term(case), zlist(case.obs["vals"]))

    def model_term(self, case):
        et, r = case.et, case.routine
        pre = et
        d = zlist(model_ints(et, case.vals[0]))
        if r in STAT1:
            p = getattr(case, "order", 0)
            return "%s_stat1 [] [] %d %s %s %d" % (pre, STAT1[r], plan_of(case, 0), d, p)
        w = zlist(model_ints(et, case.vals[1]))
        plw = plan_of(case, 1)
        dd = int(enc_vals(et, [case.ddof])[0])
        if r in STAT2:
            return "%s_stat2 [] [] %d %s %s %s %d" % (pre, STAT2[r], plw, d, w, dd)
        lanes = lane_positions(case.shapes[0], case.axis)
        ll = "[" + ";".join("[" + ";".join("%d%%nat" % p for p in ln) + "]" for ln in lanes) + "]"
        return "%s_stat_axis [] [] %d %s %s %s %s %d" % (pre, AXIS[r], plw, d, w, ll, dd)

    def nontrivial(self, case):
        return len(case.vals[0]) >= 2

    def key(self, case):
        return (case.routine, case.et, tuple(map(tuple, case.vals)), tuple(case.layouts), case.params)


PROP = C07()
