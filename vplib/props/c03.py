"""C03 - in-place routines only permute the lanes they were given."""
from ..runner import Prop
from ..layouts import zoo, lay1
from ..nd import prod, lane_positions
from ..core import zlist, z
from ..codec import f64_bits, f64_key
from .c15 import mk_partition_case, parse_part, C15
from .c02 import mk_select_case, mk_many_case, parse_sel, chk_term_sel, model_term_sel, LAYS
from .c01 import mk_q_case, parse_q, C01
from .c04 import mk_remove_case, C04, NANK
from .c14 import mk_case as mk_nan_case, mk_qsk_case, C14

_c15, _c01, _c04, _c14 = C15(), C01(), C04(), C14()


class C03(Prop):
    id = "C03"
    imports = ["Run.RunSort", "Run.RunQuant", "Run.RunNan"]
    coq_batch = 250
    rule = ("every mutating public routine - partition_mut, get_from_sorted_mut, get_many_from_sorted_mut, quantile(s)_axis_mut, "
            "quantile(s)_mut, quantile_axis_skipnan_mut, remove_nan_mut, map_axis_skipnan_mut - called on "
            "views into guarded parent allocations over the layout zoo (offset, stepped, reversed, permuted axes), 1-4 "
            "dimensions, every axis, with heavy duplicates; the ENTIRE parent buffer after the call is compared with the "
            "model's buffer; independent oracle: every cell outside the view is unchanged and every lane holds the multiset "
            "it held. Non-trivial: the call moved at least one element.")
    correspondences = {"*": "corr:C03/<routine>/whole-parent-buffer"}
    trusted_base = ["ndarray: swap, indexing, slice_axis_mut, lanes_mut, map_axis_mut touch only cells of the view they are called on (the unsafe pointer code that bypasses this is modelled in C04)"]
    assumptions = ["views satisfy ndarray's aliasing invariant (distinct cells inside the allocation)"]

    def gen(self, tier, rng):
        reps = 120 if tier == "quick" else 5000
        for _ in range(reps):
            n = rng.range(1, 24)
            data = [rng.range(0, 6) for _ in range(n)]
            lay = rng.choice(LAYS)
            mode = rng.choice([("R",), ("P", 0), ("P", 1), ("P", 2), ("S", [rng.below(n) for _ in range(8)])])
            yield self._tag(mk_partition_case(data, rng.below(n), *lay), "part")
            yield self._tag(mk_select_case(data, rng.below(n), lay, mode), "sel")
            yield self._tag(mk_many_case(data, [rng.below(n) for _ in range(rng.range(0, 5))], lay, mode), "sel")
        for _ in range(reps):
            nd = rng.range(1, 4)
            shape = [rng.range(1, 4) for _ in range(nd)]
            n = prod(shape)
            et = rng.choice(["i32", "i64", "u8", "n64"])
            vals = [rng.range(0, 5) for _ in range(n)] if et != "n64" else [rng.range(0, 5) * 0.5 for _ in range(n)]
            axis = rng.below(nd)
            N = shape[axis]
            qs = [rng.choice([0.0, 0.25, 0.5, 0.75, 1.0, 0.33]) for _ in range(rng.range(1, 3))]
            lay = rng.choice(zoo(shape, rng, 4))
            strat = rng.below(5)
            rt = rng.choice(["quantiles", "quantile"])
            yield self._tag(mk_q_case(rt, et, strat, shape, axis, vals, qs if rt == "quantiles" else qs[:1], lay, ("P", rng.below(3))), "q")
            # NaN-related
            net = rng.choice(["f64", "oi32", "f32", "ou64"])
            nvals = [None if rng.chance(1, 3) else rng.range(1, 6) for _ in range(n)]
            yield self._tag(mk_nan_case("skipnan_axis", net, shape, nvals, lay, axis), "nan_axis")
            qet = rng.choice(["f64", "oi32"])
            qvals = [None if rng.chance(1, 3) else (rng.range(-6, 6) if qet == "oi32" else rng.range(-6, 6) * 0.25) for _ in range(n)]
            yield self._tag(mk_qsk_case(qet, rng.below(5), shape, qvals, rng.choice([0.0, 0.3, 0.5, 1.0]), rng.choice(zoo(shape, rng, 4)), axis, ("P", rng.below(3))), "qsk")
        for _ in range(reps):
            n = rng.range(0, 16)
            pattern = [None if rng.chance(1, 3) else i + 1 for i in range(n)]
            yield self._tag(mk_remove_case(rng.choice(["f64", "oi32", "ou8", "on64", "f32", "oi128"]), pattern,
                                           rng.choice([1, 2, 3, -1, -2, -3]), rng.below(3), rng.below(2), nanvar=rng.below(5)), "rm")
        # lanes of word-size length (32, 64, 128 and their neighbours), missing value first, present value last
        for n in (31, 32, 33, 63, 64, 65, 128):
            pattern = [None if rng.chance(1, 4) else i + 1 for i in range(n)]
            pattern[0], pattern[-1] = None, n
            yield self._tag(mk_remove_case(rng.choice(["f64", "oi32", "on64", "f32"]), pattern, rng.choice([1, -1, 2]), rng.below(2), rng.below(2),
                                           nanvar=rng.below(5)), "rm")
            qvals = [None if rng.chance(1, 4) else rng.range(-6, 6) * 0.25 for _ in range(2 * n)]
            qvals[0], qvals[n - 1] = None, 1.25
            yield self._tag(mk_qsk_case("f64", rng.below(5), [2, n], qvals, 0.5, rng.choice(zoo([2, n], rng, 2)), 1, ("P", rng.below(3))), "qsk")

        # element types whose order is coarser than identity: N64 lanes holding BOTH zeros (-0.0 == 0.0, different bits).
        # Equal elements are not interchangeable: the lane must keep every bit pattern it held.
        for _ in range(60 if tier == "quick" else 2500):
            n = rng.range(2, 9)
            pool = [0.0, -0.0, 0.0, -0.0, -1.0, 0.5, -2.5, 1.0]
            data = [f64_bits(pool[rng.below(rng.choice([4, 5, 8]))]) for _ in range(n)]
            if rng.chance(1, 2) and n >= 3:
                # one zero in front, the other zero chosen as the pivot, something strictly smaller in between
                data[0], data[-1], data[1] = f64_bits(0.0), f64_bits(-0.0), f64_bits(-1.0)
            lay = rng.choice(LAYS)
            p = (n - 1) if rng.chance(1, 2) else rng.below(n)
            c = self._tag(mk_partition_case(data, p, *lay, et="n64"), "part")
            c.half = True
            yield c
            mode = rng.choice([("P", 1), ("P", 0), ("S", [n - 1, 0, 0, 0]), ("S", [rng.below(n) for _ in range(6)])])
            c = self._tag(mk_select_case(data, rng.below(n), lay, mode, et="n64"), "sel")
            c.half = True
            yield c

    def _tag(self, case, kind):
        case.kind = kind
        return case

    def parse(self, case):
        {"part": parse_part, "sel": parse_sel, "q": parse_q}.get(case.kind, lambda c: None)(case)
        if case.kind == "rm":
            _c04.parse(case)
        elif case.kind in ("nan_axis", "qsk"):
            _c14.parse(case)

    def _post(self, case):
        k = case.kind
        if k == "part":
            return case.obs[2], case.buf, [case.cells], case.cells
        if k == "sel":
            return case.obs[2], case.buf, [case.cells], case.cells
        if k == "q":
            lanes = lane_positions(case.shape, case.axis)
            return case.obs.get("post"), case.buf_m, [[case.cells[p] for p in ln] for ln in lanes], case.cells
        if k == "rm":
            st = case.obs[1]
            return (st.get("b1") if st.get("tag") == "OK" else None), case.buf_k, [case.cells], case.cells
        st = case.obs[1]
        lanes = lane_positions(case.shape, case.axis)
        pre = case.buf_m if k == "qsk" else case.buf_k
        return (st.get("post") if st.get("tag") == "OK" else None), pre, [[case.cells[p] for p in ln] for ln in lanes], case.cells

    def oracle(self, case):
        post, pre, lanes, cells = self._post(case)
        if post is None:
            return []   # the call was rejected (C16/C17 decide whether rightly); nothing to compare
        out = []
        cs = set(cells)
        for c in range(len(pre)):
            if c not in cs and post[c] != pre[c]:
                out.append("frame: parent cell %d outside the view was modified" % c)
                break
        for ln in lanes:
            if sorted(post[c] for c in ln) != sorted(pre[c] for c in ln):
                out.append("lane-multiset: a lane no longer holds the multiset it held (an element moved between lanes or was lost)")
                break
        return out

    def chk_term(self, case):
        k = case.kind
        if getattr(case, "half", False):
            return self._chk_half(case)
        if k == "part":
            return _c15.chk_term(case)
        if k == "sel":
            return chk_term_sel(case)
        if k == "q":
            return _c01.chk_term(case)
        if k == "rm":
            return _c04.chk_term(case)
        return _c14.chk_term(case)

    @staticmethod
    def _enc2(bits):
        """2 * (order-preserving key of the double) + (1 for -0.0): the model orders by the key only"""
        return 2 * f64_key(bits) + (1 if bits == 0x8000000000000000 else 0)

    def _chk_half(self, case):
        e = self._enc2
        off, n, st = case.lay
        buf = zlist([e(b) for b in case.buf])
        if case.kind == "part":
            tag, k, post = case.obs
            if tag == "OK":
                o = "(OP_Ok %s %s)" % (z(k), zlist([e(b) for b in post]))
            elif tag == "PANIC" and post is not None:
                o = "(OP_Panic %s)" % zlist([e(b) for b in post])
            else:
                return "false"
            return "chk_partition_half %s %s %s %s %s %s" % (buf, z(off), z(n), z(st), z(case.p), o)
        tag, val, post, plog = case.obs
        if post is None:
            return "false"
        script = zlist([c for (_, c) in plog])
        if tag == "OK":
            o = "(OS_Ok %s %s %d)" % (z(e(val)), zlist([e(b) for b in post]), len(plog))
        elif tag == "PANIC":
            o = "(OS_Panic %s)" % zlist([e(b) for b in post])
        else:
            return "false"
        return "chk_select_half %s %s %s %s %s %s %s" % (buf, z(off), z(n), z(st), z(case.i), script, o)

    def model_term(self, case):
        if getattr(case, "half", False):
            e = self._enc2
            off, n, st = case.lay
            buf = zlist([e(b) for b in case.buf])
            if case.kind == "part":
                return "m_partition_half %s %s %s %s %s" % (buf, z(off), z(n), z(st), z(case.p))
            script = zlist([c for (_, c) in (case.obs[3] if case.obs else [])])
            return "m_select_half %s %s %s %s %s %s" % (buf, z(off), z(n), z(st), z(case.i), script)
        k = case.kind
        if k == "part":
            return _c15.model_term(case)
        if k == "sel":
            return model_term_sel(case)
        if k == "q":
            return _c01.model_term(case)
        if k == "rm":
            return _c04.model_term(case)
        return _c14.model_term(case)

    def known_class(self, case, reasons):
        return None

    def nontrivial(self, case):
        post, pre, lanes, cells = self._post(case)
        return post is not None and post != pre

    def key(self, case):
        return (case.routine, case.line)

    def coverage_extra(self, cases):
        h = {}
        for c in cases:
            h[c.kind] = h.get(c.kind, 0) + 1
        return {"by_kind": h}


PROP = C03()
