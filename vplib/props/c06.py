"""C06 - means and weighted sums agree with exact arithmetic."""
from fractions import Fraction
from ..runner import Prop
from ..core import zlist
from ..layouts import zoo, contiguous, lay1
from ..nd import prod, lane_positions, result_shape
from ..plans import sum_plan, plan_term, std_plan
from ..pyfloat import FP, finite
from .numcommon import mk_num_case, parse_num, model_ints, float_pool, fval, mk_alias_case, alias_pairs, plan_of

FLOATS = ("f64", "f32")
INTS = ("i32", "i64", "u64", "usize")
STAT1 = {"mean": 0, "harmonic_mean": 1, "geometric_mean": 2}
STAT2 = {"weighted_sum": 0, "weighted_mean": 1}
AXIS = {"weighted_sum_axis": 0, "weighted_mean_axis": 1}


def tab_term(tab):
    return "[" + ";".join("(%d, %d)" % kv for kv in tab) + "]"


def trunc_div(a, b):
    q = abs(a) // abs(b)
    return q if (a >= 0) == (b >= 0) else -q


class C06(Prop):
    id = "C06"
    imports = ["Num.Kernels", "Run.RunNum"]
    coq_batch = 60
    rule = ("mean, weighted_sum, weighted_mean, their per-axis forms, harmonic_mean and geometric_mean over f64/f32 (bit-for-bit "
            "against the Flocq model under ndarray's layout-dependent summation plan; libm ln/exp through oracle tables "
            "recorded from the implementation's own libm) and i32/i64/u64/usize (exact, the type's truncating division); "
            "inputs in six conditioning styles (halves, decimal fractions, large common offset, cancelling signs, "
            "magnitudes 2^+-200, positive), lengths 1..60 (quick) / 1..300 (thorough), 1-3 dimensions, every axis, data and "
            "weights in independently drawn layouts. Independent oracle: exact rational arithmetic with the proved "
            "summation bound. Non-trivial: >= 2 elements.")
    correspondences = {r: "corr:C06/%s/bits-or-exact" % r for r in list(STAT1) + list(STAT2) + list(AXIS)}
    trusted_base = ["ndarray ArrayBase::sum / map / mapv / map_axis / mapv_inplace (the summation plan mirrored in vplib/plans.py; a wrong mirror shows as a bit mismatch)",
                    "libm ln/exp: oracle tables from the implementation's libm, each entry checked against 50-digit decimal arithmetic (<= 1 ulp)",
                    "Flocq binary64/binary32 under vm_compute = the hardware's IEEE arithmetic"]
    assumptions = ["integer sums do not overflow (generator stays inside)", "float bound: gamma_(2n+24) * sum|terms| for sums (proved for the binary64 model, Num/SumF64.v); one extra rounding per division"]

    def gen(self, tier, rng):
        maxlen = 60 if tier == "quick" else 300
        reps = 14 if tier == "quick" else 400
        for rep in range(reps):
            for et in FLOATS + INTS:
                nd = rng.range(1, 3)
                if nd == 1:
                    shape = [rng.range(1, maxlen if rng.chance(1, 3) else 12)]
                else:
                    shape = [rng.range(1, 5) for _ in range(nd)]
                n = prod(shape)
                style = rng.below(6)
                if et in FLOATS:
                    data = float_pool(style, n, rng, et)
                    ws = float_pool(5 if rng.chance(2, 3) else style, n, rng, et)
                else:
                    lo = 0 if et in ("u64", "usize") else -1000
                    data = [rng.range(lo, 1000) for _ in range(n)]
                    ws = [rng.range(0 if lo == 0 else -5, 9) for _ in range(n)]
                    if sum(ws) == 0:
                        ws[0] += 1
                lays = zoo(shape, rng, 3)
                la, lb = rng.choice(lays), rng.choice(lays)
                yield mk_num_case("mean", et, [(shape, data, la)])
                yield mk_num_case("weighted_sum", et, [(shape, data, la), (shape, ws, lb)])
                yield mk_num_case("weighted_mean", et, [(shape, data, la), (shape, ws, lb)])
                if et in FLOATS:
                    pos = [abs(x) + 0.25 for x in data]
                    pos = [FP(et).r(x) for x in pos]
                    yield mk_num_case("harmonic_mean", et, [(shape, pos, la)])
                    yield mk_num_case("geometric_mean", et, [(shape, float_pool(5, n, rng, et), la)])
                for axis in range(nd):
                    N = shape[axis]
                    w1 = ws[:N] if et in INTS else float_pool(5, N, rng, et)
                    if et in INTS and sum(w1) == 0:
                        w1[0] += 1
                    lw = lay1(N, rng.choice([1, 2, -1]), rng.below(2), 0)
                    yield mk_num_case("weighted_sum_axis", et, [(shape, data, la), ([N], w1, lw)], "%d" % axis, axis=axis)
                    yield mk_num_case("weighted_mean_axis", et, [(shape, data, la), ([N], w1, lw)], "%d" % axis, axis=axis)

        # geometric (and harmonic) mean where the product (the sum of reciprocals) of the data is not
        # representable although the mean is: many small factors, few huge ones
        for rep in range(4 if tier == "quick" else 100):
            for et in FLOATS:
                fp = FP(et)
                hi, lo = (1e200, 1e-200) if et == "f64" else (1e30, 1e-30)
                n = rng.range(2, 6)
                for data in ([fp.r(hi * rng.range(1, 9)) for _ in range(n)], [fp.r(lo * rng.range(1, 9)) for _ in range(n)],
                             [fp.r(rng.range(1, 9) / 64.0) for _ in range(rng.range(300, 400) if et == "f64" else rng.range(40, 60))]):
                    la = rng.choice(zoo([len(data)], rng, 2))
                    yield mk_num_case("geometric_mean", et, [([len(data)], data, la)])
                    yield mk_num_case("harmonic_mean", et, [([len(data)], data, la)])

        # a zero (or +inf) among positive data, at the front, in the middle and at the end: ln 0 = -inf resp. 1/0 = +inf are
        # legitimate intermediate values; the geometric mean is 0 (+inf), the harmonic mean 0 (the mean of the finite part)
        for rep in range(3 if tier == "quick" else 60):
            for et in FLOATS:
                fp = FP(et)
                n = rng.range(2, 7)
                base = [fp.r(rng.range(1, 40) / 4.0) for _ in range(n)]
                for special in (0.0, float("inf")):
                    for pos in sorted(set([0, n // 2, n - 1])):
                        data = list(base)
                        data[pos] = special
                        shape = [n] if rep % 2 == 0 or n % 2 else [2, n // 2]
                        la = rng.choice(zoo(shape, rng, 2))
                        yield mk_num_case("geometric_mean", et, [(shape, data, la)])
                        yield mk_num_case("harmonic_mean", et, [(shape, data, la)])

        # data and weights as two views into ONE allocation
        for rep in range(6 if tier == "quick" else 200):
            for et in FLOATS + INTS:
                nd = rng.range(1, 2)
                side = rng.range(2, 4)
                shape = [side] * nd
                for (la, lb) in alias_pairs(shape, rng)[:3]:
                    m = la.parent_len()
                    pbuf = float_pool(5, m, rng, et) if et in FLOATS else [rng.range(1, 9) for _ in range(m)]
                    yield mk_alias_case("weighted_sum", et, pbuf, la, lb)
                    yield mk_alias_case("weighted_mean", et, pbuf, la, lb)

    def parse(self, case):
        parse_num(case)

    # ---- libm tables -------------------------------------------------------------------------
    def post_run(self, cases, run):
        lines = []
        need = []
        for c in cases:
            if c.routine != "geometric_mean" or c.obs is None:
                continue
            fp = FP(c.et)
            args = [fp.bits(x) for x in c.vals[0]]
            need.append((c, args))
            lines.append((c.cid + "L", "libm ln %s | %d %s" % (c.et, len(args), " ".join(map(str, args)))))
        res = run(lines) if lines else {}
        exps = []
        for c, args in need:
            out = res.get(c.cid + "L", "").split()
            vals = [int(x) for x in out[2:]] if out[:1] == ["OK"] else []
            c.ln_tab = list(zip(args, vals))
            # argument of exp = mean of the logs under the plan of the mapped array
            fp = FP(c.et)
            lnv = [fp.val(v) for v in vals]
            pl = sum_plan(c._lays[0])
            plm = pl if pl[0] == "mem" else std_plan(len(lnv))
            m = fp.div(fp.nd_sum(plm, lnv), fp.r(float(len(lnv)))) if lnv else 0.0
            c.exp_arg = fp.bits(m)
            exps.append((c.cid + "E", "libm exp %s | 1 %d" % (c.et, c.exp_arg)))
        res2 = run(exps) if exps else {}
        for c, _ in need:
            out = res2.get(c.cid + "E", "").split()
            c.exp_tab = [(c.exp_arg, int(out[2]))] if out[:1] == ["OK"] else []

    # ---- oracle ---------------------------------------------------------------------------------
    def oracle(self, case):
        o = case.obs
        et = case.et
        if o["tag"] != "OK":
            return ["error: %s on valid non-empty input" % o]
        out = []
        r = case.routine
        a = case.vals[0]
        n = len(a)
        if r in AXIS:
            axis = case.axis
            lanes = lane_positions(case.shapes[0], axis)
            if o["shape"] != result_shape(case.shapes[0], axis) or len(o["vals"]) != len(lanes):
                return ["shape: result shape %s" % o["shape"]]
            w = case.vals[1]
            for ln, got in zip(lanes, o["vals"]):
                x = [a[p] for p in ln]
                out += self._check_scalar(et, "weighted_sum" if r == "weighted_sum_axis" else "weighted_mean", x, w, got)
                if out:
                    break
            return out
        if len(o["vals"]) != 1:
            return ["shape: scalar expected"]
        return self._check_scalar(et, r, a, case.vals[1] if len(case.vals) > 1 else None, o["vals"][0])

    def _check_scalar(self, et, r, x, w, got):
        n = len(x)
        if et in INTS:
            if r == "mean":
                want = trunc_div(sum(x), n)
            elif r == "weighted_sum":
                want = sum(a * b for a, b in zip(x, w))
            else:
                want = trunc_div(sum(a * b for a, b in zip(x, w)), sum(w))
            return [] if got == want else ["value: %s = %d, exact integer arithmetic gives %d" % (r, got, want)]
        fp = FP(et)
        g = fval(et, got)
        X = [Fraction(v) for v in x] if all(finite(v) for v in x) else None
        if X is None and r not in ("harmonic_mean", "geometric_mean"):
            return []
        if r == "mean":
            exact, mag = sum(X) / n, sum(abs(v) for v in X) / n
        elif r == "weighted_sum":
            W = [Fraction(v) for v in w]
            exact, mag = sum(a * b for a, b in zip(X, W)), sum(abs(a * b) for a, b in zip(X, W))
        elif r == "weighted_mean":
            W = [Fraction(v) for v in w]
            sw = sum(W)
            if sw == 0:
                return []
            exact = sum(a * b for a, b in zip(X, W)) / sw
            kappa = sum(abs(v) for v in W) / abs(sw)
            mag = sum(abs(a * b) for a, b in zip(X, W)) / abs(sw) * (1 + kappa)
        elif r == "harmonic_mean":
            xs = [float(v) for v in x]
            if any(v == 0 for v in xs):
                if all(v >= 0 for v in xs):
                    # 1/0 = +inf dominates the sum of reciprocals: the harmonic mean of non-negative data with a zero is 0
                    return [] if g == 0.0 else ["value: harmonic_mean of non-negative data containing a zero = %r, expected 0" % g]
                return []
            s = sum(1 / Fraction(v) for v in xs if v != float("inf") and v != float("-inf"))
            if s == 0:
                return []
            exact, mag = n / s, n / s
        else:
            # geometric mean of positive data: exp(mean ln x) in double precision; a relative error of
            # (n + 16) * 8u * (1 + mean |ln x|) covers the rounding of the log-sum and of exp
            import math
            if all(v >= 0 for v in x) and any(v == 0 for v in x) and not any(v == float("inf") for v in x):
                return [] if g == 0.0 else ["value: geometric_mean of non-negative data containing a zero = %r, expected 0" % g]
            if all(v > 0 for v in x) and any(v == float("inf") for v in x):
                return [] if g == float("inf") else ["value: geometric_mean of positive data containing +inf = %r, expected +inf" % g]
            if any(v <= 0 or v != v or v in (float("inf"),) for v in x):
                return []
            lns = [math.log(v) for v in x]
            ml = math.fsum(lns) / n
            top = 88.0 if et == "f32" else 709.0
            if not (-top + 2 < ml < top - 2):
                return []
            want = math.exp(ml)
            rel = (n + 16) * 8 * float(fp.u) * (1 + math.fsum(abs(t) for t in lns) / n)
            if not finite(g) or abs(g - want) > rel * want:
                return ["value: geometric_mean = %r, exp(mean ln x) = %r" % (g, want)]
            return []
        if not finite(g):
            # a partial sum may leave the format as soon as the sum of the absolute values of the terms being added does
            # (the property's bound is relative to exactly that sum): only then is a non-finite result acceptable
            big = Fraction(2) ** (120 if et == "f32" else 1000)
            if r in ("weighted_sum", "weighted_mean") and w is not None:
                raw = sum(abs(a * Fraction(b)) for a, b in zip(X, w))
            elif r == "harmonic_mean":
                raw = abs(exact)
            else:
                raw = sum(abs(v) for v in X)
            return [] if (abs(exact) > big or raw > big) else ["value: %s returned a non-finite value" % r]
        tiny = Fraction(1, 2 ** (140 if et == "f32" else 1060))
        bound = (2 * n + 30) * fp.u * mag * 2 + tiny * (n + 2)
        if abs(Fraction(g) - exact) > bound:
            return ["value: %s = %r, exact %r, |error| %.3e exceeds the bound %.3e" % (r, g, float(exact), float(abs(Fraction(g) - exact)), float(bound))]
        return []

    # ---- model ----------------------------------------------------------------------------------
    def chk_term(self, case):
        if case.obs["tag"] != "OK":
            return "false"
        return "chkn (%s) %s" % (self.model_term(case), zlist(case.obs["vals"]))

    def model_term(self, case):
        et, r = case.et, case.routine
        pre = {"f64": "f64", "f32": "f32"}.get(et, "z")
        tabs = ""
        if pre != "z":
            tabs = " %s %s" % (tab_term(getattr(case, "ln_tab", [])), tab_term(getattr(case, "exp_tab", [])))
        d = zlist(model_ints(et, case.vals[0]))
        if r in STAT1:
            return "%s_stat1%s %d %s %s 0" % (pre, tabs, STAT1[r], plan_of(case, 0), d)
        w = zlist(model_ints(et, case.vals[1]))
        plw = plan_of(case, 1)
        if r in STAT2:
            return "%s_stat2%s %d %s %s %s 0" % (pre, tabs, STAT2[r], plw, d, w)
        lanes = lane_positions(case.shapes[0], case.axis)
        ll = "[" + ";".join("[" + ";".join("%d%%nat" % p for p in ln) + "]" for ln in lanes) + "]"
        return "%s_stat_axis%s %d %s %s %s %s 0" % (pre, tabs, AXIS[r], plw, d, w, ll)

    def nontrivial(self, case):
        return len(case.vals[0]) >= 2

    def key(self, case):
        return (case.routine, case.et, tuple(map(tuple, case.vals)), tuple(case.layouts), case.params)

    def coverage_extra(self, cases):
        h = {}
        for c in cases:
            h[c.et] = h.get(c.et, 0) + 1
        return {"by_element_type": h, "max_len": max([len(c.vals[0]) for c in cases] or [0])}


PROP = C06()
