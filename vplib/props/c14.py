"""C14 - NaN-skipping operations equal the plain operation on the data without NaNs."""
from ..runner import Prop, Case
from ..core import zlist
from ..layouts import zoo, lay1
from ..nd import factorizations, ravel, prod, lane_positions, result_shape
from .c04 import tok_key, key_of, NANK
from .c02 import pivot_tokens, parse_log
from ..codec import f64_bits, bits_f64
from fractions import Fraction
import math

NAN64 = 0x7FF8000000000000


def mk_qsk_case(et, strat, shape, vals, q, lay, axis, mode):
    """vals: None or number; et in {f64, oi32, on64}; Option<N64> travels like f64 (None = the NaN key): its
    NotNan type NotNone<N64> must forward the float conversions Linear uses"""
    if et in ("f64", "on64"):
        toks = [("N" if et == "on64" else str(NAN64)) if v is None else str(f64_bits(float(v))) for v in vals]
        model = [NAN64 if t == "N" else int(t) for t in toks]
        g = str(f64_bits(777.5))
        gm = f64_bits(777.5)
    else:
        toks = ["N" if v is None else str(int(v)) for v in vals]
        model = [NANK if v is None else int(v) for v in vals]
        g, gm = "7777", 7777
    buf_t = lay.embed(toks, lambda k: g)
    buf_m = lay.embed(model, lambda k: gm)
    line = "%s %d | %s | %d %s | %d | 1 %d | %s" % (et, strat, lay.tokens(), len(buf_t), " ".join(buf_t), axis, f64_bits(q), pivot_tokens(mode))
    return Case("qskipnan", " ".join(line.split()), et=et, strat=strat, shape=list(shape), axis=axis, vals=list(vals), q=q,
                buf_m=buf_m, cells=lay.cells(), layout=lay.describe(), mode=mode, keys=model)

ETS = ["f64", "oi32", "f32", "ou64"]


def mk_case(routine, et, shape, vals, lay, axis=None):
    toks, keys = [], []
    for v in vals:
        t, k = tok_key(et, v)
        toks.append(t)
        keys.append(k)
    n = lay.parent_len()
    gt = [tok_key(et, 100 + (k % 20)) for k in range(n)]
    buf_t = lay.embed(toks, lambda k: gt[k][0])
    buf_k = lay.embed(keys, lambda k: gt[k][1])
    line = "%s | %s | %d %s" % (et, lay.tokens(), len(buf_t), " ".join(buf_t))
    kw = dict(et=et, shape=list(shape), keys=keys, buf_k=buf_k, cells=lay.cells(), layout=lay.describe())
    if axis is not None:
        line += " | %d" % axis
        kw["axis"] = axis
    return Case(routine, " ".join(line.split()), **kw)


class Rd:
    def __init__(self, toks):
        self.t, self.i = toks, 0

    def next(self):
        x = self.t[self.i]
        self.i += 1
        return x


class C14(Prop):
    id = "C14"
    imports = ["Run.RunNan", "Run.RunQuant"]
    rule = ("all 2^n missing-value patterns for n <= 6 (none, all, first-only, last-only included) over distinct and "
            "duplicated values, arranged in 1-3-D shapes, EVERY axis (contiguous or not), through the layout zoo, element "
            "types f64/f32/Option<i32>/Option<u64>; whole-array forms (min/max/argmin/argmax_skipnan, fold, indexed fold, "
            "visit: the visited (index, value) lists are collected), per-axis forms (fold_axis_skipnan, "
            "map_axis_skipnan_mut: per-lane contents and the whole parent buffer) and quantile_axis_skipnan_mut (f64, "
            "Option<N64> and Option<i32>, all five strategies, q incl. boundary values, every axis, zoo: values, whole buffer and pivot count "
            "against the model = NaN removal followed by the lane quantile kernel on the returned prefix). Non-trivial: some "
            "but not all values missing.")
    exhaustive_note = {"quick": "all NaN patterns of length <= 6 x shapes x every axis", "thorough": "all NaN patterns of length <= 8 x shapes x every axis x 3 layouts"}
    correspondences = {"skipnan": "corr:C14/whole-array/min+max+argmin+argmax+indexed-fold", "skipnan_axis": "corr:C14/per-axis/lane-contents+parent-buffer"}
    trusted_base = ["ndarray fold/for_each visit every element exactly once (order = oracle, observed and replayed); indexed_iter, fold_axis and map_axis_mut lane order are logical"]
    assumptions = ["NotNan: Ord is a total order"]

    def gen(self, tier, rng):
        maxn = 6 if tier == "quick" else 8
        k = 0
        for n in range(1, maxn + 1):
            shapes = [list(s) for s in factorizations(n, 3)]
            for mask in range(1 << n):
                k += 1
                if n >= 8 and k % 2:
                    continue
                dup = (k % 3 == 0)
                vals = [None if mask >> i & 1 else ((i % 3) + 1 if dup else i + 1) for i in range(n)]
                if k % 2:
                    rng.shuffle(vals)
                shape = shapes[k % len(shapes)]
                et = ETS[k % 4]
                lays = zoo(shape, rng, 2)
                lay = lays[k % len(lays)]
                yield mk_case("skipnan", et, shape, vals, lay)
                for axis in range(len(shape)):
                    yield mk_case("skipnan_axis", et, shape, vals, lays[(k + axis) % len(lays)], axis)
        for _ in range(400 if tier == "quick" else 16000):
            nd = rng.range(1, 3)
            shape = [rng.range(1, 5) for _ in range(nd)]
            n = prod(shape)
            et = rng.choice(["f64", "oi32", "on64"])
            vals = [None if rng.chance(1, 3) else (rng.range(-6, 6) if et == "oi32" else rng.range(-6, 6) * 0.25) for _ in range(n)]
            axis = rng.below(nd)
            q = rng.choice([0.0, 1.0, 0.5, 0.25, 0.75, 1.0 / 3.0, 0.9, 0.49999999999999994, rng.below(1000) / 1000.0])
            yield mk_qsk_case(et, rng.below(5), shape, vals, q, rng.choice(zoo(shape, rng, 4)), axis, ("P", rng.below(3)))
        # lanes of word-size length (and neighbours): a missing value in front of a present one
        for n in (31, 32, 33, 63, 64, 65, 128):
            for et in ("f64", "oi32"):
                vals = [None if rng.chance(1, 4) else (rng.range(-6, 6) if et == "oi32" else rng.range(-6, 6) * 0.25) for _ in range(n)]
                vals[0], vals[-1] = None, 2
                yield mk_qsk_case(et, rng.below(5), [n], vals, rng.choice([0.0, 0.5, 1.0]), lay1(n, rng.choice([1, -1, 2])), 0, ("P", rng.below(3)))
            vals = [None if rng.chance(1, 4) else rng.range(1, 9) for _ in range(n)]
            vals[0], vals[-1] = None, 3
            yield mk_case("skipnan_axis", rng.choice(ETS), [n], vals, lay1(n, rng.choice([1, -1, 2])), 0)
        for _ in range(150 if tier == "quick" else 8000):
            nd = rng.range(1, 3)
            shape = [rng.range(1, 5) for _ in range(nd)]
            n = prod(shape)
            vals = [None if rng.chance(1, 3) else rng.range(1, 9) for _ in range(n)]
            et = rng.choice(ETS)
            lay = rng.choice(zoo(shape, rng, 3))
            if rng.chance(1, 2):
                yield mk_case("skipnan", et, shape, vals, lay)
            else:
                yield mk_case("skipnan_axis", et, shape, vals, lay, rng.below(nd))

    def parse(self, case):
        et = case.et
        secs = [s.split() for s in case.raw.split("|")]
        if case.routine == "qskipnan":
            head = secs[0]
            if head[0] == "OK":
                rshape = [int(x) for x in head[2:]]
                vt = secs[1][1:]
                post_t = secs[2][1:]
                plog = parse_log(secs[3])
                if et in ("f64", "on64"):
                    cn = lambda b: NAN64 if ((b >> 52) & 0x7FF == 0x7FF and b & ((1 << 52) - 1)) else b
                    vals_m = [NAN64 if t == "N" else cn(int(t)) for t in vt]
                    post_m = [NAN64 if t == "N" else cn(int(t)) for t in post_t]
                else:
                    vals_m = [NANK if t == "N" else int(t) for t in vt]
                    post_m = [NANK if t == "N" else int(t) for t in post_t]
                case.obs = ([0, len(plog)] + vals_m + post_m, dict(tag="OK", rshape=rshape, vals=vals_m, post=post_m))
            elif head[0] == "ERR":
                case.obs = ([1] if head[1] == "E" else [2, int(head[2])], dict(tag="ERR"))
            else:
                case.obs = ([3], dict(tag="PANIC"))
            return
        if case.routine == "skipnan":
            assert secs[0][0] == "OK"
            shape = [int(x) for x in secs[0][2:]]
            mn, mx = key_of(et, secs[1][0]), key_of(et, secs[2][0])

            def arg(sec):
                return None if sec[0] == "E" else [int(x) for x in sec[2:]]

            amin, amax = arg(secs[3]), arg(secs[4])
            folded = [key_of(et, x) for x in secs[5][1:]]
            visited = [key_of(et, x) for x in secs[6][1:]]
            r = Rd(secs[7])
            cnt = int(r.next())
            indexed = []
            for _ in range(cnt):
                nd = int(r.next())
                ix = [int(r.next()) for _ in range(nd)]
                indexed.append((ix, key_of(et, r.next())))
            st = dict(shape=shape, min=mn, max=mx, argmin=amin, argmax=amax, folded=folded, visited=visited, indexed=indexed)
            flat = [mn, mx]
            flat += [0] if amin is None else [1, ravel(shape, amin)]
            flat += [0] if amax is None else [1, ravel(shape, amax)]
            for ix, v in indexed:
                flat += [ravel(shape, ix), v]
            case.obs = (flat, st)
        else:
            if secs[0][0] != "OK":
                case.obs = ([2], dict(tag="PANIC"))
                return
            rshape = [int(x) for x in secs[0][2:]]

            def lanes(sec):
                r = Rd(sec)
                cnt = int(r.next())
                out = []
                for _ in range(cnt):
                    m = int(r.next())
                    out.append([key_of(et, r.next()) for _ in range(m)])
                return out

            folded = lanes(secs[1])
            mshape = [int(x) for x in secs[2][1:]]
            mapped = lanes(secs[3])
            post = [key_of(et, x) for x in secs[4][1:]]
            st = dict(tag="OK", rshape=rshape, mshape=mshape, folded=folded, mapped=mapped, post=post)
            flat = [1]
            for l in folded:
                flat += [len(l)] + l
            for l in mapped:
                flat += [len(l)] + l
            flat += post
            case.obs = (flat, st)

    def _qsk_oracle(self, case):
        flat, st = case.obs
        N = case.shape[case.axis]
        if N == 0:
            return [] if st["tag"] == "ERR" else ["error: zero-length axis must give EmptyInput"]
        if st["tag"] != "OK":
            return ["panic: quantile_axis_skipnan_mut outcome %s on valid arguments" % st["tag"]]
        out = []
        lanes = lane_positions(case.shape, case.axis)
        if st["rshape"] != result_shape(case.shape, case.axis) or len(st["vals"]) != len(lanes):
            return ["shape: result shape %s" % st["rshape"]]
        et = "f64" if case.et == "on64" else case.et
        val = (lambda m: None if m == NAN64 else Fraction(bits_f64(m))) if et == "f64" else (lambda m: None if m == NANK else Fraction(m))
        names = ["Higher", "Lower", "Nearest", "Midpoint", "Linear"]
        for ln, got in zip(lanes, st["vals"]):
            live = sorted(val(case.keys[p]) for p in ln if val(case.keys[p]) is not None)
            g = val(got)
            if not live:
                if g is not None:
                    out.append("empty-lane: a lane with nothing left must give the missing value, got %s" % g)
                continue
            if g is None:
                out.append("value: missing value returned for a lane with %d remaining elements" % len(live))
                continue
            n = len(live)
            x = case.q * float(n - 1)
            lo, hi = math.floor(x), math.ceil(x)
            fr = Fraction(x) - math.trunc(x)
            a, b = live[lo], live[hi]
            nm = names[case.strat]
            if nm == "Lower":
                ok = g == a
            elif nm == "Higher":
                ok = g == b
            elif nm == "Nearest":
                ok = g == (a if fr < Fraction(1, 2) else b)
            else:
                exact = (a + b) / 2 if nm == "Midpoint" else a + fr * (b - a)
                tol = 1 if et != "f64" else max(abs(a), abs(b), 1) * Fraction(8, 2 ** 52)
                ok = (a - (0 if et != "f64" else tol) <= g <= b + (0 if et != "f64" else tol)) and (abs(g - exact) < tol if et != "f64" else abs(g - exact) <= tol)
            if not ok:
                out.append("value: %s quantile q=%r of the lane without its missing values %s is %s" % (nm, case.q, [str(v) for v in live[:8]], g))
                break
        post = st["post"]
        for ln in lanes:
            cs = [case.cells[p] for p in ln]
            if sorted(post[c] for c in cs) != sorted(case.buf_m[c] for c in cs):
                out.append("lane-multiset: a lane no longer holds its multiset (elements moved between lanes)")
                break
        cset = set(case.cells)
        if any(post[c] != case.buf_m[c] for c in range(len(post)) if c not in cset):
            out.append("frame: a cell outside the view was modified")
        return out

    def oracle(self, case):
        if case.routine == "qskipnan":
            return self._qsk_oracle(case)
        flat, st = case.obs
        keys = case.keys
        out = []
        live = [(p, k) for p, k in enumerate(keys) if k != NANK]
        if case.routine == "skipnan":
            vals = [k for _, k in live]
            if not vals:
                if st["min"] != NANK or st["max"] != NANK:
                    out.append("empty: min/max_skipnan with nothing left returned %s/%s instead of the missing value" % (st["min"], st["max"]))
                if st["argmin"] is not None or st["argmax"] is not None:
                    out.append("empty: argmin/argmax_skipnan with nothing left did not return EmptyInput")
            else:
                if st["min"] != min(vals) or st["max"] != max(vals):
                    out.append("value: min/max_skipnan = %s/%s, plain min/max of the remaining data %s/%s" % (st["min"], st["max"], min(vals), max(vals)))
                for nm, want in (("argmin", min(vals)), ("argmax", max(vals))):
                    ix = st[nm]
                    if ix is None:
                        out.append("index: %s_skipnan returned EmptyInput although data remain" % nm)
                    elif len(ix) != len(case.shape) or any(i >= s for i, s in zip(ix, case.shape)) or keys[ravel(case.shape, ix)] != want:
                        out.append("index: %s_skipnan designates %s which does not hold the extremum" % (nm, ix))
            for nm in ("folded", "visited"):
                if sorted(st[nm]) != sorted(vals):
                    out.append("fold: %s saw %s, the remaining elements are %s (each exactly once)" % (nm, st[nm], vals))
            want_idx = [(p, k) for p, k in live]
            got_idx = [(ravel(case.shape, ix), v) for ix, v in st["indexed"]]
            if sorted(got_idx) != sorted(want_idx):
                out.append("indexed-fold: saw %s, expected positions/values %s" % (got_idx, want_idx))
        else:
            if st["tag"] != "OK":
                return ["panic: per-axis skip-NaN forms panicked"]
            lanes = lane_positions(case.shape, case.axis)
            rs = result_shape(case.shape, case.axis)
            if st["rshape"] != rs or st["mshape"] != rs:
                out.append("shape: result shapes %s/%s, expected %s" % (st["rshape"], st["mshape"], rs))
            if len(st["folded"]) != len(lanes) or len(st["mapped"]) != len(lanes):
                return out + ["shape: %d lanes reported, %d expected" % (len(st["folded"]), len(lanes))]
            for ln, f, m in zip(lanes, st["folded"], st["mapped"]):
                want = [keys[p] for p in ln if keys[p] != NANK]
                if f != want:
                    out.append("fold-axis: lane saw %s, its remaining elements in order are %s" % (f, want))
                    break
                if sorted(m) != sorted(want):
                    out.append("map-axis: stripped lane holds %s, remaining elements of that lane are %s" % (m, want))
                    break
            post = st["post"]
            for ln in lanes:
                cs = [case.cells[p] for p in ln]
                if sorted(post[c] for c in cs) != sorted(keys[p] for p in ln):
                    out.append("lane-multiset: a lane no longer holds its multiset (elements moved between lanes)")
                    break
            cset = set(case.cells)
            if any(post[c] != case.buf_k[c] for c in range(len(post)) if c not in cset):
                out.append("frame: a cell outside the view was modified")
        return out

    def chk_term(self, case):
        flat, _ = case.obs
        if case.routine == "qskipnan":
            return "chkq (%s) %s" % (self.model_term(case), zlist(flat))
        return "chkl (%s) %s" % (self.model_term(case), zlist(flat))

    def model_term(self, case):
        if case.routine == "qskipnan":
            lanes = lane_positions(case.shape, case.axis)
            ll = "[" + ";".join("[" + ";".join("%d%%nat" % case.cells[p] for p in ln) + "]" for ln in lanes) + "]"
            N = case.shape[case.axis]
            pm = "(PPolicy %d)" % case.mode[1]
            if case.et in ("f64", "on64"):
                return "m_qskipnan_f64 %d %d %d %s %s %s" % (case.strat, f64_bits(case.q), N, zlist(case.buf_m), ll, pm)
            return "m_qskipnan_int true 32 %d %d %d %s %s %s" % (case.strat, f64_bits(case.q), N, zlist(case.buf_m), ll, pm)
        if case.routine == "skipnan":
            trav = case.obs[1]["folded"] if case.obs else case.keys
            return "m_skipnan %s %s" % (zlist(case.keys), zlist(trav))
        lanes = lane_positions(case.shape, case.axis)
        ll = "[" + ";".join("[" + ";".join("%d%%nat" % case.cells[p] for p in ln) + "]" for ln in lanes) + "]"
        return "m_skipnan_axis %s %s" % (zlist(case.buf_k), ll)

    def nontrivial(self, case):
        return any(k == NANK for k in case.keys) and any(k != NANK for k in case.keys)

    def key(self, case):
        return (case.routine, case.et, tuple(case.shape), tuple(case.keys), case.layout, case.__dict__.get("axis"), case.__dict__.get("q"), case.__dict__.get("strat"))


PROP = C14()
