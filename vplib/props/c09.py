"""C09 - deviation measures are exact counts and distances, paired by logical index."""
import math
from fractions import Fraction
from ..runner import Prop
from ..core import zlist
from ..layouts import zoo
from ..nd import prod
from ..plans import zip_orders
from ..pyfloat import FP, finite
from .numcommon import mk_num_case, mk_alias_case, alias_pairs, parse_num, model_ints, float_pool, fval, enc_vals

BASE = {"sq_l2_dist": 0, "l1_dist": 1, "linf_dist": 2}
DERIVED = ["l2_dist", "mean_abs_err", "mean_sq_err", "root_mean_sq_err", "peak_signal_to_noise_ratio"]
COUNTS = ["count_eq", "count_neq"]
ETS = ["i32", "i64", "f64", "f32", "big"]
MAXV = {"i32": [255, 4, 46340, 46341, 65535, 2 ** 31 - 1], "i64": [255, 65535, 3037000499, 3037000500, 2 ** 40, 2 ** 62],
        "big": [255, 2 ** 80], "f64": [255.0, 1.0, 65535.0, 2.0 ** 100], "f32": [255.0, 1.0, 65535.0]}


class C09(Prop):
    id = "C09"
    imports = ["Run.RunNum"]
    coq_batch = 80
    rule = ("all ten deviation measures on pairs of same-shaped arrays of 1-4 dimensions, element types i32/i64/BigInt (exact: "
            "compared with the integer instance of the model, independent of the traversal) and f64/f32 (bit-for-bit against "
            "the Flocq model under Zip's C-order or F-order traversal of the logical positions), EVERY pairing of independently "
            "drawn layouts (C, F, stepped, reversed, permuted, offset) and of ownership kinds (view/owned/shared) for the two "
            "operands; derived measures are tied relationally to the implementation's own base results (sqrt, /n, 10 log10). "
            "Non-trivial: >= 2 elements and the operands differ.")
    correspondences = {r: "corr:C09/%s/exact-or-bits" % r for r in BASE}
    trusted_base = ["ndarray Zip::from(a).and(b): pairs elements by logical index and visits each pair once; its order is C-order or F-order of the logical index space (oracle: both are tried for floats)",
                    "log10: the implementation's libm, recorded by the harness"]
    assumptions = ["integer results do not overflow (generator stays inside)", "float bound for the oracle: gamma_n * sum of terms"]

    def gen(self, tier, rng):
        reps = 25 if tier == "quick" else 1000
        for rep in range(reps):
            for et in ETS:
                nd = rng.range(1, 4)
                shape = [rng.range(1, 4) for _ in range(nd)]
                n = prod(shape)
                if et in ("f64", "f32"):
                    a = float_pool(rng.below(4), n, rng, et)
                    b = float_pool(rng.below(4), n, rng, et)
                elif et == "big":
                    a = [rng.range(-10, 10) * 10 ** 25 + rng.range(-5, 5) for _ in range(n)]
                    b = [rng.range(-10, 10) * 10 ** 25 + rng.range(-5, 5) for _ in range(n)]
                else:
                    a = [rng.range(-1000, 1000) for _ in range(n)]
                    b = [rng.range(-1000, 1000) for _ in range(n)]
                for k in range(n):
                    if rng.chance(1, 3):
                        b[k] = a[k]
                lays = zoo(shape, rng, 4)
                la, lb = rng.choice(lays), rng.choice(lays)
                own = rng.below(5)
                grp = "g%d%s" % (rep, et)
                for r in list(BASE) + COUNTS + DERIVED:
                    params = "%d" % own
                    maxv = None
                    if r == "peak_signal_to_noise_ratio":
                        # peak values up to the top of the element type: maxv^2 must be formed in f64, not in
                        # the element type (every value listed converts to f64 exactly)
                        maxv = rng.choice(MAXV[et])
                        params += " " + enc_vals(et, [maxv])[0]
                    yield mk_num_case(r, et, [(shape, a, la), (shape, b, lb)], params, grp=grp, own=own,
                                      out_et=("f64" if r in DERIVED else et), maxv=maxv)
                # symmetric call and identical arguments
                yield mk_num_case("sq_l2_dist", et, [(shape, b, lb), (shape, a, la)], "%d" % own, grp=grp + "s", own=own, out_et=et)
                yield mk_num_case("l1_dist", et, [(shape, a, la), (shape, a, lb)], "%d" % own, grp=grp + "i", own=own, out_et=et)

        # operands that ALIAS: two views into one allocation (identical, transposed, stepped against a
        # prefix, reversed against forward). The routines take (&self, &other) and may not conclude
        # anything from the operands sharing a first element or a buffer.
        for rep in range(6 if tier == "quick" else 200):
            for et in ETS:
                nd = rng.range(1, 3)
                side = rng.range(2, 4)
                shape = [side] * nd if rng.chance(2, 3) else [rng.range(1, 4) for _ in range(nd)]
                for (la, lb) in alias_pairs(shape, rng)[:3]:
                    m = la.parent_len()
                    if et in ("f64", "f32"):
                        pbuf = float_pool(rng.below(2), m, rng, et)
                    elif et == "big":
                        pbuf = [rng.range(-3, 3) * 10 ** 25 + rng.range(-2, 2) for _ in range(m)]
                    else:
                        pbuf = [rng.range(-3, 3) for _ in range(m)]
                    grp = "al%d%s%d" % (rep, et, rng.below(10 ** 9))
                    for r in list(BASE) + COUNTS + ["l2_dist", "mean_abs_err", "mean_sq_err", "root_mean_sq_err"]:
                        yield mk_alias_case(r, et, pbuf, la, lb, "0", grp=grp, own=0,
                                            out_et=("f64" if r in DERIVED else et), maxv=None)
                    if et in ("f64", "f32"):
                        # == is not reflexive on NaN: an array compared with itself has n - #NaN equal positions
                        nb = list(pbuf)
                        for _ in range(rng.range(1, 2)):
                            nb[rng.below(m)] = float("nan")
                        for r in COUNTS:
                            yield mk_alias_case(r, et, nb, la, lb, "0", grp=grp + "n", own=0, out_et=et, maxv=None)

    def parse(self, case):
        parse_num(case)

    def post_run(self, cases, run):
        # log10 arguments for psnr: maxv^2 / mse from the implementation's own mse
        groups = {}
        for c in cases:
            if c.obs and c.obs.get("tag") == "OK":
                groups.setdefault(c.grp, {})[c.routine] = c
        lines = []
        for gname, g in groups.items():
            if "peak_signal_to_noise_ratio" in g and "mean_sq_err" in g:
                c = g["peak_signal_to_noise_ratio"]
                mse = fval("f64", g["mean_sq_err"].obs["vals"][0])
                maxv = float(c.maxv)
                try:
                    arg = maxv * maxv / mse
                except ZeroDivisionError:
                    arg = float("inf")
                c.log_arg = arg
                lines.append((c.cid + "L", "libm log10 f64 | 1 %d" % FP("f64").bits(arg)))
        res = run(lines) if lines else {}
        for g in groups.values():
            c = g.get("peak_signal_to_noise_ratio")
            if c is not None and hasattr(c, "log_arg"):
                out = res.get(c.cid + "L", "").split()
                c.log_val = fval("f64", int(out[2])) if out[:1] == ["OK"] else None

    def oracle(self, case):
        o = case.obs
        et = case.et
        if o["tag"] != "OK":
            return ["error: %s on same-shaped non-empty arrays" % o]
        r = case.routine
        a, b = case.vals
        n = len(a)
        got = o["vals"][0]
        if r in COUNTS:
            eq = sum(1 for x, y in zip(a, b) if x == y)
            want = eq if r == "count_eq" else n - eq
            return [] if got == want else ["count: %s = %d, %d positions hold equal elements of %d" % (r, got, eq, n)]
        if r in BASE:
            if et in ("f64", "f32"):
                fp = FP(et)
                A, B = [Fraction(x) for x in a], [Fraction(y) for y in b]
                if r == "sq_l2_dist":
                    exact, mag = sum((x - y) ** 2 for x, y in zip(A, B)), None
                elif r == "l1_dist":
                    exact = sum(abs(x - y) for x, y in zip(A, B))
                else:
                    exact = max(abs(x - y) for x, y in zip(A, B))
                g = fval(et, got)
                if not finite(g):
                    return [] if exact > Fraction(2) ** (120 if et == "f32" else 1000) else ["value: %s not finite" % r]
                bound = (n + 4) * 4 * fp.u * exact + Fraction(1, 2 ** (140 if et == "f32" else 1060))
                return [] if abs(Fraction(g) - exact) <= bound else ["value: %s = %r, exact %r" % (r, g, float(exact))]
            if r == "sq_l2_dist":
                want = sum((x - y) ** 2 for x, y in zip(a, b))
            elif r == "l1_dist":
                want = sum(abs(x - y) for x, y in zip(a, b))
            else:
                want = max(abs(x - y) for x, y in zip(a, b))
            return [] if got == want else ["value: %s = %d, exact integer arithmetic gives %d" % (r, got, want)]
        return []

    def extra_checks(self, cases, tier, rng):
        groups = {}
        for c in cases:
            if c.obs and c.obs.get("tag") == "OK":
                groups.setdefault(c.grp, {})[c.routine] = c
        out = []
        for gname, g in groups.items():
            any_c = next(iter(g.values()))
            et = any_c.et
            n = len(any_c.vals[0])
            if gname.endswith("s") or gname.endswith("i"):
                base = groups.get(gname[:-1], {})
                if gname.endswith("s") and "sq_l2_dist" in g and "sq_l2_dist" in base:
                    v1, v2 = g["sq_l2_dist"].obs["vals"][0], base["sq_l2_dist"].obs["vals"][0]
                    if et in ("f64", "f32"):
                        f1, f2 = fval(et, v1), fval(et, v2)
                        same = f1 == f2 or abs(f1 - f2) <= 8 * (n + 4) * float(FP(et).u) * max(abs(f1), abs(f2))
                    else:
                        same = v1 == v2
                    if not same:
                        out.append((g["sq_l2_dist"], "symmetry: sq_l2_dist(b, a) differs from sq_l2_dist(a, b)"))
                if gname.endswith("i") and "l1_dist" in g:
                    v = g["l1_dist"].obs["vals"][0]
                    z = v == 0 if et not in ("f64", "f32") else fval(et, v) == 0.0
                    if not z:
                        out.append((g["l1_dist"], "identity: l1_dist(a, a) is not zero"))
                continue
            if et == "big":
                continue

            def tof(c):
                v = c.obs["vals"][0]
                return fval(et, v) if et in ("f64", "f32") else float(v)

            if "sq_l2_dist" in g:
                s = tof(g["sq_l2_dist"])
                rel = [("l2_dist", math.sqrt(s) if s >= 0 else float("nan")), ("mean_sq_err", s / float(n)),
                       ("root_mean_sq_err", math.sqrt(s / float(n)) if s >= 0 else float("nan"))]
                for name, want in rel:
                    if name in g:
                        gv = fval("f64", g[name].obs["vals"][0])
                        if not (gv == want or (gv != gv and want != want)):
                            out.append((g[name], "derived: %s = %r, documented function of sq_l2_dist gives %r" % (name, gv, want)))
            if "l1_dist" in g and "mean_abs_err" in g:
                want = tof(g["l1_dist"]) / float(n)
                gv = fval("f64", g["mean_abs_err"].obs["vals"][0])
                if gv != want:
                    out.append((g["mean_abs_err"], "derived: mean_abs_err = %r, l1_dist / n = %r" % (gv, want)))
            c = g.get("peak_signal_to_noise_ratio")
            if c is not None and getattr(c, "log_val", None) is not None:
                want = 10.0 * c.log_val
                gv = fval("f64", c.obs["vals"][0])
                if not (gv == want or (gv != gv and want != want)):
                    out.append((c, "derived: psnr = %r, 10 log10(maxv^2 / mse) = %r" % (gv, want)))
            if "count_eq" in g and "count_neq" in g:
                if g["count_eq"].obs["vals"][0] + g["count_neq"].obs["vals"][0] != n:
                    out.append((g["count_eq"], "count: count_eq + count_neq != number of elements"))
        return out

    def chk_term(self, case):
        if case.routine not in BASE or case.obs["tag"] != "OK":
            return None
        et = case.et
        pre = {"f64": "f64", "f32": "f32"}.get(et, "z")
        a = zlist(model_ints(et if pre != "z" else "i64", case.vals[0]))
        b = zlist(model_ints(et if pre != "z" else "i64", case.vals[1]))
        obs = zlist(case.obs["vals"])
        terms = []
        for trav in zip_orders(case.shapes[0]):
            tl = "[" + ";".join("%d%%nat" % p for p in trav) + "]"
            terms.append("chkn (%s_dev %d %s %s %s) %s" % (pre, BASE[case.routine], a, b, tl, obs))
        return terms[0] if len(terms) == 1 else "(orb (%s) (%s))" % (terms[0], terms[1])

    def model_term(self, case):
        if case.routine not in BASE:
            return None
        et = case.et
        pre = {"f64": "f64", "f32": "f32"}.get(et, "z")
        a = zlist(model_ints(et if pre != "z" else "i64", case.vals[0]))
        b = zlist(model_ints(et if pre != "z" else "i64", case.vals[1]))
        tl = "[" + ";".join("%d%%nat" % p for p in zip_orders(case.shapes[0])[0]) + "]"
        return "%s_dev %d %s %s %s" % (pre, BASE[case.routine], a, b, tl)

    def nontrivial(self, case):
        return len(case.vals[0]) >= 2 and case.vals[0] != case.vals[1]

    def key(self, case):
        return (case.routine, case.et, tuple(case.vals[0]), tuple(case.vals[1]), tuple(case.layouts), case.own)


PROP = C09()
