"""C10 - entropy, cross-entropy and KL divergence follow their definitions."""
import math
from ..runner import Prop
from ..core import zlist
from ..layouts import zoo
from ..nd import prod
from ..plans import sum_plan, plan_term
from ..pyfloat import FP, finite
from .numcommon import mk_num_case, parse_num, model_ints, fval, mk_alias_case, alias_pairs, plan_of
from .c06 import tab_term

SEL1 = {"entropy": 7}
SEL2 = {"kl_divergence": 4, "cross_entropy": 5}


def prob_vec(n, rng, et, normalise, zeros):
    fp = FP(et)
    raw = [rng.range(1, 1000) for _ in range(n)]
    for _ in range(zeros):
        raw[rng.below(n)] = 0
    s = float(sum(raw)) if normalise and sum(raw) else 1000.0
    return [fp.r(x / s) for x in raw]


class C10(Prop):
    id = "C10"
    imports = ["Num.Kernels", "Run.RunNum"]
    coq_batch = 60
    rule = ("entropy, cross_entropy, kl_divergence over f64, f32 and N64 (checked double: a NaN anywhere panics): non-negative arrays, normalised or not, zeros in p and/or q, "
            "subnormal p_i (with q_i = 0, p_i, 2 p_i, 4 p_i), NaN placements, shapes of 1-3 dimensions, independently drawn layouts for p and q; bit-for-bit against the Flocq "
            "model with ln as an oracle table recorded from the implementation's libm; independent oracle: the definition in "
            "double precision with a roundoff tolerance, plus the identities KL(p,p) = 0, H(p,q) = H(p) + KL(p,q), KL >= 0 for "
            "normalised p, q, H(p) <= ln n, NaN propagation. Non-trivial: >= 2 elements and some p_i > 0.")
    correspondences = {r: "corr:C10/%s/bits" % r for r in ("entropy", "kl_divergence", "cross_entropy")}
    trusted_base = ["libm ln: oracle table from the implementation's libm", "ndarray mapv / Zip / sum (summation plan mirrored in vplib/plans.py)"]
    assumptions = ["ln accurate to a few ulp (checked per table entry against 50-digit decimal arithmetic)"]

    def gen(self, tier, rng):
        reps = 40 if tier == "quick" else 2000
        for rep in range(reps):
            et = "f64" if rep % 3 else "f32"
            nd = rng.range(1, 3)
            shape = [rng.range(1, 20)] if nd == 1 else [rng.range(1, 4) for _ in range(nd)]
            n = prod(shape)
            norm = rng.chance(2, 3)
            p = prob_vec(n, rng, et, norm, rng.choice([0, 0, 1, 2]))
            q = prob_vec(n, rng, et, norm, rng.choice([0, 0, 0, 1]))
            if rng.chance(1, 4):
                # subnormal probabilities: positive, so their terms must NOT vanish (only p_i == 0 does)
                subs = [5e-324, 1e-310, 2.0 ** -1023, 1.5e-308] if et == "f64" else [1e-45, 1e-40, 2.0 ** -127, 1.1e-38]
                for _ in range(rng.range(1, 2)):
                    k = rng.below(n)
                    p[k] = FP(et).r(rng.choice(subs))
                    q[k] = FP(et).r(p[k] * rng.choice([0.0, 1.0, 2.0, 4.0]))
                norm = False
            if rng.chance(1, 3):
                # p_i = 0 contributes exactly zero WHATEVER q_i is: NaN, infinite, negative or zero there
                zs = [k for k in range(n) if p[k] == 0] or [rng.below(n)]
                for k in zs:
                    p[k] = 0.0
                    q[k] = rng.choice([float("nan"), float("inf"), -1.0, 0.0, -0.0, float("-inf")])
                norm = False
            nan_case = rng.chance(1, 10)
            if nan_case:
                k = rng.below(n)
                (p if rng.chance(1, 2) else q)[k] = float("nan")
            lays = zoo(shape, rng, 3)
            la, lb = rng.choice(lays), rng.choice(lays)
            grp = "g%d" % rep
            yield mk_num_case("entropy", et, [(shape, p, la)], "", grp=grp, norm=norm, role="Hp")
            yield mk_num_case("kl_divergence", et, [(shape, p, la), (shape, q, lb)], "", grp=grp, norm=norm, role="KL")
            yield mk_num_case("cross_entropy", et, [(shape, p, la), (shape, q, lb)], "", grp=grp, norm=norm, role="Hpq")
            yield mk_num_case("kl_divergence", et, [(shape, p, la), (shape, p, lb)], "", grp=grp, norm=norm, role="KLself")
        # p and q as two views into ONE allocation (identical, transposed, stepped against prefix, reversed)
        for rep in range(8 if tier == "quick" else 300):
            et = "f64" if rep % 3 else "f32"
            nd = rng.range(1, 2)
            side = rng.range(2, 4)
            shape = [side] * nd
            for (la, lb) in alias_pairs(shape, rng)[:3]:
                pbuf = prob_vec(la.parent_len(), rng, et, False, rng.choice([0, 0, 1]))
                grp = "al%d_%d" % (rep, rng.below(10 ** 9))
                yield mk_alias_case("kl_divergence", et, pbuf, la, lb, "", grp=grp, norm=False, role="KL")
                yield mk_alias_case("cross_entropy", et, pbuf, la, lb, "", grp=grp, norm=False, role="Hpq")

        # the same routines on noisy_float's checked double N64 (the crate's own tests use it): finite or infinite, never
        # NaN, and EVERY operation panics on a NaN result (debug profile) - so an expression the f64 code would compute
        # and throw away (q_i / p_i with p_i = q_i = 0, before the p_i == 0 test) is visible here
        for rep in range(30 if tier == "quick" else 1500):
            nd = rng.range(1, 2)
            shape = [rng.range(1, 12)] if nd == 1 else [rng.range(1, 4) for _ in range(nd)]
            n = prod(shape)
            norm = rng.chance(1, 2)
            p = prob_vec(n, rng, "f64", norm, rng.choice([0, 1, 2, 3]))
            q = prob_vec(n, rng, "f64", norm, rng.choice([0, 0, 1, 2]))
            for k in range(n):
                if p[k] == 0 and rng.chance(1, 2):
                    q[k] = rng.choice([0.0, 0.0, float("inf"), 0.25])
            lays = zoo(shape, rng, 2)
            la, lb = rng.choice(lays), rng.choice(lays)
            grp = "n%d" % rep
            for c in (mk_num_case("entropy", "f64", [(shape, p, la)], "", grp=grp, norm=norm, role="Hp"),
                      mk_num_case("kl_divergence", "f64", [(shape, p, la), (shape, q, lb)], "", grp=grp, norm=norm, role="KL"),
                      mk_num_case("cross_entropy", "f64", [(shape, p, la), (shape, q, lb)], "", grp=grp, norm=norm, role="Hpq"),
                      mk_num_case("kl_divergence", "f64", [(shape, p, la), (shape, p, lb)], "", grp=grp, norm=norm, role="KLself")):
                assert c.line.startswith("f64 ")
                c.line = "n64 " + c.line[4:]
                c.noisy = True
                yield c

    def parse(self, case):
        if getattr(case, "noisy", False) and case.raw.split()[:1] == ["PANIC"]:
            case.obs = dict(tag="PANIC", vals=[])
            return
        parse_num(case)

    def _ln_args(self, case):
        fp = FP(case.et)
        p = case.vals[0]
        if case.routine == "entropy":
            return [x for x in p if x != 0]
        q = case.vals[1]
        if case.routine == "cross_entropy":
            return [b for a, b in zip(p, q) if a != 0]
        return [fp.div(b, a) for a, b in zip(p, q) if a != 0]

    def post_run(self, cases, run):
        lines = []
        for c in cases:
            if c.obs is None:
                continue
            fp = FP(c.et)
            args = sorted(set(fp.bits(x) for x in self._ln_args(c)))
            c._args = args
            if args:
                lines.append((c.cid + "L", "libm ln %s | %d %s" % (c.et, len(args), " ".join(map(str, args)))))
        res = run(lines) if lines else {}
        for c in cases:
            if c.obs is None:
                continue
            out = res.get(c.cid + "L", "").split()
            vals = [int(x) for x in out[2:]] if out[:1] == ["OK"] else []
            c.ln_tab = list(zip(c._args, vals))

    def oracle(self, case):
        o = case.obs
        noisy = getattr(case, "noisy", False)
        if o["tag"] != "OK" and not (noisy and o["tag"] == "PANIC"):
            return ["error: %s on same-shaped non-empty input" % o]
        et = case.et
        fp = FP(et)
        g = fval(et, o["vals"][0]) if o["tag"] == "OK" else None
        p = case.vals[0]
        q = case.vals[1] if len(case.vals) > 1 else None
        n = len(p)
        if g is None:
            # N64 panicked: legitimate only when the DEFINITION's value is NaN (a contributing term is NaN, or +inf and -inf
            # terms meet); a term with p_i = 0 contributes exactly zero and must not even be evaluated into a NaN
            live = [(a, (q[i] if q is not None else None)) for i, a in enumerate(p) if a != 0]
            bad = False
            for a, b in live:
                if case.routine == "entropy":
                    bad |= a < 0
                elif case.routine == "cross_entropy":
                    bad |= b < 0 or (b == float("inf") and False)
                else:
                    bad |= (b / a) < 0 if a != float("inf") else True
            infs = set()
            for a, b in live:
                if case.routine == "entropy":
                    t = a * math.log(a) if a > 0 and a != float("inf") else (float("inf") if a == float("inf") else 0.0)
                elif case.routine == "cross_entropy":
                    t = (float("-inf") if b == 0 else (float("inf") if b == float("inf") else a * math.log(b))) if b >= 0 else 0.0
                else:
                    r_ = b / a if a != float("inf") else 0.0
                    t = (float("-inf") if r_ == 0 else (float("inf") if r_ == float("inf") else a * math.log(r_))) if r_ >= 0 else 0.0
                if t in (float("inf"), float("-inf")):
                    infs.add(t)
            if bad or len(infs) == 2:
                return []
            return ["panic: %s panicked on N64 input although every contributing term is defined (a term with p_i = 0 must contribute exactly zero without being evaluated)" % case.routine]
        terms = []
        for i, a in enumerate(p):
            if a == 0:
                continue        # a zero p_i contributes exactly zero whatever q_i is (even NaN)
            if case.routine == "entropy":
                terms.append(a * math.log(a) if a > 0 and a == a else float("nan"))
            elif case.routine == "cross_entropy":
                b = q[i]
                terms.append(a * math.log(b) if (b == b and a == a and b > 0) else (float("-inf") if b == 0 and a == a else float("nan")))
            else:
                b = q[i]
                if a != a or b != b:
                    terms.append(float("nan"))
                elif b == 0:
                    terms.append(float("-inf"))
                else:
                    terms.append(a * math.log(b / a))
        if any(t != t for t in terms):
            return [] if g != g else ["nan: a NaN contributing term must make the result NaN, got %r" % g]
        if any(t == float("-inf") for t in terms):
            return [] if g == float("inf") else ["value: q_i = 0 under p_i > 0 must give +inf, got %r" % g]
        exact = -math.fsum(terms)
        mag = math.fsum(abs(t) for t in terms)
        # plus the absolute spacing of the subnormal range (products p_i ln(.) of subnormal p_i are rounded there)
        tol = 16 * (n + 4) * float(fp.u) * mag + 4 * (n + 4) * (2.0 ** -149 if et == "f32" else 2.0 ** -1074) + 1e-300
        if case.routine == "kl_divergence":
            # the ratio q_i / p_i is rounded before the logarithm is taken: an absolute error of u p_i per term whatever
            # the size of ln(q_i / p_i) (the term 2 u sum p of the proved bound C10_kl_error_f64)
            tol += 4 * float(fp.u) * math.fsum(abs(a) for a in p if a == a and a != 0)
        if not finite(g) or abs(g - exact) > tol:
            return ["value: %s = %r, definition %r (tolerance %.2e)" % (case.routine, g, exact, tol)]
        return []

    def extra_checks(self, cases, tier, rng):
        groups = {}
        for c in cases:
            if c.obs and c.obs.get("tag") == "OK":
                groups.setdefault(c.grp, {})[c.role] = c
        out = []
        for g in groups.values():
            any_c = next(iter(g.values()))
            et = any_c.et
            fp = FP(et)
            p = any_c.vals[0]
            n = len(p)
            clean = all(x == x for x in p)
            v = {k: fval(et, c.obs["vals"][0]) for k, c in g.items()}
            if "KLself" in v and clean and v["KLself"] != 0.0:
                out.append((g["KLself"], "identity: KL(p, p) = %r, must be zero" % v["KLself"]))
            if all(k in v for k in ("Hp", "KL", "Hpq")) and all(finite(v[k]) for k in ("Hp", "KL", "Hpq")):
                mag = abs(v["Hp"]) + abs(v["KL"]) + abs(v["Hpq"]) + sum(abs(x) for x in p) * 20
                floor = 16 * (n + 4) * (2.0 ** -149 if et == "f32" else 2.0 ** -1074)     # subnormal spacing: products of subnormal p_i
                if abs(v["Hpq"] - (v["Hp"] + v["KL"])) > 64 * (n + 4) * float(fp.u) * mag + floor:
                    out.append((g["Hpq"], "identity: H(p,q) = %r but H(p) + KL(p,q) = %r" % (v["Hpq"], v["Hp"] + v["KL"])))
            if any_c.norm and clean:
                q = g["KL"].vals[1] if "KL" in g else None
                if "KL" in v and q is not None and all(x == x for x in q) and finite(v["KL"]):
                    if v["KL"] < -64 * (n + 4) * float(fp.u) * 20:
                        out.append((g["KL"], "gibbs: KL(p,q) = %r is negative for normalised distributions" % v["KL"]))
                if "Hp" in v and finite(v["Hp"]) and v["Hp"] > math.log(n) + 64 * (n + 4) * float(fp.u) * 20 and abs(sum(p) - 1) < 1e-3:
                    out.append((g["Hp"], "bound: entropy %r exceeds ln n = %r" % (v["Hp"], math.log(n))))
        return out

    def chk_term(self, case):
        if getattr(case, "noisy", False) and case.obs["tag"] == "PANIC":
            # N64 (debug profile) panics exactly when the binary64 computation produces a NaN somewhere, which then
            # propagates to the result of these kernels
            return "chkn (%s) %s" % (self.model_term(case), zlist([9221120237041090560]))
        if case.obs["tag"] != "OK":
            return "false"
        return "chkn (%s) %s" % (self.model_term(case), zlist(case.obs["vals"]))

    def model_term(self, case):
        et = case.et
        tabs = "%s []" % tab_term(getattr(case, "ln_tab", []))
        d = zlist(model_ints(et, case.vals[0]))
        if case.routine == "entropy":
            return "%s_stat1 %s 7 %s %s 0" % (et, tabs, plan_of(case, 0), d)
        w = zlist(model_ints(et, case.vals[1]))
        return "%s_stat2 %s %d (PMem []) %s %s 0" % (et, tabs, SEL2[case.routine], d, w)

    def nontrivial(self, case):
        return len(case.vals[0]) >= 2 and any(x > 0 for x in case.vals[0] if x == x)

    def key(self, case):
        return (case.routine, case.et, tuple(map(repr, case.vals[0])), tuple(map(repr, case.vals[-1])), tuple(case.layouts), case.role)


PROP = C10()
