"""C01 - quantiles equal the documented order statistic of every lane."""
import math
from fractions import Fraction
from ..runner import Prop, Case
from ..core import zlist
from ..codec import Codec, INT_RANGES, f64_bits, bits_f64
from ..layouts import zoo, lay1
from ..nd import prod, lane_positions, result_shape, ravel, factorizations
from .c02 import pivot_tokens, parse_log

STRATS = ["Higher", "Lower", "Nearest", "Midpoint", "Linear"]
INT_ETS = ["i8", "i32", "i64", "u8", "u64"]
ALL_ETS = INT_ETS + ["n64"]


def ulp_neighbours(q):
    b = f64_bits(q)
    out = [q]
    if q > 0.0:
        out.append(bits_f64(b - 1))
    if q < 1.0:
        out.append(bits_f64(b + 1))
    return out


def q_grid(n, rng, extra=2):
    """q values landing exactly on, one ulp below/above an integral (N-1)q and a .5 fraction"""
    qs = [0.0, 1.0]
    if n > 1:
        for k in range(n):
            for base in (k / (n - 1), (k + 0.5) / (n - 1)):
                if 0.0 <= base <= 1.0:
                    qs += ulp_neighbours(base)
    for _ in range(extra):
        qs.append(rng.below(10 ** 6) / 10 ** 6)
    return [q for q in qs if 0.0 <= q <= 1.0]


def mk_q_case(routine, et, strat, shape, axis, vals, qs, lay, mode, profile="debug", il=0, **kw):
    """il: presentation of the q array for the bulk routines (harness common::present): 0 owned contiguous,
    1 reversed view of reversed storage, 2 every second element of padded storage, 3 reversed stepped"""
    cd = Codec(et)
    toks = [cd.tok(v) for v in vals]
    guard_v = {"n64": 12345.5}.get(et, 77 if et in ("i8", "u8") else 7777)
    gt = cd.tok(guard_v)
    buf_t = lay.embed(toks, lambda k: gt)
    qbits = [f64_bits(q) for q in qs]
    line = "%s %d | %s | %d %s | %d | %d %s | %s" % (et, strat, lay.tokens(), len(buf_t), " ".join(buf_t), axis, len(qs),
                                                    " ".join(map(str, qbits)), pivot_tokens(mode))
    if il and routine in ("quantiles", "quantiles1"):
        line += " %d" % il
        kw["q_layout"] = il
    return Case(routine, " ".join(line.split()), profile, et=et, strat=strat, shape=list(shape), axis=axis,
                vals=list(vals), qs=list(qs), qbits=qbits, buf_m=[int(t) for t in buf_t], cells=lay.cells(),
                layout=lay.describe(), mode=mode, **kw)


def parse_q(case):
    secs = [s.split() for s in case.raw.split("|")]
    head = secs[0]
    cd = Codec(case.et)
    if head[0] == "OK":
        rshape = [int(x) for x in head[2:]]
        vals_t = secs[1][1:]
        post = [int(x) for x in secs[2][1:]]
        plog = parse_log(secs[3])
        case.obs = dict(tag="OK", rshape=rshape, vals_t=vals_t, vals_m=[int(x) for x in vals_t], post=post, plog=plog)
    elif head[0] == "ERR":
        case.obs = dict(tag="ERR", kind=head[1], qbits=int(head[2]) if head[1] == "I" else None,
                        post=[int(x) for x in secs[1][1:]], plog=parse_log(secs[2]))
    elif head[0] == "PANIC" and len(secs) >= 3:
        case.obs = dict(tag="PANIC", post=[int(x) for x in secs[1][1:]], plog=parse_log(secs[2]))
    else:
        case.obs = dict(tag=head[0], post=None, plog=[])


def out_shape(case):
    if case.routine in ("quantile", "qskipnan"):
        return result_shape(case.shape, case.axis)
    if case.routine == "quantile1":
        return []
    sh = list(case.shape)
    sh[case.axis] = len(case.qs)
    return sh


def lane_values(case, flat_vals):
    """reorganise the result array (row-major) into per-lane lists in lane order"""
    nq = len(case.qs)
    if case.routine in ("quantile", "quantile1", "qskipnan"):
        return [[v] for v in flat_vals]
    sh = out_shape(case)
    lanes = lane_positions(sh, case.axis)
    return [[flat_vals[p] for p in ln] for ln in lanes]


def flat_obs(case):
    o = case.obs
    if o["tag"] == "OK":
        lv = lane_values(case, o["vals_m"])
        return [0, len(o["plog"])] + [v for l in lv for v in l] + o["post"]
    if o["tag"] == "ERR":
        return [1] if o["kind"] == "E" else [2, o["qbits"]]
    if o["tag"] == "PANIC":
        return [3]
    return [99]


def num(et, tok):
    """numeric value of an element token"""
    if et == "n64":
        x = bits_f64(int(tok))
        if x != x or x in (float("inf"), float("-inf")):
            return None
        return Fraction(x)
    return Fraction(int(tok))


def representable_gap(et, lo, hi):
    d = hi - lo
    if et == "n64":
        return abs(d) <= Fraction(1.7976931348623157e308)
    a, b = INT_RANGES[et]
    return a <= d <= b


def q_oracle(case, lanes_sorted_tokens, vals_lanes):
    """the property: each result element equals the documented order statistic of its lane.
    lanes_sorted_tokens: per lane, element values (Fractions) sorted. Returns (failures, k1flag)"""
    out = []
    k1 = False
    et, strat = case.et, case.strat
    for ln, got in zip(lanes_sorted_tokens, vals_lanes):
        n = len(ln)
        for q, g in zip(case.qs, got):
            x = q * float(n - 1)          # the documented computation, in binary64
            lo, hi = math.floor(x), math.ceil(x)
            frac = Fraction(x) - Fraction(math.trunc(x))
            a, b = ln[lo], ln[hi]
            name = STRATS[strat]
            if g is None:
                ok = False
                if not representable_gap(et, a, b):
                    k1 = True
            elif name == "Lower":
                ok = g == a
            elif name == "Higher":
                ok = g == b
            elif name == "Nearest":
                ok = g == (a if frac < Fraction(1, 2) else b)
            else:
                exact = (a + b) / 2 if name == "Midpoint" else a + frac * (b - a)
                if et == "n64":
                    tol = max(abs(a), abs(b), Fraction(1, 10 ** 300)) * Fraction(4, 2 ** 52)
                    ok = abs(g - exact) <= tol and (a - tol <= g <= b + tol)
                else:
                    ok = a <= g <= b and abs(g - exact) < 1
                if not ok and not representable_gap(et, a, b) and (et == "n64" or INT_RANGES[et][0] < 0):
                    k1 = True
            if not ok:
                out.append("value: q=%r strategy %s on sorted lane %s -> %s (lower %s, higher %s, frac %s)" % (
                    q, name, [str(v) for v in ln[:8]], g, a, b, float(frac)))
                return out, k1
    return out, k1


def in_k1_class(case):
    """strategy Midpoint/Linear, signed or float element type, some adjacent-in-sort gap within a
    lane not representable"""
    if STRATS[case.strat] not in ("Midpoint", "Linear"):
        return False
    if case.et != "n64" and INT_RANGES[case.et][0] >= 0:
        return False
    lanes = lane_positions(case.shape, case.axis) if case.shape else [[0]]
    for ln in lanes:
        vs = sorted(num(case.et, Codec(case.et).tok(case.vals[p])) for p in ln)
        if vs and not representable_gap(case.et, vs[0], vs[-1]):
            return True
    return False


class C01(Prop):
    id = "C01"
    imports = ["Run.RunQuant"]
    coq_batch = 250
    rule = ("lanes with heavy duplicates and extremes of the element type (i8/i32/i64/u8/u64/N64), lane lengths 1..12 "
            "exhaustively gridded and longer random ones, q in {k/(N-1), (k+.5)/(N-1), each one ulp below and above, 0, 1, "
            "random}, all five strategies, 1-4 dimensions, every axis, the layout zoo, bulk lists with repeats, single and "
            "bulk, 1-D and n-D entry points. Result values, result shape, the whole parent buffer and the number of pivot "
            "draws are compared with the model; pivots: replayed from the hook's log (single lane) or stateless policies "
            "(several lanes). Non-trivial: lane length >= 2.")
    exhaustive_note = {"quick": "lane lengths 1..7 x full q grid x 5 strategies x 6 element types (one lane each); n-D sampled",
                       "thorough": "lane lengths 1..12 x full q grid x 5 strategies x 6 element types; n-D x every axis x 4 layouts"}
    correspondences = {r: "corr:C01/%s/values+shape+parent-buffer+pivot-count" % r for r in ("quantiles", "quantile", "quantiles1", "quantile1")}
    trusted_base = ["Flocq binary64 (BinarySingleNaN) evaluated with vm_compute stands for Rust's f64 arithmetic (round to nearest even, no contraction)",
                    "ndarray lanes_mut / Zip over lanes, index_axis_move, into_scalar"]
    assumptions = ["lane lengths <= 2^53", "Linear on 64-bit integers only for magnitudes below 2^52 (generator stays inside)",
                   "known-finding class K1: Midpoint/Linear on signed or float elements whose bracketing gap is not representable"]

    def gen(self, tier, rng):
        maxn = 7 if tier == "quick" else 12
        k = 0
        # one lane, gridded
        for n in range(1, maxn + 1):
            for et in ALL_ETS:
                for strat in range(5):
                    k += 1
                    vals = self._lane(et, n, rng, strat)
                    qs = q_grid(n, rng)
                    rng.shuffle(qs)
                    qs = qs[:24] if tier == "quick" else qs
                    lay = lay1(n, *rng.choice([(1, 0, 0), (2, 1, 1), (-1, 0, 1), (3, 2, 0), (-2, 1, 0)]))
                    mode = rng.choice([("R",), ("P", 0), ("P", 1), ("P", 2), ("P", 7), ("S", [rng.below(n) for _ in range(6)])])
                    routine = "quantiles1" if k % 2 else "quantiles"
                    yield mk_q_case(routine, et, strat, [n], 0, vals, qs, lay, mode, il=k % 4)
                    # the same requests one at a time
                    for q in qs[:3]:
                        yield mk_q_case("quantile1" if k % 2 else "quantile", et, strat, [n], 0, vals, [q], lay, mode)
        # n-D, every axis
        nnd = 120 if tier == "quick" else 5000
        for _ in range(nnd):
            nd = rng.range(2, 4)
            shape = [rng.range(1, 4) for _ in range(nd)]
            if rng.chance(1, 15):
                shape[rng.below(nd)] = 0
            et = rng.choice(ALL_ETS)
            strat = rng.below(5)
            n = prod(shape)
            vals = self._lane(et, n, rng, strat)
            for axis in range(nd):
                N = shape[axis]
                qs = [rng.choice(q_grid(max(N, 1), rng)) for _ in range(rng.range(0, 4))]
                lay = rng.choice(zoo(shape, rng, 3))
                mode = ("P", rng.below(3))
                if rng.chance(1, 3) and qs:
                    yield mk_q_case("quantile", et, strat, shape, axis, vals, qs[:1], lay, mode)
                else:
                    yield mk_q_case("quantiles", et, strat, shape, axis, vals, qs, lay, mode, il=rng.below(4))
        # longer lanes
        for _ in range(60 if tier == "quick" else 2400):
            n = rng.range(13, 120)
            et = rng.choice(ALL_ETS)
            strat = rng.below(5)
            vals = self._lane(et, n, rng, strat)
            qs = [rng.choice(q_grid(n, rng, 6)) for _ in range(rng.range(1, 8))]
            yield mk_q_case("quantiles1", et, strat, [n], 0, vals, qs, lay1(n, rng.choice([1, 2, -1]), 0, 0), ("R",))
        # Linear on 64-bit integers beyond 2^53, probed only where (N-1)q is integral (fraction 0: the order statistic itself
        # must come back exactly; in between, the binary64 arithmetic of Linear is outside the property's quantifier)
        for _ in range(10 if tier == "quick" else 300):
            et, base = rng.choice([("i64", 2 ** 53 + 1), ("i64", -(2 ** 53) - 1), ("u64", 2 ** 60 + 100), ("u64", 2 ** 64 - 300)])
            n = rng.choice([2, 3, 5, 9])
            vals = [base + rng.choice([0, 1, 2, 3, 5, 7, 11, 100]) for _ in range(n)]
            qs = [k / (n - 1) for k in range(n) if (k / (n - 1)) * float(n - 1) == float(k)]
            rng.shuffle(qs)
            yield mk_q_case("quantiles1", et, 4, [n], 0, vals, qs, lay1(n, rng.choice([1, -1, 2]), 0, 0), ("P", rng.below(3)))
        # malformed stream: invalid q, empty axis
        for et in ("i32", "n64"):
            for qs in ([-0.1], [1.5], [0.5, 2.0, -1.0], [float("inf")], [0.2, -0.0], [-2.7755575615628914e-17], [0.5, -5e-324, 3.0],
                       [1.0000000000000002]):
                yield mk_q_case("quantiles", et, 1, [3], 0, self._lane(et, 3, rng, 1), qs, lay1(3), ("R",))
            # two different offenders: the first one in LOGICAL order is reported, however the q array is laid out
            for il in range(4):
                yield mk_q_case("quantiles", et, 1, [3], 0, self._lane(et, 3, rng, 1), [0.5, 2.0, 0.25, -1.0, 3.5], lay1(3), ("R",), il=il)
                yield mk_q_case("quantiles", et, 1, [0], 0, [], qs, lay1(0), ("R",))
            yield mk_q_case("quantiles", et, 1, [0], 0, [], [0.5], lay1(0), ("R",))
            yield mk_q_case("quantiles", et, 1, [3], 0, self._lane(et, 3, rng, 1), [], lay1(3), ("R",))

    def _lane(self, et, n, rng, strat):
        if et == "n64":
            pool = [0.1 * k for k in range(-4, 5)] + [1e300, -1e300, 2.5, 1e-310, 3.0]
            if STRATS[strat] in ("Midpoint", "Linear"):
                pool = [p for p in pool if abs(p) < 1e299]
            m = rng.choice([2, 3, len(pool)])
            return [pool[rng.below(m)] for _ in range(n)]
        lo, hi = INT_RANGES[et]
        if STRATS[strat] in ("Midpoint", "Linear") and lo < 0:
            lo, hi = lo // 2 + 1, hi // 2      # stay outside the K1 class
        if STRATS[strat] == "Linear" and et in ("i64", "u64"):
            lo, hi = max(lo, -(2 ** 52) + 1), min(hi, 2 ** 52 - 1)
        style = rng.below(4)
        if style == 0:
            pool = [lo, hi, lo + 1, hi - 1, (lo + hi) // 2]
        elif style == 1:
            pool = [rng.range(lo, hi) for _ in range(3)]
        else:
            c = rng.range(max(lo, -50), min(hi - 10, 50))
            pool = list(range(c, c + rng.choice([2, 5, 10])))
        return [rng.choice(pool) for _ in range(n)]

    def corpus(self):
        # K1 witnesses (known finding): must be reported as KNOWN-FINDING, not as a violation
        out = []
        for profile in ("debug",):
            out.append(mk_q_case("quantile1", "i8", 3, [2], 0, [-100, 100], [0.5], lay1(2), ("R",), profile=profile, k1_witness=True))
            out.append(mk_q_case("quantile1", "i8", 4, [2], 0, [-100, 100], [0.99], lay1(2), ("R",), profile=profile, k1_witness=True))
            out.append(mk_q_case("quantile1", "n64", 3, [2], 0, [-1e308, 1e308], [0.5], lay1(2), ("R",), profile=profile, k1_witness=True))
        # documentation example and D3-independent sanity
        out.append(mk_q_case("quantiles1", "i64", 4, [5], 0, [1, 4, 2, 3, 5], [0.5, 0.25], lay1(5), ("P", 0)))
        return out

    def parse(self, case):
        parse_q(case)

    def _multi_lane(self, case):
        lanes = lane_positions(case.shape, case.axis)
        return lanes

    def oracle(self, case):
        o = case.obs
        out = []
        bad = [q for q in case.qs if not (0.0 <= q <= 1.0)]
        N = case.shape[case.axis] if case.shape else 1
        if bad:
            if o["tag"] != "ERR" or o["kind"] != "I" or o["qbits"] != f64_bits(bad[0]):
                out.append("error: invalid q %r must yield InvalidQuantile carrying it, got %s" % (bad[0], o))
            return out
        if N == 0:
            if o["tag"] != "ERR" or o["kind"] != "E":
                out.append("error: zero-length axis must yield EmptyInput, got %s" % o["tag"])
            return out
        if o["tag"] == "PANIC":
            return ["panic: quantile call panicked on valid arguments"]
        if o["tag"] != "OK":
            return ["error: unexpected outcome %s on valid arguments" % o["tag"]]
        if o["rshape"] != out_shape(case):
            out.append("shape: result shape %s, expected %s" % (o["rshape"], out_shape(case)))
            return out
        cd = Codec(case.et)
        lanes = self._multi_lane(case)
        if len(case.qs) == 0 or prod(out_shape(case)) == 0:
            if o["vals_t"]:
                out.append("shape: values returned for an empty result")
        else:
            srt = [sorted(num(case.et, cd.tok(case.vals[p])) for p in ln) for ln in lanes]
            got = lane_values(case, [num(case.et, t) for t in o["vals_t"]])
            fails, k1 = q_oracle(case, srt, got)
            case.k1 = k1
            out += fails
        # C03 part: lanes keep their multiset, guards untouched
        post = o["post"]
        for ln in lanes:
            if sorted(post[case.cells[p]] for p in ln) != sorted(case.buf_m[case.cells[p]] for p in ln):
                out.append("lane-multiset: a lane no longer holds its multiset")
                break
        cs = set(case.cells)
        if any(post[c] != case.buf_m[c] for c in range(len(post)) if c not in cs):
            out.append("frame: a cell outside the view was modified")
        return out

    def known_class(self, case, reasons):
        if in_k1_class(case):
            if any(r.startswith("value:") or r.startswith("panic:") or r == "model-disagreement" for r in reasons):
                return "K1"
        return None

    def _pm(self, case):
        lanes = self._multi_lane(case)
        if len(lanes) <= 1 or case.mode[0] != "P":
            plog = case.obs["plog"] if case.obs else []
            return "(PScript %s)" % zlist([c for _, c in plog])
        return "(PPolicy %d)" % case.mode[1]

    def chk_term(self, case):
        if case.mode[0] == "P" and case.mode[1] > 2 and len(self._multi_lane(case)) > 1:
            return None
        return "chkq (%s) %s" % (self.model_term(case), zlist(flat_obs(case)))

    def model_term(self, case):
        lanes = self._multi_lane(case)
        ll = "[" + ";".join("[" + ";".join("%d%%nat" % case.cells[p] for p in ln) + "]" for ln in lanes) + "]"
        N = case.shape[case.axis] if case.shape else 1
        other = prod(result_shape(case.shape, case.axis)) if case.shape else 1
        qb = zlist(case.qbits)
        if case.et == "n64":
            return "m_quantiles_n64 %d %s %d %d %s %s %s" % (case.strat, qb, N, other, zlist(case.buf_m), ll, self._pm(case))
        sg = "true" if INT_RANGES[case.et][0] < 0 else "false"
        bw = {"i8": 8, "u8": 8, "i32": 32, "i64": 64, "u64": 64}[case.et]
        return "m_quantiles_int %s %d %d %s %d %d %s %s %s" % (sg, bw, case.strat, qb, N, other, zlist(case.buf_m), ll, self._pm(case))

    def nontrivial(self, case):
        N = case.shape[case.axis] if case.shape else 1
        return N >= 2 and len(case.qs) >= 1 and case.obs["tag"] == "OK"

    def key(self, case):
        return (case.routine, case.et, case.strat, tuple(case.shape), case.axis, tuple(case.buf_m), tuple(case.qbits), case.layout)

    def coverage_extra(self, cases):
        h = {}
        for c in cases:
            k = "%s/%s" % (c.et, STRATS[c.strat])
            h[k] = h.get(k, 0) + 1
        return {"by_type_and_strategy": h, "q_values": sum(len(c.qs) for c in cases)}


PROP = C01()
