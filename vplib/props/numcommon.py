"""Shared pieces of the numeric property modules (C06-C10, C17, C18, C20)."""
from fractions import Fraction
from ..runner import Case
from ..codec import Codec, f64_bits, bits_f64, f32_bits, bits_f32
from ..layouts import zoo, contiguous
from ..nd import prod
from ..pyfloat import FP


def enc_vals(et, vals):
    if et == "f64":
        return [str(f64_bits(float(v))) for v in vals]
    if et == "f32":
        return [str(f32_bits(float(v))) for v in vals]
    return [str(int(v)) for v in vals]


def model_ints(et, vals):
    """the integers handed to the Coq model: bit patterns for floats, values for integers"""
    return [int(t) for t in enc_vals(et, vals)]


def arr_tokens(et, vals, lay, guard=1):
    toks = enc_vals(et, vals)
    g = enc_vals(et, [guard])[0]
    buf = lay.embed(toks, lambda k: g)
    return "%s | %d %s" % (lay.tokens(), len(buf), " ".join(buf))


def mk_num_case(routine, et, arrays, params="", **kw):
    """arrays: list of (shape, vals, layout)"""
    parts = [arr_tokens(et, v, l) for (_, v, l) in arrays]
    line = "%s | %s |" % (et, " | ".join(parts))
    if params != "":
        line += " " + params
    kw.update(et=et, shapes=[list(s) for (s, _, _) in arrays], vals=[list(v) for (_, v, _) in arrays],
              lays=[l for (_, _, l) in arrays], layouts=[l.describe() for (_, _, l) in arrays], params=params)
    c = Case(routine, " ".join(line.split()), **kw)
    c._lays = c.__dict__.pop("lays")
    return c


def alias_pairs(shape, rng):
    """pairs of layouts over ONE parent allocation presenting two logical arrays of `shape` that start
    at the same element or overlap: identical views, a square block against its transpose, a stepped
    view against a prefix, a reversed view against the forward one"""
    from ..layouts import Layout
    nd = len(shape)
    ident = list(range(nd))
    out = []
    c = contiguous(shape)
    out.append((c, c))
    if nd >= 2 and len(set(shape)) == 1:
        out.append((c, Layout(shape, [(0, s, 1) for s in shape], list(reversed(ident)))))
    if nd >= 2:
        # the same block inside a larger parent, second operand with two axes of equal length swapped
        for i in range(nd):
            for j in range(i + 1, nd):
                if shape[i] == shape[j]:
                    perm = ident[:]
                    perm[i], perm[j] = j, i
                    out.append((c, Layout(shape, [(0, s, 1) for s in shape], perm)))
    # stepped against prefix (same first element), reversed against forward (overlapping, other start)
    big = [2 * s for s in shape]
    step = Layout(big, [(0, 2 * s - 1 if s else 0, 2) for s in shape], ident)
    pref = Layout(big, [(0, s, 1) for s in shape], ident)
    out.append((step, pref))
    rev = Layout(shape, [(0, s, -1) for s in shape], ident)
    out.append((c, rev))
    k = rng.below(len(out))
    return out[k:] + out[:k]


def mk_alias_case(routine, et, pbuf, la, lb, params="", **kw):
    """two operands that are views (layouts la, lb over the same parent shape) into ONE allocation
    holding `pbuf`; the second operand's data section is `@`"""
    assert la.pshape == lb.pshape and len(pbuf) == la.parent_len()
    toks = enc_vals(et, pbuf)
    va = [pbuf[c] for c in la.cells()]
    vb = [pbuf[c] for c in lb.cells()]
    line = "%s | %s | %d %s | %s | @ |" % (et, la.tokens(), len(toks), " ".join(toks), lb.tokens())
    if params != "":
        line += " " + params
    kw.update(et=et, shapes=[la.shape(), lb.shape()], vals=[va, vb],
              layouts=[la.describe(), "alias:" + lb.describe()], params=params)
    c = Case(routine, " ".join(line.split()), **kw)
    c._lays = [la, lb]
    return c


def plan_of(case, k):
    """Coq term for ndarray's summation order over operand k.  The order is computed INSIDE Coq by the model of
    ndarray's is_contiguous / as_slice_memory_order / rows (Num/Layout.v) from the shape and strides the harness
    OBSERVED on the real view; the Python mirror (vplib/plans.py) is only cross-checked against that observation
    and used when a result carries no layout section."""
    from ..plans import sum_plan, plan_term, view_strides
    lays = (case.obs or {}).get("lays") or []
    lay = case._lays[k]
    if k < len(lays):
        shape, strides = lays[k]
        mine = view_strides(lay)
        if shape != lay.shape() or any(d > 1 and a != b for d, a, b in zip(shape, strides, mine)):
            raise RuntimeError("layout mirror disagrees with ndarray: %s %s vs %s %s" % (shape, strides, lay.shape(), mine))
        return "(sum_plan_of (mkL [%s] [%s]))" % (";".join(map(str, shape)), ";".join("(%d)" % x for x in strides))
    return plan_term(sum_plan(lay))


def parse_num(case):
    raw = case.raw
    secs = [s.split() for s in raw.split("|")]
    head = secs[0]
    if head[0] == "OK":
        shape = [int(x) for x in head[2:]]
        vals = [canon_nan(getattr(case, "out_et", case.et), int(x)) for x in secs[1][1:]]
        lays = []
        for sec in secs[2:]:
            if sec[:1] == ["L"]:
                nd = int(sec[1])
                lays.append(([int(x) for x in sec[2:2 + nd]], [int(x) for x in sec[2 + nd:2 + 2 * nd]]))
        case.obs = dict(tag="OK", shape=shape, vals=vals, lays=lays)
    elif head[0] == "ERR":
        if head[1] == "E":
            case.obs = dict(tag="ERR", kind="E")
        else:
            n1 = int(head[2])
            s1 = [int(x) for x in head[3:3 + n1]]
            n2 = int(head[3 + n1])
            s2 = [int(x) for x in head[4 + n1:4 + n1 + n2]]
            case.obs = dict(tag="ERR", kind="S", first=s1, second=s2)
    else:
        case.obs = dict(tag=head[0])


def canon_nan(et, b):
    """all NaN bit patterns are one value (the model has a single NaN)"""
    if et == "f64" and (b >> 52) & 0x7FF == 0x7FF and b & ((1 << 52) - 1):
        return 0x7FF8000000000000
    if et == "f32" and (b >> 23) & 0xFF == 0xFF and b & ((1 << 23) - 1):
        return 0x7FC00000
    return b


def fval(et, bits):
    return bits_f64(bits) if et == "f64" else bits_f32(bits)


def float_pool(style, n, rng, et):
    """n finite floats in a given conditioning style"""
    single = et == "f32"
    big = 2.0 ** (60 if single else 200)
    out = []
    for i in range(n):
        if style == 0:      # small integers and halves
            x = rng.range(-20, 20) / 2.0
        elif style == 1:    # decimal fractions (not exactly representable)
            x = rng.range(-1000, 1000) / 1000.0
        elif style == 2:    # large common offset, small spread
            x = (1.0e6 if single else 1.0e12) + rng.range(0, 1000) / 8.0
        elif style == 3:    # cancelling signs
            x = (1 if i % 2 else -1) * (1000.0 + rng.range(0, 100) / 16.0)
        elif style == 4:    # mixed magnitudes
            x = rng.choice([1.0, -1.0]) * rng.choice([1.0 / big, 1.0, big, 3.5, 1.0e-3]) * rng.range(1, 9)
        else:               # positive (probabilities / weights)
            x = rng.range(1, 1000) / 1000.0
        out.append(FP(et).r(x))
    return out


def exact(et, vals_bits):
    return [Fraction(fval(et, b)) for b in vals_bits]
