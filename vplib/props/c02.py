"""C02 - selection returns the true order statistic under every pivot sequence."""
from ..runner import Prop, Case
from ..layouts import lay1, weak_orders
from ..core import zlist, z
from .. import pymodel

GUARD = 7777000
LAYS = [(1, 0, 0), (2, 1, 1), (-1, 0, 1), (3, 2, 0), (-2, 1, 0)]


def pivot_tokens(mode):
    kind = mode[0]
    if kind == "R":
        return "R"
    if kind == "S":
        return "S %d %s" % (len(mode[1]), " ".join(map(str, mode[1]))) if mode[1] else "S 0"
    return "P %d" % mode[1]


def mk_select_case(data, i, lay, mode, et="i64", profile="debug", **kw):
    s, o, t = lay
    L = lay1(len(data), s, o, t)
    buf = L.embed(list(data), lambda k: GUARD + k)
    line = "%s | %s | %d %s | %d | %s" % (et, L.tokens(), len(buf), " ".join(map(str, buf)), i, pivot_tokens(mode))
    return Case("select", line.replace("  ", " "), profile, data=list(data), i=i, lay=L.view1(), cells=L.cells(),
                buf=buf, mode=mode, **kw)


_IL = [0]


def mk_many_case(data, idxs, lay, mode, et="i64", profile="debug", il=None, **kw):
    """il: how the index array is presented to the routine - 0 owned Array1, 1 reversed view of reversed
    storage, 2 every second element of padded storage, 3 reversed stepped view, 4 shared (ArcArray).
    The LOGICAL index list is the same in every case; by default the kinds rotate."""
    s, o, t = lay
    L = lay1(len(data), s, o, t)
    buf = L.embed(list(data), lambda k: GUARD + k)
    if il is None:
        _IL[0] += 1
        il = _IL[0] % 5
    line = "%s | %s | %d %s | %d %s | %s %d" % (et, L.tokens(), len(buf), " ".join(map(str, buf)), len(idxs),
                                               " ".join(map(str, idxs)), pivot_tokens(mode), il)
    return Case("select_many", " ".join(line.split()), profile, data=list(data), idxs=list(idxs), lay=L.view1(),
                cells=L.cells(), buf=buf, mode=mode, il=il, **kw)


def parse_log(toks):
    n = int(toks[0])
    vals = [int(x) for x in toks[1:1 + 2 * n]]
    return [(vals[2 * k], vals[2 * k + 1]) for k in range(n)]


def parse_sel(case):
    secs = [s.split() for s in case.raw.split("|")]
    head = secs[0]
    if case.routine == "select":
        if head[0] == "OK":
            case.obs = ("OK", int(head[1]), [int(x) for x in secs[1][1:]], parse_log(secs[2]))
        elif head[0] == "PANIC" and len(secs) >= 3:
            case.obs = ("PANIC", None, [int(x) for x in secs[1][1:]], parse_log(secs[2]))
        else:
            case.obs = (head[0], None, None, [])
    else:
        if head[0] == "OK":
            keys = [int(x) for x in head[2:]]
            vals = [int(x) for x in secs[1][1:]]
            case.obs = ("OK", (keys, vals), [int(x) for x in secs[2][1:]], parse_log(secs[3]))
        elif head[0] == "PANIC" and len(secs) >= 3:
            case.obs = ("PANIC", None, [int(x) for x in secs[1][1:]], parse_log(secs[2]))
        else:
            case.obs = (head[0], None, None, [])


def frame_and_multiset(case, post):
    out = []
    a2 = [post[c] for c in case.cells]
    if sorted(a2) != sorted(case.data):
        out.append("multiset: lane contents changed")
    cs = set(case.cells)
    for c in range(len(case.buf)):
        if c not in cs and post[c] != case.buf[c]:
            out.append("frame: parent cell %d outside the view modified" % c)
            break
    return a2, out


def oracle_sel(case):
    """the property, stated independently: full sort + two-sided ordering + multiset"""
    tag, val, post, plog = case.obs
    a = case.data
    n = len(a)
    out = []
    if case.routine == "select":
        i = case.i
        if i >= n:
            if tag != "PANIC":
                out.append("oob-accepted: index %d >= length %d did not panic (outcome %s)" % (i, n, tag))
            elif post is not None and post != case.buf:
                pass  # contents after a rejected call are not constrained by C16
            return out
        if tag != "OK":
            return ["in-range-rejected: outcome %s for in-range index" % tag]
        a2, o2 = frame_and_multiset(case, post)
        out += o2
        want = sorted(a)[i]
        if val != want:
            out.append("order-statistic: returned %d, a full sort places %d at position %d" % (val, want, i))
        if any(x > val for x in a2[:i]):
            out.append("post-order: an element before position i is greater than the returned element")
        if any(x < val for x in a2[i:]):
            out.append("post-order: an element from position i on is smaller than the returned element")
    else:
        idxs = case.idxs
        if any(i >= n for i in idxs):
            if tag != "PANIC":
                out.append("oob-accepted: an index >= length %d did not panic (outcome %s)" % (n, tag))
            return out
        if tag != "OK":
            return ["in-range-rejected: outcome %s for in-range indexes" % tag]
        keys, vals = val
        a2, o2 = frame_and_multiset(case, post)
        out += o2
        if keys != sorted(set(idxs)):
            out.append("keys: map keys %s are not the distinct requested indexes in increasing order" % keys)
        srt = sorted(a)
        for k, v in zip(keys, vals):
            if k < n and v != srt[k]:
                out.append("order-statistic: index %d -> %d, a full sort places %d there" % (k, v, srt[k]))
                break
        if len(vals) != len(keys):
            out.append("keys: %d keys but %d values" % (len(keys), len(vals)))
    return out


def chk_term_sel(case):
    tag, val, post, plog = case.obs
    off, n, st = case.lay
    script = zlist([c for (_, c) in plog])
    if post is None:
        return "false"
    if case.routine == "select":
        if tag == "OK":
            o = "(OS_Ok %s %s %d)" % (z(val), zlist(post), len(plog))
        elif tag == "PANIC":
            o = "(OS_Panic %s)" % zlist(post)
        else:
            return "false"
        return "chk_select %s %s %s %s %s %s %s" % (zlist(case.buf), z(off), z(n), z(st), z(case.i), script, o)
    if tag == "OK":
        o = "(OM_Ok %s %s %s %d)" % (zlist(val[0]), zlist(val[1]), zlist(post), len(plog))
    elif tag == "PANIC":
        o = "(OM_Panic %s)" % zlist(post)
    else:
        return "false"
    return "chk_select_many %s %s %s %s %s %s %s" % (zlist(case.buf), z(off), z(n), z(st), zlist(case.idxs), script, o)


def model_term_sel(case):
    off, n, st = case.lay
    plog = case.obs[3] if case.obs else []
    script = zlist([c for (_, c) in plog])
    if case.routine == "select":
        return "m_select %s %s %s %s %s %s" % (zlist(case.buf), z(off), z(n), z(st), z(case.i), script)
    return "m_select_many %s %s %s %s %s %s" % (zlist(case.buf), z(off), z(n), z(st), zlist(case.idxs), script)


def request_orderings(sub, rng, how_many):
    """the requested index list as the caller might pass it: shuffled, with repeats"""
    outs = [list(sub)]
    for _ in range(how_many - 1):
        l = list(sub) + [rng.choice(sub) for _ in range(rng.below(3))] if sub else []
        rng.shuffle(l)
        outs.append(l)
    return outs


class C02(Prop):
    id = "C02"
    imports = ["Run.RunSort"]
    rule = ("weak-order patterns x every index x EVERY pivot script (enumerated by depth-first extension through the "
            "pivot hook) up to the tier's length bound; bulk: every subset of positions x scripts x request orderings "
            "with repeats; longer random arrays under recorded-random, policy and adversarial scripts. The pivot "
            "choices logged by the implementation are replayed in the model, so value, whole parent buffer and number "
            "of pivot draws are compared exactly. Non-trivial: at least one pivot was drawn.")
    exhaustive_note = {
        "quick": "select: all weak orders of length <= 4 x every index x every pivot script; bulk: length <= 3 x every index subset x every script",
        "thorough": "select: all weak orders of length <= 5 x every index x every pivot script, length 6-7 x six policies; bulk: length <= 4 x every subset x every script"}
    correspondences = {"select": "corr:C02/select/value+parent-buffer+pivot-count",
                       "select_many": "corr:C02/select_many/keys+values+parent-buffer+pivot-count"}
    trusted_base = ["pivot hook (src/verif_hooks.rs): replaces the drawn pivot after gen_range and logs it",
                    "ndarray indexing/swap/slice_axis_mut semantics; IndexMap insertion-order iteration"]
    assumptions = ["element type Ord is a total order (instantiated with i64)"]

    def gen(self, tier, rng):
        sel_n = 4 if tier == "quick" else 5
        bulk_n = 3 if tier == "quick" else 4
        k = 0
        for n in range(1, sel_n + 1):
            for pat in weak_orders(n):
                data = [10 * v for v in pat]
                for i in range(n):
                    for script in pymodel.select_scripts(data, i):
                        k += 1
                        yield mk_select_case(data, i, LAYS[k % 5] if n > 2 else LAYS[k % 3], ("S", list(script)))
        for n in range(0, bulk_n + 1):
            for pat in weak_orders(n):
                data = [10 * v for v in pat]
                for mask in range(1 << n):
                    sub = [p for p in range(n) if mask >> p & 1]
                    for script in pymodel.bulk_scripts(data, sub):
                        k += 1
                        for req in request_orderings(sub, rng, 2 if tier == "quick" else 3):
                            yield mk_many_case(data, req, LAYS[k % 5], ("S", list(script)))
        # one size up: every subset under sampled scripts and policies
        n = bulk_n + 1
        for pat in weak_orders(n):
            data = [10 * v for v in pat]
            for mask in range(1 << n):
                sub = [p for p in range(n) if mask >> p & 1]
                k += 1
                if tier == "quick" and k % 4:
                    continue
                scripts = pymodel.bulk_scripts(data, sub, limit=50)
                mode = ("S", list(rng.choice(scripts))) if scripts and rng.chance(1, 2) else ("P", rng.below(8))
                yield mk_many_case(data, request_orderings(sub, rng, 2)[1], LAYS[k % 5], mode)
        if tier == "thorough":
            for n in (6, 7):
                for pat in weak_orders(n):
                    k += 1
                    if n == 7 and k % 3:
                        continue
                    data = [10 * v for v in pat]
                    for i in range(n):
                        yield mk_select_case(data, i, LAYS[(k + i) % 5], ("P", (k + i) % 6))
        # random, longer
        nrand = 600 if tier == "quick" else 6000
        for _ in range(nrand):
            n = rng.range(1, 200 if rng.chance(1, 4) else 40)
            hi = rng.choice([1, 2, 5, n, 10 ** 6])
            data = [rng.range(-hi, hi) for _ in range(n)]
            mode = rng.choice([("R",), ("P", 0), ("P", 1), ("P", 2), ("P", rng.range(3, 50)),
                               ("S", [0] * 8), ("S", [n - 1] * 8), ("S", [rng.below(n) for _ in range(12)])])
            lay = rng.choice(LAYS)
            if rng.chance(1, 2):
                yield mk_select_case(data, rng.below(n), lay, mode)
            else:
                m = rng.range(0, min(n, 12))
                idxs = [rng.below(n) for _ in range(m)]
                yield mk_many_case(data, idxs, lay, mode)

        # deep recursions: arrays of 66..160 elements dominated by one repeated value (each partition around it
        # peels off a single element) or already sorted with first/last-position pivots, on every layout and in
        # particular on reversed contiguous views
        for rep in range(40 if tier == "quick" else 600):
            n = rng.range(66, 160)
            if rep % 2:
                common = rng.range(-3, 3)
                data = [common] * n
                for _ in range(rng.range(2, 9)):
                    data[rng.below(n)] = common + rng.range(-4, 6)
                mode = rng.choice([("R",), ("P", 0), ("P", 1), ("P", 2)])
            else:
                data = sorted(rng.range(-50, 50) for _ in range(n))
                if rng.chance(1, 2):
                    data.reverse()
                mode = rng.choice([("P", 0), ("P", 1), ("R",)])
            lay = [(-1, 0, 0), (-1, 1, 2), (1, 0, 0), (2, 0, 1), (-2, 1, 0)][rep % 5]
            if rng.chance(1, 2):
                yield mk_select_case(data, rng.choice([0, n - 1, n // 2, rng.below(n)]), lay, mode)
            else:
                yield mk_many_case(data, [rng.below(n) for _ in range(rng.range(1, 6))] + [n - 1], lay, mode)

    def corpus(self):
        return [mk_select_case([3, 1, 4, 1, 5, 9, 2, 6], 3, LAYS[0], ("S", [0, 0, 0])),
                mk_many_case([3, 1, 4, 1, 5, 9, 2, 6], [4, 1, 1, 7], LAYS[1], ("P", 1)),
                mk_many_case([], [], LAYS[0], ("R",)),
                mk_select_case([42], 0, LAYS[0], ("R",))]

    def parse(self, case):
        parse_sel(case)

    def oracle(self, case):
        return oracle_sel(case)

    def chk_term(self, case):
        return chk_term_sel(case)

    def model_term(self, case):
        return model_term_sel(case)

    def nontrivial(self, case):
        return case.obs is not None and len(case.obs[3]) >= 1

    def key(self, case):
        return (case.routine, tuple(case.data), case.__dict__.get("i"), tuple(case.__dict__.get("idxs", ())), case.__dict__.get("il"), case.lay,
                tuple(c for _, c in case.obs[3]) if case.obs else ())

    def coverage_extra(self, cases):
        draws = {}
        for c in cases:
            if c.obs:
                d = len(c.obs[3])
                draws[d] = draws.get(d, 0) + 1
        return {"pivot_draws_histogram": {str(k): v for k, v in sorted(draws.items())},
                "max_length": max([len(c.data) for c in cases] or [0])}


PROP = C02()
