"""C19 - quantiles obey order laws independent of any oracle."""
import itertools
import math
from ..runner import Prop
from ..codec import INT_RANGES, f64_bits, bits_f64, Codec
from ..layouts import lay1
from .c01 import mk_q_case, parse_q, C01, num, STRATS, q_grid, in_k1_class
from .c14 import mk_qsk_case, C14, NAN64

_c01 = C01()
_c14 = C14()


def dense_grid(n, rng):
    qs = set(q_grid(n, rng, 4))
    for k in range(0, 41):
        qs.add(k / 40.0)
    return sorted(qs)


class C19(Prop):
    id = "C19"
    imports = ["Run.RunQuant", "Run.RunNan"]
    coq_batch = 120
    rule = ("for each lane (lengths 1..9, heavy duplicates, i32/i64/u8/N64, outside the K1 class) one bulk call per strategy on a "
            "dense sorted q grid (k/40 plus every k/(N-1), (k+.5)/(N-1) and their ulp neighbours): monotone in q, between the "
            "lane minimum (at q = 0) and maximum (at q = 1), Lower <= {Nearest, Midpoint, Linear} <= Higher (N64 Linear up to one "
            "ulp), all five equal where (N-1)q is integral; ALL permutations of lanes of length <= 5 (sampled beyond) give the "
            "same result; random strictly increasing relabellings commute with Lower/Higher/Nearest. Every call is also "
            "compared with the model. Non-trivial: lane length >= 2.")
    exhaustive_note = {"quick": "all permutations of lanes of length <= 4", "thorough": "all permutations of lanes of length <= 5"}
    correspondences = {"quantiles1": "corr:C19/quantiles_mut/values+buffer (the laws themselves are checked on the implementation's results)"}
    trusted_base = []
    assumptions = ["laws are stated outside the K1 class; Linear on integers for magnitudes below 2^52"]

    def gen(self, tier, rng):
        maxn = 9
        reps = 6 if tier == "quick" else 120
        g = 0
        for n in range(1, maxn + 1):
            for _ in range(reps):
                g += 1
                et = rng.choice(["i32", "i64", "u8", "n64"])
                if et == "n64":
                    pool = [0.1 * k for k in range(-3, 6)]
                    vals = [pool[rng.below(rng.choice([2, 4, len(pool)]))] for _ in range(n)]
                else:
                    lo = 0 if et == "u8" else -50
                    vals = [rng.range(lo, lo + rng.choice([1, 3, 100])) for _ in range(n)]
                qs = dense_grid(n, rng)
                for strat in range(5):
                    c = mk_q_case("quantiles1", et, strat, [n], 0, vals, qs, lay1(n, rng.choice([1, 2, -1]), 0, 0), ("P", rng.below(3)))
                    c.grp, c.role = "g%d" % g, "base"
                    yield c
                # permutations
                perm_n = 4 if tier == "quick" else 5
                if n <= perm_n:
                    perms = list(itertools.permutations(range(n)))
                else:
                    perms = []
                    for _p in range(6):
                        p = list(range(n))
                        rng.shuffle(p)
                        perms.append(tuple(p))
                strat = rng.below(5)
                sub = qs[:: max(1, len(qs) // 12)]
                for pi, p in enumerate(perms):
                    c = mk_q_case("quantiles1", et, strat, [n], 0, [vals[i] for i in p], sub, lay1(n), ("R",))
                    c.grp, c.role = "g%dp" % g, ("base" if pi == 0 else "perm")
                    yield c
                # strictly increasing relabelling (selecting strategies)
                if et != "n64":
                    f = lambda x: 3 * x + (7 if x >= 0 else -2)
                    strat = rng.below(3)
                    a = mk_q_case("quantiles1", et if et != "u8" else "i32", strat, [n], 0, vals, sub, lay1(n), ("R",))
                    a.grp, a.role = "g%dr" % g, "base"
                    b = mk_q_case("quantiles1", et if et != "u8" else "i32", strat, [n], 0, [f(v) for v in vals], sub, lay1(n), ("R",))
                    b.grp, b.role, b.fmap = "g%dr" % g, "relabel", {v: f(v) for v in vals}
                    yield a
                    yield b

        # long lanes dominated by one repeated value (the worst case of the selection's recursion depth: every
        # partition around the repeated value peels off one element) seen forward, through a reversed view and
        # stepped: logically equal lanes and permutations of them must give the same quantiles
        for rep in range(4 if tier == "quick" else 60):
            g += 1
            n = rng.range(66, 140)
            et = rng.choice(["i32", "i64", "n64"])
            common = rng.range(-5, 5)
            vals = [common] * n
            for _ in range(rng.range(2, 8)):
                vals[rng.below(n)] = common + rng.range(-3, 9)
            if et == "n64":
                vals = [0.25 * v for v in vals]
            tail = [k / float(n - 1) for k in range(n - 8, n)]
            qs = sorted(set([0.0, 0.01, 0.5, 1.0] + tail + [1.0 / (n - 1), 2.5 / (n - 1)]))
            strat = rng.below(5)
            rv = list(reversed(vals))
            sh = list(vals)
            rng.shuffle(sh)
            variants = [(vals, lay1(n)), (vals, lay1(n, -1, 0, 0)), (rv, lay1(n, -1, 1, 0)), (sh, lay1(n, 2, 0, 1)), (sh, lay1(n, -1, 0, 2))]
            for pi, (vv, ll) in enumerate(variants):
                c = mk_q_case("quantiles1", et, strat, [n], 0, vv, qs, ll, ("R",))
                c.grp, c.role = "g%dp" % g, ("base" if pi == 0 else "perm")
                yield c
            c = mk_q_case("quantiles1", et, strat, [n], 0, vals, qs, lay1(n, -1, 0, 0), ("P", rng.below(3)))
            c.grp, c.role = "g%d" % g, "base"
            yield c

        # 64-bit integers beyond 2^53 (not representable in binary64), probed only where (N-1)q is integral: there the
        # fraction is 0 and every strategy must return the order statistic itself, exactly (endpoints, bounds,
        # bracket, coincidence); in between Linear is outside the property's quantifier (C19_linear_limit)
        for rep in range(4 if tier == "quick" else 80):
            for et, base in (("i64", 2 ** 53 + 1), ("i64", -(2 ** 53) - 1), ("u64", 2 ** 60 + 100), ("i64", 2 ** 62 + 12345), ("u64", 2 ** 64 - 200)):
                g += 1
                n = rng.choice([2, 3, 5, 9])
                vals = [base + rng.choice([0, 1, 2, 3, 5, 7, 11, 100]) for _ in range(n)]
                qs = [k / (n - 1) for k in range(n)]
                if any(q * float(n - 1) != float(k) for k, q in enumerate(qs)):
                    continue
                for strat in range(5):
                    c = mk_q_case("quantiles1", et, strat, [n], 0, vals, qs, lay1(n, rng.choice([1, 2, -1]), 0, 0), ("P", rng.below(3)))
                    c.grp, c.role = "g%d" % g, "base"
                    yield c

        # the same laws through quantile_axis_skipnan_mut on lanes with missing values: f64 (NotNan = N64) and
        # Option<N64> (NotNan = NotNone<N64>, whose arithmetic and float conversions are forwarding impls of the crate),
        # fractional data so that interpolation is really exercised
        for rep in range(3 if tier == "quick" else 60):
            for et in ("on64", "f64"):
                n = rng.range(5, 9)
                pool = [0.9, 1.1, 2.75, -0.6, 3.125, 0.25, 1.75, -2.2, 4.5]
                vals = [pool[rng.below(len(pool))] for _ in range(n)]
                for _ in range(rng.range(1, 2)):
                    vals[rng.below(n)] = None
                live = sum(1 for v in vals if v is not None)
                if live < 2:
                    continue
                qs = sorted(set([k / 8.0 for k in range(9)] + [k / float(live - 1) for k in range(live)] + [0.3, 0.375, 0.6180339887]))
                g += 1
                for strat in range(5):
                    for q in qs:
                        c = mk_qsk_case(et, strat, [n], vals, q, lay1(n, rng.choice([1, 2, -1])), 0, ("P", rng.below(3)))
                        c.grp, c.role, c.sk = "k%d" % g, "sk", True
                        yield c

    def parse(self, case):
        if getattr(case, "sk", False):
            _c14.parse(case)
            return
        parse_q(case)

    def oracle(self, case):
        if getattr(case, "sk", False):
            return []       # the laws are relations between calls: extra_checks
        o = case.obs
        if o["tag"] != "OK":
            return ["error: %s on valid arguments" % o["tag"]]
        if case.role != "base" or not case.grp[-1].isdigit():
            return []
        et = case.et
        v = [num(et, t) for t in o["vals_t"]]
        if any(x is None for x in v):
            return ["value: non-finite quantile"]
        qs = case.qs
        cd = Codec(et)
        data = sorted(num(et, cd.tok(x)) for x in case.vals)
        out = []
        slack = [0] * len(v)
        if et == "n64" and STRATS[case.strat] == "Linear":
            slack = [abs(x) * 2 ** -50 + 2 ** -1000 for x in v]
        for i in range(len(v) - 1):
            if v[i] > v[i + 1] + slack[i]:
                out.append("monotone: %s quantile decreases from q=%r (%s) to q=%r (%s)" % (STRATS[case.strat], qs[i], float(v[i]), qs[i + 1], float(v[i + 1])))
                break
        if any(x < data[0] - s or x > data[-1] + s for x, s in zip(v, slack)):
            out.append("bounds: a quantile lies outside [min, max]")
        if qs[0] == 0.0 and v[0] != data[0]:
            out.append("endpoint: q = 0 returns %s, the minimum is %s" % (float(v[0]), float(data[0])))
        if qs[-1] == 1.0 and v[-1] != data[-1]:
            out.append("endpoint: q = 1 returns %s, the maximum is %s" % (float(v[-1]), float(data[-1])))
        return out

    def _sk_checks(self, cases):
        """order laws on the results of quantile_axis_skipnan_mut, one call per (strategy, q)"""
        out = []
        groups = {}
        for c in cases:
            if getattr(c, "sk", False) and c.obs is not None:
                groups.setdefault(c.grp, []).append(c)
        for gname, cs in groups.items():
            tab = {}
            for c in cs:
                flat, st = c.obs
                if st.get("tag") != "OK" or len(st.get("vals", [])) != 1 or st["vals"][0] == NAN64:
                    out.append((c, "error: quantile_axis_skipnan_mut outcome %s on a lane with remaining elements" % st.get("tag")))
                    continue
                tab[(c.strat, c.q)] = (bits_f64(st["vals"][0]), c)
            live = sorted(v for v in cs[0].vals if v is not None)
            qs = sorted(set(q for (_, q) in tab))
            for s_ in range(5):
                seq = [(q, tab[(s_, q)]) for q in qs if (s_, q) in tab]
                slack = 1e-12 if s_ == 4 else 0.0
                for (q1, (v1, c1)), (q2, (v2, c2)) in zip(seq, seq[1:]):
                    if v1 > v2 + slack * max(1.0, abs(v1)):
                        out.append((c2, "monotone: %s skip-NaN quantile decreases from q=%r (%r) to q=%r (%r)" % (STRATS[s_], q1, v1, q2, v2)))
                        break
                for q, (v, c) in seq:
                    if v < live[0] - slack or v > live[-1] + slack:
                        out.append((c, "bounds: %s skip-NaN quantile %r at q=%r outside [min %r, max %r]" % (STRATS[s_], v, q, live[0], live[-1])))
                        break
            for q in qs:
                if (1, q) in tab and (0, q) in tab:
                    lo, hi = tab[(1, q)][0], tab[(0, q)][0]
                    for s_ in (2, 3, 4):
                        if (s_, q) in tab:
                            v, c = tab[(s_, q)]
                            sl = 1e-12 * max(1.0, abs(v)) if s_ == 4 else 0.0
                            if v < lo - sl or v > hi + sl:
                                out.append((c, "bracket: %s skip-NaN quantile at q=%r is %r, outside [Lower %r, Higher %r]" % (STRATS[s_], q, v, lo, hi)))
                                break
                    xf = q * float(len(live) - 1)
                    if xf == math.floor(xf) and all((s_, q) in tab for s_ in range(5)):
                        if len(set(tab[(s_, q)][0] for s_ in range(5))) != 1:
                            out.append((tab[(0, q)][1], "coincide: (N-1)q is integral at q=%r but the skip-NaN strategies return %s" % (q, [tab[(s_, q)][0] for s_ in range(5)])))
        return out

    def extra_checks(self, cases, tier, rng):
        groups = {}
        for c in cases:
            if getattr(c, "sk", False):
                continue
            if c.obs and c.obs.get("tag") == "OK":
                groups.setdefault(c.grp, []).append(c)
        out = self._sk_checks(cases)
        for gname, cs in groups.items():
            if gname[-1].isdigit():
                by = {c.strat: c for c in cs}
                if len(by) < 5:
                    continue
                et = cs[0].et
                n = len(cs[0].vals)
                vals = {s: [num(et, t) for t in by[s].obs["vals_t"]] for s in by}
                qs = cs[0].qs
                for j, q in enumerate(qs):
                    lo, hi = vals[1][j], vals[0][j]
                    for s in (2, 3, 4):
                        x = vals[s][j]
                        sl = (abs(x) * 2 ** -50 + 2 ** -1000) if (et == "n64" and s == 4) else 0
                        if x is None or x < lo - sl or x > hi + sl:
                            out.append((by[s], "bracket: %s quantile at q=%r is %s, outside [Lower %s, Higher %s]" % (STRATS[s], q, x, lo, hi)))
                            break
                    xf = q * float(n - 1)
                    if xf == math.floor(xf):
                        if len(set(vals[s][j] for s in range(5))) != 1:
                            out.append((by[0], "coincide: (N-1)q is integral at q=%r but the strategies return %s" % (q, [float(vals[s][j]) for s in range(5)])))
            elif gname.endswith("p"):
                base = [c for c in cs if c.role == "base"]
                if not base:
                    continue
                for c in cs:
                    if c.role == "perm" and c.obs["vals_t"] != base[0].obs["vals_t"]:
                        out.append((c, "permutation: permuting the lane changes the quantiles (%s vs %s)" % (c.obs["vals_t"][:6], base[0].obs["vals_t"][:6])))
                        break
            else:
                base = [c for c in cs if c.role == "base"]
                rel = [c for c in cs if c.role == "relabel"]
                if base and rel:
                    f = rel[0].fmap
                    want = [str(f[int(t)]) for t in base[0].obs["vals_t"]]
                    if rel[0].obs["vals_t"] != want:
                        out.append((rel[0], "relabel: quantile of the relabelled data %s is not the relabelled quantile %s" % (rel[0].obs["vals_t"][:6], want[:6])))
        return out

    def known_class(self, case, reasons):
        if getattr(case, "sk", False):
            return None
        return "K1" if in_k1_class(case) else None

    def chk_term(self, case):
        if getattr(case, "sk", False):
            return _c14.chk_term(case)
        if case.obs["tag"] != "OK":
            return None
        return _c01.chk_term(case)

    def model_term(self, case):
        if getattr(case, "sk", False):
            return _c14.model_term(case)
        return _c01.model_term(case)

    def nontrivial(self, case):
        if getattr(case, "sk", False):
            return sum(1 for v in case.vals if v is not None) >= 2
        return len(case.vals) >= 2

    def key(self, case):
        return (case.routine, case.line)


PROP = C19()
