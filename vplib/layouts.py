"""Layout zoo: views into a C-order parent allocation (mirrors harness/src/common.rs)."""
import itertools


def axis_indices(start, end, step):
    """ndarray Slice::new(start, Some(end), step) with 0 <= start <= end."""
    if step > 0:
        return list(range(start, end, step))
    rng = list(range(start, end))
    rng.reverse()
    return rng[:: -step]


class Layout:
    def __init__(self, pshape, slices, perm):
        self.pshape = list(pshape)
        self.slices = [tuple(s) for s in slices]
        self.perm = list(perm)
        assert len(self.pshape) == len(self.slices) == len(self.perm)

    @property
    def ndim(self):
        return len(self.pshape)

    def tokens(self):
        t = [str(self.ndim)] + [str(x) for x in self.pshape]
        for s in self.slices:
            t += [str(x) for x in s]
        t += [str(x) for x in self.perm]
        return " ".join(t)

    def parent_len(self):
        n = 1
        for x in self.pshape:
            n *= x
        return n

    def _axes(self):
        return [axis_indices(*s) for s in self.slices]

    def shape(self):
        ax = self._axes()
        return [len(ax[p]) for p in self.perm]

    def pstrides(self):
        st = [1] * self.ndim
        for i in range(self.ndim - 2, -1, -1):
            st[i] = st[i + 1] * self.pshape[i + 1]
        return st

    def cells(self):
        """flat parent offsets of the view's elements in logical row-major order"""
        ax = self._axes()
        st = self.pstrides()
        axes = [ax[p] for p in self.perm]
        sts = [st[p] for p in self.perm]
        out = []
        for idx in itertools.product(*axes):
            out.append(sum(i * s for i, s in zip(idx, sts)))
        return out

    def embed(self, logical, guard):
        """parent buffer holding `logical` (row-major of the view) and guards elsewhere.
        `guard` is a function k -> value for parent cell k."""
        cs = self.cells()
        assert len(cs) == len(logical), (len(cs), len(logical))
        buf = [guard(k) for k in range(self.parent_len())]
        for c, x in zip(cs, logical):
            buf[c] = x
        return buf

    def view1(self):
        """(off, len, stride) of a 1-D layout"""
        assert self.ndim == 1
        idx = axis_indices(*self.slices[0])
        n = len(idx)
        if n == 0:
            return (0, 0, self.slices[0][2])
        off = idx[0]
        stride = self.slices[0][2]
        return (off, n, stride)

    def describe(self):
        return "P%s/S%s/perm%s" % (self.pshape, self.slices, self.perm)


def lay1(n, stride=1, off=0, tail=0):
    """1-D view of n elements with the given stride (may be negative), `off` guard
    cells in front and `tail` behind."""
    a = abs(stride)
    span = 0 if n == 0 else (n - 1) * a + 1
    plen = off + span + tail
    if plen == 0:
        plen = 0
    return Layout([plen], [(off, off + span, stride)], [0])


def contiguous(shape):
    return Layout(shape, [(0, s, 1) for s in shape], list(range(len(shape))))


def fortran(shape):
    """column-major storage of a logical array of this shape"""
    nd = len(shape)
    rs = list(reversed(shape))
    return Layout(rs, [(0, s, 1) for s in rs], list(reversed(range(nd))))


def contig_variant(shape, rng):
    """a layout that is contiguous in memory (as_slice_memory_order is Some) but in general not row-major: a random
    axis permutation with each axis walked forwards or backwards, no padding (covers F order, transposes, inverted
    axes and their combinations; unit axes keep whatever stride the permutation gives them)"""
    nd = len(shape)
    perm = list(range(nd))
    rng.shuffle(perm)
    pshape = [0] * nd
    slices = [None] * nd
    for a in range(nd):
        j = perm[a]
        pshape[j] = shape[a]
        slices[j] = (0, shape[a], rng.choice([1, 1, -1]))
    return Layout(pshape, slices, perm)


def zoo(shape, rng, count=6):
    """a selection of layouts presenting a logical array of `shape`"""
    nd = len(shape)
    outs = [contiguous(shape)]
    if nd >= 2:
        outs.append(fortran(shape))
    if nd >= 1:
        outs.append(contig_variant(shape, rng))
        if nd >= 2:
            outs.append(contig_variant(shape, rng))
    for _ in range(count):
        perm = list(range(nd))
        rng.shuffle(perm)
        # parent axis j holds logical axis inv[j]; logical axis a is parent axis perm[a]
        pshape = [0] * nd
        slices = [None] * nd
        for a in range(nd):
            j = perm[a]
            n = shape[a]
            step = rng.choice([1, 1, 2, 3, -1, -2])
            off = rng.choice([0, 0, 1, 2])
            tail = rng.choice([0, 0, 1])
            span = 0 if n == 0 else (n - 1) * abs(step) + 1
            pshape[j] = off + span + tail
            slices[j] = (off, off + span, step)
        outs.append(Layout(pshape, slices, perm))
    return outs


def weak_orders(n):
    """all sequences of length n whose value set is {0..m-1} for some m (Fubini(n) many)"""
    if n == 0:
        yield ()
        return
    for seq in itertools.product(range(n), repeat=n):
        m = max(seq) + 1
        if len(set(seq)) == m:
            yield seq
