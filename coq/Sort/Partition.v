From Coq Require Import List Arith ZArith Lia Permutation Bool.
Import ListNotations.
From NS Require Export Base.Res.

Section Part.
Variable A : Type.
Variable leb : A -> A -> bool.
Definition ltb (x y : A) := negb (leb y x).

(* inner scan 1: loop { if i > j break; if a[i] >= pivot break; i += 1 } *)
Fixpoint scan_i (fuel : nat) (a : list A) (pv : A) (i j : nat) : res nat :=
  match fuel with
  | O => OutOfFuel
  | S f =>
    if j <? i then Ok i else
    x <- get a i ;;
    if leb pv x then Ok i else scan_i f a pv (i + 1) j
  end.

(* inner scan 2: while pivot <= a[j] { if j <= 1 break; j -= 1 } *)
Fixpoint scan_j (fuel : nat) (a : list A) (pv : A) (j : nat) : res nat :=
  match fuel with
  | O => OutOfFuel
  | S f =>
    x <- get a j ;;
    if leb pv x then (if j <=? 1 then Ok j else scan_j f a pv (j - 1)) else Ok j
  end.

Fixpoint outer (fuel : nat) (a : list A) (pv : A) (i j : nat) : res (nat * list A) :=
  match fuel with
  | O => OutOfFuel
  | S f =>
    i' <- scan_i (S (length a)) a pv i j ;;
    j' <- scan_j (S (length a)) a pv j ;;
    if j' <=? i' then Ok (i', a)
    else a' <- swap a i' j' ;; outer f a' pv (i' + 1) (j' - 1)
  end.

Definition partition (a : list A) (p : nat) : res (nat * list A) :=
  pv <- get a p ;;
  a1 <- swap a p 0 ;;
  let n := length a in
  r <- outer (S n) a1 pv 1 (n - 1) ;;
  let '(i, a2) := r in
  a3 <- swap a2 0 (i - 1) ;;
  Ok (i - 1, a3).
End Part.

