From Coq Require Import List Arith Lia Permutation Bool.
Import ListNotations.
From NS Require Import Base.Res Base.ArrLemmas Sort.Partition Sort.PartitionProofs Sort.Select.

Section P.
Variable A : Type.
Variable leb : A -> A -> bool.
Hypothesis leb_total : forall x y, leb x y = true \/ leb y x = true.
Hypothesis leb_trans : forall x y z, leb x y = true -> leb y z = true -> leb x z = true.
Notation ltb := (ltb A leb).
Notation select := (select A leb).

Definition le_seg (a : list A) (v : A) (lo hi : nat) :=
  forall k, lo <= k < hi -> exists x, nth_error a k = Some x /\ leb x v = true.
Notation ge_seg := (ge_seg A leb).
Notation lt_seg := (lt_seg A leb).

Lemma leb_refl x : leb x x = true.
Proof. destruct (leb_total x x); auto. Qed.
Lemma ltb_leb x y : ltb x y = true -> leb x y = true.
Proof. unfold Partition.ltb. intros H. destruct (leb_total x y) as [E|E]; auto. rewrite E in H. discriminate. Qed.

Lemma nth_error_firstn (l : list A) k m : m < k -> nth_error (firstn k l) m = nth_error l m.
Proof. revert k m; induction l as [|h t IH]; intros [|k] [|m] H; simpl; auto; try lia. apply IH; lia. Qed.
Lemma nth_error_skipn (l : list A) k m : nth_error (skipn k l) m = nth_error l (k + m).
Proof. revert k; induction l as [|h t IH]; intros [|k]; simpl; auto. now destruct m. Qed.

(* membership in a permuted segment: every element of l' satisfies P if every element of l does *)
Lemma perm_forall (P : A -> Prop) l l' : Permutation l l' ->
  (forall k x, nth_error l k = Some x -> P x) -> (forall k x, nth_error l' k = Some x -> P x).
Proof.
  intros HP H k x Hx. apply nth_error_In in Hx. apply Permutation_sym in HP.
  apply (Permutation_in _ HP) in Hx. apply In_nth_error in Hx. destruct Hx as [k' Hk']. eauto.
Qed.

Theorem select_spec fuel pick c a i :
  i < length a -> length a <= fuel ->
  exists v a' c', select fuel pick c a i = Ok (v, a', c') /\
    Permutation a a' /\ length a' = length a /\ nth_error a' i = Some v /\
    le_seg a' v 0 i /\ ge_seg a' v i (length a).
Proof.
  revert c a i. induction fuel as [|f IH]; intros c a i Hi Hf; [lia|].
  cbn [Select.select].
  destruct (Nat.leb_spec (length a) i) as [L|_]; [lia|].
  destruct (Nat.eqb_spec (length a) 1) as [E1|N1].
  - (* n = 1 *)
    assert (i = 0) by lia. subst i.
    destruct (get_ok a 0) as (x & G & N); [lia|]. rewrite G. cbn [bind].
    exists x, a, c. repeat split; auto.
    + intros k Hk; lia.
    + intros k Hk. assert (k = 0) by lia. subst k. exists x. split; auto. apply leb_refl.
  - set (n := length a) in *.
    set (p := pick c n mod n).
    assert (Hp : p < n) by (apply Nat.mod_upper_bound; lia).
    destruct (partition_spec A leb a p Hp) as (k & a1 & pv & R & Npv & P1 & L1 & Hk & Nk & LT & GE).
    rewrite R. cbn [bind].
    fold n in L1, Hk, GE.
    destruct (Nat.ltb_spec i k) as [Lik|Lik].
    + (* recurse left *)
      assert (Lf : length (firstn k a1) = k) by (rewrite firstn_length; lia).
      destruct (IH (S c) (firstn k a1) i) as (v & l' & c' & Rl & Pl & Ll & Nv & LEl & GEl); try lia.
      rewrite Rl. cbn [bind]. rewrite Lf in *.
      exists v, (l' ++ skipn k a1), c'.
      (* v is an element of the prefix, hence v < pv *)
      assert (Vlt : ltb v pv = true).
      { apply (perm_forall (fun x => ltb x pv = true) _ _ Pl) with (k := i); auto.
        intros m x Hm. assert (m < k).
        { assert (m < length (firstn k a1)) by (apply nth_error_Some; rewrite Hm; discriminate). lia. }
        rewrite nth_error_firstn in Hm by lia.
        destruct (LT m) as (y & Ny & Ey); [lia|]. congruence. }
      assert (Vle : leb v pv = true) by now apply ltb_leb.
      repeat split.
      * rewrite <- (firstn_skipn k a1) in P1. eapply Permutation_trans; [exact P1|].
        apply Permutation_app_tail. exact Pl.
      * rewrite app_length, skipn_length. lia.
      * rewrite nth_error_app1 by lia. exact Nv.
      * intros m Hm. destruct (LEl m Hm) as (x & Nx & Ex). exists x. split; auto.
        rewrite nth_error_app1 by lia. exact Nx.
      * intros m Hm. destruct (Nat.lt_ge_cases m k) as [Mk|Mk].
        { destruct (GEl m) as (x & Nx & Ex); [lia|]. exists x. split; auto. rewrite nth_error_app1 by lia. exact Nx. }
        { rewrite nth_error_app2 by lia. rewrite Ll, nth_error_skipn.
          replace (k + (m - k)) with m by lia.
          destruct (Nat.eq_dec m k) as [->|Nmk].
          - exists pv. split; auto.
          - destruct (GE m) as (x & Nx & Ex); [lia|]. exists x. split; auto. eapply leb_trans; eauto. }
    + destruct (Nat.eqb_spec i k) as [->|Nik].
      * (* found *)
        destruct (get_ok a1 k) as (x & G & N); [lia|]. rewrite G. cbn [bind].
        assert (x = pv) by congruence. subst x.
        exists pv, a1, (S c). repeat split; auto.
        { intros m Hm. destruct (LT m Hm) as (x & Nx & Ex). exists x. split; auto. now apply ltb_leb. }
        { intros m Hm. destruct (Nat.eq_dec m k) as [->|Nmk].
          - exists pv. split; auto. apply leb_refl.
          - apply GE. lia. }
      * (* recurse right *)
        assert (Ls : length (skipn (k + 1) a1) = n - (k + 1)) by (rewrite skipn_length; lia).
        destruct (IH (S c) (skipn (k + 1) a1) (i - (k + 1))) as (v & r2 & c' & Rr & Pr & Lr & Nv & LEr & GEr); try lia.
        rewrite Rr. cbn [bind]. rewrite Ls in *.
        assert (Lf : length (firstn (k + 1) a1) = k + 1) by (rewrite firstn_length; lia).
        exists v, (firstn (k + 1) a1 ++ r2), c'.
        assert (Vge : leb pv v = true).
        { apply (perm_forall (fun x => leb pv x = true) _ _ Pr) with (k := i - (k + 1)); auto.
          intros m x Hm. rewrite nth_error_skipn in Hm.
          assert (k + 1 + m < n).
          { assert (k + 1 + m < length a1) by (apply nth_error_Some; rewrite Hm; discriminate). lia. }
          destruct (GE (k + 1 + m)) as (y & Ny & Ey); [lia|]. congruence. }
        repeat split.
        { rewrite <- (firstn_skipn (k + 1) a1) in P1. eapply Permutation_trans; [exact P1|].
          apply Permutation_app_head. exact Pr. }
        { rewrite app_length. lia. }
        { rewrite nth_error_app2 by lia. rewrite Lf. exact Nv. }
        { intros m Hm. destruct (Nat.lt_ge_cases m (k + 1)) as [Mk|Mk].
          - rewrite nth_error_app1 by lia. rewrite nth_error_firstn by lia.
            destruct (Nat.eq_dec m k) as [->|Nmk].
            + exists pv. split; auto.
            + destruct (LT m) as (x & Nx & Ex); [lia|]. exists x. split; auto.
              eapply leb_trans; [apply ltb_leb; exact Ex | exact Vge].
          - rewrite nth_error_app2 by lia. rewrite Lf.
            destruct (LEr (m - (k + 1))) as (x & Nx & Ex); [lia|]. eauto. }
        { intros m Hm. rewrite nth_error_app2 by lia. rewrite Lf.
          destruct (GEr (m - (k + 1))) as (x & Nx & Ex); [lia|]. eauto. }
Qed.

Theorem select_oob fuel pick c a i : length a <= i -> 0 < fuel -> select fuel pick c a i = Panic.
Proof.
  intros H F. destruct fuel; [lia|]. cbn [Select.select].
  destruct (Nat.leb_spec (length a) i); [reflexivity | lia].
Qed.
End P.
