From Coq Require Import List Arith ZArith Lia Permutation Bool.
Import ListNotations.
From NS Require Import Sort.Partition.

Section B.
Variable A : Type.
Variable leb : A -> A -> bool.
Notation partition := (partition A leb).

(* split of a strictly increasing index list around k: (smaller, found?, bigger) *)
Fixpoint split_idx (k : nat) (idxs : list nat) : list nat * bool * list nat :=
  match idxs with
  | [] => ([], false, [])
  | x :: t =>
    if x <? k then let '(s, f, b) := split_idx k t in (x :: s, f, b)
    else if x =? k then ([], true, t) else ([], false, idxs)
  end.

Fixpoint bulk (fuel : nat) (pick : nat -> nat -> nat) (c : nat) (fill : A) (a : list A) (idxs : list nat)
  : res (list A * list A * nat) :=
  match fuel with
  | O => OutOfFuel
  | S f =>
    match idxs with
    | [] => Ok ([], a, c)
    | _ :: rest =>
      let n := length a in
      if n =? 1 then (x <- get a 0 ;; Ok (x :: map (fun _ => fill) rest, a, c))
      else if n =? 0 then Panic
      else
        let p := pick c n mod n in
        r <- partition a p ;;
        let '(k, a1) := r in
        let '(sm, found, bg) := split_idx k idxs in
        pv <- get a1 k ;;
        r1 <- bulk f pick (S c) fill (firstn k a1) sm ;;
        let '(v1, l1, c1) := r1 in
        r2 <- bulk f pick c1 fill (skipn (k + 1) a1) (map (fun x => x - (k + 1)) bg) ;;
        let '(v2, l2, c2) := r2 in
        Ok (v1 ++ (if found then [pv] else []) ++ v2, l1 ++ [pv] ++ l2, c2)
    end
  end.
End B.

