From Coq Require Import List Arith Lia Permutation Bool.
Import ListNotations.
From NS Require Import Base.Res Base.ArrLemmas Sort.Partition Sort.PartitionProofs Sort.Select Sort.SelectProofs Sort.Bulk.

Section P.
Variable A : Type.
Variable leb : A -> A -> bool.
Hypothesis leb_total : forall x y, leb x y = true \/ leb y x = true.
Hypothesis leb_trans : forall x y z, leb x y = true -> leb y z = true -> leb x z = true.
Notation ltb := (ltb A leb).
Notation bulk := (bulk A leb).
Notation le_seg := (le_seg A leb).
Notation ge_seg := (ge_seg A leb).
Notation lt_seg := (lt_seg A leb).

Definition placed (a : list A) (i : nat) (v : A) :=
  nth_error a i = Some v /\ le_seg a v 0 i /\ ge_seg a v i (length a).

Fixpoint sorted_from (lo : nat) (l : list nat) : Prop :=
  match l with [] => True | x :: t => lo <= x /\ sorted_from (S x) t end.

Lemma sorted_from_weaken lo lo' l : lo' <= lo -> sorted_from lo l -> sorted_from lo' l.
Proof. destruct l; simpl; auto. intros H [H1 H2]. split; auto. lia. Qed.

Lemma split_idx_spec k : forall idxs lo n sm found bg,
  sorted_from lo idxs -> Forall (fun x => x < n) idxs ->
  split_idx k idxs = (sm, found, bg) ->
  sorted_from lo sm /\ Forall (fun x => x < k) sm /\
  sorted_from (k + 1) bg /\ Forall (fun x => x < n) bg /\
  idxs = sm ++ (if found then [k] else []) ++ bg.
Proof.
  induction idxs as [|x t IH]; intros lo n sm found bg S F E; simpl in E.
  - inversion E; subst. simpl. repeat split; auto.
  - destruct S as [S1 S2]. inversion F as [|? ? F1 F2]; subst.
    destruct (Nat.ltb_spec x k) as [L|L].
    + destruct (split_idx k t) as [[s f] b] eqn:Et. inversion E; subst.
      destruct (IH (S x) n s found bg S2 F2 eq_refl) as (H1 & H2 & H3 & H4 & H5).
      repeat split; auto. simpl. now rewrite H5 at 1.
    + destruct (Nat.eqb_spec x k) as [->|N].
      * inversion E; subst. simpl. repeat split; auto.
        eapply sorted_from_weaken; [|exact S2]. lia.
      * inversion E; subst. simpl. repeat split; auto. lia.
Qed.

Lemma seg_to_Forall_firstn (P : A -> Prop) (a : list A) k :
  k <= length a -> (forall m, m < k -> exists x, nth_error a m = Some x /\ P x) -> Forall P (firstn k a).
Proof.
  intros Hk H. apply Forall_forall. intros x Hx. apply In_nth_error in Hx. destruct Hx as [m Hm].
  assert (m < length (firstn k a)) by (apply nth_error_Some; rewrite Hm; discriminate).
  rewrite firstn_length in H0. rewrite (nth_error_firstn A) in Hm by lia.
  destruct (H m) as (y & Ny & Py); [lia|]. congruence.
Qed.

Lemma seg_to_Forall_skipn (P : A -> Prop) (a : list A) k :
  (forall m, k <= m < length a -> exists x, nth_error a m = Some x /\ P x) -> Forall P (skipn k a).
Proof.
  intros H. apply Forall_forall. intros x Hx. apply In_nth_error in Hx. destruct Hx as [m Hm].
  rewrite (nth_error_skipn A) in Hm.
  assert (k + m < length a) by (apply nth_error_Some; rewrite Hm; discriminate).
  destruct (H (k + m)) as (y & Ny & Py); [lia|]. congruence.
Qed.

Lemma Forall_nth_error (P : A -> Prop) l m x : Forall P l -> nth_error l m = Some x -> P x.
Proof. intros F H. apply nth_error_In in H. rewrite Forall_forall in F. auto. Qed.

Lemma placed_left l1 l2 pv i v :
  placed l1 i v -> leb v pv = true -> Forall (fun y => leb pv y = true) l2 ->
  placed (l1 ++ [pv] ++ l2) i v.
Proof.
  intros (N & LE & GE) Hv F2.
  assert (Hi : i < length l1) by (apply nth_error_Some; rewrite N; discriminate).
  repeat split.
  - rewrite nth_error_app1 by lia. exact N.
  - intros m Hm. destruct (LE m Hm) as (x & Nx & Ex). exists x. split; auto. rewrite nth_error_app1 by lia. exact Nx.
  - intros m Hm. rewrite !app_length in Hm. simpl in Hm.
    destruct (Nat.lt_ge_cases m (length l1)) as [M|M].
    + destruct (GE m) as (x & Nx & Ex); [lia|]. exists x. split; auto. rewrite nth_error_app1 by lia. exact Nx.
    + rewrite nth_error_app2 by lia. destruct (m - length l1) as [|d] eqn:D.
      * exists pv. split; auto.
      * simpl. destruct (nth_error l2 d) as [y|] eqn:Ny; [|apply nth_error_None in Ny; lia].
        exists y. split; auto. eapply leb_trans; [exact Hv|]. eapply (Forall_nth_error _ _ _ _ F2 Ny).
Qed.

Lemma placed_mid l1 l2 pv :
  Forall (fun x => leb x pv = true) l1 -> Forall (fun y => leb pv y = true) l2 ->
  placed (l1 ++ [pv] ++ l2) (length l1) pv.
Proof.
  intros F1 F2. repeat split.
  - rewrite nth_error_app2 by lia. now rewrite Nat.sub_diag.
  - intros m Hm. rewrite nth_error_app1 by lia.
    destruct (nth_error l1 m) as [x|] eqn:Nx; [|apply nth_error_None in Nx; lia].
    exists x. split; auto. eapply (Forall_nth_error _ _ _ _ F1 Nx).
  - intros m Hm. rewrite !app_length in Hm. simpl in Hm. rewrite nth_error_app2 by lia.
    destruct (m - length l1) as [|d] eqn:D.
    + exists pv. split; auto. apply (leb_refl A leb leb_total).
    + simpl. destruct (nth_error l2 d) as [y|] eqn:Ny; [|apply nth_error_None in Ny; lia].
      exists y. split; auto. eapply (Forall_nth_error _ _ _ _ F2 Ny).
Qed.

Lemma placed_right l1 l2 pv j v :
  placed l2 j v -> leb pv v = true -> Forall (fun x => leb x pv = true) l1 ->
  placed (l1 ++ [pv] ++ l2) (length l1 + 1 + j) v.
Proof.
  intros (N & LE & GE) Hv F1.
  assert (Hj : j < length l2) by (apply nth_error_Some; rewrite N; discriminate).
  repeat split.
  - rewrite nth_error_app2 by lia. replace (length l1 + 1 + j - length l1) with (S j) by lia. exact N.
  - intros m Hm. destruct (Nat.lt_ge_cases m (length l1)) as [M|M].
    + rewrite nth_error_app1 by lia.
      destruct (nth_error l1 m) as [x|] eqn:Nx; [|apply nth_error_None in Nx; lia].
      exists x. split; auto. eapply leb_trans; [|exact Hv]. eapply (Forall_nth_error _ _ _ _ F1 Nx).
    + rewrite nth_error_app2 by lia. destruct (m - length l1) as [|d] eqn:D.
      * exists pv. split; auto.
      * simpl. destruct (LE d) as (x & Nx & Ex); [lia|]. eauto.
  - intros m Hm. rewrite !app_length in Hm. simpl in Hm. rewrite nth_error_app2 by lia.
    replace (m - length l1) with (S (m - length l1 - 1)) by lia. simpl.
    destruct (GE (m - length l1 - 1)) as (x & Nx & Ex); [lia|]. eauto.
Qed.

Lemma sorted_from_ge lo l : sorted_from lo l -> Forall (fun x => lo <= x) l.
Proof.
  revert lo; induction l as [|y t IH]; simpl; intros lo H; constructor.
  - tauto.
  - destruct H as [H1 H2]. specialize (IH _ H2). eapply Forall_impl; [|exact IH]. simpl. intros; lia.
Qed.

Lemma sorted_from_map_sub d lo l : d <= lo -> sorted_from lo l -> sorted_from (lo - d) (map (fun x => x - d) l).
Proof.
  revert lo; induction l as [|y t IH]; simpl; intros lo Hd H; auto.
  destruct H as [H1 H2]. split; [lia|].
  specialize (IH (S y) ltac:(lia) H2). replace (S y - d) with (S (y - d)) in IH by lia. exact IH.
Qed.

Lemma Forall2_map_l {X Y Z} (R : Y -> Z -> Prop) (f : X -> Y) l vs :
  Forall2 (fun x v => R (f x) v) l vs -> Forall2 R (map f l) vs.
Proof. induction 1; simpl; constructor; auto. Qed.
Lemma Forall2_map_l_inv {X Y Z} (R : Y -> Z -> Prop) (f : X -> Y) l vs :
  Forall2 R (map f l) vs -> Forall2 (fun x v => R (f x) v) l vs.
Proof. revert vs; induction l as [|x t IH]; simpl; intros vs H; inversion H; subst; constructor; auto. Qed.

Lemma placed_In a i v : placed a i v -> In v a.
Proof. intros (N & _). eapply nth_error_In; eauto. Qed.

Lemma Forall2_impl' {X Y} (P Q : X -> Y -> Prop) l vs :
  (forall x v, P x v -> Q x v) -> Forall2 P l vs -> Forall2 Q l vs.
Proof. intros H F; induction F; constructor; auto. Qed.

Lemma split_at_nth (a : list A) k x : nth_error a k = Some x -> a = firstn k a ++ [x] ++ skipn (k + 1) a.
Proof.
  revert k; induction a as [|h t IH]; intros [|k] H; simpl in *; try discriminate.
  - inversion H; subst. reflexivity.
  - f_equal. apply IH. exact H.
Qed.

Theorem bulk_spec fuel pick c fill a idxs :
  length a <= fuel -> 0 < fuel -> sorted_from 0 idxs -> Forall (fun x => x < length a) idxs ->
  exists vs a' c', bulk fuel pick c fill a idxs = Ok (vs, a', c') /\
    Permutation a a' /\ length a' = length a /\ Forall2 (placed a') idxs vs.
Proof.
  revert c a idxs. induction fuel as [|f IH]; intros c a idxs Hf Hf0 Hs F; [lia|].
  cbn [Bulk.bulk]. destruct idxs as [|i0 rest].
  { exists [], a, c. repeat split; auto. }
  destruct (Nat.eqb_spec (length a) 1) as [E1|N1].
  - destruct (get_ok a 0) as (x & G & N); [lia|]. rewrite G. cbn [bind].
    inversion F as [|? ? F1 F2]; subst. destruct Hs as [_ S2].
    assert (i0 = 0) by lia. subst i0.
    assert (rest = []).
    { destruct rest as [|y t]; auto. destruct S2 as [S2 _]. inversion F2; subst. lia. }
    subst rest. exists [x], a, c. repeat split; auto.
    constructor; [|constructor]. repeat split; auto.
    + intros m Hm; lia.
    + intros m Hm. assert (m = 0) by lia. subst m. exists x. split; auto. apply (leb_refl A leb leb_total).
  - destruct (Nat.eqb_spec (length a) 0) as [E0|N0].
    { inversion F; subst. lia. }
    set (n := length a) in *. set (p := pick c n mod n).
    assert (Hp : p < n) by (apply Nat.mod_upper_bound; lia).
    destruct (partition_spec A leb a p Hp) as (k & a1 & pv & R & Npv & P1 & L1 & Hk & Nk & LT & GE).
    rewrite R. cbn [bind]. fold n in L1, Hk, GE.
    destruct (split_idx k (i0 :: rest)) as [[sm found] bg] eqn:Es.
    destruct (split_idx_spec k _ 0 n sm found bg Hs F Es) as (Ssm & Fsm & Sbg & Fbg & Eidx).
    destruct (get_ok a1 k) as (pv' & G & Npv'); [lia|]. rewrite G. cbn [bind].
    assert (pv' = pv) by congruence. subst pv'.
    assert (Lf : length (firstn k a1) = k) by (rewrite firstn_length; lia).
    assert (Ls : length (skipn (k + 1) a1) = n - (k + 1)) by (rewrite skipn_length; lia).
    assert (Hf' : 0 < f) by lia.
    destruct (IH (S c) (firstn k a1) sm) as (v1 & l1 & c1 & R1 & Pl & Ll & Pl1); try lia.
    { exact Ssm. } { now rewrite Lf. }
    rewrite R1. cbn [bind]. rewrite Lf in Ll.
    set (bg' := map (fun x => x - (k + 1)) bg).
    assert (Sbg' : sorted_from 0 bg').
    { pose proof (sorted_from_map_sub (k + 1) (k + 1) bg ltac:(lia) Sbg) as H.
      now rewrite Nat.sub_diag in H. }
    assert (Gbg : Forall (fun x => k + 1 <= x) bg) by now apply sorted_from_ge.
    assert (Fbg' : Forall (fun x => x < length (skipn (k + 1) a1)) bg').
    { rewrite Ls. unfold bg'. apply Forall_map. rewrite Forall_forall in *. intros x Hx.
      specialize (Fbg x Hx). specialize (Gbg x Hx). simpl in *. lia. }
    destruct (IH c1 (skipn (k + 1) a1) bg') as (v2 & l2 & c2 & R2 & Pr & Lr & Pr2); try lia; auto.
    rewrite R2. cbn [bind]. rewrite Ls in Lr.
    exists (v1 ++ (if found then [pv] else []) ++ v2), (l1 ++ [pv] ++ l2), c2.
    (* facts about the three parts *)
    assert (A1 : Forall (fun x => ltb x pv = true) (firstn k a1)).
    { apply seg_to_Forall_firstn; [lia|]. intros m Hm. apply LT. lia. }
    assert (A2 : Forall (fun y => leb pv y = true) (skipn (k + 1) a1)).
    { apply seg_to_Forall_skipn. intros m Hm. apply GE. lia. }
    assert (B1 : Forall (fun x => leb x pv = true) l1).
    { eapply Permutation_Forall; [exact Pl|]. eapply Forall_impl; [|exact A1].
      intros x Hx. now apply (ltb_leb A leb leb_total). }
    assert (B2 : Forall (fun y => leb pv y = true) l2).
    { eapply Permutation_Forall; [exact Pr|]. exact A2. }
    assert (Ea1 : a1 = firstn k a1 ++ [pv] ++ skipn (k + 1) a1) by (apply split_at_nth; exact Nk).
    repeat split.
    + eapply Permutation_trans; [exact P1|]. rewrite Ea1 at 1.
      apply Permutation_app; [exact Pl|]. apply Permutation_app; [apply Permutation_refl | exact Pr].
    + rewrite !app_length. simpl. lia.
    + rewrite Eidx. apply Forall2_app; [|apply Forall2_app].
      * (* smaller indexes *)
        eapply Forall2_impl'; [|exact Pl1]. intros i v Hpl.
        apply placed_left; auto.
        apply (Forall_nth_error _ _ i v B1). apply Hpl.
      * destruct found; [|constructor].
        constructor; [|constructor]. rewrite <- Ll. apply placed_mid; auto.
      * (* bigger indexes, rebased back *)
        apply Forall2_map_l_inv in Pr2.
        assert (Q : Forall2 (fun x v => k + 1 <= x /\ placed l2 (x - (k + 1)) v) bg v2).
        { clear - Pr2 Gbg. revert Gbg. induction Pr2; intros G; constructor; inversion G; subst; auto. }
        eapply Forall2_impl'; [|exact Q]. intros i v [Hi Hpl].
        replace i with (length l1 + 1 + (i - (k + 1))) by lia.
        apply placed_right; auto.
        apply (Forall_nth_error _ _ (i - (k + 1)) v B2). apply Hpl.
Qed.
End P.
