From Coq Require Import List Arith Lia Permutation Bool Sorting.Sorted.
Import ListNotations.
From NS Require Import Base.Res Base.ArrLemmas Sort.Partition Sort.PartitionProofs Sort.PartitionRank Sort.Select Sort.SelectProofs.

Section R.
Variable A : Type.
Variable leb : A -> A -> bool.
Hypothesis leb_total : forall x y, leb x y = true \/ leb y x = true.
Hypothesis leb_trans : forall x y z, leb x y = true -> leb y z = true -> leb x z = true.
Notation ltb := (ltb A leb).

Notation countb := (countb A).
Notation countb_perm := (countb_perm A).
Notation countb_ge := (countb_ge A).
Notation countb_le := (countb_le A).

Definition sorted (s : list A) := forall i j x y, i <= j -> nth_error s i = Some x -> nth_error s j = Some y -> leb x y = true.

Lemma ltb_false_leb x y : ltb x y = false -> leb y x = true.
Proof. unfold Partition.ltb. destruct (leb y x); simpl; auto; discriminate. Qed.
Lemma leb_ltb_false x y : leb y x = true -> ltb x y = false.
Proof. unfold Partition.ltb. intros ->. reflexivity. Qed.
Lemma ltb_trans_l x y z : leb x y = true -> ltb y z = true -> ltb x z = true.
Proof.
  unfold Partition.ltb. intros H1 H2. destruct (leb z x) eqn:E; auto.
  assert (leb z y = true) by (eapply leb_trans; eauto). rewrite H in H2. discriminate.
Qed.
Lemma ltb_trans_r x y z : ltb x y = true -> leb y z = true -> ltb x z = true.
Proof.
  unfold Partition.ltb. intros H1 H2. destruct (leb z x) eqn:E; auto.
  assert (leb y x = true) by (eapply leb_trans; eauto). rewrite H in H1. discriminate.
Qed.

Theorem rank_unique a s i v :
  Permutation a s -> sorted s ->
  nth_error a i = Some v -> le_seg A leb a v 0 i -> ge_seg A leb a v i (length a) ->
  exists w, nth_error s i = Some w /\ leb v w = true /\ leb w v = true.
Proof.
  intros P S Nv LE GE.
  assert (Hi : i < length a) by (apply nth_error_Some; rewrite Nv; discriminate).
  assert (Ls : length s = length a) by (symmetry; now apply Permutation_length).
  destruct (nth_error s i) as [w|] eqn:Nw; [|apply nth_error_None in Nw; lia].
  exists w. split; auto.
  (* counts in a *)
  assert (C1 : countb (fun x => ltb x v) a <= i).
  { apply countb_le. intros k x Hk Hx.
    assert (k < length a) by (apply nth_error_Some; rewrite Hx; discriminate).
    destruct (GE k) as (y & Ny & Ey); [lia|]. assert (x = y) by congruence. subst y. now apply leb_ltb_false. }
  assert (C2 : i + 1 <= countb (fun x => leb x v) a).
  { apply countb_ge; [lia|]. intros k x Hk Hx.
    destruct (Nat.eq_dec k i) as [->|N].
    - assert (x = v) by congruence. subst x. destruct (leb_total v v); auto.
    - destruct (LE k) as (y & Ny & Ey); [lia|]. congruence. }
  rewrite (countb_perm _ _ _ P) in C1. rewrite (countb_perm _ _ _ P) in C2.
  split.
  - (* v <= w : otherwise w < v and i+1 elements of s are < v *)
    destruct (leb v w) eqn:E; auto. exfalso.
    assert (Wlt : ltb w v = true) by (unfold Partition.ltb; now rewrite E).
    assert (i + 1 <= countb (fun x => ltb x v) s); [|lia].
    apply countb_ge; [lia|]. intros k x Hk Hx.
    eapply ltb_trans_l; [|exact Wlt]. eapply (S k i); eauto; lia.
  - (* w <= v : otherwise v < w and at most i elements of s are <= v *)
    destruct (leb w v) eqn:E; auto. exfalso.
    assert (Vlt : ltb v w = true) by (unfold Partition.ltb; now rewrite E).
    assert (countb (fun x => leb x v) s <= i); [|lia].
    apply countb_le. intros k x Hk Hx.
    assert (Wx : leb w x = true) by (eapply (S i k); eauto).
    destruct (leb x v) eqn:E2; auto.
    assert (leb w v = true) by (eapply leb_trans; eauto). congruence.
Qed.

(* the flagship statement: selection returns what any full sort places at i, for every pivot oracle *)
Corollary select_sorted fuel pick c a i s :
  i < length a -> length a <= fuel -> Permutation a s -> sorted s ->
  exists v a' c' w, select A leb fuel pick c a i = Ok (v, a', c') /\ Permutation a a' /\
    nth_error s i = Some w /\ leb v w = true /\ leb w v = true.
Proof.
  intros Hi Hf P S.
  destruct (select_spec A leb leb_total leb_trans fuel pick c a i Hi Hf) as (v & a' & c' & R & Pa & La & Nv & LE & GE).
  destruct (rank_unique a' s i v) as (w & Nw & E1 & E2); auto.
  - eapply Permutation_trans; [apply Permutation_sym; exact Pa | exact P].
  - rewrite La. exact GE.
  - exists v, a', c', w. auto.
Qed.
End R.
