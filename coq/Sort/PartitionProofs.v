From Coq Require Import List Arith Lia Permutation Bool.
Import ListNotations.
From NS Require Import Base.Res Base.ArrLemmas Sort.Partition.

Section P.
Variable A : Type.
Variable leb : A -> A -> bool.
Hypothesis leb_total : forall x y, leb x y = true \/ leb y x = true.
Notation ltb := (ltb A leb).
Notation scan_i := (scan_i A leb).
Notation scan_j := (scan_j A leb).
Notation outer := (outer A leb).
Notation partition := (partition A leb).

Definition lt_seg (a : list A) (pv : A) (lo hi : nat) :=
  forall k, lo <= k < hi -> exists x, nth_error a k = Some x /\ ltb x pv = true.
Definition ge_seg (a : list A) (pv : A) (lo hi : nat) :=
  forall k, lo <= k < hi -> exists x, nth_error a k = Some x /\ leb pv x = true.

Lemma scan_i_spec fuel a pv i j :
  j < length a -> i <= j + 1 -> j + 2 - i <= fuel ->
  exists i', scan_i fuel a pv i j = Ok i' /\ i <= i' <= j + 1 /\ lt_seg a pv i i' /\
    (i' = j + 1 \/ (i' <= j /\ exists x, nth_error a i' = Some x /\ leb pv x = true)).
Proof.
  revert i. induction fuel as [|f IH]; intros i Hj Hij Hf; [lia|].
  simpl. destruct (Nat.ltb_spec j i) as [L|L].
  - exists i. repeat split; try lia. intros k Hk; lia.
  - destruct (get_ok a i) as (x & G & N); [lia|]. rewrite G. simpl.
    destruct (leb pv x) eqn:E.
    + exists i. repeat split; try lia. { intros k Hk; lia. } right. split; [lia|]. eauto.
    + destruct (IH (i + 1)) as (i' & R & B & S & F); try lia.
      exists i'. rewrite R. repeat split; try lia; auto.
      intros k Hk. destruct (Nat.eq_dec k i) as [->|Nk].
      * exists x. split; auto. unfold Partition.ltb. now rewrite E.
      * apply S. lia.
Qed.

Lemma scan_j_spec fuel a pv j :
  j < length a -> j + 1 <= fuel ->
  exists j', scan_j fuel a pv j = Ok j' /\ j' <= j /\ (1 <= j -> 1 <= j') /\ ge_seg a pv (j' + 1) (j + 1) /\
    exists x, nth_error a j' = Some x /\ (leb pv x = false \/ (j' <= 1 /\ leb pv x = true)).
Proof.
  revert j. induction fuel as [|f IH]; intros j Hj Hf; [lia|].
  simpl. destruct (get_ok a j Hj) as (x & G & N). rewrite G. simpl.
  destruct (leb pv x) eqn:E.
  - destruct (Nat.leb_spec j 1) as [L|L].
    + exists j. repeat split; try lia. { intros k Hk; lia. } exists x. auto.
    + destruct (IH (j - 1)) as (j' & R & B1 & B2 & S & F); try lia.
      exists j'. rewrite R. repeat split; try lia; auto.
      intros k Hk. destruct (Nat.eq_dec k j) as [->|Nk].
      * eauto.
      * apply S. lia.
  - exists j. repeat split; try lia. { intros k Hk; lia. } exists x. auto.
Qed.

Record inv (n : nat) (pv : A) (a0 a : list A) (i j : nat) : Prop := {
  inv_len : length a = n;
  inv_pv : nth_error a 0 = Some pv;
  inv_i : 1 <= i;
  inv_j : j < n;
  inv_ij : i <= j + 1;
  inv_j1 : 2 <= n -> 1 <= j;
  inv_lt : lt_seg a pv 1 i;
  inv_ge : ge_seg a pv (j + 1) n;
  inv_perm : Permutation a0 a }.

Lemma outer_spec fuel n pv a0 a i j :
  inv n pv a0 a i j -> j + 2 - i <= fuel ->
  exists i' a', outer fuel a pv i j = Ok (i', a') /\
    length a' = n /\ nth_error a' 0 = Some pv /\ 1 <= i' <= n /\
    lt_seg a' pv 1 i' /\ ge_seg a' pv i' n /\ Permutation a0 a'.
Proof.
  revert a i j. induction fuel as [|f IH]; intros a i j I Hf; [destruct I; lia|].
  destruct I as [Hlen Hpv Hi Hj Hij Hj1 Hlt Hge Hperm].
  cbn [Partition.outer].
  destruct (scan_i_spec (S (length a)) a pv i j) as (i' & Ri & Bi & Si & Fi); try lia.
  rewrite Ri. cbn [bind].
  destruct (scan_j_spec (S (length a)) a pv j) as (j' & Rj & Bj & Bj1 & Sj & xj & Nxj & Fj); try lia.
  rewrite Rj. cbn [bind].
  assert (LT' : lt_seg a pv 1 i').
  { intros k Hk. destruct (Nat.lt_ge_cases k i); [apply Hlt|apply Si]; lia. }
  assert (GE' : ge_seg a pv (j' + 1) n).
  { intros k Hk. destruct (Nat.le_gt_cases k j); [apply Sj|apply Hge]; lia. }
  destruct (Nat.leb_spec j' i') as [L|L].
  - (* exit *)
    exists i', a. repeat split; auto; try lia.
    intros k Hk.
    destruct (Nat.le_gt_cases (j' + 1) k) as [K|K]; [apply GE'; lia|].
    (* k <= j' <= i' <= k : k = i' = j' *)
    assert (k = i') by lia. assert (j' = i') by lia. subst k j'.
    destruct Fi as [Fi|[Fi1 (x & Nx & Ex)]].
    + (* i' = j+1 > j >= j' = i' : contradiction *) lia.
    + eauto.
  - (* swap and continue: i' < j' *)
    assert (Hi'j : i' <= j) by lia.
    destruct Fi as [Fi|[_ (xi & Nxi & Exi)]]; [lia|].
    destruct Fj as [Exj|[Fj1 _]]; [|lia].
    destruct (swap_spec a i' j') as (x & y & a' & Sw & Nx & Ny & La & Ni' & Nj' & Nk & P); try lia.
    rewrite Sw. cbn [bind].
    assert (x = xi) by congruence. assert (y = xj) by congruence. subst x y.
    destruct (IH a' (i' + 1) (j' - 1)) as (i2 & a2 & R & H1 & H2 & H3 & H4 & H5 & H6); try lia.
    + constructor; try lia.
      * rewrite Nk; auto; lia.
      * intros k Hk. destruct (Nat.eq_dec k i') as [->|Nki].
        { exists xj. split; auto. unfold Partition.ltb. now rewrite Exj. }
        { rewrite Nk; try lia. apply LT'. lia. }
      * intros k Hk. destruct (Nat.eq_dec k j') as [->|Nkj].
        { exists xi. split; auto. }
        { rewrite Nk; try lia. apply GE'. lia. }
      * eapply Permutation_trans; eauto.
    + exists i2, a2. rewrite R. repeat split; auto; lia.
Qed.

Theorem partition_spec a p :
  p < length a ->
  exists k a' pv, partition a p = Ok (k, a') /\ nth_error a p = Some pv /\
    Permutation a a' /\ length a' = length a /\ k < length a /\
    nth_error a' k = Some pv /\
    lt_seg a' pv 0 k /\ ge_seg a' pv (k + 1) (length a).
Proof.
  intros Hp. unfold Partition.partition.
  destruct (get_ok a p Hp) as (pv & G & N). rewrite G. cbn [bind].
  destruct (swap_spec a p 0) as (x & y & a1 & Sw & Nx & Ny & La & Np & N0 & Nk & P); try lia.
  rewrite Sw. cbn [bind]. assert (x = pv) by congruence. subst x.
  set (n := length a) in *.
  destruct (outer_spec (S n) n pv a a1 1 (n - 1)) as (i & a2 & R & H1 & H2 & H3 & H4 & H5 & H6); try lia.
  { constructor; try lia; auto.
    - intros k Hk; lia.
    - intros k Hk; lia. }
  rewrite R. cbn [bind].
  destruct (swap_spec a2 0 (i - 1)) as (x2 & y2 & a3 & Sw2 & Nx2 & Ny2 & La2 & N02 & Ni2 & Nk2 & P2); try lia.
  rewrite Sw2. cbn [bind]. assert (x2 = pv) by congruence. subst x2.
  exists (i - 1), a3, pv. repeat split; auto; try lia.
  - eapply Permutation_trans; eauto.
  - intros k Hk. destruct (Nat.eq_dec k 0) as [->|Nk0].
    + (* position 0 now holds y = a2[i-1], with i-1 >= 1 *)
      destruct (H4 (i - 1)) as (z & Nz & Ez); [lia|].
      exists z. split; auto. congruence.
    + rewrite Nk2; try lia. apply H4. lia.
  - intros k Hk. rewrite Nk2; try lia. apply H5. lia.
Qed.

Theorem partition_oob a p : length a <= p -> partition a p = Panic.
Proof. intros H. unfold Partition.partition. now rewrite get_panic. Qed.
End P.
