(* Pinned pre-repair variants of the sort routines (documentation and regression
   anchors for the defects D1 and D2; the property theorems are about the
   repaired definitions). *)
From Coq Require Import List Arith ZArith Lia Bool.
Import ListNotations.
From NS Require Import Base.Res Sort.Partition Sort.Select.

Section V0.
Variable A : Type.
Variable leb : A -> A -> bool.

(* D1: inner scan 2 with the original guard  if j == 1 { break }  and j -= 1 on usize *)
Fixpoint scan_j_v0 (fuel : nat) (a : list A) (pv : A) (j : nat) : res nat :=
  match fuel with
  | O => OutOfFuel
  | S f =>
    x <- get a j ;;
    if leb pv x then (if j =? 1 then Ok j else if j =? 0 then Panic (* 0 - 1 underflows *)
                      else scan_j_v0 f a pv (j - 1)) else Ok j
  end.

Fixpoint outer_v0 (fuel : nat) (a : list A) (pv : A) (i j : nat) : res (nat * list A) :=
  match fuel with
  | O => OutOfFuel
  | S f =>
    i' <- scan_i A leb (S (length a)) a pv i j ;;
    j' <- scan_j_v0 (S (length a)) a pv j ;;
    if j' <=? i' then Ok (i', a)
    else a' <- swap a i' j' ;; outer_v0 f a' pv (i' + 1) (j' - 1)
  end.

Definition partition_v0 (a : list A) (p : nat) : res (nat * list A) :=
  pv <- get a p ;;
  a1 <- swap a p 0 ;;
  let n := length a in
  r <- outer_v0 (S n) a1 pv 1 (n - 1) ;;
  let '(i, a2) := r in
  a3 <- swap a2 0 (i - 1) ;;
  Ok (i - 1, a3).

(* D2: selection without the up-front range check *)
Fixpoint select_v0 (fuel : nat) (pick : nat -> nat -> nat) (c : nat) (a : list A) (i : nat)
  : res (A * list A * nat) :=
  match fuel with
  | O => OutOfFuel
  | S f =>
    let n := length a in
    if n =? 1 then (x <- get a 0 ;; Ok (x, a, c)) else
    if n =? 0 then Panic (* gen_range(0..0) *) else
    let p := pick c n mod n in
    r <- partition A leb a p ;;
    let '(k, a') := r in
    if i <? k then
      r' <- select_v0 f pick (S c) (firstn k a') i ;;
      let '(v, l', c') := r' in Ok (v, l' ++ skipn k a', c')
    else if i =? k then (x <- get a' i ;; Ok (x, a', S c))
    else
      r' <- select_v0 f pick (S c) (skipn (k + 1) a') (i - (k + 1)) ;;
      let '(v, r2, c') := r' in Ok (v, firstn (k + 1) a' ++ r2, c')
  end.
End V0.

Lemma partition_v0_refuted : partition_v0 Z Z.leb [5%Z] 0 = Panic.
Proof. vm_compute. reflexivity. Qed.

Lemma select_v0_refuted : exists r, select_v0 Z Z.leb 5 (fun _ _ => 0) 0 [42%Z] 7 = Ok r.
Proof. eexists. vm_compute. reflexivity. Qed.
