(* get_many_from_sorted_mut (sort.rs): sort + dedup of the requested indexes, the
   up-front range check (repair D2), get_many_from_sorted_mut_unchecked (fill value
   array[0], recursive bulk selection), and the IndexMap built from
   indexes.zip(values) - an association list in insertion order. *)
From Coq Require Import List Arith Bool.
Import ListNotations.
From NS Require Import Base.Res Base.SortDedup Sort.Partition Sort.Bulk.

Fixpoint last_opt {X} (l : list X) : option X :=
  match l with
  | [] => None
  | [x] => Some x
  | _ :: t => last_opt t
  end.

Section SM.
Variable A : Type.
Variable leb : A -> A -> bool.

(* get_many_from_sorted_mut_unchecked(array, indexes) with indexes sorted and deduplicated *)
Definition select_many_unchecked (fuel : nat) (pick : nat -> nat -> nat) (c : nat)
    (a : list A) (ds : list nat) : res (list (nat * A) * list A * nat) :=
  match ds with
  | [] => Ok ([], a, c)
  | _ =>
    fill <- get a 0 ;;
    r <- bulk A leb fuel pick c fill a ds ;;
    let '(vs, a', c') := r in Ok (combine ds vs, a', c')
  end.

Definition select_many (fuel : nat) (pick : nat -> nat -> nat) (a : list A) (idxs : list nat)
  : res (list (nat * A) * list A * nat) :=
  let ds := sort_dedup nat Nat.leb idxs in
  match last_opt ds with
  | Some largest =>
    if length a <=? largest then Panic (* assert!(largest < n) *)
    else select_many_unchecked fuel pick 0 a ds
  | None => Ok ([], a, 0)
  end.

(* pre-repair (D2): no range check; in a release build the debug assertions of the
   recursive part are off *)
Definition select_many_v0 (fuel : nat) (pick : nat -> nat -> nat) (a : list A) (idxs : list nat)
  : res (list (nat * A) * list A * nat) :=
  select_many_unchecked fuel pick 0 a (sort_dedup nat Nat.leb idxs).
End SM.
