From Coq Require Import List Arith ZArith Lia Permutation Bool.
Import ListNotations.
From NS Require Import Sort.Partition.

Section Sel.
Variable A : Type.
Variable leb : A -> A -> bool.
Notation partition := (partition A leb).

Fixpoint select (fuel : nat) (pick : nat -> nat -> nat) (c : nat) (a : list A) (i : nat)
  : res (A * list A * nat) :=
  match fuel with
  | O => OutOfFuel
  | S f =>
    let n := length a in
    if n <=? i then Panic else
    if n =? 1 then (x <- get a 0 ;; Ok (x, a, c)) else
    let p := pick c n mod n in
    r <- partition a p ;;
    let '(k, a') := r in
    if i <? k then
      r' <- select f pick (S c) (firstn k a') i ;;
      let '(v, l', c') := r' in Ok (v, l' ++ skipn k a', c')
    else if i =? k then (x <- get a' i ;; Ok (x, a', S c))
    else
      r' <- select f pick (S c) (skipn (k + 1) a') (i - (k + 1)) ;;
      let '(v, r2, c') := r' in Ok (v, firstn (k + 1) a' ++ r2, c')
  end.
End Sel.

