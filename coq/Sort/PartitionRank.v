(* The index returned by partition is the number of elements strictly smaller
   than the pivot value. *)
From Coq Require Import List Arith Lia Permutation Bool.
Import ListNotations.
From NS Require Import Base.Res Base.ArrLemmas Sort.Partition Sort.PartitionProofs.

Section R.
Variable A : Type.
Variable leb : A -> A -> bool.
Hypothesis leb_total : forall x y, leb x y = true \/ leb y x = true.
Notation ltb := (ltb A leb).

Fixpoint countb (p : A -> bool) (l : list A) : nat :=
  match l with [] => 0 | x :: t => (if p x then 1 else 0) + countb p t end.

Lemma countb_perm p l l' : Permutation l l' -> countb p l = countb p l'.
Proof. induction 1; simpl; try lia. Qed.

Lemma countb_ge p l m : m <= length l ->
  (forall k x, k < m -> nth_error l k = Some x -> p x = true) -> m <= countb p l.
Proof.
  revert m; induction l as [|h t IH]; intros m Hm H; simpl in *; [lia|].
  destruct m as [|m]; [lia|].
  rewrite (H 0 h) by (simpl; auto; lia).
  specialize (IH m). assert (m <= countb p t).
  { apply IH; [lia|]. intros k x Hk Hx. apply (H (S k) x); [lia|exact Hx]. }
  lia.
Qed.

Lemma countb_le p l m :
  (forall k x, m <= k -> nth_error l k = Some x -> p x = false) -> countb p l <= m.
Proof.
  revert m; induction l as [|h t IH]; intros m H; simpl in *; [lia|].
  destruct m as [|m].
  - rewrite (H 0 h) by (simpl; auto; lia).
    assert (countb p t <= 0). { apply IH. intros k x Hk Hx. apply (H (S k) x); [lia|exact Hx]. } lia.
  - assert (countb p t <= m). { apply IH. intros k x Hk Hx. apply (H (S k) x); [lia|exact Hx]. }
    destruct (p h); lia.
Qed.

Lemma ltb_irrefl x : ltb x x = false.
Proof. unfold Partition.ltb. destruct (leb_total x x) as [H|H]; now rewrite H. Qed.

Theorem partition_rank a p :
  p < length a ->
  exists k a' pv, partition A leb a p = Ok (k, a') /\ nth_error a p = Some pv /\
    k = countb (fun x => ltb x pv) a /\
    Permutation a a' /\ length a' = length a /\ k < length a /\
    nth_error a' k = Some pv /\
    (forall m x, m < k -> nth_error a' m = Some x -> ltb x pv = true) /\
    (forall m x, k < m -> nth_error a' m = Some x -> leb pv x = true).
Proof.
  intros Hp.
  destruct (partition_spec A leb a p Hp) as (k & a' & pv & R & Np & P & L & Hk & Nk & LT & GE).
  exists k, a', pv. repeat split; auto.
  - rewrite (countb_perm _ _ _ P). apply Nat.le_antisymm.
    + apply countb_ge; [lia|]. intros m x Hm Hx.
      destruct (LT m) as (y & Ny & Ey); [lia|]. congruence.
    + apply countb_le. intros m x Hm Hx.
      destruct (Nat.eq_dec m k) as [->|Nmk].
      * assert (x = pv) by congruence. subst x. apply ltb_irrefl.
      * assert (m < length a') by (apply nth_error_Some; rewrite Hx; discriminate).
        destruct (GE m) as (y & Ny & Ey); [lia|]. assert (x = y) by congruence. subst y.
        unfold Partition.ltb. now rewrite Ey.
  - intros m x Hm Hx. destruct (LT m) as (y & Ny & Ey); [lia|]. congruence.
  - intros m x Hm Hx.
    assert (m < length a') by (apply nth_error_Some; rewrite Hx; discriminate).
    destruct (GE m) as (y & Ny & Ey); [lia|]. congruence.
Qed.
End R.
