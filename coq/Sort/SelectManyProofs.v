(* Proofs about Sort/SelectMany.v, the model of get_many_from_sorted_mut (sort.rs):
   for every pivot oracle the repaired routine returns exactly one entry per distinct
   requested index, in increasing index order, each value placed at its index; every
   entry is order-equivalent to what any full sort puts at that index and to what a
   single selection of that index returns; an out-of-range request panics up front;
   the pre-repair variant does not. *)
From Coq Require Import List Arith Lia Permutation Bool Sorting.Sorted.
Import ListNotations.
From NS Require Import Base.Res Base.ArrLemmas Base.SortDedup Base.SortDedupProofs
  Sort.Partition Sort.PartitionProofs Sort.PartitionRank Sort.Select Sort.SelectProofs
  Sort.Rank Sort.Bulk Sort.BulkProofs Sort.SelectMany.

(* ------------------------------------------------------------------ *)
(* 1. Bridges (index lists only, independent of the element type)      *)
(* ------------------------------------------------------------------ *)

Lemma sorted_from_of_strict : forall lo l,
  StronglySorted lt l -> Forall (fun x => lo <= x) l -> sorted_from lo l.
Proof.
  intros lo l; revert lo. induction l as [|x t IH]; intros lo Hs Hf; simpl; [exact I|].
  apply StronglySorted_inv in Hs. destruct Hs as [Hst Hxt].
  inversion Hf as [|? ? Hx Ht]; subst. split; [exact Hx|].
  apply IH; [exact Hst|]. eapply Forall_impl; [|exact Hxt]. intros y Hy. simpl in *. lia.
Qed.

Lemma sorted_from_strict : forall lo l,
  sorted_from lo l -> StronglySorted lt l /\ Forall (fun x => lo <= x) l.
Proof.
  intros lo l; revert lo. induction l as [|x t IH]; intros lo Hs; simpl in Hs.
  - split; constructor.
  - destruct Hs as [Hx Ht]. destruct (IH _ Ht) as [Hst Hft]. split.
    + constructor; [exact Hst|]. eapply Forall_impl; [|exact Hft]. intros y Hy. simpl in *. lia.
    + constructor; [exact Hx|]. eapply Forall_impl; [|exact Hft]. intros y Hy. simpl in *. lia.
Qed.

Lemma last_opt_max : forall l m,
  StronglySorted lt l -> last_opt l = Some m -> In m l /\ forall x, In x l -> x <= m.
Proof.
  induction l as [|x t IH]; intros m Hs Hl; [discriminate Hl|].
  destruct t as [|y t'].
  - simpl in Hl. inversion Hl; subst. split; [left; reflexivity|].
    intros z [Hz|[]]. lia.
  - apply StronglySorted_inv in Hs. destruct Hs as [Hst Hxt].
    change (last_opt (y :: t') = Some m) in Hl.
    destruct (IH m Hst Hl) as [Hin Hmax]. split; [right; exact Hin|].
    intros z [Hz|Hz].
    + subst z. rewrite Forall_forall in Hxt. specialize (Hxt m Hin). lia.
    + apply Hmax. exact Hz.
Qed.

Lemma last_opt_cons_some {X} : forall (t : list X) x, last_opt (x :: t) <> None.
Proof.
  induction t as [|y t' IH]; intros x; [simpl; discriminate|].
  change (last_opt (y :: t') <> None). apply IH.
Qed.

Lemma last_opt_none {X} : forall l : list X, last_opt l = None <-> l = [].
Proof.
  intros l. split.
  - destruct l as [|x t]; [reflexivity|]. intros H. exfalso. exact (last_opt_cons_some t x H).
  - intros ->. reflexivity.
Qed.

(* generic helpers on association lists built by combine *)
Lemma map_fst_combine {X Y} : forall (l : list X) (vs : list Y),
  length l = length vs -> map fst (combine l vs) = l.
Proof.
  induction l as [|x t IH]; intros [|v vs] H; simpl in *; try discriminate; auto.
  f_equal. apply IH. lia.
Qed.

Lemma Forall2_combine {X Y} (R : X -> Y -> Prop) : forall l vs,
  Forall2 R l vs -> Forall (fun kv => R (fst kv) (snd kv)) (combine l vs).
Proof. induction 1; simpl; constructor; auto. Qed.

Lemma Forall2_length' {X Y} (R : X -> Y -> Prop) : forall l vs, Forall2 R l vs -> length l = length vs.
Proof. induction 1; simpl; auto. Qed.

Section P.
Variable A : Type.
Variable leb : A -> A -> bool.
Hypothesis leb_total : forall x y, leb x y = true \/ leb y x = true.
Hypothesis leb_trans : forall x y z, leb x y = true -> leb y z = true -> leb x z = true.
Notation placed := (placed A leb).
Notation select_many := (select_many A leb).
Notation select_many_unchecked := (select_many_unchecked A leb).
Notation select := (select A leb).
Notation sorted := (sorted A leb).

(* StronglySorted for the boolean order is the index-wise sortedness of Rank.v *)
Lemma sorted_of_StronglySorted : forall s,
  StronglySorted (fun x y => leb x y = true) s -> sorted s.
Proof.
  induction s as [|h t IH]; intros Hs i j x y Hij Hi Hj.
  - destruct i; discriminate Hi.
  - apply StronglySorted_inv in Hs. destruct Hs as [Hst Hht].
    destruct i as [|i']; destruct j as [|j']; simpl in Hi, Hj.
    + inversion Hi; inversion Hj; subst. apply (SelectProofs.leb_refl A leb leb_total).
    + inversion Hi; subst. apply nth_error_In in Hj. rewrite Forall_forall in Hht. apply Hht. exact Hj.
    + lia.
    + apply (IH Hst i' j' x y); auto. lia.
Qed.

Lemma isort_sorted_rank : forall a, sorted (isort A leb a).
Proof. intros a. apply sorted_of_StronglySorted. apply isort_sorted; assumption. Qed.

(* ------------------------------------------------------------------ *)
(* 2. Functional specification, for every pivot oracle                 *)
(* ------------------------------------------------------------------ *)

Theorem select_many_spec : forall fuel pick a idxs,
  Forall (fun i => i < length a) idxs -> length a <= fuel -> 0 < fuel ->
  exists kvs a' c,
    select_many fuel pick a idxs = Ok (kvs, a', c) /\
    Permutation a a' /\ length a' = length a /\
    map fst kvs = sort_dedup nat Nat.leb idxs /\
    StronglySorted lt (map fst kvs) /\
    (forall i, In i (map fst kvs) <-> In i idxs) /\
    Forall (fun kv => placed a' (fst kv) (snd kv)) kvs.
Proof.
  intros fuel pick a idxs Hin Hfuel Hpos.
  unfold SelectMany.select_many.
  set (ds := sort_dedup nat Nat.leb idxs).
  assert (Hds : StronglySorted lt ds) by apply nat_sort_dedup_lt.
  assert (Hmem : forall i, In i ds <-> In i idxs) by (intros i; apply nat_sort_dedup_In).
  destruct (last_opt ds) as [m|] eqn:El.
  - destruct (last_opt_max ds m Hds El) as [Hm Hmax].
    assert (Hml : m < length a).
    { rewrite Forall_forall in Hin. apply Hin. apply Hmem. exact Hm. }
    destruct (Nat.leb_spec (length a) m) as [Hbad|_]; [lia|].
    unfold SelectMany.select_many_unchecked.
    destruct ds as [|d0 drest] eqn:Eds; [destruct Hm|].
    rewrite <- Eds in *.
    destruct (get_ok a 0) as (fill & G & _); [lia|]. rewrite G. cbn [bind].
    assert (Hsf : sorted_from 0 ds).
    { apply sorted_from_of_strict; [exact Hds|]. apply Forall_forall. intros; lia. }
    assert (Hfds : Forall (fun x => x < length a) ds).
    { rewrite Forall_forall in *. intros x Hx. apply Hin. apply Hmem. exact Hx. }
    destruct (bulk_spec A leb leb_total leb_trans fuel pick 0 fill a ds Hfuel Hpos Hsf Hfds)
      as (vs & a' & c' & R & Pa & La & F2).
    rewrite R. cbn [bind].
    assert (Hlen : length ds = length vs) by (eapply Forall2_length'; exact F2).
    exists (combine ds vs), a', c'.
    rewrite (map_fst_combine ds vs Hlen).
    repeat split; auto.
    + apply Hmem.
    + apply Hmem.
    + apply (Forall2_combine (fun k v => placed a' k v)). exact F2.
  - apply last_opt_none in El. exists [], a, 0. simpl. rewrite El in *.
    split; [reflexivity|]. split; [apply Permutation_refl|]. split; [reflexivity|].
    split; [reflexivity|]. split; [constructor|]. split; [|constructor].
    intros i. split; [intros [] | intros Hi; apply (proj2 (Hmem i)); exact Hi].
Qed.

(* ------------------------------------------------------------------ *)
(* 6. In range => Ok (never Panic, never OutOfFuel)                    *)
(* ------------------------------------------------------------------ *)

Corollary select_many_in_range_ok : forall fuel pick a idxs,
  Forall (fun i => i < length a) idxs -> length a <= fuel -> 0 < fuel ->
  (exists r, select_many fuel pick a idxs = Ok r) /\
  select_many fuel pick a idxs <> Panic /\
  select_many fuel pick a idxs <> OutOfFuel.
Proof.
  intros fuel pick a idxs Hin Hfuel Hpos.
  destruct (select_many_spec fuel pick a idxs Hin Hfuel Hpos) as (kvs & a' & c & R & _).
  rewrite R. repeat split; try discriminate. eexists; reflexivity.
Qed.

(* ------------------------------------------------------------------ *)
(* 3. Every returned value is what ANY full sort places at its index   *)
(* ------------------------------------------------------------------ *)

Lemma placed_rank a' s k v :
  Permutation a' s -> sorted s -> placed a' k v ->
  exists w, nth_error s k = Some w /\ leb v w = true /\ leb w v = true.
Proof.
  intros P S (N & LE & GE).
  exact (rank_unique A leb leb_total leb_trans a' s k v P S N LE GE).
Qed.

Theorem select_many_sorted : forall fuel pick a idxs s,
  Forall (fun i => i < length a) idxs -> length a <= fuel -> 0 < fuel ->
  Permutation a s -> sorted s ->
  exists kvs a' c,
    select_many fuel pick a idxs = Ok (kvs, a', c) /\
    map fst kvs = sort_dedup nat Nat.leb idxs /\
    forall k v, In (k, v) kvs ->
      exists w, nth_error s k = Some w /\ leb v w = true /\ leb w v = true.
Proof.
  intros fuel pick a idxs s Hin Hfuel Hpos Ps Ss.
  destruct (select_many_spec fuel pick a idxs Hin Hfuel Hpos)
    as (kvs & a' & c & R & Pa & La & Ek & Sk & Mk & Pl).
  exists kvs, a', c. split; [exact R|]. split; [exact Ek|].
  intros k v Hkv. rewrite Forall_forall in Pl. specialize (Pl (k, v) Hkv). simpl in Pl.
  apply (placed_rank a' s k v); auto.
  eapply Permutation_trans; [apply Permutation_sym; exact Pa | exact Ps].
Qed.

(* ------------------------------------------------------------------ *)
(* 4. Bulk entry == single selection of the same index                 *)
(* ------------------------------------------------------------------ *)

Theorem select_many_eq_select : forall fuel pick a idxs,
  Forall (fun i => i < length a) idxs -> length a <= fuel -> 0 < fuel ->
  exists kvs a' c,
    select_many fuel pick a idxs = Ok (kvs, a', c) /\
    forall k v, In (k, v) kvs ->
    forall fuel' pick' c', length a <= fuel' ->
      exists v' a'' c'',
        select fuel' pick' c' a k = Ok (v', a'', c'') /\
        leb v v' = true /\ leb v' v = true.
Proof.
  intros fuel pick a idxs Hin Hfuel Hpos.
  destruct (select_many_spec fuel pick a idxs Hin Hfuel Hpos)
    as (kvs & a' & c & R & Pa & La & Ek & Sk & Mk & Pl).
  exists kvs, a', c. split; [exact R|].
  intros k v Hkv fuel' pick' c' Hfuel'.
  rewrite Forall_forall in Pl. specialize (Pl (k, v) Hkv). simpl in Pl.
  set (s := isort A leb a).
  assert (Ps : Permutation a s) by apply isort_perm.
  assert (Ss : sorted s) by apply isort_sorted_rank.
  assert (Hk : k < length a).
  { destruct Pl as (N & _). rewrite <- La. apply nth_error_Some. rewrite N. discriminate. }
  destruct (placed_rank a' s k v) as (w & Nw & E1 & E2); auto.
  { eapply Permutation_trans; [apply Permutation_sym; exact Pa | exact Ps]. }
  destruct (select_sorted A leb leb_total leb_trans fuel' pick' c' a k s Hk Hfuel' Ps Ss)
    as (v' & a'' & c'' & w' & R' & _ & Nw' & E1' & E2').
  assert (w' = w) by congruence. subst w'.
  exists v', a'', c''. split; [exact R'|]. split; eapply leb_trans; eauto.
Qed.

(* ------------------------------------------------------------------ *)
(* 5. Out-of-range request: up-front panic, for every fuel/pick/array   *)
(* ------------------------------------------------------------------ *)

Theorem select_many_oob : forall fuel pick a idxs,
  Exists (fun i => length a <= i) idxs -> select_many fuel pick a idxs = Panic.
Proof.
  intros fuel pick a idxs Hex. apply Exists_exists in Hex. destruct Hex as (i & Hi & Hbig).
  unfold SelectMany.select_many.
  set (ds := sort_dedup nat Nat.leb idxs).
  assert (Hds : StronglySorted lt ds) by apply nat_sort_dedup_lt.
  assert (Hids : In i ds) by (apply nat_sort_dedup_In; exact Hi).
  destruct (last_opt ds) as [m|] eqn:El.
  - destruct (last_opt_max ds m Hds El) as [_ Hmax]. specialize (Hmax i Hids).
    destruct (Nat.leb_spec (length a) m) as [_|Hlt]; [reflexivity | lia].
  - apply last_opt_none in El. rewrite El in Hids. destruct Hids.
Qed.

End P.

(* ------------------------------------------------------------------ *)
(* 7. Concrete facts on Z                                              *)
(* ------------------------------------------------------------------ *)
From Coq Require Import ZArith.

(* pre-repair code (D2): an out-of-range index on a one-element array is answered *)
Theorem select_many_v0_refuted :
  exists r, select_many_v0 Z Z.leb 5 (fun _ _ => 0) [42%Z] [5] = Ok r.
Proof. eexists. vm_compute. reflexivity. Qed.

(* ... whereas the repaired routine panics on the very same input *)
Example select_many_repaired_panics :
  select_many Z Z.leb 5 (fun _ _ => 0) [42%Z] [5] = Panic.
Proof. vm_compute. reflexivity. Qed.

(* the concrete wrong answer of the pre-repair code: index 5 "holds" 42 *)
Example select_many_v0_value :
  select_many_v0 Z Z.leb 5 (fun _ _ => 0) [42%Z] [5] = Ok ([(5, 42%Z)], [42%Z], 0).
Proof. vm_compute. reflexivity. Qed.

(* non-vacuity: duplicates and unsorted request, keys come back as [1;4;7] *)
Example select_many_example :
  select_many Z Z.leb 10 (fun c n => c) [3;1;4;1;5;9;2;6]%Z [4;1;1;7]
  = Ok ([(1, 1%Z); (4, 4%Z); (7, 9%Z)], [1;1;2;3;4;5;6;9]%Z, 5).
Proof. vm_compute. reflexivity. Qed.

(* the empty request succeeds even on the empty array, with no fuel *)
Example select_many_empty_request :
  select_many Z Z.leb 0 (fun c n => c) [] [] = Ok ([], [], 0).
Proof. vm_compute. reflexivity. Qed.

Print Assumptions sorted_from_of_strict.
Print Assumptions sorted_from_strict.
Print Assumptions last_opt_max.
Print Assumptions last_opt_none.
Print Assumptions sorted_of_StronglySorted.
Print Assumptions select_many_spec.
Print Assumptions select_many_sorted.
Print Assumptions select_many_eq_select.
Print Assumptions select_many_oob.
Print Assumptions select_many_in_range_ok.
Print Assumptions select_many_v0_refuted.
Print Assumptions select_many_repaired_panics.
Print Assumptions select_many_v0_value.
Print Assumptions select_many_example.
Print Assumptions select_many_empty_request.
