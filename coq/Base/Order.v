From Coq Require Import List.
Definition total {A} (leb : A -> A -> bool) := forall x y, leb x y = true \/ leb y x = true.
Definition transitive {A} (leb : A -> A -> bool) :=
  forall x y z, leb x y = true -> leb y z = true -> leb x z = true.
