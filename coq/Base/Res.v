From Coq Require Import List Arith ZArith Lia Permutation Bool.
Import ListNotations.

Inductive res (T : Type) := Ok (x : T) | Panic | OutOfFuel.
Arguments Ok {T}. Arguments Panic {T}. Arguments OutOfFuel {T}.

Definition bind {T U} (r : res T) (f : T -> res U) : res U :=
  match r with Ok x => f x | Panic => Panic | OutOfFuel => OutOfFuel end.
Notation "x <- e ;; k" := (bind e (fun x => k)) (at level 61, e at next level, right associativity).

Section Arr.
Context {A : Type}.
Definition get (a : list A) (i : nat) : res A :=
  match nth_error a i with Some x => Ok x | None => Panic end.
Fixpoint upd (a : list A) (i : nat) (x : A) : list A :=
  match a, i with
  | [], _ => []
  | _ :: t, O => x :: t
  | h :: t, S k => h :: upd t k x
  end.
Definition swap (a : list A) (i j : nat) : res (list A) :=
  x <- get a i ;; y <- get a j ;; Ok (upd (upd a i y) j x).
End Arr.

