From Coq Require Import List Arith Lia Permutation Bool Sorting.Sorted.
Import ListNotations.
From NS Require Import Base.SortDedup.
From Coq Require Import ZArith.

(* ------------------------------------------------------------------ *)
(* Generic helpers, independent of the ordering.                       *)
(* ------------------------------------------------------------------ *)

Lemma StronglySorted_impl_gen :
  forall (T : Type) (R S : T -> T -> Prop),
    (forall x y, R x y -> S x y) ->
    forall l, StronglySorted R l -> StronglySorted S l.
Proof.
  intros T R S HRS l Hs.
  induction Hs as [| a l Hs IH Hfa].
  - constructor.
  - constructor.
    + exact IH.
    + eapply Forall_impl; [| exact Hfa]. intros y Hy. apply HRS. exact Hy.
Qed.

(* Two lists strictly increasing for an irreflexive, asymmetric relation and
   having the same elements are equal. *)
Lemma strict_unique_gen :
  forall (T : Type) (R : T -> T -> Prop),
    (forall x, ~ R x x) ->
    (forall x y, R x y -> R y x -> False) ->
    forall l1 l2,
      StronglySorted R l1 -> StronglySorted R l2 ->
      (forall x, In x l1 <-> In x l2) -> l1 = l2.
Proof.
  intros T R Rirr Rasym l1.
  induction l1 as [| a t1 IH]; intros l2 Hs1 Hs2 Hin.
  - destruct l2 as [| b t2]; [reflexivity |].
    exfalso. apply (proj2 (Hin b)). left. reflexivity.
  - destruct l2 as [| b t2].
    + exfalso. apply (proj1 (Hin a)). left. reflexivity.
    + apply StronglySorted_inv in Hs1. destruct Hs1 as [Hs1 Hfa1].
      apply StronglySorted_inv in Hs2. destruct Hs2 as [Hs2 Hfa2].
      rewrite Forall_forall in Hfa1, Hfa2.
      assert (Hab : a = b).
      { assert (Ha : In a (b :: t2)) by (apply Hin; left; reflexivity).
        assert (Hb : In b (a :: t1)) by (apply Hin; left; reflexivity).
        destruct Ha as [Ha | Ha]; [symmetry; exact Ha |].
        destruct Hb as [Hb | Hb]; [exact Hb |].
        exfalso. apply (Rasym a b).
        - apply Hfa1. exact Hb.
        - apply Hfa2. exact Ha. }
      subst b. f_equal.
      apply IH; [exact Hs1 | exact Hs2 |].
      intros x. split; intros Hx.
      * assert (Hx' : In x (a :: t2)) by (apply Hin; right; exact Hx).
        destruct Hx' as [Hx' | Hx']; [| exact Hx'].
        subst x. exfalso. apply (Rirr a). apply Hfa1. exact Hx.
      * assert (Hx' : In x (a :: t1)) by (apply Hin; right; exact Hx).
        destruct Hx' as [Hx' | Hx']; [| exact Hx'].
        subst x. exfalso. apply (Rirr a). apply Hfa2. exact Hx.
Qed.

(* ------------------------------------------------------------------ *)
(* Main section: total, transitive boolean preorder.                   *)
(* ------------------------------------------------------------------ *)

Section SDProofs.
Variable A : Type.
Variable leb : A -> A -> bool.
Hypothesis leb_total : forall x y, leb x y = true \/ leb y x = true.
Hypothesis leb_trans :
  forall x y z, leb x y = true -> leb y z = true -> leb x z = true.

Local Notation le := (fun x y => leb x y = true).
Local Notation slt := (fun x y => sltb A leb x y = true).

Lemma leb_refl : forall x, leb x x = true.
Proof. intros x. destruct (leb_total x x) as [H | H]; exact H. Qed.

Lemma eqv_refl : forall x, eqv A leb x x = true.
Proof. intros x. unfold eqv. rewrite leb_refl. reflexivity. Qed.

Lemma eqv_sym : forall x y, eqv A leb x y = eqv A leb y x.
Proof. intros x y. unfold eqv. apply andb_comm. Qed.

(* 1. permutation / length *)

Lemma insert_perm : forall x l, Permutation (x :: l) (insert A leb x l).
Proof.
  intros x l. induction l as [| h t IH]; cbn [insert].
  - apply Permutation_refl.
  - destruct (leb x h).
    + apply Permutation_refl.
    + eapply perm_trans; [apply perm_swap |].
      apply perm_skip. exact IH.
Qed.

Theorem isort_perm : forall l, Permutation l (isort A leb l).
Proof.
  intros l. induction l as [| h t IH]; cbn [isort].
  - apply perm_nil.
  - eapply perm_trans; [| apply insert_perm].
    apply perm_skip. exact IH.
Qed.

Theorem isort_length : forall l, length (isort A leb l) = length l.
Proof.
  intros l. symmetry. apply Permutation_length. apply isort_perm.
Qed.

Lemma isort_In : forall l x, In x (isort A leb l) <-> In x l.
Proof.
  intros l x. split; intros H.
  - eapply Permutation_in; [apply Permutation_sym; apply isort_perm | exact H].
  - eapply Permutation_in; [apply isort_perm | exact H].
Qed.

(* 2. sortedness *)

Lemma insert_sorted :
  forall x l, StronglySorted le l -> StronglySorted le (insert A leb x l).
Proof.
  intros x l Hs. induction Hs as [| h t Hs IH Hfa]; cbn [insert].
  - constructor; constructor.
  - destruct (leb x h) eqn:Exh.
    + constructor.
      * constructor; assumption.
      * constructor; [exact Exh |].
        eapply Forall_impl; [| exact Hfa].
        intros y Hy. cbv beta in *. eapply leb_trans; eassumption.
    + constructor; [exact IH |].
      assert (Hhx : leb h x = true).
      { destruct (leb_total x h) as [H | H]; [congruence | exact H]. }
      apply (Permutation_Forall (insert_perm x t)).
      constructor; assumption.
Qed.

Theorem isort_sorted : forall l, StronglySorted le (isort A leb l).
Proof.
  intros l. induction l as [| h t IH]; cbn [isort].
  - constructor.
  - apply insert_sorted. exact IH.
Qed.

(* 3. dedup only keeps elements of the input *)

Lemma dedup_from_In :
  forall l p x, In x (dedup_from A leb p l) -> In x l.
Proof.
  intros l. induction l as [| h t IH]; intros p x Hx; cbn [dedup_from] in Hx.
  - exact Hx.
  - destruct (eqv A leb p h).
    + right. eapply IH. exact Hx.
    + destruct Hx as [Hx | Hx]; [left; exact Hx | right; eapply IH; exact Hx].
Qed.

Theorem dedup_In : forall l x, In x (dedup A leb l) -> In x l.
Proof.
  intros l x Hx. destruct l as [| h t]; cbn [dedup] in Hx.
  - exact Hx.
  - destruct Hx as [Hx | Hx]; [left; exact Hx | right].
    eapply dedup_from_In. exact Hx.
Qed.

(* 4. every input element has an equivalent representative *)

Lemma dedup_from_complete :
  forall l p x, In x l ->
    exists y, In y (p :: dedup_from A leb p l) /\ eqv A leb x y = true.
Proof.
  intros l. induction l as [| h t IH]; intros p x Hx.
  - destruct Hx.
  - cbn [dedup_from]. destruct (eqv A leb p h) eqn:Eph.
    + destruct Hx as [Hx | Hx].
      * subst x. exists p. split; [left; reflexivity |].
        rewrite eqv_sym. exact Eph.
      * apply IH. exact Hx.
    + destruct Hx as [Hx | Hx].
      * subst x. exists h. split; [right; left; reflexivity | apply eqv_refl].
      * destruct (IH h x Hx) as [y [Hy Exy]].
        exists y. split; [right; exact Hy | exact Exy].
Qed.

(* No sortedness needed. *)
Theorem dedup_complete_nosort :
  forall l x, In x l ->
    exists y, In y (dedup A leb l) /\ eqv A leb x y = true.
Proof.
  intros l x Hx. destruct l as [| h t]; [destruct Hx |].
  cbn [dedup]. destruct Hx as [Hx | Hx].
  - subst x. exists h. split; [left; reflexivity | apply eqv_refl].
  - apply dedup_from_complete. exact Hx.
Qed.

Theorem dedup_complete :
  forall l x, StronglySorted le l -> In x l ->
    exists y, In y (dedup A leb l) /\ eqv A leb x y = true.
Proof.
  intros l x _ Hx. apply dedup_complete_nosort. exact Hx.
Qed.

(* 5. dedup of a sorted list is strictly sorted *)

Lemma dedup_from_strict :
  forall l p, Forall (le p) l -> StronglySorted le l ->
    StronglySorted slt (dedup_from A leb p l) /\
    Forall (slt p) (dedup_from A leb p l).
Proof.
  intros l. induction l as [| h t IH]; intros p Hp Hs; cbn [dedup_from].
  - split; constructor.
  - apply StronglySorted_inv in Hs. destruct Hs as [Hs Hh].
    inversion Hp as [| h' t' Hph Hpt]; subst h' t'.
    cbv beta in Hph.
    destruct (eqv A leb p h) eqn:Eph.
    + apply IH; assumption.
    + destruct (IH h Hh Hs) as [IHs IHf].
      assert (Hsph : sltb A leb p h = true).
      { unfold sltb. unfold eqv in Eph. rewrite Hph in Eph.
        cbn [andb] in Eph. rewrite Eph. reflexivity. }
      split.
      * constructor; assumption.
      * constructor; [exact Hsph |].
        eapply Forall_impl; [| exact IHf].
        intros z Hz. cbv beta in *. unfold sltb in *.
        destruct (leb z p) eqn:Ezp; [| reflexivity].
        assert (Hzh : leb z h = true) by (eapply leb_trans; eassumption).
        rewrite Hzh in Hz. discriminate Hz.
Qed.

Theorem dedup_strict :
  forall l, StronglySorted le l -> StronglySorted slt (dedup A leb l).
Proof.
  intros l Hs. destruct l as [| h t]; cbn [dedup].
  - constructor.
  - apply StronglySorted_inv in Hs. destruct Hs as [Hs Hh].
    destruct (dedup_from_strict t h Hh Hs) as [H1 H2].
    constructor; assumption.
Qed.

(* 6. corollaries for sort_dedup *)

Theorem sort_dedup_strict :
  forall l, StronglySorted slt (sort_dedup A leb l).
Proof.
  intros l. unfold sort_dedup. apply dedup_strict. apply isort_sorted.
Qed.

Theorem sort_dedup_In :
  forall l x, In x (sort_dedup A leb l) -> In x l.
Proof.
  intros l x Hx. unfold sort_dedup in Hx.
  apply isort_In. apply dedup_In. exact Hx.
Qed.

Theorem sort_dedup_complete :
  forall l x, In x l ->
    exists y, In y (sort_dedup A leb l) /\ eqv A leb x y = true.
Proof.
  intros l x Hx. unfold sort_dedup.
  apply dedup_complete; [apply isort_sorted |].
  apply isort_In. exact Hx.
Qed.

(* 7. dedup is the identity on strictly sorted lists *)

Lemma dedup_from_id :
  forall l p, Forall (slt p) l -> StronglySorted slt l ->
    dedup_from A leb p l = l.
Proof.
  intros l. induction l as [| h t IH]; intros p Hp Hs; cbn [dedup_from].
  - reflexivity.
  - apply StronglySorted_inv in Hs. destruct Hs as [Hs Hh].
    inversion Hp as [| h' t' Hph Hpt]; subst h' t'.
    cbv beta in Hph.
    assert (Eph : eqv A leb p h = false).
    { unfold eqv. unfold sltb in Hph.
      destruct (leb h p); [discriminate Hph | apply andb_false_r]. }
    rewrite Eph. f_equal. apply IH; assumption.
Qed.

Theorem dedup_id :
  forall l, StronglySorted slt l -> dedup A leb l = l.
Proof.
  intros l Hs. destruct l as [| h t]; cbn [dedup].
  - reflexivity.
  - apply StronglySorted_inv in Hs. destruct Hs as [Hs Hh].
    f_equal. apply dedup_from_id; assumption.
Qed.

Theorem dedup_idem :
  forall l, StronglySorted le l ->
    dedup A leb (dedup A leb l) = dedup A leb l.
Proof.
  intros l Hs. apply dedup_id. apply dedup_strict. exact Hs.
Qed.

Theorem sort_dedup_dedup_idem :
  forall l, dedup A leb (sort_dedup A leb l) = sort_dedup A leb l.
Proof.
  intros l. apply dedup_id. apply sort_dedup_strict.
Qed.

End SDProofs.

(* ------------------------------------------------------------------ *)
(* 8. Instance: nat with Nat.leb                                       *)
(* ------------------------------------------------------------------ *)

Lemma nat_leb_total : forall x y : nat, Nat.leb x y = true \/ Nat.leb y x = true.
Proof.
  intros x y. destruct (Nat.le_ge_cases x y) as [H | H].
  - left. apply Nat.leb_le. exact H.
  - right. apply Nat.leb_le. exact H.
Qed.

Lemma nat_leb_trans :
  forall x y z : nat,
    Nat.leb x y = true -> Nat.leb y z = true -> Nat.leb x z = true.
Proof.
  intros x y z Hxy Hyz.
  apply Nat.leb_le in Hxy. apply Nat.leb_le in Hyz. apply Nat.leb_le. lia.
Qed.

Theorem nat_sort_dedup_In :
  forall l x, In x (sort_dedup nat Nat.leb l) <-> In x l.
Proof.
  intros l x. split; intros Hx.
  - eapply sort_dedup_In; eassumption.
  - destruct (sort_dedup_complete nat Nat.leb nat_leb_total nat_leb_trans l x Hx)
      as [y [Hy Exy]].
    unfold eqv in Exy. apply andb_true_iff in Exy. destruct Exy as [E1 E2].
    apply Nat.leb_le in E1. apply Nat.leb_le in E2.
    assert (Heq : x = y) by lia. subst y. exact Hy.
Qed.

Theorem nat_sort_dedup_lt :
  forall l, StronglySorted lt (sort_dedup nat Nat.leb l).
Proof.
  intros l.
  eapply StronglySorted_impl_gen;
    [| apply (sort_dedup_strict nat Nat.leb nat_leb_total nat_leb_trans)].
  intros x y Hxy. cbv beta in Hxy. unfold sltb in Hxy.
  apply negb_true_iff in Hxy. apply Nat.leb_gt in Hxy. exact Hxy.
Qed.

Theorem nat_strict_unique :
  forall l1 l2, StronglySorted lt l1 -> StronglySorted lt l2 ->
    (forall x, In x l1 <-> In x l2) -> l1 = l2.
Proof.
  apply strict_unique_gen.
  - intros x Hx. lia.
  - intros x y Hxy Hyx. lia.
Qed.

(* ------------------------------------------------------------------ *)
(* 9. Instance: Z with Z.leb                                           *)
(* ------------------------------------------------------------------ *)

Lemma Z_leb_total : forall x y : Z, Z.leb x y = true \/ Z.leb y x = true.
Proof.
  intros x y. destruct (Z.le_ge_cases x y) as [H | H].
  - left. apply Z.leb_le. exact H.
  - right. apply Z.leb_le. exact H.
Qed.

Lemma Z_leb_trans :
  forall x y z : Z,
    Z.leb x y = true -> Z.leb y z = true -> Z.leb x z = true.
Proof.
  intros x y z Hxy Hyz.
  apply Z.leb_le in Hxy. apply Z.leb_le in Hyz. apply Z.leb_le. lia.
Qed.

Theorem Z_sort_dedup_In :
  forall l x, In x (sort_dedup Z Z.leb l) <-> In x l.
Proof.
  intros l x. split; intros Hx.
  - eapply sort_dedup_In; eassumption.
  - destruct (sort_dedup_complete Z Z.leb Z_leb_total Z_leb_trans l x Hx)
      as [y [Hy Exy]].
    unfold eqv in Exy. apply andb_true_iff in Exy. destruct Exy as [E1 E2].
    apply Z.leb_le in E1. apply Z.leb_le in E2.
    assert (Heq : x = y) by lia. subst y. exact Hy.
Qed.

Theorem Z_sort_dedup_lt :
  forall l, StronglySorted Z.lt (sort_dedup Z Z.leb l).
Proof.
  intros l.
  eapply StronglySorted_impl_gen;
    [| apply (sort_dedup_strict Z Z.leb Z_leb_total Z_leb_trans)].
  intros x y Hxy. cbv beta in Hxy. unfold sltb in Hxy.
  apply negb_true_iff in Hxy. apply Z.leb_gt in Hxy. exact Hxy.
Qed.

Theorem Z_strict_unique :
  forall l1 l2, StronglySorted Z.lt l1 -> StronglySorted Z.lt l2 ->
    (forall x, In x l1 <-> In x l2) -> l1 = l2.
Proof.
  apply strict_unique_gen.
  - intros x Hx. lia.
  - intros x y Hxy Hyx. lia.
Qed.

(* ------------------------------------------------------------------ *)

Print Assumptions isort_perm.
Print Assumptions isort_length.
Print Assumptions isort_sorted.
Print Assumptions dedup_In.
Print Assumptions dedup_complete.
Print Assumptions dedup_complete_nosort.
Print Assumptions dedup_strict.
Print Assumptions sort_dedup_strict.
Print Assumptions sort_dedup_In.
Print Assumptions sort_dedup_complete.
Print Assumptions dedup_id.
Print Assumptions dedup_idem.
Print Assumptions sort_dedup_dedup_idem.
Print Assumptions strict_unique_gen.
Print Assumptions nat_sort_dedup_In.
Print Assumptions nat_sort_dedup_lt.
Print Assumptions nat_strict_unique.
Print Assumptions Z_sort_dedup_In.
Print Assumptions Z_sort_dedup_lt.
Print Assumptions Z_strict_unique.
