(* Insertion sort and adjacent-duplicate removal: the model of
   slice::sort_unstable / Vec::sort followed by Vec::dedup.  dedup keeps the
   first element of every run of consecutive equivalent elements, as Vec::dedup
   does. *)
From Coq Require Import List Arith Bool.
Import ListNotations.

Section SD.
Variable A : Type.
Variable leb : A -> A -> bool.

Definition eqv (x y : A) : bool := leb x y && leb y x.
Definition sltb (x y : A) : bool := negb (leb y x).

Fixpoint insert (x : A) (l : list A) : list A :=
  match l with
  | [] => [x]
  | h :: t => if leb x h then x :: l else h :: insert x t
  end.

Fixpoint isort (l : list A) : list A :=
  match l with
  | [] => []
  | h :: t => insert h (isort t)
  end.

Fixpoint dedup_from (prev : A) (l : list A) : list A :=
  match l with
  | [] => []
  | h :: t => if eqv prev h then dedup_from prev t else h :: dedup_from h t
  end.

Definition dedup (l : list A) : list A :=
  match l with
  | [] => []
  | h :: t => h :: dedup_from h t
  end.

Definition sort_dedup (l : list A) : list A := dedup (isort l).
End SD.
