From Coq Require Import List Arith Lia Permutation Bool.
Import ListNotations.
From NS Require Import Base.Res.

Section L.
Context {A : Type}.
Implicit Types a : list A.

Lemma upd_length a i x : length (upd a i x) = length a.
Proof. revert i; induction a as [|h t IH]; intros [|i]; simpl; auto. Qed.

Lemma nth_error_upd_eq a i x : i < length a -> nth_error (upd a i x) i = Some x.
Proof. revert i; induction a as [|h t IH]; intros [|i] H; simpl in *; try lia; auto. apply IH; lia. Qed.

Lemma nth_error_upd_neq a i j x : i <> j -> nth_error (upd a i x) j = nth_error a j.
Proof. revert i j; induction a as [|h t IH]; intros [|i] [|j] H; simpl; auto; try congruence. Qed.

Lemma get_ok a i : i < length a -> exists x, get a i = Ok x /\ nth_error a i = Some x.
Proof.
  intros H. unfold get. destruct (nth_error a i) eqn:E.
  - eauto.
  - apply nth_error_None in E. lia.
Qed.

Lemma get_panic a i : length a <= i -> get a i = @Panic A.
Proof. intros H. unfold get. apply nth_error_None in H. now rewrite H. Qed.

Lemma get_Ok_inv a i x : get a i = Ok x -> nth_error a i = Some x /\ i < length a.
Proof.
  unfold get. destruct (nth_error a i) eqn:E; intros H; inversion H; subst.
  split; auto. apply nth_error_Some. congruence.
Qed.

(* upd as a permutation step: swapping two cells *)
Lemma upd_split a i x : i < length a ->
  exists l1 y l2, a = l1 ++ y :: l2 /\ length l1 = i /\ upd a i x = l1 ++ x :: l2.
Proof.
  revert i; induction a as [|h t IH]; intros [|i] H; simpl in *; try lia.
  - exists [], h, t; auto.
  - destruct (IH i) as (l1 & y & l2 & E1 & E2 & E3); try lia.
    exists (h :: l1), y, l2; simpl; subst; repeat split; auto. now rewrite E3.
Qed.

Lemma swap_spec a i j : i < length a -> j < length a ->
  exists x y a', swap a i j = Ok a' /\ nth_error a i = Some x /\ nth_error a j = Some y /\
    length a' = length a /\ nth_error a' i = Some y /\ nth_error a' j = Some x /\
    (forall k, k <> i -> k <> j -> nth_error a' k = nth_error a k) /\ Permutation a a'.
Proof.
  intros Hi Hj.
  destruct (get_ok a i Hi) as (x & Gx & Nx). destruct (get_ok a j Hj) as (y & Gy & Ny).
  exists x, y, (upd (upd a i y) j x). unfold swap. rewrite Gx, Gy. simpl.
  assert (L : length (upd (upd a i y) j x) = length a) by now rewrite !upd_length.
  repeat split; auto.
  - destruct (Nat.eq_dec i j) as [->|N].
    + rewrite nth_error_upd_eq; [congruence | now rewrite upd_length].
    + rewrite nth_error_upd_neq by auto. now apply nth_error_upd_eq.
  - apply nth_error_upd_eq. now rewrite upd_length.
  - intros k Ki Kj. rewrite !nth_error_upd_neq; auto.
  - (* permutation via nth_error characterisation *)
    apply Permutation_nth_error. split; [lia|].
    exists (fun k => if Nat.eqb k i then j else if Nat.eqb k j then i else k).
    split.
    + intros u v. destruct (Nat.eqb_spec u i), (Nat.eqb_spec u j), (Nat.eqb_spec v i), (Nat.eqb_spec v j); subst; lia.
    + intros k.
      destruct (Nat.eqb_spec k i) as [->|Ki].
      * destruct (Nat.eq_dec i j) as [->|N].
        { rewrite nth_error_upd_eq; [congruence | now rewrite upd_length]. }
        { rewrite nth_error_upd_neq by auto. rewrite nth_error_upd_eq; auto. }
      * destruct (Nat.eqb_spec k j) as [->|Kj].
        { rewrite nth_error_upd_eq; [congruence | now rewrite upd_length]. }
        { rewrite !nth_error_upd_neq; auto. }
Qed.
End L.
