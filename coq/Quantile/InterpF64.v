(* Midpoint and Linear interpolation on N64 (Quantile/Interp.v: n64_midpoint, n64_linear)
   in IEEE-754 binary64: value, bracket and rounding-error theorems. *)
From Flocq Require Import Core BinarySingleNaN Plus_error Relative.
Require Import Reals Lra Lia ZArith Psatz Bool.
From NS Require Import Base.Res Num.F64 Quantile.Index Quantile.Interp Quantile.IndexProofs Num.SumF64.
Open Scope R_scope.

Notation B2R := (@BinarySingleNaN.B2R 53 1024).
Notation fx := (SpecFloat.fexp 53 1024).
Notation rnd := (round radix2 (SpecFloat.fexp 53 1024) ZnearestE).
Notation fmt := (generic_format radix2 (SpecFloat.fexp 53 1024)).

Local Instance prec64_gt_0' : Prec_gt_0 53 := Hprec64.
Local Instance vexp64' : Valid_exp fx := fexp_correct 53 1024 Hprec64.

(* ------------------------------------------------------------------ *)
(* Rounding facts on the reals                                         *)
(* ------------------------------------------------------------------ *)
Lemma rnd_le (x y : R) : x <= y -> rnd x <= rnd y.
Proof. intros H. apply round_le; auto with typeclass_instances. Qed.

Lemma rnd_id (x : R) : fmt x -> rnd x = x.
Proof. intros G. apply round_generic; auto with typeclass_instances. Qed.

Lemma rnd_fmt (x : R) : fmt (rnd x).
Proof. apply generic_format_round; auto with typeclass_instances. Qed.

Lemma rnd_0 : rnd 0 = 0.
Proof. apply round_0. auto with typeclass_instances. Qed.

Lemma rnd_ge_0 (x : R) : 0 <= x -> 0 <= rnd x.
Proof. intros H. rewrite <- rnd_0. apply rnd_le. exact H. Qed.

Lemma rnd_le_fmt (x g : R) : fmt g -> x <= g -> rnd x <= g.
Proof. intros G H. rewrite <- (rnd_id g G). apply rnd_le. exact H. Qed.

Lemma rnd_ge_fmt (x g : R) : fmt g -> g <= x -> g <= rnd x.
Proof. intros G H. rewrite <- (rnd_id g G). apply rnd_le. exact H. Qed.

Lemma fmt_B2R (x : F64) : fmt (B2R x).
Proof. apply generic_format_B2R. Qed.

Lemma fmt_bpow (e : Z) : (-1074 <= e)%Z -> fmt (bpow radix2 e).
Proof.
  intros He. apply (generic_format_FLT_bpow radix2 (-1074) 53). exact He.
Qed.

Lemma u64_u_ro : u64 = u_ro radix2 53.
Proof. rewrite u64_eq. reflexivity. Qed.

Lemma u64_small : u64 <= / 4.
Proof.
  unfold u64. change (/ 4) with (bpow radix2 (-2)). apply bpow_le. lia.
Qed.

(* standard model, first order with absolute term (any real) *)
Lemma rnd_model (x : R) : exists e e' : R,
  Rabs e <= u64 /\ Rabs e' <= eta64 /\ rnd x = x * (1 + e) + e'.
Proof. exact (round_model x). Qed.

(* sums and differences of binary64 numbers: no absolute term *)
Lemma rnd_plus_model (x y : R) : fmt x -> fmt y -> exists e : R,
  Rabs e <= u64 / (1 + u64) /\ rnd (x + y) = (x + y) * (1 + e).
Proof.
  intros Gx Gy. rewrite u64_u_ro.
  exact (FLT_plus_error_N_ex radix2 (-1074) 53 (fun z => negb (Z.even z)) x y Gx Gy).
Qed.

Lemma rnd_minus_model (x y : R) : fmt x -> fmt y -> exists e : R,
  Rabs e <= u64 / (1 + u64) /\ rnd (x - y) = (x - y) * (1 + e).
Proof.
  intros Gx Gy. apply (rnd_plus_model x (- y)); [exact Gx|].
  apply generic_format_opp. exact Gy.
Qed.

Lemma u64_frac_le : u64 / (1 + u64) <= u64.
Proof. rewrite u64_u_ro. apply u_rod1pu_ro_le_u_ro. Qed.

(* a small difference of two binary64 numbers is a binary64 number *)
Lemma fmt_minus_small (x y : R) : fmt x -> fmt y ->
  Rabs (x - y) <= bpow radix2 (-1021) -> fmt (x - y).
Proof.
  intros Gx Gy Hs.
  apply (generic_format_FLT_FIX radix2 (-1074) 53); [exact Hs|].
  apply (generic_format_FIX_FLT radix2 (-1074) 53) in Gx.
  apply (generic_format_FIX_FLT radix2 (-1074) 53) in Gy.
  apply FIX_format_generic in Gx. apply FIX_format_generic in Gy.
  destruct Gx as [[mx ex] Ex Hx]. destruct Gy as [[my ey] Ey Hy].
  cbn [Fexp] in Hx, Hy. subst ex ey.
  apply generic_format_FIX.
  apply (FIX_spec radix2 (-1074) _ (Float radix2 (mx - my) (-1074))); [|reflexivity].
  rewrite Ex, Ey. unfold F2R. cbn [Fnum Fexp]. rewrite minus_IZR. ring.
Qed.

(* the computed half-gap never exceeds the exact gap *)
Lemma half_gap_le (L H : R) : fmt L -> fmt H -> L <= H ->
  0 <= rnd (rnd (H - L) / 2) <= H - L.
Proof.
  intros GL GH HLH.
  assert (D0 : 0 <= rnd (H - L)) by (apply rnd_ge_0; lra).
  split; [apply rnd_ge_0; lra|].
  destruct (Rle_or_lt (H - L) (bpow radix2 (-1021))) as [Small | Big].
  - assert (G : fmt (H - L)).
    { apply fmt_minus_small; [exact GH | exact GL|]. rewrite Rabs_pos_eq by lra. exact Small. }
    rewrite (rnd_id _ G). apply rnd_le_fmt; [exact G | lra].
  - destruct (rnd_minus_model H L GH GL) as (e1 & He1 & E1).
    destruct (rnd_model (rnd (H - L) / 2)) as (e2 & a2 & He2 & Ha2 & E2).
    rewrite E2, E1.
    pose proof u64_frac_le as Hu'. pose proof u64_small as Hu. pose proof u64_pos as Hu0.
    apply Rabs_le_inv in He1. apply Rabs_le_inv in He2. apply Rabs_le_inv in Ha2.
    assert (Heta : eta64 <= bpow radix2 (-1021) / 8).
    { unfold eta64. change (bpow radix2 (-1021) / 8) with (bpow radix2 (-1021) * bpow radix2 (-3)).
      rewrite <- bpow_plus. apply bpow_le. lia. }
    set (x := H - L) in *.
    assert (P : (1 + e1) * (1 + e2) <= 25 / 16).
    { assert (0 <= 1 + e1 <= 5 / 4) by lra. assert (0 <= 1 + e2 <= 5 / 4) by lra. nra. }
    assert (Q : x * ((1 + e1) * (1 + e2)) <= x * (25 / 16)).
    { apply Rmult_le_compat_l; [lra | exact P]. }
    nra.
Qed.

(* ------------------------------------------------------------------ *)
(* binary64 operations: value and finiteness when the result is in range *)
(* ------------------------------------------------------------------ *)
Lemma ftwo_spec : fis_finite ftwo = true /\ B2R ftwo = 2.
Proof. unfold ftwo. apply (f64_of_Z_exact 2). lia. Qed.

Lemma finite_not_nan (x : F64) : fis_finite x = true -> fis_nan x = false.
Proof. intros Fx. destruct x; try reflexivity; discriminate Fx. Qed.

Lemma B2R_bound (x : F64) : fis_finite x = true -> Rabs (B2R x) < bpow radix2 1024.
Proof. intros _. apply abs_B2R_lt_emax. Qed.

Lemma between_bound (a b v : R) :
  Rabs a < bpow radix2 1024 -> Rabs b < bpow radix2 1024 -> a <= v <= b ->
  Rabs v < bpow radix2 1024.
Proof.
  intros Ha Hb Hv. apply Rabs_def2 in Ha. apply Rabs_def2 in Hb. apply Rabs_def1; lra.
Qed.

Lemma fsub_correct (x y : F64) : fis_finite x = true -> fis_finite y = true ->
  Rabs (rnd (B2R x - B2R y)) < bpow radix2 1024 ->
  fis_finite (fsub x y) = true /\ B2R (fsub x y) = rnd (B2R x - B2R y).
Proof.
  intros Fx Fy Hb.
  pose proof (Bminus_correct 53 1024 Hprec64 Hmax64 mode_NE x y Fx Fy) as C.
  cbn [round_mode] in C. rewrite (Rlt_bool_true _ _ Hb) in C. destruct C as (C1 & C2 & _).
  unfold fis_finite, fsub. split; assumption.
Qed.

Lemma fadd_correct (x y : F64) : fis_finite x = true -> fis_finite y = true ->
  Rabs (rnd (B2R x + B2R y)) < bpow radix2 1024 ->
  fis_finite (fadd x y) = true /\ B2R (fadd x y) = rnd (B2R x + B2R y).
Proof.
  intros Fx Fy Hb.
  pose proof (Bplus_correct 53 1024 Hprec64 Hmax64 mode_NE x y Fx Fy) as C.
  cbn [round_mode] in C. rewrite (Rlt_bool_true _ _ Hb) in C. destruct C as (C1 & C2 & _).
  unfold fis_finite, fadd. split; assumption.
Qed.

Lemma fmul_correct (x y : F64) : fis_finite x = true -> fis_finite y = true ->
  Rabs (rnd (B2R x * B2R y)) < bpow radix2 1024 ->
  fis_finite (fmul x y) = true /\ B2R (fmul x y) = rnd (B2R x * B2R y).
Proof.
  intros Fx Fy Hb.
  pose proof (Bmult_correct 53 1024 Hprec64 Hmax64 mode_NE x y) as C.
  cbn [round_mode] in C. rewrite (Rlt_bool_true _ _ Hb) in C. destruct C as (C1 & C2 & _).
  unfold fis_finite, fmul. rewrite C2. unfold fis_finite in Fx, Fy. rewrite Fx, Fy.
  split; [reflexivity | exact C1].
Qed.

Lemma fdiv_correct (x y : F64) : fis_finite x = true -> B2R y <> 0 ->
  Rabs (rnd (B2R x / B2R y)) < bpow radix2 1024 ->
  fis_finite (fdiv x y) = true /\ B2R (fdiv x y) = rnd (B2R x / B2R y).
Proof.
  intros Fx Hy Hb.
  pose proof (Bdiv_correct 53 1024 Hprec64 Hmax64 mode_NE x y Hy) as C.
  cbn [round_mode] in C. rewrite (Rlt_bool_true _ _ Hb) in C. destruct C as (C1 & C2 & _).
  unfold fis_finite, fdiv. rewrite C2. split; [exact Fx | exact C1].
Qed.

(* conversely a finite result means the rounded value is in range *)
Lemma fsub_finite_inv (x y : F64) : fis_finite x = true -> fis_finite y = true ->
  fis_finite (fsub x y) = true -> Rabs (rnd (B2R x - B2R y)) < bpow radix2 1024.
Proof.
  intros Fx Fy Fs.
  pose proof (Bminus_correct 53 1024 Hprec64 Hmax64 mode_NE x y Fx Fy) as C.
  cbn [round_mode] in C.
  destruct (Rlt_bool_spec (Rabs (rnd (B2R x - B2R y))) (bpow radix2 1024)) as [Hlt | Hge]; [exact Hlt|].
  exfalso. destruct C as [C _]. apply not_fin_overflow in C.
  unfold fis_finite, fsub in Fs. rewrite C in Fs. discriminate Fs.
Qed.

Lemma fadd_finite_inv (x y : F64) : fis_finite x = true -> fis_finite y = true ->
  fis_finite (fadd x y) = true -> Rabs (rnd (B2R x + B2R y)) < bpow radix2 1024.
Proof.
  intros Fx Fy Fs.
  pose proof (Bplus_correct 53 1024 Hprec64 Hmax64 mode_NE x y Fx Fy) as C.
  cbn [round_mode] in C.
  destruct (Rlt_bool_spec (Rabs (rnd (B2R x + B2R y))) (bpow radix2 1024)) as [Hlt | Hge]; [exact Hlt|].
  exfalso. destruct C as [C _]. apply not_fin_overflow in C.
  unfold fis_finite, fadd in Fs. rewrite C in Fs. discriminate Fs.
Qed.

Lemma fmul_finite_inv (x y : F64) :
  fis_finite (fmul x y) = true -> Rabs (rnd (B2R x * B2R y)) < bpow radix2 1024.
Proof.
  intros Fs.
  pose proof (Bmult_correct 53 1024 Hprec64 Hmax64 mode_NE x y) as C.
  cbn [round_mode] in C.
  destruct (Rlt_bool_spec (Rabs (rnd (B2R x * B2R y))) (bpow radix2 1024)) as [Hlt | Hge]; [exact Hlt|].
  exfalso. apply not_fin_overflow in C.
  unfold fis_finite, fmul in Fs. rewrite C in Fs. discriminate Fs.
Qed.

(* ------------------------------------------------------------------ *)
(* N1: Midpoint                                                        *)
(* ------------------------------------------------------------------ *)

(* value, finiteness and the bracket *)
Theorem n64_midpoint_value (l h : F64) :
  fis_finite l = true -> fis_finite h = true -> B2R l <= B2R h ->
  rnd (B2R h - B2R l) < bpow radix2 1024 ->
  exists m, n64_midpoint l h = Ok m /\ fis_finite m = true /\
    B2R m = rnd (B2R l + rnd (rnd (B2R h - B2R l) / 2)) /\
    B2R l <= B2R m <= B2R h.
Proof.
  intros Fl Fh HLH Hgap.
  set (L := B2R l) in *. set (H := B2R h) in *.
  assert (GL : fmt L) by apply fmt_B2R. assert (GH : fmt H) by apply fmt_B2R.
  assert (D0 : 0 <= rnd (H - L)) by (apply rnd_ge_0; lra).
  destruct (fsub_correct h l Fh Fl) as (Fd & Ed).
  { fold H L. rewrite Rabs_pos_eq by exact D0. exact Hgap. }
  fold H L in Ed.
  destruct ftwo_spec as (F2 & E2).
  destruct (half_gap_le L H GL GH HLH) as (E0 & E1).
  assert (Ehd : rnd (rnd (H - L) / 2) <= rnd (H - L)).
  { apply rnd_le_fmt; [apply rnd_fmt | lra]. }
  destruct (fdiv_correct (fsub h l) ftwo Fd) as (Fe & Ee).
  { rewrite E2. lra. }
  { rewrite E2, Ed. rewrite Rabs_pos_eq by exact E0. lra. }
  rewrite E2, Ed in Ee.
  assert (Br : L <= rnd (L + rnd (rnd (H - L) / 2)) <= H).
  { split; [apply rnd_ge_fmt | apply rnd_le_fmt]; try assumption; lra. }
  destruct (fadd_correct l (fdiv (fsub h l) ftwo) Fl Fe) as (Fm & Em).
  { rewrite Ee. fold L. apply (between_bound L H); try exact Br; apply B2R_bound; assumption. }
  rewrite Ee in Em. fold L in Em.
  exists (fadd l (fdiv (fsub h l) ftwo)).
  split. { unfold n64_midpoint, n64_ok. rewrite (finite_not_nan _ Fm). reflexivity. }
  split; [exact Fm|]. split; [exact Em|]. rewrite Em. exact Br.
Qed.

(* rounding error of the three-operation formula, on the reals *)
Lemma Rabs_le_Rmax (a b v : R) : a <= v <= b -> Rabs v <= Rmax (Rabs a) (Rabs b).
Proof.
  intros Hv. unfold Rmax, Rabs.
  destruct (Rle_dec _ _); destruct (Rcase_abs a); destruct (Rcase_abs b); destruct (Rcase_abs v); lra.
Qed.

Lemma two_eps (u t e1 e2 : R) : 0 <= u -> 0 <= t -> t * (1 + u) = u ->
  Rabs e1 <= t -> Rabs e2 <= u -> Rabs ((1 + e1) * (1 + e2) - 1) <= 2 * u.
Proof.
  intros Hu Ht Htu H1 H2. apply Rabs_le_inv in H1. apply Rabs_le_inv in H2. apply Rabs_le.
  assert (t <= u) by nra.
  assert (P1 : - (t * u) <= e1 * e2 <= t * u).
  { assert (Rabs (e1 * e2) <= t * u).
    { rewrite Rabs_mult. apply Rmult_le_compat; try apply Rabs_pos; apply Rabs_le; assumption. }
    apply Rabs_le_inv. assumption. }
  split; nra.
Qed.

Theorem midpoint_error_R (L H : R) : fmt L -> fmt H -> L <= H ->
  Rabs (rnd (L + rnd (rnd (H - L) / 2)) - (L + H) / 2)
    <= u64 * (H - L) + u64 * Rmax (Rabs L) (Rabs H) + eta64.
Proof.
  intros GL GH HLH.
  destruct (half_gap_le L H GL GH HLH) as (E0 & E1).
  destruct (rnd_minus_model H L GH GL) as (e1 & He1 & M1).
  destruct (rnd_model (rnd (H - L) / 2)) as (e2 & a2 & He2 & Ha2 & M2).
  destruct (rnd_plus_model L (rnd (rnd (H - L) / 2)) GL (rnd_fmt _)) as (e3 & He3 & M3).
  pose proof u64_pos as Hu0. pose proof u64_frac_le as Hfr.
  assert (Ht0 : 0 <= u64 / (1 + u64)).
  { apply Rmult_le_pos; [lra|]. apply Rlt_le, Rinv_0_lt_compat. lra. }
  assert (Htu : u64 / (1 + u64) * (1 + u64) = u64) by (field; lra).
  pose proof (two_eps u64 _ e1 e2 (Rlt_le _ _ Hu0) Ht0 Htu He1 He2) as HA.
  set (e := rnd (rnd (H - L) / 2)) in *.
  assert (He : e = (H - L) / 2 * (1 + ((1 + e1) * (1 + e2) - 1)) + a2).
  { rewrite M2, M1. field. }
  rewrite M3.
  replace ((L + e) * (1 + e3) - (L + H) / 2)
    with ((H - L) / 2 * ((1 + e1) * (1 + e2) - 1) + a2 + (L + e) * e3).
  2:{ revert He. generalize e. intros e' He'. subst e'. field. }
  eapply Rle_trans; [apply Rabs_triang|].
  eapply Rle_trans; [apply Rplus_le_compat_r, Rabs_triang|].
  rewrite !Rabs_mult.
  assert (Hx : Rabs ((H - L) / 2) = (H - L) / 2) by (apply Rabs_pos_eq; lra).
  rewrite Hx.
  assert (P1 : (H - L) / 2 * Rabs ((1 + e1) * (1 + e2) - 1) <= (H - L) / 2 * (2 * u64)).
  { apply Rmult_le_compat_l; [lra | exact HA]. }
  assert (P2 : Rabs (L + e) * Rabs e3 <= Rmax (Rabs L) (Rabs H) * u64).
  { apply Rmult_le_compat; try apply Rabs_pos; [apply Rabs_le_Rmax; lra | lra]. }
  lra.
Qed.

Corollary midpoint_error_R' (L H : R) : fmt L -> fmt H -> L <= H ->
  Rabs (rnd (L + rnd (rnd (H - L) / 2)) - (L + H) / 2)
    <= 2 * u64 * (Rabs L + Rabs H) + eta64.
Proof.
  intros GL GH HLH. eapply Rle_trans; [apply midpoint_error_R; assumption|].
  pose proof u64_pos as Hu0.
  assert (P1 : H - L <= Rabs L + Rabs H).
  { pose proof (Rle_abs H). pose proof (Rle_abs (- L)). rewrite Rabs_Ropp in *. lra. }
  assert (P2 : Rmax (Rabs L) (Rabs H) <= Rabs L + Rabs H).
  { pose proof (Rabs_pos L). pose proof (Rabs_pos H). apply Rmax_lub; lra. }
  nra.
Qed.

(* N1, assembled *)
Theorem n64_midpoint_spec (l h : F64) :
  fis_finite l = true -> fis_finite h = true -> B2R l <= B2R h ->
  rnd (B2R h - B2R l) < bpow radix2 1024 ->
  exists m, n64_midpoint l h = Ok m /\ fis_finite m = true /\
    B2R m = rnd (B2R l + rnd (rnd (B2R h - B2R l) / 2)) /\
    B2R l <= B2R m <= B2R h /\
    Rabs (B2R m - (B2R l + B2R h) / 2)
      <= u64 * (B2R h - B2R l) + u64 * Rmax (Rabs (B2R l)) (Rabs (B2R h)) + eta64 /\
    Rabs (B2R m - (B2R l + B2R h) / 2) <= 2 * u64 * (Rabs (B2R l) + Rabs (B2R h)) + eta64.
Proof.
  intros Fl Fh HLH Hgap.
  destruct (n64_midpoint_value l h Fl Fh HLH Hgap) as (m & E & Fm & V & Br).
  exists m. split; [exact E|]. split; [exact Fm|]. split; [exact V|]. split; [exact Br|].
  rewrite V. split.
  - apply midpoint_error_R; try apply fmt_B2R; exact HLH.
  - apply midpoint_error_R'; try apply fmt_B2R; exact HLH.
Qed.

(* ------------------------------------------------------------------ *)
(* N2: Linear                                                          *)
(* ------------------------------------------------------------------ *)
Local Instance mexp64' : Monotone_exp fx := FLT_exp_monotone (-1074) 53.

Notation ulp64 := (ulp radix2 (SpecFloat.fexp 53 1024)).
Notation succ64 := (succ radix2 (SpecFloat.fexp 53 1024)).

(* value, finiteness, lower bracket, and the frac = 1 upper bound *)
Theorem n64_linear_value (l h frac : F64) :
  fis_finite l = true -> fis_finite h = true -> fis_finite frac = true ->
  0 <= B2R frac <= 1 -> B2R l <= B2R h ->
  rnd (B2R h - B2R l) < bpow radix2 1024 ->
  rnd (B2R l + rnd (B2R h - B2R l)) < bpow radix2 1024 ->
  exists v, n64_linear l h frac = Ok v /\ fis_finite v = true /\
    B2R v = rnd (B2R l + rnd (B2R frac * rnd (B2R h - B2R l))) /\
    B2R l <= B2R v <= rnd (B2R l + rnd (B2R h - B2R l)).
Proof.
  intros Fl Fh Ff HF HLH Hgap Htop.
  set (L := B2R l) in *. set (H := B2R h) in *. set (F := B2R frac) in *.
  assert (GL : fmt L) by apply fmt_B2R.
  assert (D0 : 0 <= rnd (H - L)) by (apply rnd_ge_0; lra).
  destruct (fsub_correct h l Fh Fl) as (Fd & Ed).
  { fold H L. rewrite Rabs_pos_eq by exact D0. exact Hgap. }
  fold H L in Ed.
  assert (D0' : 0 <= B2R (fsub h l)) by (rewrite Ed; exact D0).
  destruct (mult_in_range 53 1024 Hprec64 Hmax64 frac (fsub h l) Ff Fd HF D0') as (Fp & Ep & P0 & P1).
  fold (fmul frac (fsub h l)) in Fp, Ep, P0, P1. fold F in Ep. rewrite Ed in Ep, P1.
  rewrite Ep in P0, P1.
  assert (Br : L <= rnd (L + rnd (F * rnd (H - L))) <= rnd (L + rnd (H - L))).
  { split; [apply rnd_ge_fmt; [exact GL | lra] | apply rnd_le; lra]. }
  destruct (fadd_correct l (fmul frac (fsub h l)) Fl Fp) as (Fv & Ev).
  { rewrite Ep. fold L. pose proof (B2R_bound l Fl) as BL. fold L in BL.
    apply Rabs_def2 in BL. apply Rabs_def1; lra. }
  rewrite Ep in Ev. fold L in Ev.
  exists (fadd l (fmul frac (fsub h l))).
  split. { unfold n64_linear, n64_ok. rewrite (finite_not_nan _ Fv). reflexivity. }
  split; [exact Fv|]. split; [exact Ev|]. rewrite Ev. exact Br.
Qed.

(* how far the frac = 1 value l (+) (h (-) l) can exceed h *)
Theorem linear_top_R (L H : R) : fmt L -> fmt H -> L <= H ->
  rnd (L + rnd (H - L)) <= H + u64 * Rabs H + u64 * (1 + u64) * (H - L).
Proof.
  intros GL GH HLH.
  destruct (rnd_minus_model H L GH GL) as (e1 & He1 & M1).
  destruct (rnd_plus_model L (rnd (H - L)) GL (rnd_fmt _)) as (e3 & He3 & M3).
  pose proof u64_pos as Hu0. pose proof u64_frac_le as Hfr.
  assert (B1 : Rabs e1 <= u64) by lra. assert (B3 : Rabs e3 <= u64) by lra.
  rewrite M3, M1.
  replace ((L + (H - L) * (1 + e1)) * (1 + e3))
    with (H + (H - L) * e1 + H * e3 + (H - L) * (e1 * e3)) by ring.
  assert (P1 : (H - L) * e1 <= (H - L) * u64).
  { apply Rmult_le_compat_l; [lra|]. apply Rabs_le_inv in B1. lra. }
  assert (P2 : H * e3 <= Rabs H * u64).
  { eapply Rle_trans; [apply Rle_abs|]. rewrite Rabs_mult. apply Rmult_le_compat_l; [apply Rabs_pos | exact B3]. }
  assert (P3 : (H - L) * (e1 * e3) <= (H - L) * (u64 * u64)).
  { apply Rmult_le_compat_l; [lra|]. eapply Rle_trans; [apply Rle_abs|]. rewrite Rabs_mult.
    apply Rmult_le_compat; try apply Rabs_pos; assumption. }
  lra.
Qed.

(* ... and when 0 <= l it is at most the successor of h: one unit in the last place *)
Theorem linear_top_succ_R (L H : R) : fmt L -> fmt H -> 0 <= L -> L <= H ->
  rnd (L + rnd (H - L)) <= succ64 H /\ succ64 H = H + ulp64 H.
Proof.
  intros GL GH HL HLH.
  assert (ES : succ64 H = H + ulp64 H) by (apply succ_eq_pos; lra).
  split; [|exact ES].
  apply rnd_le_fmt; [apply generic_format_succ; auto with typeclass_instances|].
  pose proof (error_le_half_ulp radix2 fx (fun z => negb (Z.even z)) (H - L)) as E.
  assert (U : ulp64 (H - L) <= ulp64 H).
  { apply ulp_le; auto with typeclass_instances. rewrite !Rabs_pos_eq by lra. lra. }
  pose proof (ulp_ge_0 radix2 fx H) as U0.
  apply Rabs_le_inv in E. rewrite ES. lra.
Qed.

(* rounding error of the three-operation formula, on the reals *)
Lemma t_1pt_le (u t : R) : 0 <= u -> 0 <= t -> t * (1 + u) = u -> t * (1 + t) <= u.
Proof.
  intros Hu Ht Htu. assert (Hle : t <= u) by nra.
  apply (Rmult_le_reg_r (1 + u)); [lra|].
  replace (t * (1 + t) * (1 + u)) with ((t * (1 + u)) * (1 + t)) by ring. rewrite Htu. nra.
Qed.

Theorem linear_error_R (L H F : R) : fmt L -> fmt H -> L <= H -> 0 <= F <= 1 ->
  Rabs (rnd (L + rnd (F * rnd (H - L))) - (L + F * (H - L)))
    <= u64 * (2 * F * (H - L) + Rabs L + Rabs H) + eta64.
Proof.
  intros GL GH HLH HF.
  destruct (rnd_minus_model H L GH GL) as (e1 & He1 & M1).
  destruct (rnd_model (F * rnd (H - L))) as (e2 & a2 & He2 & Ha2 & M2).
  destruct (rnd_plus_model L (rnd (F * rnd (H - L))) GL (rnd_fmt _)) as (e3 & He3 & M3).
  pose proof u64_pos as Hu0. pose proof u64_frac_le as Hfr.
  set (t := u64 / (1 + u64)) in *.
  assert (Ht0 : 0 <= t).
  { apply Rmult_le_pos; [lra|]. apply Rlt_le, Rinv_0_lt_compat. lra. }
  assert (Htu : t * (1 + u64) = u64) by (unfold t; field; lra).
  pose proof (two_eps u64 t e1 e2 (Rlt_le _ _ Hu0) Ht0 Htu He1 He2) as HA.
  pose proof (t_1pt_le u64 t (Rlt_le _ _ Hu0) Ht0 Htu) as Ht1.
  assert (D0 : 0 <= rnd (H - L)) by (apply rnd_ge_0; lra).
  assert (P0 : 0 <= rnd (F * rnd (H - L))) by (apply rnd_ge_0; nra).
  assert (P1 : rnd (F * rnd (H - L)) <= rnd (H - L)).
  { apply rnd_le_fmt; [apply rnd_fmt | nra]. }
  set (p := rnd (F * rnd (H - L))) in *.
  assert (Hp : p = F * (H - L) * (1 + ((1 + e1) * (1 + e2) - 1)) + a2).
  { rewrite M2, M1. ring. }
  (* |L + p| <= (|L| + |H|) (1 + t) *)
  assert (S1 : Rabs (L + p) <= (Rabs L + Rabs H) * (1 + t)).
  { assert (Hd : rnd (H - L) <= (H - L) * (1 + t)).
    { rewrite M1. apply Rmult_le_compat_l; [lra|]. apply Rabs_le_inv in He1. lra. }
    pose proof (Rle_abs H) as A1. pose proof (Rle_abs (- L)) as A2. rewrite Rabs_Ropp in A2.
    pose proof (Rle_abs (- H)) as A3. rewrite Rabs_Ropp in A3. pose proof (Rle_abs L) as A4.
    pose proof (Rabs_pos L). pose proof (Rabs_pos H).
    apply Rabs_le. split; [nra|].
    assert (L + p <= H + (H - L) * t) by lra. nra. }
  rewrite M3.
  replace ((L + p) * (1 + e3) - (L + F * (H - L)))
    with (F * (H - L) * ((1 + e1) * (1 + e2) - 1) + a2 + (L + p) * e3).
  2:{ revert Hp. generalize p. intros p' Hp'. subst p'. ring. }
  eapply Rle_trans; [apply Rabs_triang|].
  eapply Rle_trans; [apply Rplus_le_compat_r, Rabs_triang|].
  rewrite !Rabs_mult.
  assert (Hx : Rabs F * Rabs (H - L) = F * (H - L)) by (rewrite !Rabs_pos_eq; lra).
  rewrite Hx.
  assert (Q1 : F * (H - L) * Rabs ((1 + e1) * (1 + e2) - 1) <= F * (H - L) * (2 * u64)).
  { apply Rmult_le_compat_l; [nra | exact HA]. }
  assert (Q2 : Rabs (L + p) * Rabs e3 <= (Rabs L + Rabs H) * (1 + t) * t).
  { apply Rmult_le_compat; try apply Rabs_pos; assumption. }
  assert (Q3 : (Rabs L + Rabs H) * (1 + t) * t <= (Rabs L + Rabs H) * u64).
  { rewrite Rmult_assoc. apply Rmult_le_compat_l.
    - pose proof (Rabs_pos L). pose proof (Rabs_pos H). lra.
    - lra. }
  lra.
Qed.

Corollary linear_error_R' (L H F : R) : fmt L -> fmt H -> L <= H -> 0 <= F <= 1 ->
  Rabs (rnd (L + rnd (F * rnd (H - L))) - (L + F * (H - L)))
    <= 3 * u64 * (Rabs L + Rabs H) + eta64.
Proof.
  intros GL GH HLH HF. eapply Rle_trans; [apply linear_error_R; assumption|].
  pose proof u64_pos as Hu0.
  assert (P1 : H - L <= Rabs L + Rabs H).
  { pose proof (Rle_abs H). pose proof (Rle_abs (- L)). rewrite Rabs_Ropp in *. lra. }
  assert (P2 : F * (H - L) <= Rabs L + Rabs H) by nra.
  nra.
Qed.

(* N2, assembled *)
Theorem n64_linear_spec (l h frac : F64) :
  fis_finite l = true -> fis_finite h = true -> fis_finite frac = true ->
  0 <= B2R frac < 1 -> B2R l <= B2R h ->
  rnd (B2R h - B2R l) < bpow radix2 1024 ->
  rnd (B2R l + rnd (B2R h - B2R l)) < bpow radix2 1024 ->
  exists v, n64_linear l h frac = Ok v /\ fis_finite v = true /\
    B2R v = rnd (B2R l + rnd (B2R frac * rnd (B2R h - B2R l))) /\
    B2R l <= B2R v /\
    B2R v <= rnd (B2R l + rnd (B2R h - B2R l)) /\
    rnd (B2R l + rnd (B2R h - B2R l))
      <= B2R h + u64 * Rabs (B2R h) + u64 * (1 + u64) * (B2R h - B2R l) /\
    (0 <= B2R l -> B2R v <= succ64 (B2R h) /\ succ64 (B2R h) = B2R h + ulp64 (B2R h)) /\
    Rabs (B2R v - (B2R l + B2R frac * (B2R h - B2R l)))
      <= u64 * (2 * B2R frac * (B2R h - B2R l) + Rabs (B2R l) + Rabs (B2R h)) + eta64 /\
    Rabs (B2R v - (B2R l + B2R frac * (B2R h - B2R l)))
      <= 3 * u64 * (Rabs (B2R l) + Rabs (B2R h)) + eta64.
Proof.
  intros Fl Fh Ff HF HLH Hgap Htop.
  assert (HF' : 0 <= B2R frac <= 1) by lra.
  destruct (n64_linear_value l h frac Fl Fh Ff HF' HLH Hgap Htop) as (v & E & Fv & V & B1 & B2).
  pose proof (fmt_B2R l) as GL. pose proof (fmt_B2R h) as GH.
  exists v. split; [exact E|]. split; [exact Fv|]. split; [exact V|]. split; [exact B1|].
  split; [exact B2|]. split; [apply linear_top_R; assumption|].
  split.
  { intros HL. destruct (linear_top_succ_R _ _ GL GH HL HLH) as (T1 & T2). split; [lra | exact T2]. }
  rewrite V. split.
  - apply linear_error_R; assumption.
  - apply linear_error_R'; assumption.
Qed.

(* ------------------------------------------------------------------ *)
(* The side conditions: equivalent float-level forms and a sufficient   *)
(* magnitude bound                                                     *)
(* ------------------------------------------------------------------ *)
Lemma gap_finite_iff (l h : F64) :
  fis_finite l = true -> fis_finite h = true -> B2R l <= B2R h ->
  (fis_finite (fsub h l) = true <-> rnd (B2R h - B2R l) < bpow radix2 1024).
Proof.
  intros Fl Fh HLH.
  assert (D0 : 0 <= rnd (B2R h - B2R l)) by (apply rnd_ge_0; lra).
  split.
  - intros Fs. pose proof (fsub_finite_inv h l Fh Fl Fs) as B.
    rewrite Rabs_pos_eq in B by exact D0. exact B.
  - intros B. apply (fsub_correct h l Fh Fl). rewrite Rabs_pos_eq by exact D0. exact B.
Qed.

Lemma top_finite_iff (l h : F64) :
  fis_finite l = true -> fis_finite h = true -> B2R l <= B2R h ->
  rnd (B2R h - B2R l) < bpow radix2 1024 ->
  (fis_finite (fadd l (fsub h l)) = true <-> rnd (B2R l + rnd (B2R h - B2R l)) < bpow radix2 1024).
Proof.
  intros Fl Fh HLH Hgap.
  assert (D0 : 0 <= rnd (B2R h - B2R l)) by (apply rnd_ge_0; lra).
  destruct (fsub_correct h l Fh Fl) as (Fd & Ed).
  { rewrite Rabs_pos_eq by exact D0. exact Hgap. }
  assert (Lo : B2R l <= rnd (B2R l + rnd (B2R h - B2R l))).
  { apply rnd_ge_fmt; [apply fmt_B2R | lra]. }
  pose proof (B2R_bound l Fl) as BL. apply Rabs_def2 in BL.
  split.
  - intros Fs. pose proof (fadd_finite_inv l (fsub h l) Fl Fd Fs) as B.
    rewrite Ed in B. apply Rabs_def2 in B. lra.
  - intros B. apply (fadd_correct l (fsub h l) Fl Fd). rewrite Ed. apply Rabs_def1; lra.
Qed.

Lemma side_conditions_of_bound (L H : R) :
  L <= H -> Rabs L <= bpow radix2 1022 -> Rabs H <= bpow radix2 1022 ->
  rnd (H - L) < bpow radix2 1024 /\ rnd (L + rnd (H - L)) < bpow radix2 1024.
Proof.
  intros HLH BL BH.
  assert (E23 : bpow radix2 1023 = 2 * bpow radix2 1022).
  { change 1023%Z with (1 + 1022)%Z. rewrite bpow_plus. reflexivity. }
  assert (E24 : bpow radix2 1024 = 4 * bpow radix2 1022).
  { change 1024%Z with (2 + 1022)%Z. rewrite bpow_plus. reflexivity. }
  pose proof (bpow_gt_0 radix2 1022) as P.
  apply Rabs_le_inv in BL. apply Rabs_le_inv in BH.
  assert (D : rnd (H - L) <= bpow radix2 1023).
  { apply rnd_le_fmt; [apply fmt_bpow; lia | lra]. }
  split; [lra|].
  assert (G3 : fmt (3 * bpow radix2 1022)).
  { replace (3 * bpow radix2 1022) with (F2R (Float radix2 3 1022)) by (unfold F2R; reflexivity).
    apply generic_format_FLT64; lia. }
  assert (T : rnd (L + rnd (H - L)) <= 3 * bpow radix2 1022).
  { apply rnd_le_fmt; [exact G3 | lra]. }
  lra.
Qed.

(* ------------------------------------------------------------------ *)
(* N3: when do the N64 operations panic (produce NaN)?                  *)
(* ------------------------------------------------------------------ *)
Lemma overflow_inf (x : F64) (s : bool) :
  B2SF x = binary_overflow 53 1024 mode_NE s -> x = B754_infinity s.
Proof.
  intros E. change (binary_overflow 53 1024 mode_NE s) with (SpecFloat.S754_infinity s) in E.
  destruct x as [sx | sx | | sx mx ex Hx]; cbn [B2SF] in E; try discriminate E.
  injection E as ->. reflexivity.
Qed.

Lemma fsub_fin_or_inf (x y : F64) : fis_finite x = true -> fis_finite y = true ->
  fis_finite (fsub x y) = true \/ exists s, fsub x y = B754_infinity s.
Proof.
  intros Fx Fy.
  pose proof (Bminus_correct 53 1024 Hprec64 Hmax64 mode_NE x y Fx Fy) as C.
  destruct (Rlt_bool _ _) in C.
  - left. destruct C as (_ & C & _). exact C.
  - right. destruct C as [C _]. apply overflow_inf in C. eexists. exact C.
Qed.

Lemma fadd_fin_or_inf (x y : F64) : fis_finite x = true -> fis_finite y = true ->
  fis_finite (fadd x y) = true \/ exists s, fadd x y = B754_infinity s.
Proof.
  intros Fx Fy.
  pose proof (Bplus_correct 53 1024 Hprec64 Hmax64 mode_NE x y Fx Fy) as C.
  destruct (Rlt_bool _ _) in C.
  - left. destruct C as (_ & C & _). exact C.
  - right. destruct C as [C _]. apply overflow_inf in C. eexists. exact C.
Qed.

Lemma fmul_fin_or_inf (x y : F64) : fis_finite x = true -> fis_finite y = true ->
  fis_finite (fmul x y) = true \/ exists s, fmul x y = B754_infinity s.
Proof.
  intros Fx Fy.
  pose proof (Bmult_correct 53 1024 Hprec64 Hmax64 mode_NE x y) as C.
  destruct (Rlt_bool _ _) in C.
  - left. destruct C as (_ & C & _). unfold fis_finite, fmul. rewrite C.
    unfold fis_finite in Fx, Fy. rewrite Fx, Fy. reflexivity.
  - right. apply overflow_inf in C. eexists. exact C.
Qed.

Lemma fadd_fin_inf (x : F64) (s : bool) : fis_finite x = true ->
  fadd x (B754_infinity s) = B754_infinity s.
Proof. intros Fx. destruct x as [sx | sx | | sx mx ex Hx]; try discriminate Fx; reflexivity. Qed.

Lemma ftwo_shape : exists s m e H, ftwo = B754_finite s m e H.
Proof.
  destruct ftwo_spec as (F2 & E2).
  destruct ftwo as [s | s | | s m e H]; try discriminate F2.
  - cbn [BinarySingleNaN.B2R] in E2. lra.
  - exists s, m, e, H. reflexivity.
Qed.

Lemma fdiv_two_fin (x : F64) : fis_finite x = true -> fis_finite (fdiv x ftwo) = true.
Proof.
  intros Fx. destruct ftwo_spec as (F2 & E2).
  apply fdiv_correct; [exact Fx | rewrite E2; lra|]. rewrite E2.
  pose proof (B2R_bound x Fx) as B. pose proof (fmt_B2R x) as G.
  eapply Rle_lt_trans; [|exact B].
  apply abs_round_le_generic; auto with typeclass_instances.
  - apply generic_format_abs. exact G.
  - unfold Rdiv. rewrite Rabs_mult. rewrite (Rabs_pos_eq (/ 2)) by lra.
    pose proof (Rabs_pos (B2R x)). lra.
Qed.

(* Midpoint of two finite values never panics (it may return an infinity when h - l overflows) *)
Theorem n64_midpoint_no_panic (l h : F64) :
  fis_finite l = true -> fis_finite h = true ->
  exists m, n64_midpoint l h = Ok m /\ fis_nan m = false /\
    (fis_finite (fsub h l) = true -> fis_finite m = true \/ exists s, m = B754_infinity s) /\
    (forall s, fsub h l = B754_infinity s -> m = B754_infinity s).
Proof.
  intros Fl Fh. destruct ftwo_shape as (s2 & m2 & e2 & H2 & E2).
  assert (s2 = false) as ->.
  { destruct ftwo_spec as (_ & V). rewrite E2 in V. destruct s2; [|reflexivity].
    exfalso. cbn [BinarySingleNaN.B2R] in V.
    pose proof (F2R_lt_0 radix2 (Float radix2 (cond_Zopp true (Z.pos m2)) e2)) as N.
    assert (N' : (Fnum (Float radix2 (cond_Zopp true (Z.pos m2)) e2) < 0)%Z) by (cbn; lia).
    specialize (N N'). lra. }
  unfold n64_midpoint, n64_ok.
  destruct (fsub_fin_or_inf h l Fh Fl) as [Fd | (s & Ed)].
  - pose proof (fdiv_two_fin _ Fd) as Fe.
    destruct (fadd_fin_or_inf l _ Fl Fe) as [Fm | (s' & Em)].
    + rewrite (finite_not_nan _ Fm). eexists. split; [reflexivity|]. split; [apply finite_not_nan; exact Fm|].
      split; [intros _; left; exact Fm|]. intros s Es. rewrite Es in Fd. discriminate Fd.
    + rewrite Em. eexists. split; [reflexivity|]. split; [reflexivity|].
      split; [intros _; right; exists s'; reflexivity|]. intros s Es. rewrite Es in Fd. discriminate Fd.
  - rewrite Ed, E2.
    change (fdiv (B754_infinity s) (B754_finite false m2 e2 H2)) with (@B754_infinity 53 1024 (xorb s false)).
    rewrite xorb_false_r, (fadd_fin_inf l s Fl). eexists. split; [reflexivity|]. split; [reflexivity|].
    split; [intros Fd; discriminate Fd|]. intros s' Es. injection Es as ->. reflexivity.
Qed.

(* Linear panics only when h - l overflows AND frac is a zero (0 * inf = NaN) *)
Theorem n64_linear_panic_only (l h frac : F64) :
  fis_finite l = true -> fis_finite h = true -> fis_finite frac = true ->
  (exists v, n64_linear l h frac = Ok v /\ fis_nan v = false) \/
  (n64_linear l h frac = Panic /\ (exists s, fsub h l = B754_infinity s) /\ B2R frac = 0).
Proof.
  intros Fl Fh Ff. unfold n64_linear, n64_ok.
  assert (K : forall y, fis_finite y = true \/ (exists s, y = B754_infinity s) ->
     exists v, (if fis_nan (fadd l y) then Panic else Ok (fadd l y)) = Ok v /\ fis_nan v = false).
  { intros y [Fy | (s & ->)].
    - destruct (fadd_fin_or_inf l y Fl Fy) as [Fm | (s' & Em)].
      + rewrite (finite_not_nan _ Fm). eexists. split; [reflexivity | apply finite_not_nan; exact Fm].
      + rewrite Em. eexists. split; reflexivity.
    - rewrite (fadd_fin_inf l s Fl). eexists. split; reflexivity. }
  destruct (fsub_fin_or_inf h l Fh Fl) as [Fd | (s & Ed)].
  - left. apply K. apply fmul_fin_or_inf; assumption.
  - rewrite Ed. destruct frac as [sf | sf | | sf mf ef Hf]; try discriminate Ff.
    + right. change (fmul (B754_zero sf) (B754_infinity s)) with (@B754_nan 53 1024).
      assert (En : fadd l B754_nan = B754_nan) by (destruct l; reflexivity).
      rewrite En. split; [reflexivity|]. split; [exists s; reflexivity | reflexivity].
    + left. apply K. right. exists (xorb sf s). reflexivity.
Qed.

(* ------------------------------------------------------------------ *)
(* N2+: for frac < 1 the Linear result never exceeds h                 *)
(* ------------------------------------------------------------------ *)
Notation pred64 := (pred radix2 (SpecFloat.fexp 53 1024)).

Lemma fx_normal (k : Z) : (-1021 <= k)%Z -> fx k = (k - 53)%Z.
Proof. intros Hk. rewrite fexp64_FLT. unfold FLT_exp. lia. Qed.

Lemma frac_le_pred1 (F : R) : fmt F -> F < 1 -> F <= 1 - bpow radix2 (-53).
Proof.
  intros G H.
  assert (G1 : fmt 1) by (apply (fmt_bpow 0); lia).
  pose proof (pred_ge_gt radix2 fx F 1 G G1 H) as P.
  pose proof (pred_bpow radix2 fx 0) as PB.
  change (bpow radix2 0) with 1 in PB. change (fx 0) with (-53)%Z in PB.
  rewrite PB in P. exact P.
Qed.

(* the largest binary64 below rnd x is not above x when x was rounded up *)
Lemma pred_rnd_le (x : R) : 0 < x -> x < rnd x -> pred64 (rnd x) <= x.
Proof.
  intros Hpos Hup. set (d := rnd x) in *.
  assert (Gd : fmt d) by apply rnd_fmt.
  destruct (Rle_or_lt (pred64 d) x) as [ok | bad]; [exact ok|]. exfalso.
  destruct (round_N_pt radix2 fx (fun z => negb (Z.even z)) x) as (_ & Hn).
  specialize (Hn (pred64 d) (generic_format_pred radix2 fx d Gd)). fold d in Hn.
  pose proof (pred_le_id radix2 fx d) as Hp.
  rewrite !Rabs_pos_eq in Hn by lra.
  assert (Hneq : pred64 d <> d).
  { intros E. assert (Hs : succ64 (pred64 d) = d) by exact (succ_pred radix2 fx d Gd).
    rewrite E in Hs. pose proof (succ_gt_id radix2 fx d) as Hg.
    assert (d <> 0) by lra. specialize (Hg H). lra. }
  lra.
Qed.

(* multiplying a normal binary64 d by frac < 1 lands on or below its predecessor *)
Lemma mul_frac_le_pred (F d : R) : fmt F -> 0 <= F < 1 -> fmt d -> bpow radix2 (-1021) <= d ->
  rnd (F * d) <= pred64 d.
Proof.
  intros GF HF Gd Hd.
  pose proof (bpow_gt_0 radix2 (-1021)) as Hb. assert (dpos : 0 < d) by lra.
  assert (dne : d <> 0) by lra.
  pose proof (frac_le_pred1 F GF (proj2 HF)) as HF1.
  set (e := mag_val radix2 d (mag radix2 d)).
  assert (He : (-1020 <= e)%Z).
  { apply mag_ge_bpow. rewrite Rabs_pos_eq by lra. exact Hd. }
  assert (Hlo : bpow radix2 (e - 1) <= d).
  { pose proof (bpow_mag_le radix2 d dne) as B. rewrite Rabs_pos_eq in B by lra. exact B. }
  assert (Hfd : F * d <= d - d * bpow radix2 (-53)) by nra.
  assert (E54 : bpow radix2 (e - 1) * bpow radix2 (-53) = bpow radix2 (e - 54)).
  { rewrite <- bpow_plus. f_equal. lia. }
  assert (Gp : fmt (pred64 d)) by (apply generic_format_pred; auto with typeclass_instances).
  destruct (Req_dec d (bpow radix2 (e - 1))) as [Epow | Npow].
  - (* d is a power of two: F * d <= pred d *)
    apply rnd_le_fmt; [exact Gp|].
    pose proof (pred_bpow radix2 fx (e - 1)) as PB. rewrite <- Epow in PB.
    rewrite (fx_normal (e - 1)) in PB by lia.
    replace (e - 1 - 53)%Z with (e - 54)%Z in PB by lia.
    rewrite PB. rewrite Epow in Hfd at 3. rewrite E54 in Hfd. exact Hfd.
  - (* otherwise F * d is strictly below the midpoint of pred d and d *)
    apply round_N_le_midp; [auto with typeclass_instances | exact Gp|].
    rewrite (succ_pred radix2 fx d Gd).
    assert (EP : pred64 d = d - bpow radix2 (e - 53)).
    { rewrite pred_eq_pos by lra. unfold pred_pos. fold e.
      rewrite Req_bool_false by exact Npow.
      rewrite ulp_neq_0 by exact dne. unfold cexp. fold e.
      rewrite (fx_normal e) by lia. reflexivity. }
    rewrite EP.
    assert (E53 : bpow radix2 (e - 53) = 2 * bpow radix2 (e - 54)).
    { replace (e - 53)%Z with (1 + (e - 54))%Z by lia. rewrite bpow_plus. reflexivity. }
    rewrite E53.
    assert (Hgt : bpow radix2 (e - 1) < d) by lra.
    pose proof (bpow_gt_0 radix2 (-53)) as P53.
    assert (bpow radix2 (e - 54) < d * bpow radix2 (-53)).
    { rewrite <- E54. apply Rmult_lt_compat_r; assumption. }
    lra.
Qed.

(* the computed increment fl(frac * fl(h - l)) never exceeds the exact gap *)
Lemma mul_frac_le_gap (L H F : R) : fmt L -> fmt H -> fmt F -> L <= H -> 0 <= F < 1 ->
  0 <= rnd (F * rnd (H - L)) <= H - L.
Proof.
  intros GL GH GF HLH HF.
  assert (D0 : 0 <= rnd (H - L)) by (apply rnd_ge_0; lra).
  split; [apply rnd_ge_0; nra|].
  assert (Pd : rnd (F * rnd (H - L)) <= rnd (H - L)).
  { apply rnd_le_fmt; [apply rnd_fmt | nra]. }
  destruct (Rle_or_lt (H - L) (bpow radix2 (-1021))) as [Small | Big].
  - assert (G : fmt (H - L)).
    { apply fmt_minus_small; [exact GH | exact GL|]. rewrite Rabs_pos_eq by lra. exact Small. }
    rewrite (rnd_id _ G) in Pd. rewrite (rnd_id _ G). exact Pd.
  - destruct (Rle_or_lt (rnd (H - L)) (H - L)) as [Hdn | Hup]; [lra|].
    pose proof (bpow_gt_0 radix2 (-1021)) as Hb.
    eapply Rle_trans; [|apply pred_rnd_le; [lra | exact Hup]].
    apply mul_frac_le_pred; [exact GF | exact HF | apply rnd_fmt|].
    apply rnd_ge_fmt; [apply fmt_bpow; lia | lra].
Qed.

(* N2+: exact bracket l <= v <= h for 0 <= frac < 1; only the gap must not overflow *)
Theorem n64_linear_bracket (l h frac : F64) :
  fis_finite l = true -> fis_finite h = true -> fis_finite frac = true ->
  0 <= B2R frac < 1 -> B2R l <= B2R h ->
  rnd (B2R h - B2R l) < bpow radix2 1024 ->
  exists v, n64_linear l h frac = Ok v /\ fis_finite v = true /\
    B2R v = rnd (B2R l + rnd (B2R frac * rnd (B2R h - B2R l))) /\
    B2R l <= B2R v <= B2R h /\
    Rabs (B2R v - (B2R l + B2R frac * (B2R h - B2R l)))
      <= 3 * u64 * (Rabs (B2R l) + Rabs (B2R h)) + eta64.
Proof.
  intros Fl Fh Ff HF HLH Hgap.
  set (L := B2R l) in *. set (H := B2R h) in *. set (F := B2R frac) in *.
  assert (GL : fmt L) by apply fmt_B2R. assert (GH : fmt H) by apply fmt_B2R.
  assert (GF : fmt F) by apply fmt_B2R.
  assert (D0 : 0 <= rnd (H - L)) by (apply rnd_ge_0; lra).
  destruct (fsub_correct h l Fh Fl) as (Fd & Ed).
  { fold H L. rewrite Rabs_pos_eq by exact D0. exact Hgap. }
  fold H L in Ed.
  assert (D0' : 0 <= B2R (fsub h l)) by (rewrite Ed; exact D0).
  assert (HF' : 0 <= B2R frac <= 1) by (fold F; lra).
  destruct (mult_in_range 53 1024 Hprec64 Hmax64 frac (fsub h l) Ff Fd HF' D0') as (Fp & Ep & _).
  fold (fmul frac (fsub h l)) in Fp, Ep. fold F in Ep. rewrite Ed in Ep.
  destruct (mul_frac_le_gap L H F GL GH GF HLH HF) as (P0 & P1).
  assert (Br : L <= rnd (L + rnd (F * rnd (H - L))) <= H).
  { split; [apply rnd_ge_fmt | apply rnd_le_fmt]; try assumption; lra. }
  destruct (fadd_correct l (fmul frac (fsub h l)) Fl Fp) as (Fv & Ev).
  { rewrite Ep. fold L. apply (between_bound L H); try exact Br; apply B2R_bound; assumption. }
  rewrite Ep in Ev. fold L in Ev.
  exists (fadd l (fmul frac (fsub h l))).
  split. { unfold n64_linear, n64_ok. rewrite (finite_not_nan _ Fv). reflexivity. }
  split; [exact Fv|]. split; [exact Ev|]. split; [rewrite Ev; exact Br|].
  rewrite Ev. apply linear_error_R'; try assumption; lra.
Qed.

Print Assumptions n64_midpoint_spec.
Print Assumptions n64_linear_spec.
Print Assumptions side_conditions_of_bound.
Print Assumptions gap_finite_iff.
Print Assumptions top_finite_iff.
Print Assumptions n64_midpoint_no_panic.
Print Assumptions n64_linear_panic_only.
Print Assumptions n64_linear_bracket.
