(* Proofs about the quantile index computation of Quantile/Index.v
   (q * (len - 1) as f64, its floor / ceil / fractional part). *)
From Flocq Require Import Core BinarySingleNaN.
Require Import Reals Lra Lia ZArith Psatz Bool.
From NS Require Import Num.F64 Quantile.Index.
Open Scope R_scope.

(* ------------------------------------------------------------------ *)
(* Generic multiplication lemmas (any precision)                       *)
(* ------------------------------------------------------------------ *)
Section I.
Variables (prec emax : Z).
Context (Hprec : Prec_gt_0 prec) (Hmax : Prec_lt_emax prec emax).
Notation F := (binary_float prec emax).
Notation fexp := (SpecFloat.fexp prec emax).
Notation rnd := (round radix2 fexp ZnearestE).
Local Instance vexp : Valid_exp fexp := fexp_correct prec emax Hprec.

Lemma B2R_lt_emax (x : F) : is_finite x = true -> Rabs (B2R x) < bpow radix2 emax.
Proof. intros H. apply abs_B2R_lt_emax. Qed.

Theorem mult_in_range (q m : F) :
  is_finite q = true -> is_finite m = true -> 0 <= B2R q <= 1 -> 0 <= B2R m ->
  is_finite (Bmult mode_NE q m) = true /\
  B2R (Bmult mode_NE q m) = rnd (B2R q * B2R m) /\
  0 <= B2R (Bmult mode_NE q m) <= B2R m.
Proof.
  intros Fq Fm Hq Hm.
  assert (Gm : generic_format radix2 fexp (B2R m)) by apply generic_format_B2R.
  assert (Lo : 0 <= rnd (B2R q * B2R m)).
  { rewrite <- (round_0 radix2 fexp ZnearestE). apply round_le; auto with typeclass_instances. destruct Hq; nra. }
  assert (Hi : rnd (B2R q * B2R m) <= B2R m).
  { rewrite <- (round_generic radix2 fexp ZnearestE (B2R m) Gm) at 2.
    apply round_le; auto with typeclass_instances. destruct Hq; nra. }
  pose proof (Bmult_correct prec emax _ _ mode_NE q m) as C.
  assert (B : Rabs (rnd (B2R q * B2R m)) < bpow radix2 emax).
  { rewrite Rabs_pos_eq by exact Lo. eapply Rle_lt_trans; [exact Hi|].
    rewrite <- (Rabs_pos_eq (B2R m)) by exact Hm. now apply B2R_lt_emax. }
  apply Rlt_bool_true in B. simpl round_mode in C. rewrite B in C.
  destruct C as (C1 & C2 & _). rewrite C2, Fq, Fm. repeat split; auto; rewrite C1; lra.
Qed.

Theorem mult_mono (q1 q2 m : F) :
  is_finite q1 = true -> is_finite q2 = true -> is_finite m = true ->
  0 <= B2R q1 -> B2R q1 <= B2R q2 -> B2R q2 <= 1 -> 0 <= B2R m ->
  B2R (Bmult mode_NE q1 m) <= B2R (Bmult mode_NE q2 m).
Proof.
  intros F1 F2 Fm H0 H12 H1 Hm.
  destruct (mult_in_range q1 m) as (_ & E1 & _); auto; try lra.
  destruct (mult_in_range q2 m) as (_ & E2 & _); auto; try lra.
  rewrite E1, E2. apply round_le; auto with typeclass_instances. nra.
Qed.
End I.

(* ------------------------------------------------------------------ *)
(* binary64 instantiation                                              *)
(* ------------------------------------------------------------------ *)
Notation B2R := (@BinarySingleNaN.B2R 53 1024).
Notation fexp64 := (SpecFloat.fexp 53 1024).
Notation rnd64 := (round radix2 fexp64 ZnearestE).

Local Instance prec64_gt_0 : Prec_gt_0 53 := Hprec64.
Local Instance vexp64 : Valid_exp fexp64 := fexp_correct 53 1024 Hprec64.

Lemma fexp64_FLT : forall e, fexp64 e = FLT_exp (-1074) 53 e.
Proof. intros e. reflexivity. Qed.

Lemma round_FIX0 : forall (rnd : R -> Z) (x : R), round radix2 (FIX_exp 0) rnd x = IZR (rnd x).
Proof.
  intros rnd x. unfold round, F2R, scaled_mantissa, cexp, FIX_exp. cbn [Fnum Fexp Z.opp bpow].
  rewrite !Rmult_1_r. reflexivity.
Qed.

Lemma generic_format_FLT64 : forall (m e : Z),
  (Z.abs m < 2 ^ 53)%Z -> (-1074 <= e)%Z -> generic_format radix2 fexp64 (F2R (Float radix2 m e)).
Proof.
  intros m e Hm He.
  apply (generic_format_FLT radix2 (-1074) 53).
  apply (FLT_spec radix2 (-1074) 53 _ (Float radix2 m e)); [reflexivity| exact Hm | exact He].
Qed.

Lemma IZR_as_F2R : forall z : Z, IZR z = F2R (Float radix2 z 0).
Proof. intros z. unfold F2R. cbn [Fnum Fexp bpow]. lra. Qed.

Lemma generic_format_IZR64 : forall z : Z, (0 <= z <= 2 ^ 53)%Z -> generic_format radix2 fexp64 (IZR z).
Proof.
  intros z Hz.
  destruct (Z.eq_dec z (2 ^ 53)) as [E | NE].
  - subst z. change (2 ^ 53)%Z with (Zpower radix2 53). rewrite (IZR_Zpower radix2 53) by lia.
    apply generic_format_bpow. cbv. discriminate.
  - rewrite IZR_as_F2R. apply generic_format_FLT64; lia.
Qed.

Lemma bpow53_lt_1024 : bpow radix2 53 < bpow radix2 1024.
Proof. apply bpow_lt. lia. Qed.

(* 1 *)
Theorem f64_of_Z_exact : forall z : Z, (0 <= z <= 2 ^ 53)%Z ->
  fis_finite (f64_of_Z z) = true /\ B2R (f64_of_Z z) = IZR z.
Proof.
  intros z Hz.
  pose proof (binary_normalize_correct 53 1024 Hprec64 Hmax64 mode_NE z 0 false) as C.
  cbv zeta in C. rewrite <- IZR_as_F2R in C. cbn [round_mode] in C.
  rewrite (round_generic radix2 fexp64 ZnearestE (IZR z) (generic_format_IZR64 z Hz)) in C.
  assert (B : Rabs (IZR z) < bpow radix2 1024).
  { rewrite Rabs_pos_eq by (apply IZR_le; lia).
    eapply Rle_lt_trans; [|exact bpow53_lt_1024].
    rewrite <- (IZR_Zpower radix2 53) by lia. apply IZR_le. exact (proj2 Hz). }
  apply Rlt_bool_true in B. rewrite B in C. destruct C as (C1 & C2 & _).
  unfold fis_finite, f64_of_Z. split; assumption.
Qed.

Lemma nat_pred_bounds : forall n : nat, (1 <= n)%nat -> (Z.of_nat n <= 2 ^ 53)%Z ->
  (0 <= Z.of_nat n - 1 <= 2 ^ 53)%Z.
Proof. intros n H1 H2. lia. Qed.

(* 2 *)
Theorem fidx_range : forall (q : F64) (n : nat),
  fis_finite q = true -> 0 <= B2R q <= 1 -> (1 <= n)%nat -> (Z.of_nat n <= 2 ^ 53)%Z ->
  fis_finite (fidx q n) = true /\
  B2R (fidx q n) = round radix2 (SpecFloat.fexp 53 1024) ZnearestE (B2R q * IZR (Z.of_nat n - 1)) /\
  0 <= B2R (fidx q n) <= IZR (Z.of_nat n - 1).
Proof.
  intros q n Fq Hq Hn1 Hn2.
  destruct (f64_of_Z_exact (Z.of_nat n - 1) (nat_pred_bounds n Hn1 Hn2)) as (Fm & Em).
  unfold fis_finite in *.
  assert (Hm : 0 <= B2R (f64_of_Z (Z.of_nat n - 1))) by (rewrite Em; apply IZR_le; lia).
  destruct (mult_in_range 53 1024 Hprec64 Hmax64 q (f64_of_Z (Z.of_nat n - 1)) Fq Fm Hq Hm) as (R1 & R2 & R3).
  unfold fidx, fmul. rewrite Em in R2, R3. split; [exact R1|]. split; [exact R2| exact R3].
Qed.

(* ------------------------------------------------------------------ *)
(* to_usize on integral floats                                         *)
(* ------------------------------------------------------------------ *)
Lemma ftrunc_Z_int : forall (y : F64) (k : Z), B2R y = IZR k -> ftrunc_Z y = k.
Proof.
  intros y k E. apply eq_IZR. unfold ftrunc_Z.
  rewrite (Btrunc_correct 53 1024 Hmax64 y), round_FIX0, E, Ztrunc_IZR. reflexivity.
Qed.

Lemma to_usize_int : forall (y : F64) (k : Z),
  fis_finite y = true -> B2R y = IZR k -> (0 <= k < 2 ^ 64)%Z -> to_usize y = Some (Z.to_nat k).
Proof.
  intros y k Fy E Hk. unfold to_usize. rewrite (ftrunc_Z_int y k E), Fy.
  destruct Hk as [Hk0 Hk1].
  apply Z.leb_le in Hk0. apply Z.ltb_lt in Hk1. rewrite Hk0, Hk1. reflexivity.
Qed.

Lemma ffloor_spec : forall x : F64,
  fis_finite (ffloor x) = fis_finite x /\ B2R (ffloor x) = IZR (Zfloor (B2R x)).
Proof.
  intros x. destruct (Bnearbyint_correct 53 1024 Hmax64 mode_DN x) as (E & Fi & _).
  unfold ffloor, fis_finite. rewrite E, round_FIX0. split; [exact Fi | reflexivity].
Qed.

Lemma fceil_spec : forall x : F64,
  fis_finite (fceil x) = fis_finite x /\ B2R (fceil x) = IZR (Zceil (B2R x)).
Proof.
  intros x. destruct (Bnearbyint_correct 53 1024 Hmax64 mode_UP x) as (E & Fi & _).
  unfold fceil, fis_finite. rewrite E, round_FIX0. split; [exact Fi | reflexivity].
Qed.

Lemma ftrunc_spec : forall x : F64,
  fis_finite (ftrunc x) = fis_finite x /\ B2R (ftrunc x) = IZR (Ztrunc (B2R x)).
Proof.
  intros x. destruct (Bnearbyint_correct 53 1024 Hmax64 mode_ZR x) as (E & Fi & _).
  unfold ftrunc, fis_finite. rewrite E, round_FIX0. split; [exact Fi | reflexivity].
Qed.

(* ------------------------------------------------------------------ *)
(* the fractional part of a nonnegative binary64 number is a binary64  *)
(* ------------------------------------------------------------------ *)
Lemma frac_format : forall x : R,
  generic_format radix2 fexp64 x -> 0 <= x ->
  generic_format radix2 fexp64 (x - IZR (Zfloor x)).
Proof.
  intros x G Hx.
  destruct (FLT_format_generic radix2 (-1074) 53 x G) as [[m e] E Hm He].
  cbn [Fnum Fexp] in Hm, He.
  assert (Hk0 : (0 <= Zfloor x)%Z) by (apply Zfloor_lub; exact Hx).
  pose proof (Zfloor_lb x) as Hlb.
  destruct (Z_le_gt_dec 0 e) as [Hpos | Hneg].
  - assert (Ex : x = IZR (m * Zpower radix2 e)).
    { rewrite E. unfold F2R. cbn [Fnum Fexp]. rewrite mult_IZR, (IZR_Zpower radix2 e Hpos). reflexivity. }
    rewrite Ex at 1. rewrite Ex at 1. rewrite Zfloor_IZR, Rminus_diag_eq by reflexivity.
    apply generic_format_0.
  - set (k := Zfloor x) in *.
    assert (Ed : x - IZR k = F2R (Float radix2 (m - k * Zpower radix2 (- e)) e)).
    { rewrite E. unfold F2R. cbn [Fnum Fexp].
      rewrite minus_IZR, mult_IZR, (IZR_Zpower radix2 (- e)) by lia.
      rewrite Rmult_minus_distr_r, Rmult_assoc, <- bpow_plus.
      replace (- e + e)%Z with 0%Z by lia. cbn [bpow]. lra. }
    rewrite Ed. apply generic_format_FLT64; [| exact He].
    assert (H0 : (0 <= m - k * Zpower radix2 (- e))%Z).
    { apply (ge_0_F2R radix2 _ e). rewrite <- Ed. lra. }
    assert (H1 : (m - k * Zpower radix2 (- e) <= m)%Z).
    { apply (le_F2R radix2 e). rewrite <- Ed, <- E.
      assert (0 <= IZR k) by (apply IZR_le; exact Hk0). lra. }
    change (2 ^ 53)%Z with (Zpower radix2 53) . lia.
Qed.

(* ------------------------------------------------------------------ *)
(* floor / ceil facts on reals                                         *)
(* ------------------------------------------------------------------ *)
Lemma floor_ceil_cases : forall x : R,
  (IZR (Zfloor x) = x /\ Zceil x = Zfloor x) \/ (IZR (Zfloor x) <> x /\ Zceil x = (Zfloor x + 1)%Z).
Proof.
  intros x. destruct (Req_dec (IZR (Zfloor x)) x) as [E | NE].
  - left. split; [exact E|]. rewrite <- E at 1. apply Zceil_IZR.
  - right. split; [exact NE|]. apply Zceil_floor_neq. exact NE.
Qed.

Lemma frac_bounds : forall x : R, 0 <= x - IZR (Zfloor x) < 1.
Proof.
  intros x. pose proof (Zfloor_lb x) as H1. pose proof (Zfloor_ub x) as H2.
  lra.
Qed.

(* floor, ceil and fraction of a finite float in [0, M] *)
Lemma index_core : forall (x : F64) (M : Z),
  fis_finite x = true -> 0 <= B2R x <= IZR M -> (M < 2 ^ 64)%Z ->
  to_usize (ffloor x) = Some (Z.to_nat (Zfloor (B2R x))) /\
  to_usize (fceil x) = Some (Z.to_nat (Zceil (B2R x))) /\
  (0 <= Zfloor (B2R x))%Z /\ (Zfloor (B2R x) <= Zceil (B2R x))%Z /\ (Zceil (B2R x) <= M)%Z /\
  (Zceil (B2R x) - Zfloor (B2R x) <= 1)%Z /\
  fis_finite (fsub x (ftrunc x)) = true /\
  B2R (fsub x (ftrunc x)) = B2R x - IZR (Zfloor (B2R x)).
Proof.
  intros x M Fx Hx HM.
  assert (Hf0 : (0 <= Zfloor (B2R x))%Z) by (apply Zfloor_lub; exact (proj1 Hx)).
  assert (HcM : (Zceil (B2R x) <= M)%Z) by (apply Zceil_glb; exact (proj2 Hx)).
  assert (Hfc : (Zfloor (B2R x) <= Zceil (B2R x))%Z).
  { apply le_IZR. pose proof (Zfloor_lb (B2R x)). pose proof (Zceil_ub (B2R x)). lra. }
  assert (Hd : (Zceil (B2R x) - Zfloor (B2R x) <= 1)%Z).
  { destruct (floor_ceil_cases (B2R x)) as [[_ E] | [_ E]]; rewrite E; lia. }
  destruct (ffloor_spec x) as (Ff & Ef). destruct (fceil_spec x) as (Fc & Ec).
  destruct (ftrunc_spec x) as (Ft & Et).
  rewrite Fx in Ff, Fc, Ft. rewrite (Ztrunc_floor (B2R x) (proj1 Hx)) in Et.
  split. { apply to_usize_int; [exact Ff | exact Ef | lia]. }
  split. { apply to_usize_int; [exact Fc | exact Ec | lia]. }
  split; [exact Hf0|]. split; [exact Hfc|]. split; [exact HcM|]. split; [exact Hd|].
  pose proof (Bminus_correct 53 1024 Hprec64 Hmax64 mode_NE x (ftrunc x) Fx Ft) as C.
  cbn [round_mode] in C. rewrite Et in C.
  assert (G : generic_format radix2 fexp64 (B2R x - IZR (Zfloor (B2R x)))).
  { apply frac_format; [apply generic_format_B2R | exact (proj1 Hx)]. }
  rewrite (round_generic radix2 fexp64 ZnearestE _ G) in C.
  pose proof (frac_bounds (B2R x)) as Hb.
  assert (B : Rabs (B2R x - IZR (Zfloor (B2R x))) < bpow radix2 1024).
  { rewrite Rabs_pos_eq by exact (proj1 Hb).
    apply Rlt_trans with (1 := proj2 Hb). change 1 with (bpow radix2 0). apply bpow_lt. lia. }
  apply Rlt_bool_true in B. rewrite B in C. destruct C as (C1 & C2 & _).
  unfold fsub, fis_finite. split; [exact C2 | exact C1].
Qed.

(* 3 *)
Theorem index_spec : forall (q : F64) (n : nat),
  fis_finite q = true -> 0 <= B2R q <= 1 -> (1 <= n)%nat -> (Z.of_nat n <= 2 ^ 53)%Z ->
  exists lo hi : nat,
    lower_index q n = Some lo /\ higher_index q n = Some hi /\
    Z.of_nat lo = Zfloor (B2R (fidx q n)) /\ Z.of_nat hi = Zceil (B2R (fidx q n)) /\
    (lo <= hi)%nat /\ (hi <= n - 1)%nat /\ (hi - lo <= 1)%nat /\
    B2R (qfrac q n) = B2R (fidx q n) - IZR (Z.of_nat lo) /\
    0 <= B2R (qfrac q n) < 1 /\
    (lo = hi <-> B2R (qfrac q n) = 0).
Proof.
  intros q n Fq Hq Hn1 Hn2.
  destruct (fidx_range q n Fq Hq Hn1 Hn2) as (Fx & _ & Hx).
  assert (HM : (Z.of_nat n - 1 < 2 ^ 64)%Z) by lia.
  destruct (index_core (fidx q n) (Z.of_nat n - 1) Fx Hx HM)
    as (Elo & Ehi & Hf0 & Hfc & HcM & Hd & _ & Efr).
  set (x := B2R (fidx q n)) in *.
  exists (Z.to_nat (Zfloor x)), (Z.to_nat (Zceil x)).
  assert (Zlo : Z.of_nat (Z.to_nat (Zfloor x)) = Zfloor x) by (apply Z2Nat.id; lia).
  assert (Zhi : Z.of_nat (Z.to_nat (Zceil x)) = Zceil x) by (apply Z2Nat.id; lia).
  unfold lower_index, higher_index, qfrac. cbv zeta.
  split; [exact Elo|]. split; [exact Ehi|]. split; [exact Zlo|]. split; [exact Zhi|].
  split; [lia|]. split; [lia|]. split; [lia|].
  rewrite Zlo. split; [exact Efr|]. rewrite Efr.
  split; [apply frac_bounds|].
  destruct (floor_ceil_cases x) as [[E1 E2] | [E1 E2]].
  - split; [intros _; lra | intros _; rewrite E2; reflexivity].
  - split.
    + intros Eq. exfalso. apply (f_equal Z.of_nat) in Eq. rewrite Zlo, Zhi in Eq. lia.
    + intros Eq. exfalso. apply E1. lra.
Qed.

(* 4 *)
Theorem index_mono : forall (q1 q2 : F64) (n lo1 lo2 hi1 hi2 : nat),
  fis_finite q1 = true -> fis_finite q2 = true ->
  0 <= B2R q1 -> B2R q1 <= B2R q2 -> B2R q2 <= 1 ->
  (1 <= n)%nat -> (Z.of_nat n <= 2 ^ 53)%Z ->
  lower_index q1 n = Some lo1 -> lower_index q2 n = Some lo2 ->
  higher_index q1 n = Some hi1 -> higher_index q2 n = Some hi2 ->
  (lo1 <= lo2)%nat /\ (hi1 <= hi2)%nat.
Proof.
  intros q1 q2 n lo1 lo2 hi1 hi2 F1 F2 H0 H12 H1 Hn1 Hn2 L1 L2 U1 U2.
  assert (Hq1 : 0 <= B2R q1 <= 1) by lra.
  assert (Hq2 : 0 <= B2R q2 <= 1) by lra.
  destruct (index_spec q1 n F1 Hq1 Hn1 Hn2) as (a1 & b1 & La1 & Ub1 & Za1 & Zb1 & _).
  destruct (index_spec q2 n F2 Hq2 Hn1 Hn2) as (a2 & b2 & La2 & Ub2 & Za2 & Zb2 & _).
  rewrite L1 in La1. rewrite L2 in La2. rewrite U1 in Ub1. rewrite U2 in Ub2.
  injection La1 as <-. injection La2 as <-. injection Ub1 as <-. injection Ub2 as <-.
  destruct (f64_of_Z_exact (Z.of_nat n - 1) (nat_pred_bounds n Hn1 Hn2)) as (Fm & Em).
  assert (Hm : 0 <= B2R (f64_of_Z (Z.of_nat n - 1))) by (rewrite Em; apply IZR_le; lia).
  assert (Hle : B2R (fidx q1 n) <= B2R (fidx q2 n)).
  { unfold fidx, fmul. apply mult_mono; assumption. }
  pose proof (Zfloor_le _ _ Hle) as Hfl. pose proof (Zceil_le _ _ Hle) as Hcl.
  split; lia.
Qed.

(* 7 *)
Theorem index_exact_when_representable : forall (q : F64) (n : nat),
  fis_finite q = true -> 0 <= B2R q <= 1 -> (1 <= n)%nat -> (Z.of_nat n <= 2 ^ 53)%Z ->
  forall k : nat, B2R (fidx q n) = IZR (Z.of_nat k) ->
  lower_index q n = Some k /\ higher_index q n = Some k.
Proof.
  intros q n Fq Hq Hn1 Hn2 k Ek.
  destruct (index_spec q n Fq Hq Hn1 Hn2) as (lo & hi & Lo & Hi & Zlo & Zhi & _).
  rewrite Ek, Zfloor_IZR in Zlo. rewrite Ek, Zceil_IZR in Zhi.
  apply Nat2Z.inj in Zlo. apply Nat2Z.inj in Zhi. subst lo hi. split; assumption.
Qed.

(* 5 *)
Theorem index_zero : forall (q : F64) (n : nat),
  fis_finite q = true -> B2R q = 0 -> (1 <= n)%nat -> (Z.of_nat n <= 2 ^ 53)%Z ->
  lower_index q n = Some 0%nat /\ higher_index q n = Some 0%nat.
Proof.
  intros q n Fq E0 Hn1 Hn2.
  assert (Hq : 0 <= B2R q <= 1) by lra.
  apply (index_exact_when_representable q n Fq Hq Hn1 Hn2 0%nat).
  destruct (fidx_range q n Fq Hq Hn1 Hn2) as (_ & E & _).
  rewrite E, E0, Rmult_0_l. cbn [Z.of_nat]. apply round_0. auto with typeclass_instances.
Qed.

Theorem index_one : forall (q : F64) (n : nat),
  fis_finite q = true -> B2R q = 1 -> (1 <= n)%nat -> (Z.of_nat n <= 2 ^ 53)%Z ->
  lower_index q n = Some (n - 1)%nat /\ higher_index q n = Some (n - 1)%nat.
Proof.
  intros q n Fq E1 Hn1 Hn2.
  assert (Hq : 0 <= B2R q <= 1) by lra.
  apply (index_exact_when_representable q n Fq Hq Hn1 Hn2 (n - 1)%nat).
  destruct (fidx_range q n Fq Hq Hn1 Hn2) as (_ & E & _).
  rewrite E, E1, Rmult_1_l.
  replace (Z.of_nat (n - 1)) with (Z.of_nat n - 1)%Z by lia.
  apply round_generic; [auto with typeclass_instances|].
  apply generic_format_IZR64. apply nat_pred_bounds; assumption.
Qed.

(* ------------------------------------------------------------------ *)
(* comparisons                                                         *)
(* ------------------------------------------------------------------ *)
Lemma fle_spec : forall a b : F64,
  fis_finite a = true -> fis_finite b = true -> (fle a b = true <-> B2R a <= B2R b).
Proof.
  intros a b Fa Fb. unfold fle, fcmp.
  rewrite (Bcompare_correct 53 1024 a b Fa Fb).
  destruct (Rcompare_spec (B2R a) (B2R b)) as [H | H | H]; split; intros H'; try reflexivity; try lra; discriminate.
Qed.

Lemma fone_spec : fis_finite fone = true /\ B2R fone = 1.
Proof. unfold fone. apply (f64_of_Z_exact 1). lia. Qed.

Lemma fle_finite_r : forall a b : F64,
  fis_finite b = true -> fle a b = true -> a = B754_infinity true \/ fis_finite a = true.
Proof.
  intros a b Fb H. destruct a as [sa | [|] | | sa ma ea Ha].
  - right. reflexivity.
  - left. reflexivity.
  - exfalso. destruct b as [sb | sb | | sb mb eb Hb]; cbv in Fb; try discriminate Fb; cbv in H; discriminate H.
  - exfalso. cbv in H. discriminate H.
  - right. reflexivity.
Qed.

(* 6 *)
Theorem valid_q_spec : forall q : F64,
  valid_q q = true <-> (fis_finite q = true /\ 0 <= B2R q <= 1).
Proof.
  intros q. destruct fone_spec as (F1 & E1). unfold valid_q. rewrite andb_true_iff.
  assert (F0 : fis_finite fzero = true) by reflexivity.
  assert (E0 : B2R fzero = 0) by reflexivity.
  split.
  - intros [Ha Hb].
    assert (Fq : fis_finite q = true).
    { destruct (fle_finite_r q fone F1 Hb) as [E | Fq]; [|exact Fq].
      subst q. cbv in Ha. discriminate Ha. }
    split; [exact Fq|].
    apply (fle_spec fzero q F0 Fq) in Ha. apply (fle_spec q fone Fq F1) in Hb.
    rewrite E0 in Ha. rewrite E1 in Hb. split; assumption.
  - intros (Fq & H0 & H1). split.
    + apply (fle_spec fzero q F0 Fq). rewrite E0. exact H0.
    + apply (fle_spec q fone Fq F1). rewrite E1. exact H1.
Qed.

Print Assumptions f64_of_Z_exact.
Print Assumptions fidx_range.
Print Assumptions index_spec.
Print Assumptions index_mono.
Print Assumptions index_zero.
Print Assumptions index_one.
Print Assumptions valid_q_spec.
Print Assumptions index_exact_when_representable.
