(* quantiles_axis_mut / quantile_axis_mut / quantile(s)_mut of quantile/mod.rs, lane by lane. *)
From Coq Require Import ZArith Bool List Arith.
Import ListNotations.
From NS Require Import Base.Res Base.SortDedup Sort.Partition Sort.Bulk Sort.SelectMany
  Num.F64 Quantile.Index Quantile.Interp.

Section Q.
Context {A : Type}.
Variable C : carrier A.
Variable s : strategy.

(* the indexes searched for in every lane: collected per q (lower first), then sort + dedup *)
Fixpoint needed (qs : list F64) (n : nat) : res (list nat) :=
  match qs with
  | [] => Ok []
  | q :: t =>
    lo <- (if needs_lower s q n then (i <- unwrap (lower_index q n) ;; Ok [i]) else Ok []) ;;
    hi <- (if needs_higher s q n then (i <- unwrap (higher_index q n) ;; Ok [i]) else Ok []) ;;
    r <- needed t n ;; Ok (lo ++ hi ++ r)
  end.

Definition searched (qs : list F64) (n : nat) : res (list nat) :=
  l <- needed qs n ;; Ok (sort_dedup nat Nat.leb l).

(* index_map[&k]: a missing key panics *)
Fixpoint lookup (kvs : list (nat * A)) (k : nat) : res A :=
  match kvs with
  | [] => Panic
  | (k', v) :: t => if Nat.eqb k k' then Ok v else lookup t k
  end.

Definition one_quantile (kvs : list (nat * A)) (n : nat) (q : F64) : res A :=
  lo <- (if needs_lower s q n then (i <- unwrap (lower_index q n) ;; v <- lookup kvs i ;; Ok (Some v)) else Ok None) ;;
  hi <- (if needs_higher s q n then (i <- unwrap (higher_index q n) ;; v <- lookup kvs i ;; Ok (Some v)) else Ok None) ;;
  interpolate C s lo hi q n.

Fixpoint all_quantiles (kvs : list (nat * A)) (n : nat) (qs : list F64) : res (list A) :=
  match qs with
  | [] => Ok []
  | q :: t => v <- one_quantile kvs n q ;; r <- all_quantiles kvs n t ;; Ok (v :: r)
  end.

(* one lane: bulk selection of the searched indexes, then one value per requested q in
   request order. Returns the values, the rearranged lane and the pivot counter. *)
Definition quantiles_lane (fuel : nat) (pick : nat -> nat -> nat) (c : nat) (qs : list F64)
    (ds : list nat) (lane : list A) : res (list A * list A * nat) :=
  r <- select_many_unchecked A (c_leb C) fuel pick c lane ds ;;
  let '(kvs, lane', c') := r in
  vals <- all_quantiles kvs (length lane) qs ;;
  Ok (vals, lane', c').
End Q.

(* outcome of the array-level routine *)
Inductive qerr := QE_Empty | QE_Invalid (q : F64).
Inductive qout (T : Type) := Q_Ok (x : T) | Q_Err (e : qerr) | Q_Panic.
Arguments Q_Ok {T}. Arguments Q_Err {T}. Arguments Q_Panic {T}.

Fixpoint first_invalid (qs : list F64) : option F64 :=
  match qs with
  | [] => None
  | q :: t => if valid_q q then first_invalid t else Some q
  end.
