(* The sort-based specification of a quantile: fully sort the lane, take the elements at
   positions floor((N-1)q) and ceil((N-1)q) and apply the strategy. *)
From Coq Require Import ZArith Bool List Arith.
Import ListNotations.
From NS Require Import Base.Res Base.SortDedup Num.F64 Quantile.Index Quantile.Interp Quantile.Lane.

Section S.
Context {A : Type}.
Variable C : carrier A.
Variable s : strategy.

(* srt: any sorted permutation of the lane *)
Definition qspec (srt : list A) (q : F64) : res A :=
  let n := length srt in
  lo <- (if needs_lower s q n then (i <- unwrap (lower_index q n) ;; v <- get srt i ;; Ok (Some v)) else Ok None) ;;
  hi <- (if needs_higher s q n then (i <- unwrap (higher_index q n) ;; v <- get srt i ;; Ok (Some v)) else Ok None) ;;
  interpolate C s lo hi q n.

Fixpoint qspecs (srt : list A) (qs : list F64) : res (list A) :=
  match qs with
  | [] => Ok []
  | q :: t => v <- qspec srt q ;; r <- qspecs srt t ;; Ok (v :: r)
  end.
End S.
