(* End-to-end statements for lanes of non-NaN binary64 values (the N64 element type).

   FINDING (forced by the proofs): Props.C01.lane_ok cannot be instantiated at n64_carrier, because
   its field lo_total asks [fle] to be total on the WHOLE type F64 and [fle NaN x = fle x NaN = false].
   The route taken here:
     0. the lane kernel only ever compares elements of the lane: two orders that agree on a
        predicate P holding of every lane element drive the kernel identically (kernel_ext);
     1. [fle_t] = [fle] with NaN placed below everything is total and transitive on all of F64 and
        agrees with [fle] on non-NaN values; the generic theorems are instantiated at the carrier
        [n64t_carrier] (order fle_t, same midpoint / linear) and transported back to [n64_carrier];
     A. exact form: NaN-free lane on which fle is antisymmetric (<=> not both +0 and -0);
     B. up-to-numerical-equality form for EVERY NaN-free lane (mixed zeros allowed);
     C. the array-level routine [quantiles_axis n64_carrier];
     D. concrete evaluations. *)
From Coq Require Import List Arith ZArith Lia Permutation Bool Reals Sorting.Sorted.
Import ListNotations.
From Flocq Require Import Core BinarySingleNaN.
From NS Require Import Base.Order Base.Res Base.ArrLemmas Base.SortDedup Base.SortDedupProofs
  Sort.Partition Sort.Rank Sort.Bulk Sort.BulkProofs Sort.SelectMany Sort.SelectManyProofs
  Num.F64 Quantile.Index Quantile.IndexProofs
  Quantile.Interp Quantile.Lane Quantile.Spec Quantile.LaneProofs
  Mem.Buffer Mem.BufferProofs Mem.LanesProofs Run.RunQuant Props.C01 Quantile.EndToEnd
  Hist.StrategiesF64.
Local Open Scope nat_scope.

(* ------------------------------------------------------------------ *)
(* 0. The kernel only compares lane elements                           *)
(* ------------------------------------------------------------------ *)

Section KernelExt.
Variable A : Type.
Variables leb1 leb2 : A -> A -> bool.
Variable P : A -> Prop.
Hypothesis agree : forall x y, P x -> P y -> leb1 x y = leb2 x y.

Lemma get_Forall : forall (a : list A) i x, Forall P a -> get a i = Ok x -> P x.
Proof.
  intros a i x Ha G. apply get_Ok_inv in G. destruct G as [N _].
  rewrite Forall_forall in Ha. apply Ha. eapply nth_error_In. exact N.
Qed.

Lemma upd_Forall : forall (a : list A) i x, Forall P a -> P x -> Forall P (upd a i x).
Proof.
  induction a as [|h t IH]; intros i x Ha Hx; [destruct i; exact Ha|].
  inversion Ha as [|? ? Hh Ht]; subst.
  destruct i as [|i]; cbn [upd]; constructor; auto.
Qed.

Lemma swap_Forall : forall (a a' : list A) i j, Forall P a -> swap a i j = Ok a' -> Forall P a'.
Proof.
  intros a a' i j Ha S. unfold swap in S.
  apply bind_Ok_inv in S. destruct S as (x & Gx & S).
  apply bind_Ok_inv in S. destruct S as (y & Gy & S).
  inversion S; subst a'.
  apply upd_Forall; [apply upd_Forall|]; auto; eapply get_Forall; eauto.
Qed.

Lemma scan_i_ext : forall fuel (a : list A) pv i j, Forall P a -> P pv ->
  scan_i A leb1 fuel a pv i j = scan_i A leb2 fuel a pv i j.
Proof.
  induction fuel as [|f IH]; intros a pv i j Ha Hpv; [reflexivity|].
  cbn [scan_i]. destruct (j <? i); [reflexivity|].
  destruct (get a i) as [x| |] eqn:G; cbn [bind]; try reflexivity.
  rewrite (agree pv x Hpv (get_Forall a i x Ha G)).
  destruct (leb2 pv x); [reflexivity|]. apply IH; assumption.
Qed.

Lemma scan_j_ext : forall fuel (a : list A) pv j, Forall P a -> P pv ->
  scan_j A leb1 fuel a pv j = scan_j A leb2 fuel a pv j.
Proof.
  induction fuel as [|f IH]; intros a pv j Ha Hpv; [reflexivity|].
  cbn [scan_j]. destruct (get a j) as [x| |] eqn:G; cbn [bind]; try reflexivity.
  rewrite (agree pv x Hpv (get_Forall a j x Ha G)).
  destruct (leb2 pv x); [|reflexivity].
  destruct (j <=? 1); [reflexivity|]. apply IH; assumption.
Qed.

Lemma outer_ext : forall fuel (a : list A) pv i j, Forall P a -> P pv ->
  outer A leb1 fuel a pv i j = outer A leb2 fuel a pv i j.
Proof.
  induction fuel as [|f IH]; intros a pv i j Ha Hpv; [reflexivity|].
  cbn [outer]. rewrite (scan_i_ext _ a pv i j Ha Hpv).
  destruct (scan_i A leb2 (S (length a)) a pv i j) as [i'| |]; cbn [bind]; try reflexivity.
  rewrite (scan_j_ext _ a pv j Ha Hpv).
  destruct (scan_j A leb2 (S (length a)) a pv j) as [j'| |]; cbn [bind]; try reflexivity.
  destruct (j' <=? i'); [reflexivity|].
  destruct (swap a i' j') as [a'| |] eqn:S; cbn [bind]; try reflexivity.
  apply IH; [eapply swap_Forall; eauto | exact Hpv].
Qed.

Lemma outer_Forall : forall (leb : A -> A -> bool) fuel (a : list A) pv i j i' a',
  Forall P a -> outer A leb fuel a pv i j = Ok (i', a') -> Forall P a'.
Proof.
  intros leb. induction fuel as [|f IH]; intros a pv i j i' a' Ha H; [discriminate H|].
  cbn [outer] in H.
  apply bind_Ok_inv in H. destruct H as (i1 & _ & H).
  apply bind_Ok_inv in H. destruct H as (j1 & _ & H).
  destruct (j1 <=? i1).
  - inversion H; subst. exact Ha.
  - apply bind_Ok_inv in H. destruct H as (a1 & S & H).
    eapply IH; [|exact H]. eapply swap_Forall; eauto.
Qed.

Lemma partition_ext : forall (a : list A) p, Forall P a ->
  partition A leb1 a p = partition A leb2 a p.
Proof.
  intros a p Ha. unfold partition.
  destruct (get a p) as [pv| |] eqn:G; cbn [bind]; try reflexivity.
  destruct (swap a p 0) as [a1| |] eqn:S; cbn [bind]; try reflexivity.
  rewrite (outer_ext _ a1 pv 1 (length a - 1)); [reflexivity| |].
  - eapply swap_Forall; eauto.
  - eapply get_Forall; eauto.
Qed.

Lemma partition_Forall : forall (leb : A -> A -> bool) (a : list A) p k a',
  Forall P a -> partition A leb a p = Ok (k, a') -> Forall P a'.
Proof.
  intros leb a p k a' Ha H. unfold partition in H.
  apply bind_Ok_inv in H. destruct H as (pv & G & H).
  apply bind_Ok_inv in H. destruct H as (a1 & S1 & H).
  apply bind_Ok_inv in H. destruct H as ([i a2] & O & H).
  apply bind_Ok_inv in H. destruct H as (a3 & S3 & H).
  inversion H; subst.
  eapply swap_Forall; [|exact S3].
  eapply outer_Forall; [|exact O].
  eapply swap_Forall; eauto.
Qed.

Lemma Forall_firstn : forall k (a : list A), Forall P a -> Forall P (firstn k a).
Proof.
  intros k a Ha. rewrite Forall_forall in *. intros x Hx. apply Ha.
  rewrite <- (firstn_skipn k a). apply in_or_app. left. exact Hx.
Qed.

Lemma Forall_skipn : forall k (a : list A), Forall P a -> Forall P (skipn k a).
Proof.
  intros k a Ha. rewrite Forall_forall in *. intros x Hx. apply Ha.
  rewrite <- (firstn_skipn k a). apply in_or_app. right. exact Hx.
Qed.

Lemma bulk_ext : forall fuel pick c fill (a : list A) idxs, Forall P a ->
  bulk A leb1 fuel pick c fill a idxs = bulk A leb2 fuel pick c fill a idxs.
Proof.
  induction fuel as [|f IH]; intros pick c fill a idxs Ha; [reflexivity|].
  cbn [bulk]. destruct idxs as [|i0 rest]; [reflexivity|].
  destruct (length a =? 1); [reflexivity|].
  destruct (length a =? 0); [reflexivity|].
  rewrite (partition_ext a _ Ha).
  destruct (partition A leb2 a (pick c (length a) mod length a)) as [[k a1]| |] eqn:Pt;
    cbn [bind]; try reflexivity.
  assert (Ha1 : Forall P a1) by (eapply partition_Forall; eauto).
  destruct (split_idx k (i0 :: rest)) as [[sm found] bg].
  destruct (get a1 k) as [pv| |]; cbn [bind]; try reflexivity.
  rewrite (IH pick (S c) fill (firstn k a1) sm (Forall_firstn k a1 Ha1)).
  destruct (bulk A leb2 f pick (S c) fill (firstn k a1) sm) as [[[v1 l1] c1]| |];
    cbn [bind]; try reflexivity.
  rewrite (IH pick c1 fill (skipn (k + 1) a1) _ (Forall_skipn (k + 1) a1 Ha1)).
  reflexivity.
Qed.

Lemma select_many_unchecked_ext : forall fuel pick c (a : list A) ds, Forall P a ->
  select_many_unchecked A leb1 fuel pick c a ds = select_many_unchecked A leb2 fuel pick c a ds.
Proof.
  intros fuel pick c a ds Ha. unfold select_many_unchecked.
  destruct ds as [|d0 dr]; [reflexivity|].
  destruct (get a 0) as [fill| |]; cbn [bind]; try reflexivity.
  rewrite (bulk_ext fuel pick c fill a (d0 :: dr) Ha). reflexivity.
Qed.
End KernelExt.

(* two carriers with the same arithmetic whose orders agree on the lane's elements *)
Lemma all_quantiles_carrier_ext : forall A (C1 C2 : carrier A) s kvs n qs,
  c_midpoint C1 = c_midpoint C2 -> c_linear C1 = c_linear C2 ->
  all_quantiles C1 s kvs n qs = all_quantiles C2 s kvs n qs.
Proof.
  intros A C1 C2 s kvs n qs Em El. induction qs as [|q t IH]; [reflexivity|].
  cbn [all_quantiles]. rewrite IH.
  replace (one_quantile C1 s kvs n q) with (one_quantile C2 s kvs n q); [reflexivity|].
  unfold one_quantile, interpolate. rewrite Em, El. reflexivity.
Qed.

Lemma qspecs_carrier_ext : forall A (C1 C2 : carrier A) s srt qs,
  c_midpoint C1 = c_midpoint C2 -> c_linear C1 = c_linear C2 ->
  qspecs C1 s srt qs = qspecs C2 s srt qs.
Proof.
  intros A C1 C2 s srt qs Em El. induction qs as [|q t IH]; [reflexivity|].
  cbn [qspecs]. rewrite IH.
  replace (qspec C1 s srt q) with (qspec C2 s srt q); [reflexivity|].
  unfold qspec, interpolate. rewrite Em, El. reflexivity.
Qed.

Theorem kernel_ext : forall A (C1 C2 : carrier A) (P : A -> Prop) s fuel pick c qs ds lane,
  (forall x y, P x -> P y -> c_leb C1 x y = c_leb C2 x y) ->
  c_midpoint C1 = c_midpoint C2 -> c_linear C1 = c_linear C2 ->
  Forall P lane ->
  quantiles_lane C1 s fuel pick c qs ds lane = quantiles_lane C2 s fuel pick c qs ds lane.
Proof.
  intros A C1 C2 P s fuel pick c qs ds lane Hag Em El Hl.
  unfold quantiles_lane.
  rewrite (select_many_unchecked_ext A (c_leb C1) (c_leb C2) P Hag fuel pick c lane ds Hl).
  destruct (select_many_unchecked A (c_leb C2) fuel pick c lane ds) as [[[kvs lane'] c']| |];
    cbn [bind]; try reflexivity.
  rewrite (all_quantiles_carrier_ext A C1 C2 s kvs (length lane) qs Em El). reflexivity.
Qed.

Lemma insert_ext : forall A (leb1 leb2 : A -> A -> bool) (P : A -> Prop),
  (forall x y, P x -> P y -> leb1 x y = leb2 x y) ->
  forall x l, P x -> Forall P l -> insert A leb1 x l = insert A leb2 x l.
Proof.
  intros A leb1 leb2 P Hag x l Hx Hl. induction Hl as [|h t Hh Ht IH]; [reflexivity|].
  cbn [insert]. rewrite (Hag x h Hx Hh), IH. reflexivity.
Qed.

Lemma insert_Forall : forall A (leb : A -> A -> bool) (P : A -> Prop) x l,
  P x -> Forall P l -> Forall P (insert A leb x l).
Proof.
  intros A leb P x l Hx Hl. induction Hl as [|h t Hh Ht IH]; cbn [insert].
  - constructor; [exact Hx | constructor].
  - destruct (leb x h); constructor; auto.
Qed.

Lemma isort_Forall : forall A (leb : A -> A -> bool) (P : A -> Prop) l,
  Forall P l -> Forall P (isort A leb l).
Proof.
  intros A leb P l Hl. induction Hl as [|h t Hh Ht IH]; cbn [isort]; [constructor|].
  apply insert_Forall; assumption.
Qed.

Lemma isort_ext : forall A (leb1 leb2 : A -> A -> bool) (P : A -> Prop),
  (forall x y, P x -> P y -> leb1 x y = leb2 x y) ->
  forall l, Forall P l -> isort A leb1 l = isort A leb2 l.
Proof.
  intros A leb1 leb2 P Hag l Hl. induction Hl as [|h t Hh Ht IH]; [reflexivity|].
  cbn [isort]. rewrite IH. apply (insert_ext A leb1 leb2 P Hag); [exact Hh|].
  apply isort_Forall. exact Ht.
Qed.

(* ------------------------------------------------------------------ *)
(* 1. The order of N64, totalised                                      *)
(* ------------------------------------------------------------------ *)

Definition nonnan (x : F64) : Prop := fis_nan x = false.

(* fle with NaN placed below every value: coincides with fle on N64 *)
Definition fle_t (x y : F64) : bool := fis_nan x || fle x y.

Definition n64t_carrier : carrier F64 :=
  {| c_leb := fle_t; c_midpoint := n64_midpoint; c_linear := n64_linear |}.

Lemma fle_t_agree : forall x y, nonnan x -> nonnan y -> fle_t x y = fle x y.
Proof. intros x y Hx _. unfold fle_t. unfold nonnan in Hx. rewrite Hx. reflexivity. Qed.

Lemma fle_t_total : total fle_t.
Proof.
  intros x y. unfold fle_t.
  destruct (fis_nan x) eqn:Nx; [left; reflexivity|].
  destruct (fis_nan y) eqn:Ny; [right; reflexivity|].
  cbn [orb]. apply fle_total_nonnan; assumption.
Qed.

Lemma fle_t_trans : transitive fle_t.
Proof.
  intros x y z Hxy Hyz. unfold fle_t in *.
  destruct (fis_nan x) eqn:Nx; [reflexivity|]. cbn [orb] in *.
  destruct (fle_true_not_nan x y Hxy) as [_ Ny]. rewrite Ny in Hyz. cbn [orb] in Hyz.
  eapply fle_trans_nonnan; eassumption.
Qed.

(* the failure that forces the detour: fle itself is not total on F64 *)
Example fle_not_total : ~ total fle.
Proof.
  intros H. destruct (H B754_nan B754_nan) as [E|E]; vm_compute in E; discriminate E.
Qed.

Lemma sorted_fle_t_of_fle : forall srt, Forall nonnan srt -> sorted F64 fle srt -> sorted F64 fle_t srt.
Proof.
  intros srt Hn Hs i j x y Hij Hi Hj.
  rewrite Forall_forall in Hn.
  rewrite fle_t_agree; [eapply Hs; eassumption| |]; apply Hn; eapply nth_error_In; eassumption.
Qed.

Lemma Permutation_Forall_nonnan : forall l l' : list F64,
  Permutation l l' -> Forall nonnan l -> Forall nonnan l'.
Proof. intros l l' Hp Hl. exact (Permutation_Forall Hp Hl). Qed.

Lemma isort_fle_t : forall lane, Forall nonnan lane -> isort F64 fle_t lane = isort F64 fle lane.
Proof. intros lane Hl. apply (isort_ext F64 fle_t fle nonnan fle_t_agree lane Hl). Qed.

Lemma isort_fle_perm : forall lane, Permutation lane (isort F64 fle lane).
Proof. intros lane. apply isort_perm. Qed.

Lemma isort_fle_sorted : forall lane, Forall nonnan lane -> sorted F64 fle (isort F64 fle lane).
Proof.
  intros lane Hl i j x y Hij Hi Hj.
  rewrite <- (isort_fle_t lane Hl) in Hi, Hj.
  pose proof (isort_sorted_rank F64 fle_t fle_t_total fle_t_trans lane i j x y Hij Hi Hj) as H.
  rewrite fle_t_agree in H; [exact H| |];
    apply (proj1 (Forall_forall nonnan (isort F64 fle_t lane)) (isort_Forall F64 fle_t nonnan lane Hl));
    eapply nth_error_In; eassumption.
Qed.

Lemma isort_fle_StronglySorted : forall lane, Forall nonnan lane ->
  StronglySorted (fun x y => fle x y = true) (isort F64 fle lane).
Proof.
  intros lane Hl. rewrite <- (isort_fle_t lane Hl).
  pose proof (isort_sorted F64 fle_t fle_t_total fle_t_trans lane) as Hs.
  pose proof (isort_Forall F64 fle_t nonnan lane Hl) as Hn.
  induction Hs as [|h t Hs IH Hfa]; [constructor|].
  inversion Hn as [|? ? Hh Ht]; subst.
  constructor; [apply IH; exact Ht|].
  rewrite Forall_forall in *. intros y Hy. rewrite <- fle_t_agree; auto.
Qed.

(* StronglySorted (the usual reading) gives the index-wise sortedness used by the theorems *)
Lemma sorted_fle_of_StronglySorted : forall srt, Forall nonnan srt ->
  StronglySorted (fun x y => fle x y = true) srt -> sorted F64 fle srt.
Proof.
  intros srt Hn Hs. induction Hs as [|h t Hs IH Hfa]; intros i j x y Hij Hi Hj.
  - destruct i; discriminate Hi.
  - inversion Hn as [|? ? Hh Ht]; subst.
    destruct i as [|i']; destruct j as [|j']; cbn [nth_error] in Hi, Hj.
    + inversion Hi; inversion Hj; subst. apply fle_refl_nonnan. exact Hh.
    + inversion Hi; subst. apply nth_error_In in Hj. rewrite Forall_forall in Hfa. apply Hfa. exact Hj.
    + lia.
    + apply (IH Ht i' j' x y); auto. lia.
Qed.

(* ---- order equivalence on N64 = equal, or two zeros ---- *)

Definition is_zero (x : F64) : bool := match x with B754_zero _ => true | _ => false end.

(* equal bit pattern, or both zeros: reflexive everywhere (also at NaN), a congruence for + - * / *)
Definition zeq (x y : F64) : Prop := x = y \/ (is_zero x = true /\ is_zero y = true).

Lemma zeq_refl : forall x, zeq x x. Proof. intros x. left. reflexivity. Qed.
Lemma zeq_sym : forall x y, zeq x y -> zeq y x.
Proof. intros x y [E|[A B]]; [left; symmetry; exact E | right; split; assumption]. Qed.
Lemma zeq_trans : forall x y z, zeq x y -> zeq y z -> zeq x z.
Proof.
  intros x y z [E|[A B]] [E'|[A' B']]; subst; try (left; reflexivity);
    right; split; assumption.
Qed.

Lemma fcmp_refl_nonnan : forall x, nonnan x -> fcmp x x = Some Eq.
Proof.
  intros x Hx. destruct x as [s|s| |s m e Hb]; try discriminate Hx.
  - reflexivity.
  - destruct s; reflexivity.
  - unfold fcmp. rewrite Bcompare_correct by reflexivity. rewrite Rcompare_Eq; reflexivity.
Qed.

Lemma fcmp_Eq_zeq : forall x y, fcmp x y = Some Eq -> zeq x y.
Proof.
  intros x y H.
  destruct x as [sx|sx| |sx mx ex Hx]; destruct y as [sy|sy| |sy my ey Hy];
    try (right; split; reflexivity);
    try (destruct sx; discriminate H); try (destruct sy; discriminate H); try discriminate H.
  - destruct sx, sy; try discriminate H; left; reflexivity.
  - unfold fcmp in H. rewrite Bcompare_correct in H by reflexivity.
    inversion H as [H1]. apply Rcompare_Eq_inv in H1.
    left. apply B2R_inj; [reflexivity | reflexivity | exact H1].
Qed.

Lemma fle_antisym_zeq : forall x y, fle x y = true -> fle y x = true -> zeq x y.
Proof.
  intros x y Hxy Hyx. apply fcmp_Eq_zeq.
  unfold fle in *. unfold fcmp in *. rewrite (Bcompare_swap _ _ x y) in Hyx.
  destruct (Bcompare x y) as [[| |]|]; cbn in Hxy, Hyx; try discriminate; reflexivity.
Qed.

Lemma zeq_feq : forall x y, nonnan x -> zeq x y -> feq x y = true.
Proof.
  intros x y Hx [E|[Zx Zy]].
  - subst y. unfold feq. rewrite (fcmp_refl_nonnan x Hx). reflexivity.
  - destruct x; try discriminate Zx. destruct y; try discriminate Zy. reflexivity.
Qed.

Lemma feq_zeq : forall x y, feq x y = true -> zeq x y.
Proof.
  intros x y H. apply fcmp_Eq_zeq. unfold feq in H.
  destruct (fcmp x y) as [[| |]|]; try discriminate H. reflexivity.
Qed.

Lemma feq_fle_iff : forall x y, feq x y = true <-> (fle x y = true /\ fle y x = true).
Proof.
  intros x y. split.
  - intros H. unfold feq, fle in *. unfold fcmp in *. rewrite (Bcompare_swap _ _ x y).
    destruct (Bcompare x y) as [[| |]|]; try discriminate H. split; reflexivity.
  - intros [H1 H2]. pose proof (fle_antisym_zeq x y H1 H2) as Z.
    apply zeq_feq; [|exact Z]. destruct (fle_true_not_nan x y H1) as [Nx _]. exact Nx.
Qed.

(* fle is antisymmetric (up to Leibniz equality) on a NaN-free lane iff it does not hold both zeros *)
Definition no_mixed_zeros (l : list F64) : Prop :=
  ~ (In (B754_zero false) l /\ In (B754_zero true) l).

Definition fle_antisym_on (l : list F64) : Prop :=
  forall x y, In x l -> In y l -> fle x y = true -> fle y x = true -> x = y.

Lemma fle_antisym_of_no_mixed_zeros : forall l, no_mixed_zeros l -> fle_antisym_on l.
Proof.
  intros l Hz x y Hx Hy Hxy Hyx.
  destruct (fle_antisym_zeq x y Hxy Hyx) as [E|[Zx Zy]]; [exact E|].
  destruct x as [sx| | |]; try discriminate Zx. destruct y as [sy| | |]; try discriminate Zy.
  destruct sx, sy; try reflexivity; exfalso; apply Hz; split; assumption.
Qed.

Lemma no_mixed_zeros_of_fle_antisym : forall l, fle_antisym_on l -> no_mixed_zeros l.
Proof.
  intros l Ha [Hp Hm].
  assert (E : B754_zero false = B754_zero true :> F64) by (apply Ha; auto).
  discriminate E.
Qed.

(* ------------------------------------------------------------------ *)
(* A. Exact form: NaN-free lanes on which fle is antisymmetric          *)
(* ------------------------------------------------------------------ *)

Lemma n64t_kernel : forall s fuel pick c qs ds lane, Forall nonnan lane ->
  quantiles_lane n64_carrier s fuel pick c qs ds lane =
  quantiles_lane n64t_carrier s fuel pick c qs ds lane.
Proof.
  intros s fuel pick c qs ds lane Hl.
  apply (kernel_ext F64 n64_carrier n64t_carrier nonnan); [|reflexivity|reflexivity|exact Hl].
  intros x y Hx Hy. symmetry. apply fle_t_agree; assumption.
Qed.

Lemma n64t_qspecs : forall s srt qs, qspecs n64t_carrier s srt qs = qspecs n64_carrier s srt qs.
Proof. intros s srt qs. apply qspecs_carrier_ext; reflexivity. Qed.

(* the packaged hypotheses of Props.C01.lane_ok hold at the totalised carrier *)
Lemma lane_ok_N64t_ds : forall (s : strategy) (lane srt : list F64) (qs : list F64) (ds : list nat),
  1 <= length lane -> (Z.of_nat (length lane) <= 2 ^ 53)%Z ->
  Forall (fun q => valid_q q = true) qs ->
  searched s qs (length lane) = Ok ds ->
  Forall nonnan lane -> fle_antisym_on lane ->
  Permutation lane srt -> sorted F64 fle srt ->
  Props.C01.lane_ok n64t_carrier s lane srt qs ds.
Proof.
  intros s lane srt qs ds Hn1 Hn Hvalid Hds Hnn Hanti Hperm Hsorted.
  assert (Hin : forall x, In x lane -> nonnan x) by (apply Forall_forall; exact Hnn).
  constructor.
  - exact fle_t_total.
  - exact fle_t_trans.
  - exact Hn1.
  - exact (valid_qs_index_in_range qs (length lane) Hn1 Hn Hvalid).
  - exact Hds.
  - exact Hperm.
  - apply sorted_fle_t_of_fle; [|exact Hsorted]. eapply Permutation_Forall_nonnan; eassumption.
  - cbn [c_leb n64t_carrier]. intros x y Hx Hy Hxy Hyx.
    rewrite fle_t_agree in Hxy, Hyx by auto. exact (Hanti x y Hx Hy Hxy Hyx).
Qed.

(* the full result triple against ANY fle-sorted permutation of the lane *)
Theorem quantiles_lane_N64_eq_any : forall (s : strategy) (lane srt : list F64) (qs : list F64) (ds : list nat),
  1 <= length lane -> (Z.of_nat (length lane) <= 2 ^ 53)%Z ->
  Forall (fun q => valid_q q = true) qs ->
  searched s qs (length lane) = Ok ds ->
  Forall nonnan lane -> fle_antisym_on lane ->
  Permutation lane srt -> sorted F64 fle srt ->
  forall fuel pick c, length lane <= fuel ->
  exists lane' c', Permutation lane lane' /\
    quantiles_lane n64_carrier s fuel pick c qs ds lane =
    (vals <- qspecs n64_carrier s srt qs ;; Ok (vals, lane', c')).
Proof.
  intros s lane srt qs ds Hn1 Hn Hvalid Hds Hnn Hanti Hperm Hsorted fuel pick c Hfuel.
  destruct (lane_ok_N64t_ds s lane srt qs ds Hn1 Hn Hvalid Hds Hnn Hanti Hperm Hsorted)
    as [H1 H2 H3 H4 H5 H6 H7 H8].
  destruct (quantiles_lane_eq n64t_carrier s H1 H2 lane srt qs ds H3 H4 H5 H6 H7 H8 fuel pick c Hfuel)
    as (lane' & c' & Pl & E).
  exists lane', c'. split; [exact Pl|].
  rewrite (n64t_kernel s fuel pick c qs ds lane Hnn), E, n64t_qspecs. reflexivity.
Qed.

Theorem quantiles_lane_N64_eq : forall (s : strategy) (lane : list F64) (qs : list F64) (ds : list nat),
  1 <= length lane -> (Z.of_nat (length lane) <= 2 ^ 53)%Z ->
  Forall (fun q => valid_q q = true) qs ->
  searched s qs (length lane) = Ok ds ->
  Forall nonnan lane -> fle_antisym_on lane ->
  forall fuel pick c, length lane <= fuel ->
  exists lane' c', Permutation lane lane' /\
    quantiles_lane n64_carrier s fuel pick c qs ds lane =
    (vals <- qspecs n64_carrier s (isort F64 fle lane) qs ;; Ok (vals, lane', c')).
Proof.
  intros s lane qs ds Hn1 Hn Hvalid Hds Hnn Hanti.
  apply (quantiles_lane_N64_eq_any s lane (isort F64 fle lane) qs ds); auto.
  - apply isort_fle_perm.
  - apply isort_fle_sorted. exact Hnn.
Qed.

(* values only, closed: the analogue of quantiles_lane_Z *)
Theorem quantiles_lane_N64_any_sorted : forall (s : strategy) (lane srt : list F64) (qs : list F64),
  1 <= length lane -> (Z.of_nat (length lane) <= 2 ^ 53)%Z ->
  Forall (fun q => valid_q q = true) qs ->
  Forall nonnan lane -> fle_antisym_on lane ->
  Permutation lane srt -> sorted F64 fle srt ->
  exists ds, searched s qs (length lane) = Ok ds /\
    forall fuel pick c, length lane <= fuel ->
      lane_vals (quantiles_lane n64_carrier s fuel pick c qs ds lane) = qspecs n64_carrier s srt qs.
Proof.
  intros s lane srt qs Hn1 Hn Hvalid Hnn Hanti Hperm Hsorted.
  destruct (searched_Ok s qs (length lane) Hn1 Hn Hvalid) as (ds & Hds).
  exists ds. split; [exact Hds|]. intros fuel pick c Hfuel.
  destruct (quantiles_lane_N64_eq_any s lane srt qs ds Hn1 Hn Hvalid Hds Hnn Hanti Hperm Hsorted
              fuel pick c Hfuel) as (lane' & c' & _ & E).
  rewrite E. unfold lane_vals. destruct (qspecs n64_carrier s srt qs); reflexivity.
Qed.

Theorem quantiles_lane_N64 : forall (s : strategy) (lane : list F64) (qs : list F64),
  1 <= length lane -> (Z.of_nat (length lane) <= 2 ^ 53)%Z ->
  Forall (fun q => valid_q q = true) qs ->
  Forall nonnan lane -> fle_antisym_on lane ->
  exists ds, searched s qs (length lane) = Ok ds /\
    forall fuel pick c, length lane <= fuel ->
      lane_vals (quantiles_lane n64_carrier s fuel pick c qs ds lane) =
      qspecs n64_carrier s (isort F64 fle lane) qs.
Proof.
  intros s lane qs Hn1 Hn Hvalid Hnn Hanti.
  apply (quantiles_lane_N64_any_sorted s lane (isort F64 fle lane) qs); auto.
  - apply isort_fle_perm.
  - apply isort_fle_sorted. exact Hnn.
Qed.

(* the hypothesis in its user-facing form: no NaN and not both zeros *)
Corollary quantiles_lane_N64_no_mixed_zeros : forall (s : strategy) (lane : list F64) (qs : list F64),
  1 <= length lane -> (Z.of_nat (length lane) <= 2 ^ 53)%Z ->
  Forall (fun q => valid_q q = true) qs ->
  Forall nonnan lane -> no_mixed_zeros lane ->
  exists ds, searched s qs (length lane) = Ok ds /\
    forall fuel pick c, length lane <= fuel ->
      lane_vals (quantiles_lane n64_carrier s fuel pick c qs ds lane) =
      qspecs n64_carrier s (isort F64 fle lane) qs.
Proof.
  intros s lane qs Hn1 Hn Hvalid Hnn Hz.
  apply quantiles_lane_N64; auto. apply fle_antisym_of_no_mixed_zeros. exact Hz.
Qed.

(* Ok / Panic are mirrored (Panic: Midpoint / Linear producing NaN - class K1) *)
Theorem quantiles_lane_N64_spec : forall (s : strategy) (lane : list F64) (qs : list F64) (ds : list nat),
  1 <= length lane -> (Z.of_nat (length lane) <= 2 ^ 53)%Z ->
  Forall (fun q => valid_q q = true) qs ->
  searched s qs (length lane) = Ok ds ->
  Forall nonnan lane -> fle_antisym_on lane ->
  forall fuel pick c, length lane <= fuel ->
  (forall vals, qspecs n64_carrier s (isort F64 fle lane) qs = Ok vals ->
     exists lane' c', quantiles_lane n64_carrier s fuel pick c qs ds lane = Ok (vals, lane', c') /\
       Permutation lane lane') /\
  (qspecs n64_carrier s (isort F64 fle lane) qs = Panic ->
     quantiles_lane n64_carrier s fuel pick c qs ds lane = Panic).
Proof.
  intros s lane qs ds Hn1 Hn Hvalid Hds Hnn Hanti fuel pick c Hfuel.
  destruct (quantiles_lane_N64_eq s lane qs ds Hn1 Hn Hvalid Hds Hnn Hanti fuel pick c Hfuel)
    as (lane' & c' & Pl & E).
  split.
  - intros vals Hv. exists lane', c'. rewrite E, Hv. split; [reflexivity | exact Pl].
  - intros Hp. rewrite E, Hp. reflexivity.
Qed.

(* the selecting strategies never fail and return an element of the lane (infinities included) *)
Theorem qspecs_N64_selecting_total : forall (s : strategy) (srt : list F64) (qs : list F64),
  s = Higher \/ s = Lower \/ s = Nearest ->
  1 <= length srt -> (Z.of_nat (length srt) <= 2 ^ 53)%Z ->
  Forall (fun q => valid_q q = true) qs ->
  exists vals, qspecs n64_carrier s srt qs = Ok vals /\ Forall (fun v => In v srt) vals.
Proof.
  intros s srt qs Hsel Hn1 Hn Hvalid. induction Hvalid as [|q t Hq Ht IH].
  - exists []. split; [reflexivity | constructor].
  - destruct IH as (vals & Hv & Hin).
    destruct (C01_index_in_range q (length srt) Hq Hn1 Hn) as (lo & hi & El & Eh & Hlo & Hhi).
    destruct (qspec_selecting n64_carrier s srt q lo hi Hsel El Eh Hlo Hhi) as (v & Ev & _ & Iv).
    exists (v :: vals). cbn [qspecs]. rewrite Ev, Hv. split; [reflexivity|].
    constructor; assumption.
Qed.

(* ------------------------------------------------------------------ *)
(* B. Total PREorders: the kernel equals the specification up to a      *)
(*    relation R that contains the order equivalence and is respected   *)
(*    by the carrier's arithmetic                                       *)
(* ------------------------------------------------------------------ *)

Definition res_rel {T U} (R : T -> U -> Prop) (r1 : res T) (r2 : res U) : Prop :=
  match r1, r2 with
  | Ok a, Ok b => R a b
  | Panic, Panic => True
  | OutOfFuel, OutOfFuel => True
  | _, _ => False
  end.

Definition opt_rel {T U} (R : T -> U -> Prop) (o1 : option T) (o2 : option U) : Prop :=
  match o1, o2 with
  | Some a, Some b => R a b
  | None, None => True
  | _, _ => False
  end.

Lemma res_rel_impl {T U} (R S : T -> U -> Prop) (r1 : res T) (r2 : res U) :
  (forall a b, R a b -> S a b) -> res_rel R r1 r2 -> res_rel S r1 r2.
Proof. intros H. destruct r1, r2; cbn; auto. Qed.

Section PreorderLane.
Context {A : Type}.
Variable C : carrier A.
Variable s : strategy.
Let leb := c_leb C.
Hypothesis leb_total : forall x y, leb x y = true \/ leb y x = true.
Hypothesis leb_trans : forall x y z, leb x y = true -> leb y z = true -> leb x z = true.
Variable R : A -> A -> Prop.
Hypothesis R_mid : forall l l' h h', R l l' -> R h h' ->
  res_rel R (c_midpoint C l h) (c_midpoint C l' h').
Hypothesis R_lin : forall l l' h h' f, R l l' -> R h h' ->
  res_rel R (c_linear C l h f) (c_linear C l' h' f).

Lemma interpolate_R : forall lo lo' hi hi' q n,
  opt_rel R lo lo' -> opt_rel R hi hi' ->
  res_rel R (interpolate C s lo hi q n) (interpolate C s lo' hi' q n).
Proof.
  intros lo lo' hi hi' q n Hlo Hhi.
  assert (Ulo : res_rel R (unwrap lo) (unwrap lo')).
  { destruct lo, lo'; cbn in *; auto. }
  assert (Uhi : res_rel R (unwrap hi) (unwrap hi')).
  { destruct hi, hi'; cbn in *; auto. }
  destruct s; cbn [interpolate].
  - exact Uhi.
  - exact Ulo.
  - destruct (needs_lower Nearest q n); assumption.
  - destruct lo as [l|], lo' as [l'|]; cbn in Hlo; try contradiction; cbn [unwrap bind]; [|exact I].
    destruct hi as [h|], hi' as [h'|]; cbn in Hhi; try contradiction; cbn [unwrap bind]; [|exact I].
    apply R_mid; assumption.
  - destruct lo as [l|], lo' as [l'|]; cbn in Hlo; try contradiction; cbn [unwrap bind]; [|exact I].
    destruct hi as [h|], hi' as [h'|]; cbn in Hhi; try contradiction; cbn [unwrap bind]; [|exact I].
    apply R_lin; assumption.
Qed.

Lemma one_quantile_R : forall kvs srt l q,
  (forall i, In i l -> exists v w, lookup kvs i = Ok v /\ get srt i = Ok w /\ R v w) ->
  (needs_lower s q (length srt) = true ->
     exists i, lower_index q (length srt) = Some i /\ In i l) ->
  (needs_higher s q (length srt) = true ->
     exists i, higher_index q (length srt) = Some i /\ In i l) ->
  res_rel R (one_quantile C s kvs (length srt) q) (qspec C s srt q).
Proof.
  intros kvs srt l q Hlk Hlo Hhi.
  unfold one_quantile, qspec. cbv zeta.
  destruct (needs_lower s q (length srt)) eqn:Bl;
  destruct (needs_higher s q (length srt)) eqn:Bh.
  - destruct (Hlo eq_refl) as (i & -> & Hi). destruct (Hhi eq_refl) as (j & -> & Hj).
    destruct (Hlk i Hi) as (vi & wi & Li & Gi & Ri). destruct (Hlk j Hj) as (vj & wj & Lj & Gj & Rj).
    cbn [unwrap bind]. rewrite Li, Gi, Lj, Gj. cbn [bind].
    apply interpolate_R; cbn; assumption.
  - destruct (Hlo eq_refl) as (i & -> & Hi).
    destruct (Hlk i Hi) as (vi & wi & Li & Gi & Ri).
    cbn [unwrap bind]. rewrite Li, Gi. cbn [bind].
    apply interpolate_R; cbn; auto.
  - destruct (Hhi eq_refl) as (j & -> & Hj).
    destruct (Hlk j Hj) as (vj & wj & Lj & Gj & Rj).
    cbn [unwrap bind]. rewrite Lj, Gj. cbn [bind].
    apply interpolate_R; cbn; auto.
  - cbn [bind]. apply interpolate_R; cbn; auto.
Qed.

Lemma all_quantiles_R : forall kvs srt l qs,
  (forall i, In i l -> exists v w, lookup kvs i = Ok v /\ get srt i = Ok w /\ R v w) ->
  (forall q, In q qs ->
     (needs_lower s q (length srt) = true ->
        exists i, lower_index q (length srt) = Some i /\ In i l) /\
     (needs_higher s q (length srt) = true ->
        exists i, higher_index q (length srt) = Some i /\ In i l)) ->
  res_rel (Forall2 R) (all_quantiles C s kvs (length srt) qs) (qspecs C s srt qs).
Proof.
  intros kvs srt l qs Hlk. induction qs as [|q t IH]; intros Hq.
  - cbn. constructor.
  - cbn [all_quantiles qspecs].
    destruct (Hq q (or_introl eq_refl)) as [Hlo Hhi].
    pose proof (one_quantile_R kvs srt l q Hlk Hlo Hhi) as H1.
    assert (H2 : res_rel (Forall2 R) (all_quantiles C s kvs (length srt) t) (qspecs C s srt t)).
    { apply IH. intros q' Hq'. apply Hq. right. exact Hq'. }
    destruct (one_quantile C s kvs (length srt) q) as [v| |], (qspec C s srt q) as [w| |];
      cbn in H1; try contradiction; cbn [bind]; try exact I.
    destruct (all_quantiles C s kvs (length srt) t) as [vs| |], (qspecs C s srt t) as [ws| |];
      cbn in H2; try contradiction; cbn [bind]; try exact I.
    cbn. constructor; assumption.
Qed.

(* rank uniqueness for total preorders: a placed value is ORDER-EQUIVALENT to what the sorted
   lane holds at the index *)
Lemma lookup_get_sorted_R : forall (lane srt lane' : list A) kvs,
  Permutation lane srt -> sorted A leb srt ->
  (forall x y, In x lane -> In y lane -> leb x y = true -> leb y x = true -> R x y) ->
  Permutation lane lane' ->
  StronglySorted lt (map fst kvs) ->
  Forall (fun kv => placed A leb lane' (fst kv) (snd kv)) kvs ->
  forall i, In i (map fst kvs) -> exists v w, lookup kvs i = Ok v /\ get srt i = Ok w /\ R v w.
Proof.
  intros lane srt lane' kvs Hps Hss Heqv Hpl Hst Hplaced i Hi.
  apply in_map_iff in Hi. destruct Hi as ([k v] & Ek & Hkv). cbn [fst] in Ek. subst k.
  rewrite Forall_forall in Hplaced. specialize (Hplaced (i, v) Hkv). cbn [fst snd] in Hplaced.
  assert (Hp's : Permutation lane' srt).
  { eapply Permutation_trans; [apply Permutation_sym; exact Hpl | exact Hps]. }
  destruct (placed_rank A leb leb_total leb_trans lane' srt i v Hp's Hss Hplaced)
    as (w & Nw & E1 & E2).
  exists v, w. split; [exact (lookup_In kvs i v (StronglySorted_lt_NoDup _ Hst) Hkv)|].
  split; [unfold get; rewrite Nw; reflexivity|].
  apply Heqv; [| |exact E1|exact E2].
  - eapply Permutation_in; [apply Permutation_sym; exact Hpl|].
    eapply placed_In. exact Hplaced.
  - eapply Permutation_in; [apply Permutation_sym; exact Hps|].
    eapply nth_error_In. exact Nw.
Qed.

Theorem quantiles_lane_R : forall (lane srt : list A) (qs : list F64) (ds : list nat),
  1 <= length lane ->
  (forall q, In q qs -> exists lo hi,
     lower_index q (length lane) = Some lo /\ higher_index q (length lane) = Some hi /\
     lo < length lane /\ hi < length lane) ->
  searched s qs (length lane) = Ok ds ->
  Permutation lane srt -> sorted A leb srt ->
  (forall x y, In x lane -> In y lane -> leb x y = true -> leb y x = true -> R x y) ->
  forall fuel pick c, length lane <= fuel ->
  exists lane' c' rv, Permutation lane lane' /\
    quantiles_lane C s fuel pick c qs ds lane = (vals <- rv ;; Ok (vals, lane', c')) /\
    res_rel (Forall2 R) rv (qspecs C s srt qs).
Proof.
  intros lane srt qs ds Hn Hidx Hsearched Hperm Hsorted Heqv fuel pick c Hfuel.
  pose proof Hsearched as Hs0. unfold searched in Hs0. apply bind_Ok_inv in Hs0.
  destruct Hs0 as (l & Hl & Hds).
  assert (Eds : sort_dedup nat Nat.leb l = ds) by congruence. clear Hds.
  assert (Hst : StronglySorted lt ds) by (rewrite <- Eds; apply nat_sort_dedup_lt).
  assert (Hmem : forall i, In i ds <-> In i l) by (intros i; rewrite <- Eds; apply nat_sort_dedup_In).
  assert (Hbound : Forall (fun i => i < length lane) ds).
  { apply Forall_forall. intros i Hi. apply Hmem in Hi.
    pose proof (needed_bound s qs (length lane) l Hl Hidx) as Hb.
    rewrite Forall_forall in Hb. apply Hb. exact Hi. }
  assert (Hpos : 0 < fuel) by lia.
  destruct (select_many_unchecked_spec C leb_total leb_trans fuel pick c lane ds Hst Hbound Hfuel Hpos)
    as (kvs & lane' & c' & Rn & Pl & Ll & Ek & Hplaced).
  exists lane', c', (all_quantiles C s kvs (length lane) qs). split; [exact Pl|].
  split.
  { unfold quantiles_lane. rewrite Rn. cbn [bind]. reflexivity. }
  assert (Elen : length lane = length srt) by (apply Permutation_length; exact Hperm).
  rewrite Elen.
  apply (all_quantiles_R kvs srt ds qs).
  - rewrite <- Ek. rewrite <- Ek in Hst.
    apply (lookup_get_sorted_R lane srt lane' kvs Hperm Hsorted Heqv Pl Hst Hplaced).
  - rewrite <- Elen. intros q Hq.
    destruct (needed_In s qs (length lane) l Hl) as [H1 _].
    destruct (H1 q Hq) as [Hlo Hhi]. split; intros Hb.
    + destruct (Hlo Hb) as (i & Ei & Hi). exists i. split; [exact Ei|]. apply Hmem. exact Hi.
    + destruct (Hhi Hb) as (i & Ei & Hi). exists i. split; [exact Ei|]. apply Hmem. exact Hi.
Qed.
End PreorderLane.

(* ---- the N64 arithmetic respects zeq ---- *)

Ltac zeq_cases :=
  first [ left; reflexivity | right; split; reflexivity ].

Lemma is_zero_inv : forall x, is_zero x = true -> exists b, x = B754_zero b.
Proof. intros x H. destruct x as [b| | |]; try discriminate H. exists b. reflexivity. Qed.

Lemma fadd_zeq : forall x x' y y', zeq x x' -> zeq y y' -> zeq (fadd x y) (fadd x' y').
Proof.
  intros x x' y y' [Ex|[Zx Zx']] [Ey|[Zy Zy']].
  - subst. left. reflexivity.
  - subst x'. apply is_zero_inv in Zy, Zy'. destruct Zy as [b ->], Zy' as [b' ->].
    destruct x as [sx|sx| |sx mx ex Hx]; [destruct sx, b, b' | | |]; zeq_cases.
  - subst y'. apply is_zero_inv in Zx, Zx'. destruct Zx as [b ->], Zx' as [b' ->].
    destruct y as [sy|sy| |sy my ey Hy]; [destruct sy, b, b' | | |]; zeq_cases.
  - apply is_zero_inv in Zx, Zx', Zy, Zy'.
    destruct Zx as [a ->], Zx' as [a' ->], Zy as [b ->], Zy' as [b' ->].
    destruct a, a', b, b'; zeq_cases.
Qed.

Lemma fsub_zeq : forall x x' y y', zeq x x' -> zeq y y' -> zeq (fsub x y) (fsub x' y').
Proof.
  intros x x' y y' [Ex|[Zx Zx']] [Ey|[Zy Zy']].
  - subst. left. reflexivity.
  - subst x'. apply is_zero_inv in Zy, Zy'. destruct Zy as [b ->], Zy' as [b' ->].
    destruct x as [sx|sx| |sx mx ex Hx]; [destruct sx, b, b' | | |]; zeq_cases.
  - subst y'. apply is_zero_inv in Zx, Zx'. destruct Zx as [b ->], Zx' as [b' ->].
    destruct y as [sy|sy| |sy my ey Hy]; [destruct sy, b, b' | | |]; zeq_cases.
  - apply is_zero_inv in Zx, Zx', Zy, Zy'.
    destruct Zx as [a ->], Zx' as [a' ->], Zy as [b ->], Zy' as [b' ->].
    destruct a, a', b, b'; zeq_cases.
Qed.

(* multiplication by a FIXED left factor (the fraction) *)
Lemma fmul_zeq_r : forall f y y', zeq y y' -> zeq (fmul f y) (fmul f y').
Proof.
  intros f y y' [Ey|[Zy Zy']].
  - subst. left. reflexivity.
  - apply is_zero_inv in Zy, Zy'. destruct Zy as [b ->], Zy' as [b' ->].
    destruct f as [sf|sf| |sf mf ef Hf]; zeq_cases.
Qed.

(* division by a FIXED nonzero finite divisor (the constant 2).  Division does NOT respect zeq in
   its second argument: x / +0 = +inf, x / -0 = -inf. *)
Lemma fdiv_zeq_l : forall x x' d, is_finite_strict d = true -> zeq x x' -> zeq (fdiv x d) (fdiv x' d).
Proof.
  intros x x' d Hd [Ex|[Zx Zx']].
  - subst. left. reflexivity.
  - apply is_zero_inv in Zx, Zx'. destruct Zx as [b ->], Zx' as [b' ->].
    destruct d as [sd|sd| |sd md ed Hd']; try discriminate Hd. zeq_cases.
Qed.

Example fdiv_not_zeq_r :
  zeq (B754_zero false) (B754_zero true) /\
  ~ zeq (fdiv fone (B754_zero false)) (fdiv fone (B754_zero true)).
Proof.
  split; [right; split; reflexivity|].
  intros [E|[Z _]]; [vm_compute in E; discriminate E | vm_compute in Z; discriminate Z].
Qed.

Lemma ftwo_strict : is_finite_strict ftwo = true.
Proof. vm_compute. reflexivity. Qed.

Lemma zeq_is_nan : forall x y, zeq x y -> fis_nan x = fis_nan y.
Proof.
  intros x y [E|[Zx Zy]]; [subst; reflexivity|].
  destruct x; try discriminate Zx. destruct y; try discriminate Zy. reflexivity.
Qed.

Lemma n64_ok_zeq : forall x y, zeq x y -> res_rel zeq (n64_ok x) (n64_ok y).
Proof.
  intros x y Z. unfold n64_ok. rewrite (zeq_is_nan x y Z).
  destruct (fis_nan y); cbn; [exact I | exact Z].
Qed.

Lemma n64_midpoint_zeq : forall l l' h h', zeq l l' -> zeq h h' ->
  res_rel zeq (n64_midpoint l h) (n64_midpoint l' h').
Proof.
  intros l l' h h' Zl Zh. unfold n64_midpoint. apply n64_ok_zeq.
  apply fadd_zeq; [exact Zl|]. apply fdiv_zeq_l; [exact ftwo_strict|].
  apply fsub_zeq; assumption.
Qed.

Lemma n64_linear_zeq : forall l l' h h' f, zeq l l' -> zeq h h' ->
  res_rel zeq (n64_linear l h f) (n64_linear l' h' f).
Proof.
  intros l l' h h' f Zl Zh. unfold n64_linear. apply n64_ok_zeq.
  apply fadd_zeq; [exact Zl|]. apply fmul_zeq_r. apply fsub_zeq; assumption.
Qed.

(* the -0 subtlety of the task statement, evaluated *)
Example fadd_zero_signs :
  fadd (B754_zero true) (B754_zero false) = B754_zero false /\
  fadd (B754_zero true) (B754_zero true) = B754_zero true.
Proof. split; reflexivity. Qed.

(* numerical equality, N64's own == *)
Definition nequiv (x y : F64) : Prop := feq x y = true.

(* every value the specification returns on a NaN-free lane is non-NaN *)
Lemma n64_ok_nonnan : forall x v, n64_ok x = Ok v -> nonnan v.
Proof.
  intros x v H. unfold n64_ok in H. destruct (fis_nan x) eqn:E; [discriminate H|].
  inversion H; subst. exact E.
Qed.

Lemma qspec_N64_nonnan : forall s srt q v, Forall nonnan srt ->
  qspec n64_carrier s srt q = Ok v -> nonnan v.
Proof.
  intros s srt q v Hn H. unfold qspec in H. cbv zeta in H.
  apply bind_Ok_inv in H. destruct H as (lo & Hlo & H).
  apply bind_Ok_inv in H. destruct H as (hi & Hhi & H).
  assert (Lo : forall x, lo = Some x -> nonnan x).
  { intros x ->. destruct (needs_lower s q (length srt)); [|discriminate Hlo].
    apply bind_Ok_inv in Hlo. destruct Hlo as (i & _ & Hlo).
    apply bind_Ok_inv in Hlo. destruct Hlo as (w & G & Hlo). inversion Hlo; subst.
    eapply get_Forall; eauto. }
  assert (Hi : forall x, hi = Some x -> nonnan x).
  { intros x ->. destruct (needs_higher s q (length srt)); [|discriminate Hhi].
    apply bind_Ok_inv in Hhi. destruct Hhi as (i & _ & Hhi).
    apply bind_Ok_inv in Hhi. destruct Hhi as (w & G & Hhi). inversion Hhi; subst.
    eapply get_Forall; eauto. }
  destruct s; cbn [interpolate] in H.
  - destruct hi as [x|]; [|discriminate H]. inversion H; subst. auto.
  - destruct lo as [x|]; [|discriminate H]. inversion H; subst. auto.
  - destruct (needs_lower Nearest q (length srt)).
    + destruct lo as [x|]; [|discriminate H]. inversion H; subst. auto.
    + destruct hi as [x|]; [|discriminate H]. inversion H; subst. auto.
  - apply bind_Ok_inv in H. destruct H as (l & _ & H).
    apply bind_Ok_inv in H. destruct H as (h & _ & H).
    cbn [c_midpoint n64_carrier] in H. unfold n64_midpoint in H. eapply n64_ok_nonnan; eauto.
  - apply bind_Ok_inv in H. destruct H as (l & _ & H).
    apply bind_Ok_inv in H. destruct H as (h & _ & H).
    cbn [c_linear n64_carrier] in H. unfold n64_linear in H. eapply n64_ok_nonnan; eauto.
Qed.

Lemma qspecs_N64_nonnan : forall s srt qs vals, Forall nonnan srt ->
  qspecs n64_carrier s srt qs = Ok vals -> Forall nonnan vals.
Proof.
  intros s srt qs vals Hn H. apply (proj1 (qspecs_Forall2 n64_carrier s srt qs vals)) in H.
  induction H as [|q v qs' vs' Hv _ IH]; [constructor|].
  constructor; [|exact IH].
  exact (qspec_N64_nonnan s srt q v Hn Hv).
Qed.

Lemma Forall2_zeq_nequiv : forall vs ws, Forall nonnan ws -> Forall2 zeq vs ws -> Forall2 nequiv vs ws.
Proof.
  intros vs ws Hn H. induction H as [|v w vs' ws' Z _ IH]; constructor.
  - inversion Hn as [|? ? Hw _]; subst. unfold nequiv. apply zeq_feq; [|exact Z].
    unfold nonnan in *. rewrite (zeq_is_nan v w Z). exact Hw.
  - apply IH. inversion Hn; assumption.
Qed.

Lemma Forall2_zeq_sym : forall vs ws, Forall2 zeq vs ws -> Forall2 zeq ws vs.
Proof. intros vs ws H. induction H; constructor; auto using zeq_sym. Qed.

Lemma Forall2_zeq_trans : forall us vs ws, Forall2 zeq us vs -> Forall2 zeq vs ws -> Forall2 zeq us ws.
Proof.
  intros us vs ws H. revert ws. induction H as [|u v us' vs' Z _ IH]; intros ws H2;
    inversion H2; subst; constructor; eauto using zeq_trans.
Qed.

Lemma Forall2_zeq_nonnan : forall vs ws, Forall2 zeq vs ws -> Forall nonnan ws -> Forall nonnan vs.
Proof.
  intros vs ws H Hn. induction H as [|v w vs' ws' Z _ IH]; [constructor|].
  inversion Hn as [|? ? Hw Hws]; subst. constructor; [|apply IH; exact Hws].
  unfold nonnan in *. rewrite (zeq_is_nan v w Z). exact Hw.
Qed.

(* B, kernel level, structural form *)
Theorem quantiles_lane_N64_zeq : forall (s : strategy) (lane srt : list F64) (qs : list F64) (ds : list nat),
  1 <= length lane -> (Z.of_nat (length lane) <= 2 ^ 53)%Z ->
  Forall (fun q => valid_q q = true) qs ->
  searched s qs (length lane) = Ok ds ->
  Forall nonnan lane ->
  Permutation lane srt -> sorted F64 fle srt ->
  forall fuel pick c, length lane <= fuel ->
  exists lane' c' rv, Permutation lane lane' /\
    quantiles_lane n64_carrier s fuel pick c qs ds lane = (vals <- rv ;; Ok (vals, lane', c')) /\
    res_rel (Forall2 zeq) rv (qspecs n64_carrier s srt qs).
Proof.
  intros s lane srt qs ds Hn1 Hn Hvalid Hds Hnn Hperm Hsorted fuel pick c Hfuel.
  assert (Hin : forall x, In x lane -> nonnan x) by (apply Forall_forall; exact Hnn).
  destruct (quantiles_lane_R n64t_carrier s fle_t_total fle_t_trans zeq
              n64_midpoint_zeq n64_linear_zeq lane srt qs ds Hn1
              (valid_qs_index_in_range qs (length lane) Hn1 Hn Hvalid) Hds Hperm)
    with (fuel := fuel) (pick := pick) (c := c) as (lane' & c' & rv & Pl & E & Hr).
  - apply sorted_fle_t_of_fle; [|exact Hsorted]. eapply Permutation_Forall_nonnan; eassumption.
  - cbn [c_leb n64t_carrier]. intros x y Hx Hy Hxy Hyx.
    rewrite fle_t_agree in Hxy, Hyx by auto. exact (fle_antisym_zeq x y Hxy Hyx).
  - exact Hfuel.
  - exists lane', c', rv. split; [exact Pl|]. split.
    + rewrite (n64t_kernel s fuel pick c qs ds lane Hnn). exact E.
    + rewrite <- n64t_qspecs. exact Hr.
Qed.

Lemma res_rel_zeq_nequiv : forall s srt qs rv, Forall nonnan srt ->
  res_rel (Forall2 zeq) rv (qspecs n64_carrier s srt qs) ->
  res_rel (Forall2 nequiv) rv (qspecs n64_carrier s srt qs).
Proof.
  intros s srt qs rv Hn H.
  destruct (qspecs n64_carrier s srt qs) as [ws| |] eqn:E; destruct rv as [vs| |]; cbn in *; auto.
  apply Forall2_zeq_nequiv; [|exact H]. eapply qspecs_N64_nonnan; eauto.
Qed.

(* B, values: for EVERY NaN-free lane, against ANY fle-sorted permutation of it *)
Theorem quantiles_lane_N64_nequiv_any : forall (s : strategy) (lane srt : list F64) (qs : list F64),
  1 <= length lane -> (Z.of_nat (length lane) <= 2 ^ 53)%Z ->
  Forall (fun q => valid_q q = true) qs ->
  Forall nonnan lane ->
  Permutation lane srt -> sorted F64 fle srt ->
  exists ds, searched s qs (length lane) = Ok ds /\
    forall fuel pick c, length lane <= fuel ->
      res_rel (Forall2 nequiv)
        (lane_vals (quantiles_lane n64_carrier s fuel pick c qs ds lane))
        (qspecs n64_carrier s srt qs).
Proof.
  intros s lane srt qs Hn1 Hn Hvalid Hnn Hperm Hsorted.
  destruct (searched_Ok s qs (length lane) Hn1 Hn Hvalid) as (ds & Hds).
  exists ds. split; [exact Hds|]. intros fuel pick c Hfuel.
  destruct (quantiles_lane_N64_zeq s lane srt qs ds Hn1 Hn Hvalid Hds Hnn Hperm Hsorted
              fuel pick c Hfuel) as (lane' & c' & rv & _ & E & Hr).
  apply (res_rel_zeq_nequiv s srt qs) in Hr; [|eapply Permutation_Forall_nonnan; eassumption].
  rewrite E. unfold lane_vals. destruct rv; cbn [bind fst]; exact Hr.
Qed.

Theorem quantiles_lane_N64_nequiv : forall (s : strategy) (lane : list F64) (qs : list F64),
  1 <= length lane -> (Z.of_nat (length lane) <= 2 ^ 53)%Z ->
  Forall (fun q => valid_q q = true) qs ->
  Forall nonnan lane ->
  exists ds, searched s qs (length lane) = Ok ds /\
    forall fuel pick c, length lane <= fuel ->
      res_rel (Forall2 nequiv)
        (lane_vals (quantiles_lane n64_carrier s fuel pick c qs ds lane))
        (qspecs n64_carrier s (isort F64 fle lane) qs).
Proof.
  intros s lane qs Hn1 Hn Hvalid Hnn.
  apply (quantiles_lane_N64_nequiv_any s lane (isort F64 fle lane) qs); auto.
  - apply isort_fle_perm.
  - apply isort_fle_sorted. exact Hnn.
Qed.

(* consequently: two runs with different pivot oracles, counters and fuels agree for N64's == *)
Theorem quantiles_lane_N64_deterministic_nequiv : forall (s : strategy) (lane : list F64) (qs : list F64),
  1 <= length lane -> (Z.of_nat (length lane) <= 2 ^ 53)%Z ->
  Forall (fun q => valid_q q = true) qs ->
  Forall nonnan lane ->
  exists ds, searched s qs (length lane) = Ok ds /\
    forall fuel1 pick1 c1 fuel2 pick2 c2, length lane <= fuel1 -> length lane <= fuel2 ->
      res_rel (Forall2 nequiv)
        (lane_vals (quantiles_lane n64_carrier s fuel1 pick1 c1 qs ds lane))
        (lane_vals (quantiles_lane n64_carrier s fuel2 pick2 c2 qs ds lane)).
Proof.
  intros s lane qs Hn1 Hn Hvalid Hnn.
  destruct (searched_Ok s qs (length lane) Hn1 Hn Hvalid) as (ds & Hds).
  exists ds. split; [exact Hds|]. intros fuel1 pick1 c1 fuel2 pick2 c2 Hf1 Hf2.
  set (srt := isort F64 fle lane).
  assert (Hperm : Permutation lane srt) by apply isort_fle_perm.
  assert (Hsorted : sorted F64 fle srt) by (apply isort_fle_sorted; exact Hnn).
  assert (Hsn : Forall nonnan srt) by (eapply Permutation_Forall_nonnan; eassumption).
  destruct (quantiles_lane_N64_zeq s lane srt qs ds Hn1 Hn Hvalid Hds Hnn Hperm Hsorted
              fuel1 pick1 c1 Hf1) as (l1 & d1 & rv1 & _ & E1 & Hr1).
  destruct (quantiles_lane_N64_zeq s lane srt qs ds Hn1 Hn Hvalid Hds Hnn Hperm Hsorted
              fuel2 pick2 c2 Hf2) as (l2 & d2 & rv2 & _ & E2 & Hr2).
  rewrite E1, E2. unfold lane_vals.
  destruct (qspecs n64_carrier s srt qs) as [ws| |] eqn:Es;
    destruct rv1 as [v1| |]; cbn in Hr1; try contradiction;
    destruct rv2 as [v2| |]; cbn in Hr2; try contradiction; cbn [bind fst res_rel]; auto.
  pose proof (qspecs_N64_nonnan s srt qs ws Hsn Es) as Hw.
  apply Forall2_zeq_nequiv.
  - eapply Forall2_zeq_nonnan; eauto.
  - eapply Forall2_zeq_trans; [exact Hr1|]. apply Forall2_zeq_sym. exact Hr2.
Qed.

(* ------------------------------------------------------------------ *)
(* C. Array level, generically in the lane pre/postcondition           *)
(* ------------------------------------------------------------------ *)

Section LanesGen.
Context {A : Type}.
Variable C : carrier A.
Variable s : strategy.
Variable pick : nat -> nat -> nat.
Variable qs : list F64.
Variable n : nat.
Variable ds : list nat.
Variable good : list A -> Prop.                 (* what is assumed of a lane's contents *)
Variable Q : list A -> res (list A) -> Prop.    (* what is concluded of its values *)
Hypothesis Hstep : forall (lane : list A) c, length lane = n -> good lane ->
  exists lane' c' rv, Permutation lane lane' /\
    quantiles_lane C s (S (length lane)) pick c qs ds lane = (vals <- rv ;; Ok (vals, lane', c')) /\
    Q lane rv.

Lemma good_after_write : forall (buf : list A) cs lane' tl,
  (forall o, In o cs -> ~ In o (concat tl)) ->
  (forall cs0 l, In cs0 (cs :: tl) -> vread buf cs0 = Ok l -> good l) ->
  forall cs0 l, In cs0 tl -> vread (vwrite buf cs lane') cs0 = Ok l -> good l.
Proof.
  intros buf cs lane' tl Dj Hgood cs0 l0 Hcs0 V0. apply (Hgood cs0 l0); [right; exact Hcs0|].
  rewrite <- V0. symmetry. apply vread_frame. intros o Ho. apply vwrite_frame.
  intros HI. apply (Dj o HI). apply (In_concat_lane tl cs0 o); assumption.
Qed.

Theorem q_lanes_inv_gen : forall lanes (buf : list A) c vs buf' c',
  lanes_wf buf lanes -> Forall (fun cs => length cs = n) lanes ->
  (forall cs l, In cs lanes -> vread buf cs = Ok l -> good l) ->
  q_lanes C s pick c qs ds buf lanes = Ok (vs, buf', c') ->
  length vs = length lanes /\ length buf' = length buf /\
  (forall o, ~ In o (concat lanes) -> nth_error buf' o = nth_error buf o) /\
  (forall k cs, nth_error lanes k = Some cs ->
     exists l l' vals, vread buf cs = Ok l /\ nth_error vs k = Some vals /\
       Q l (Ok vals) /\ vread buf' cs = Ok l' /\ Permutation l l').
Proof.
  induction lanes as [|cs tl IH]; intros buf c vs buf' c' [ND F] Hlens Hgood Hrun.
  - cbn [q_lanes] in Hrun. inversion Hrun; subst vs buf' c'.
    split; [reflexivity|]. split; [reflexivity|]. split; [reflexivity|].
    intros [|k] cs Hk; cbn [nth_error] in Hk; discriminate Hk.
  - cbn [concat] in ND, F.
    destruct (NoDup_app_inv _ _ ND) as (ND1 & ND2 & Dj).
    apply Forall_app in F. destruct F as [F1 F2].
    pose proof (Forall_inv Hlens) as Hlen_cs. cbn beta in Hlen_cs.
    pose proof (Forall_inv_tail Hlens) as Hlens_tl.
    cbn [q_lanes] in Hrun.
    apply bind_Ok_inv in Hrun. destruct Hrun as (lane & V & Hrun).
    apply bind_Ok_inv in Hrun. destruct Hrun as ([[vals lane'] c1] & QL & Hrun).
    apply bind_Ok_inv in Hrun. destruct Hrun as ([[vs0 b2] c2] & E2 & Hrun).
    inversion Hrun; subst vs buf' c'. clear Hrun.
    assert (Llane : length lane = length cs) by (eapply vread_length; exact V).
    assert (Llane_n : length lane = n) by (rewrite Llane; exact Hlen_cs).
    destruct (Hstep lane c Llane_n (Hgood cs lane (or_introl eq_refl) V))
      as (lane1 & c1' & rv & HP & Estep & HQ).
    rewrite Estep in QL.
    apply bind_Ok_inv in QL. destruct QL as (vals0 & Hq & QL).
    inversion QL; subst vals0 lane1 c1'. clear QL. rewrite Hq in HQ.
    assert (Llane' : length lane' = length cs).
    { rewrite <- (Permutation_length HP). exact Llane. }
    assert (V1 : vread (vwrite buf cs lane') cs = Ok lane').
    { apply vread_vwrite; assumption. }
    assert (W1 : lanes_wf (vwrite buf cs lane') tl).
    { split; [exact ND2|]. eapply Forall_impl; [|exact F2].
      intros o Ho. cbn beta. rewrite vwrite_length. exact Ho. }
    destruct (IH (vwrite buf cs lane') c1 vs0 b2 c2 W1 Hlens_tl
                (good_after_write buf cs lane' tl Dj Hgood) E2)
      as (Lvs & Lb & Fr2 & Each).
    split. { cbn [length]. rewrite Lvs. reflexivity. }
    split. { rewrite Lb. apply vwrite_length. }
    split.
    { intros o NI. cbn [concat] in NI. rewrite Fr2.
      - apply vwrite_frame. intros HI. apply NI. apply in_or_app. left. exact HI.
      - intros HI. apply NI. apply in_or_app. right. exact HI. }
    intros [|k] cs0 Hk; cbn [nth_error] in Hk.
    + inversion Hk; subst cs0. exists lane, lane', vals.
      split; [exact V|]. split; [reflexivity|]. split; [exact HQ|]. split; [|exact HP].
      rewrite <- V1. apply vread_frame. intros o Ho. apply Fr2. apply Dj. exact Ho.
    + destruct (Each k cs0 Hk) as (l0 & l0' & vals0 & V0 & Nv0 & Hq0 & V0' & HP0).
      exists l0, l0', vals0.
      split.
      { rewrite <- V0. symmetry. apply vread_frame. intros o Ho. apply vwrite_frame.
        intros HI. apply (Dj o HI).
        apply (In_concat_lane tl cs0 o); [eapply nth_error_In; exact Hk | exact Ho]. }
      split; [exact Nv0|]. split; [exact Hq0|]. split; [exact V0' | exact HP0].
Qed.

Theorem q_lanes_total_gen : forall lanes (buf : list A) c,
  lanes_wf buf lanes -> Forall (fun cs => length cs = n) lanes ->
  (forall cs l, In cs lanes -> vread buf cs = Ok l -> good l) ->
  (forall cs l rv, In cs lanes -> vread buf cs = Ok l -> Q l rv -> exists vals, rv = Ok vals) ->
  exists r, q_lanes C s pick c qs ds buf lanes = Ok r.
Proof.
  induction lanes as [|cs tl IH]; intros buf c [ND F] Hlens Hgood Hspec.
  - eexists. reflexivity.
  - cbn [concat] in ND, F.
    destruct (NoDup_app_inv _ _ ND) as (ND1 & ND2 & Dj).
    apply Forall_app in F. destruct F as [F1 F2].
    pose proof (Forall_inv Hlens) as Hlen_cs. cbn beta in Hlen_cs.
    pose proof (Forall_inv_tail Hlens) as Hlens_tl.
    destruct (vread_ok buf cs F1) as (lane & V & Llane & _).
    assert (Llane_n : length lane = n) by (rewrite Llane; exact Hlen_cs).
    destruct (Hstep lane c Llane_n (Hgood cs lane (or_introl eq_refl) V))
      as (lane' & c1 & rv & HP & Estep & HQ).
    destruct (Hspec cs lane rv (or_introl eq_refl) V HQ) as (vals & Hq).
    assert (W1 : lanes_wf (vwrite buf cs lane') tl).
    { split; [exact ND2|]. eapply Forall_impl; [|exact F2].
      intros o Ho. cbn beta. rewrite vwrite_length. exact Ho. }
    destruct (IH (vwrite buf cs lane') c1 W1 Hlens_tl
                (good_after_write buf cs lane' tl Dj Hgood)) as ([[vs0 b2] c2] & E2).
    { intros cs0 l0 rv0 Hcs0 V0. apply (Hspec cs0 l0 rv0); [right; exact Hcs0|].
      rewrite <- V0. symmetry. apply vread_frame. intros o Ho. apply vwrite_frame.
      intros HI. apply (Dj o HI). apply (In_concat_lane tl cs0 o); assumption. }
    cbn [q_lanes]. rewrite V. cbn [bind]. rewrite Estep, Hq. cbn [bind]. rewrite E2. cbn [bind].
    eexists. reflexivity.
Qed.
End LanesGen.

Lemma vread_incl : forall A (buf : list A) cs l, vread buf cs = Ok l -> incl l buf.
Proof.
  intros A buf cs. induction cs as [|c t IH]; intros l H.
  - cbn [vread] in H. inversion H; subst. intros x [].
  - apply vread_cons_inv in H. destruct H as (x & r & -> & G & V).
    apply get_Ok_inv in G. destruct G as [Nx _].
    intros y [Hy|Hy]; [subst y; eapply nth_error_In; exact Nx | exact (IH r V y Hy)].
Qed.

(* a buffer-level sufficient condition: no NaN anywhere (the N64 type) and not both zeros *)
Lemma lanes_good_of_buf : forall (buf : list F64) cs l,
  Forall nonnan buf -> no_mixed_zeros buf -> vread buf cs = Ok l ->
  Forall nonnan l /\ fle_antisym_on l.
Proof.
  intros buf cs l Hn Hz V. pose proof (vread_incl F64 buf cs l V) as Hi. split.
  - rewrite Forall_forall in *. intros x Hx. apply Hn. apply Hi. exact Hx.
  - apply fle_antisym_of_no_mixed_zeros. intros [Hp Hm]. apply Hz. split; apply Hi; assumption.
Qed.

Lemma lanes_nonnan_of_buf : forall (buf : list F64) cs l,
  Forall nonnan buf -> vread buf cs = Ok l -> Forall nonnan l.
Proof.
  intros buf cs l Hn V. pose proof (vread_incl F64 buf cs l V) as Hi.
  rewrite Forall_forall in *. intros x Hx. apply Hn. apply Hi. exact Hx.
Qed.

Definition lane_good_A (l : list F64) : Prop := Forall nonnan l /\ fle_antisym_on l.

Section LanesN64.
Variable s : strategy.
Variable pick : nat -> nat -> nat.
Variable qs : list F64.
Variable n : nat.
Variable ds : list nat.
Hypothesis Hn1 : 1 <= n.
Hypothesis Hn : (Z.of_nat n <= 2 ^ 53)%Z.
Hypothesis Hvalid : Forall (fun q => valid_q q = true) qs.
Hypothesis Hds : searched s qs n = Ok ds.

Lemma lane_step_A : forall (lane : list F64) c, length lane = n -> lane_good_A lane ->
  exists lane' c' rv, Permutation lane lane' /\
    quantiles_lane n64_carrier s (S (length lane)) pick c qs ds lane =
      (vals <- rv ;; Ok (vals, lane', c')) /\
    rv = qspecs n64_carrier s (isort F64 fle lane) qs.
Proof.
  intros lane c Hlen [Hnn Hanti].
  assert (H1 : 1 <= length lane) by (rewrite Hlen; exact Hn1).
  assert (H2 : (Z.of_nat (length lane) <= 2 ^ 53)%Z) by (rewrite Hlen; exact Hn).
  assert (H3 : searched s qs (length lane) = Ok ds) by (rewrite Hlen; exact Hds).
  assert (H4 : length lane <= S (length lane)) by lia.
  destruct (quantiles_lane_N64_eq s lane qs ds H1 H2 Hvalid H3 Hnn Hanti (S (length lane)) pick c H4)
    as (lane' & c' & Pl & E).
  exists lane', c', (qspecs n64_carrier s (isort F64 fle lane) qs).
  split; [exact Pl|]. split; [exact E | reflexivity].
Qed.

Lemma lane_step_B : forall (lane : list F64) c, length lane = n -> Forall nonnan lane ->
  exists lane' c' rv, Permutation lane lane' /\
    quantiles_lane n64_carrier s (S (length lane)) pick c qs ds lane =
      (vals <- rv ;; Ok (vals, lane', c')) /\
    res_rel (Forall2 nequiv) rv (qspecs n64_carrier s (isort F64 fle lane) qs).
Proof.
  intros lane c Hlen Hnn.
  assert (Hperm : Permutation lane (isort F64 fle lane)) by apply isort_fle_perm.
  assert (H1 : 1 <= length lane) by (rewrite Hlen; exact Hn1).
  assert (H2 : (Z.of_nat (length lane) <= 2 ^ 53)%Z) by (rewrite Hlen; exact Hn).
  assert (H3 : searched s qs (length lane) = Ok ds) by (rewrite Hlen; exact Hds).
  assert (H4 : length lane <= S (length lane)) by lia.
  destruct (quantiles_lane_N64_zeq s lane (isort F64 fle lane) qs ds H1 H2 Hvalid H3 Hnn Hperm
              (isort_fle_sorted lane Hnn) (S (length lane)) pick c H4)
    as (lane' & c' & rv & Pl & E & Hr).
  exists lane', c', rv. split; [exact Pl|]. split; [exact E|].
  apply res_rel_zeq_nequiv; [|exact Hr]. eapply Permutation_Forall_nonnan; eassumption.
Qed.
End LanesN64.

(* (d) exact form at array level *)
Theorem quantiles_axis_values_N64 : forall s pick qs n other (buf : list F64) lanes vs buf' c,
  (Z.of_nat n <= 2 ^ 53)%Z ->
  Forall (fun cs => length cs = n) lanes -> lanes_wf buf lanes ->
  length qs * other <> 0 ->
  (forall cs l, In cs lanes -> vread buf cs = Ok l -> Forall nonnan l /\ fle_antisym_on l) ->
  quantiles_axis n64_carrier s pick qs n other buf lanes = Q_Ok (vs, buf', c) ->
  length vs = length lanes /\ length buf' = length buf /\
  (forall o, ~ In o (concat lanes) -> nth_error buf' o = nth_error buf o) /\
  (forall k cs, nth_error lanes k = Some cs ->
     exists l l' vals, vread buf cs = Ok l /\ nth_error vs k = Some vals /\
       Ok vals = qspecs n64_carrier s (isort F64 fle l) qs /\
       vread buf' cs = Ok l' /\ Permutation l l').
Proof.
  intros s pick qs n other buf lanes vs buf' c Hn Hlens Hwf Hnz Hgood Hrun.
  destruct (quantiles_axis_run F64 n64_carrier s pick qs n other buf lanes (vs, buf', c) Hrun Hnz)
    as (Hfi & Hn0 & ds & Hds & Hloop).
  apply first_invalid_None in Hfi.
  assert (Hn1 : 1 <= n) by lia.
  exact (q_lanes_inv_gen n64_carrier s pick qs n ds lane_good_A
           (fun l rv => rv = qspecs n64_carrier s (isort F64 fle l) qs)
           (lane_step_A s pick qs n ds Hn1 Hn Hfi Hds)
           lanes buf 0 vs buf' c Hwf Hlens Hgood Hloop).
Qed.

(* (d) up-to-== form at array level: only NaN-freeness is assumed *)
Theorem quantiles_axis_values_N64_nequiv : forall s pick qs n other (buf : list F64) lanes vs buf' c,
  (Z.of_nat n <= 2 ^ 53)%Z ->
  Forall (fun cs => length cs = n) lanes -> lanes_wf buf lanes ->
  length qs * other <> 0 ->
  (forall cs l, In cs lanes -> vread buf cs = Ok l -> Forall nonnan l) ->
  quantiles_axis n64_carrier s pick qs n other buf lanes = Q_Ok (vs, buf', c) ->
  length vs = length lanes /\ length buf' = length buf /\
  (forall o, ~ In o (concat lanes) -> nth_error buf' o = nth_error buf o) /\
  (forall k cs, nth_error lanes k = Some cs ->
     exists l l' vals svals, vread buf cs = Ok l /\ nth_error vs k = Some vals /\
       qspecs n64_carrier s (isort F64 fle l) qs = Ok svals /\ Forall2 nequiv vals svals /\
       vread buf' cs = Ok l' /\ Permutation l l').
Proof.
  intros s pick qs n other buf lanes vs buf' c Hn Hlens Hwf Hnz Hgood Hrun.
  destruct (quantiles_axis_run F64 n64_carrier s pick qs n other buf lanes (vs, buf', c) Hrun Hnz)
    as (Hfi & Hn0 & ds & Hds & Hloop).
  apply first_invalid_None in Hfi.
  assert (Hn1 : 1 <= n) by lia.
  destruct (q_lanes_inv_gen n64_carrier s pick qs n ds (Forall nonnan)
           (fun l rv => res_rel (Forall2 nequiv) rv (qspecs n64_carrier s (isort F64 fle l) qs))
           (lane_step_B s pick qs n ds Hn1 Hn Hfi Hds)
           lanes buf 0 vs buf' c Hwf Hlens Hgood Hloop) as (Lvs & Lb & Fr & Each).
  split; [exact Lvs|]. split; [exact Lb|]. split; [exact Fr|].
  intros k cs Hk. destruct (Each k cs Hk) as (l & l' & vals & V & Nv & HQ & V' & HP).
  destruct (qspecs n64_carrier s (isort F64 fle l) qs) as [svals| |] eqn:Es; cbn in HQ; try contradiction.
  exists l, l', vals, svals. auto 10.
Qed.

(* (c) shape *)
Theorem quantiles_axis_shape_N64 : forall s pick qs n other (buf : list F64) lanes vs buf' c,
  (Z.of_nat n <= 2 ^ 53)%Z ->
  Forall (fun cs => length cs = n) lanes -> lanes_wf buf lanes ->
  (forall cs l, In cs lanes -> vread buf cs = Ok l -> Forall nonnan l) ->
  quantiles_axis n64_carrier s pick qs n other buf lanes = Q_Ok (vs, buf', c) ->
  length qs * other <> 0 ->
  length vs = length lanes /\ Forall (fun v => length v = length qs) vs.
Proof.
  intros s pick qs n other buf lanes vs buf' c Hn Hlens Hwf Hgood Hrun Hnz.
  destruct (quantiles_axis_values_N64_nequiv s pick qs n other buf lanes vs buf' c Hn Hlens Hwf Hnz Hgood Hrun)
    as (Lvs & _ & _ & Each).
  split; [exact Lvs|].
  apply Forall_forall. intros v Hv.
  destruct (In_nth_error _ _ Hv) as (k & Nk).
  assert (Hk : k < length lanes).
  { rewrite <- Lvs. apply nth_error_Some. rewrite Nk. discriminate. }
  destruct (nth_error lanes k) as [cs|] eqn:Ncs.
  - destruct (Each k cs Ncs) as (l & l' & vals & svals & _ & Nv & Hq & F2 & _).
    rewrite Nk in Nv. inversion Nv; subst vals.
    rewrite (Forall2_length' _ _ _ F2). eapply qspecs_length. exact Hq.
  - apply nth_error_None in Ncs. lia.
Qed.

(* totality: valid q, non-empty axis, NaN-free lanes: Q_Ok unless some lane's specification fails *)
Theorem quantiles_axis_total_N64 : forall s pick qs n other (buf : list F64) lanes,
  Forall (fun q => valid_q q = true) qs -> 1 <= n -> (Z.of_nat n <= 2 ^ 53)%Z ->
  Forall (fun cs => length cs = n) lanes -> lanes_wf buf lanes ->
  (forall cs l, In cs lanes -> vread buf cs = Ok l -> Forall nonnan l) ->
  (forall cs l, In cs lanes -> vread buf cs = Ok l ->
     exists vals, qspecs n64_carrier s (isort F64 fle l) qs = Ok vals) ->
  exists r, quantiles_axis n64_carrier s pick qs n other buf lanes = Q_Ok r.
Proof.
  intros s pick qs n other buf lanes Hvalid Hn1 Hn Hlens Hwf Hgood Hspec.
  unfold quantiles_axis.
  rewrite (proj2 (first_invalid_None qs) Hvalid).
  destruct (Nat.eqb_spec n 0) as [E0|_]; [lia|].
  destruct (Nat.eqb (length qs * other) 0); [eexists; reflexivity|].
  destruct (searched_Ok s qs n Hn1 Hn Hvalid) as (ds & Hds). rewrite Hds.
  destruct (q_lanes_total_gen n64_carrier s pick qs n ds (Forall nonnan)
           (fun l rv => res_rel (Forall2 nequiv) rv (qspecs n64_carrier s (isort F64 fle l) qs))
           (lane_step_B s pick qs n ds Hn1 Hn Hvalid Hds)
           lanes buf 0 Hwf Hlens Hgood) as (r & Er).
  { intros cs l rv Hcs V HQ. destruct (Hspec cs l Hcs V) as (svals & Es).
    rewrite Es in HQ. destruct rv as [vals| |]; cbn in HQ; try contradiction.
    exists vals. reflexivity. }
  rewrite Er. exists r. reflexivity.
Qed.

(* the selecting strategies never panic on NaN-free input, infinities and mixed zeros included *)
Theorem quantiles_axis_total_N64_selecting : forall s pick qs n other (buf : list F64) lanes,
  s = Higher \/ s = Lower \/ s = Nearest ->
  Forall (fun q => valid_q q = true) qs -> 1 <= n -> (Z.of_nat n <= 2 ^ 53)%Z ->
  Forall (fun cs => length cs = n) lanes -> lanes_wf buf lanes ->
  (forall cs l, In cs lanes -> vread buf cs = Ok l -> Forall nonnan l) ->
  exists r, quantiles_axis n64_carrier s pick qs n other buf lanes = Q_Ok r.
Proof.
  intros s pick qs n other buf lanes Hsel Hvalid Hn1 Hn Hlens Hwf Hgood.
  apply quantiles_axis_total_N64; auto.
  intros cs l Hcs V.
  assert (Hl : length (isort F64 fle l) = n).
  { rewrite <- (Permutation_length (isort_fle_perm l)). rewrite (vread_length buf cs l V).
    rewrite Forall_forall in Hlens. apply Hlens. exact Hcs. }
  destruct (qspecs_N64_selecting_total s (isort F64 fle l) qs Hsel) as (vals & Hv & _);
    try (rewrite Hl); auto.
  exists vals. exact Hv.
Qed.

(* buffer-level reading of the hypothesis of the exact form *)
Corollary quantiles_axis_values_N64_buf : forall s pick qs n other (buf : list F64) lanes vs buf' c,
  (Z.of_nat n <= 2 ^ 53)%Z ->
  Forall (fun cs => length cs = n) lanes -> lanes_wf buf lanes ->
  length qs * other <> 0 ->
  Forall nonnan buf -> no_mixed_zeros buf ->
  quantiles_axis n64_carrier s pick qs n other buf lanes = Q_Ok (vs, buf', c) ->
  length vs = length lanes /\ length buf' = length buf /\
  (forall o, ~ In o (concat lanes) -> nth_error buf' o = nth_error buf o) /\
  (forall k cs, nth_error lanes k = Some cs ->
     exists l l' vals, vread buf cs = Ok l /\ nth_error vs k = Some vals /\
       Ok vals = qspecs n64_carrier s (isort F64 fle l) qs /\
       vread buf' cs = Ok l' /\ Permutation l l').
Proof.
  intros s pick qs n other buf lanes vs buf' c Hn Hlens Hwf Hnz Hnn Hz Hrun.
  apply (quantiles_axis_values_N64 s pick qs n other buf lanes vs buf' c Hn Hlens Hwf Hnz); [|exact Hrun].
  intros cs l _ V. exact (lanes_good_of_buf buf cs l Hnn Hz V).
Qed.

(* the guards at the N64 carrier *)
Theorem quantiles_axis_invalid_N64 : forall s pick qs n other (buf : list F64) lanes q,
  first_invalid qs = Some q ->
  quantiles_axis n64_carrier s pick qs n other buf lanes = Q_Err (QE_Invalid q).
Proof. intros s. exact (quantiles_axis_invalid F64 n64_carrier s). Qed.

Theorem quantiles_axis_empty_N64 : forall s pick qs n other (buf : list F64) lanes,
  first_invalid qs = None -> n = 0 ->
  quantiles_axis n64_carrier s pick qs n other buf lanes = Q_Err QE_Empty.
Proof. intros s. exact (quantiles_axis_empty F64 n64_carrier s). Qed.

Theorem quantiles_axis_nothing_N64 : forall s pick qs n other (buf : list F64) lanes,
  first_invalid qs = None -> n <> 0 -> length qs * other = 0 ->
  quantiles_axis n64_carrier s pick qs n other buf lanes = Q_Ok ([], buf, 0).
Proof. intros s. exact (quantiles_axis_nothing F64 n64_carrier s). Qed.

(* ------------------------------------------------------------------ *)
(* D. Concrete evaluations (bit patterns)                              *)
(* ------------------------------------------------------------------ *)

Definition bits_res (r : res (list F64)) : list Z :=
  match r with Ok vs => map bits_of_f64 vs | Panic => [(-1)%Z] | OutOfFuel => [(-2)%Z] end.

Definition pick_first (c n : nat) : nat := 0.
Definition pick_last (c n : nat) : nat := n - 1.

(* [1.0; -0.0; +inf; 1.0; -2.5] *)
Definition lane5 : list F64 := map f64_of_bits
  [4607182418800017408; 9223372036854775808; 9218868437227405312; 4607182418800017408;
   13836183955189006336]%Z.
(* q = 0.25, 0.5, 0.1, 1.0, 0.0 *)
Definition qs5 : list F64 := map f64_of_bits
  [4598175219545276416; 4602678819172646912; 4591870180066957722; 4607182418800017408; 0]%Z.
(* q = 0.25, 0.5, 0.1 *)
Definition qs3 : list F64 := map f64_of_bits
  [4598175219545276416; 4602678819172646912; 4591870180066957722]%Z.

Ltac nonnan_list :=
  repeat (apply Forall_cons; [vm_compute; reflexivity|]); apply Forall_nil.

Lemma lane5_nonnan : Forall nonnan lane5.
Proof. unfold lane5. cbn [map]. nonnan_list. Qed.

Lemma lane5_no_mixed_zeros : no_mixed_zeros lane5.
Proof.
  intros [Hp _]. unfold lane5 in Hp. cbn [map In] in Hp.
  repeat (destruct Hp as [Hp|Hp]; [vm_compute in Hp; discriminate Hp|]). exact Hp.
Qed.

Lemma qs5_valid : Forall (fun q => valid_q q = true) qs5.
Proof. unfold qs5. cbn [map]. repeat (apply Forall_cons; [vm_compute; reflexivity|]). apply Forall_nil. Qed.

Lemma qs3_valid : Forall (fun q => valid_q q = true) qs3.
Proof. unfold qs3. cbn [map]. repeat (apply Forall_cons; [vm_compute; reflexivity|]). apply Forall_nil. Qed.

(* D: the kernel evaluated with two different pivot oracles: duplicates, +inf and -0 in the lane.
   Lower returns the very elements (-0 keeps its sign, +inf is returned for q = 1); Linear returns
   +0 at q = 0.25 (lower = higher = -0: -0 + 0 * (-0 - -0) = +0) whatever the pivots. *)
Example D_lane5_lower :
  bits_res (lane_vals (quantiles_lane n64_carrier Lower 6 pick_first 0 qs5 [0; 1; 2; 4] lane5)) =
    [9223372036854775808; 4607182418800017408; 13836183955189006336; 9218868437227405312;
     13836183955189006336]%Z /\
  bits_res (lane_vals (quantiles_lane n64_carrier Lower 6 pick_last 0 qs5 [0; 1; 2; 4] lane5)) =
    [9223372036854775808; 4607182418800017408; 13836183955189006336; 9218868437227405312;
     13836183955189006336]%Z /\
  searched Lower qs5 5 = Ok [0; 1; 2; 4].
Proof. repeat split; vm_compute; reflexivity. Qed.

Example D_lane5_linear :
  bits_res (lane_vals (quantiles_lane n64_carrier Linear 6 pick_first 0 qs3 [0; 1; 2] lane5)) =
    [0; 4607182418800017408; 13832806255468478464]%Z /\
  bits_res (lane_vals (quantiles_lane n64_carrier Linear 6 pick_last 0 qs3 [0; 1; 2] lane5)) =
    [0; 4607182418800017408; 13832806255468478464]%Z /\
  searched Linear qs3 5 = Ok [0; 1; 2].
Proof. repeat split; vm_compute; reflexivity. Qed.

(* class K1 on N64: at q = 1 both neighbours are +inf, inf - inf = NaN, the N64 constructor panics;
   specification and kernel panic alike, whatever the pivots *)
Example D_lane5_midpoint_panics :
  qspecs n64_carrier Midpoint (isort F64 fle lane5) qs5 = Panic /\
  quantiles_lane n64_carrier Midpoint 6 pick_first 0 qs5 [0; 1; 2; 4] lane5 = Panic /\
  quantiles_lane n64_carrier Midpoint 6 pick_last 0 qs5 [0; 1; 2; 4] lane5 = Panic.
Proof. repeat split; vm_compute; reflexivity. Qed.

(* non-vacuity of A: the theorem applied to lane5 *)
Example A_lane5 : forall fuel pick c, 5 <= fuel ->
  bits_res (lane_vals (quantiles_lane n64_carrier Linear fuel pick c qs3 [0; 1; 2] lane5)) =
    [0; 4607182418800017408; 13832806255468478464]%Z.
Proof.
  intros fuel pick c Hfuel.
  destruct (quantiles_lane_N64_no_mixed_zeros Linear lane5 qs3) as (ds & Hds & Hrun).
  - cbn. lia.
  - cbn. lia.
  - exact qs3_valid.
  - exact lane5_nonnan.
  - exact lane5_no_mixed_zeros.
  - assert (E : searched Linear qs3 (length lane5) = Ok [0; 1; 2]) by (vm_compute; reflexivity).
    rewrite E in Hds. inversion Hds; subst ds.
    rewrite (Hrun fuel pick c Hfuel). vm_compute. reflexivity.
Qed.

(* WHY the exact form needs its hypothesis: on the lane [+0; -0] the bit pattern returned for
   q = 0 and q = 1 depends on the pivots ... *)
Definition lane_pm : list F64 := map f64_of_bits [0; 9223372036854775808]%Z.
Definition qs01 : list F64 := map f64_of_bits [0; 4607182418800017408]%Z.

Example mixed_zeros_pivot_dependence :
  searched Lower qs01 2 = Ok [0; 1] /\
  bits_res (lane_vals (quantiles_lane n64_carrier Lower 3 pick_first 0 qs01 [0; 1] lane_pm)) =
    [0; 9223372036854775808]%Z /\
  bits_res (lane_vals (quantiles_lane n64_carrier Lower 3 pick_last 0 qs01 [0; 1] lane_pm)) =
    [9223372036854775808; 0]%Z /\
  bits_res (qspecs n64_carrier Lower (isort F64 fle lane_pm) qs01) = [0; 9223372036854775808]%Z.
Proof. repeat split; vm_compute; reflexivity. Qed.

(* ... so the exact statement is FALSE without fle_antisym_on *)
Example exact_form_fails_on_mixed_zeros :
  Forall nonnan lane_pm /\ ~ fle_antisym_on lane_pm /\
  lane_vals (quantiles_lane n64_carrier Lower 3 pick_last 0 qs01 [0; 1] lane_pm) <>
  qspecs n64_carrier Lower (isort F64 fle lane_pm) qs01.
Proof.
  split; [unfold lane_pm; cbn [map]; nonnan_list|]. split.
  - intros Ha. apply no_mixed_zeros_of_fle_antisym in Ha. apply Ha.
    split; vm_compute; auto.
  - intros E. apply (f_equal bits_res) in E. vm_compute in E. discriminate E.
Qed.

(* ... while B applies: non-vacuity of B on the mixed-zero lane *)
Example B_lane_pm : forall fuel1 pick1 c1 fuel2 pick2 c2, 2 <= fuel1 -> 2 <= fuel2 ->
  res_rel (Forall2 nequiv)
    (lane_vals (quantiles_lane n64_carrier Lower fuel1 pick1 c1 qs01 [0; 1] lane_pm))
    (lane_vals (quantiles_lane n64_carrier Lower fuel2 pick2 c2 qs01 [0; 1] lane_pm)).
Proof.
  destruct (quantiles_lane_N64_deterministic_nequiv Lower lane_pm qs01) as (ds & Hds & Hrun).
  - cbn. lia.
  - cbn. lia.
  - unfold qs01. cbn [map]. repeat (apply Forall_cons; [vm_compute; reflexivity|]). apply Forall_nil.
  - unfold lane_pm. cbn [map]. nonnan_list.
  - assert (E : searched Lower qs01 (length lane_pm) = Ok [0; 1]) by (vm_compute; reflexivity).
    rewrite E in Hds. inversion Hds; subst ds. exact Hrun.
Qed.

(* C: a 3 x 2 array, lanes along axis 0 (cells interleaved), Lower / Midpoint, two oracles.
   buffer = [1.0; -0.0; -2.5; -0.0; +inf; 1.0]; lane 0 = [1.0; -2.5; +inf], lane 1 = [-0.0; -0.0; 1.0] *)
Definition buf6 : list F64 := map f64_of_bits
  [4607182418800017408; 9223372036854775808; 13836183955189006336; 9223372036854775808;
   9218868437227405312; 4607182418800017408]%Z.
Definition lanes6 : list (list nat) := [[0; 2; 4]; [1; 3; 5]].
Definition qs_c : list F64 := map f64_of_bits [4602678819172646912; 0]%Z.   (* 0.5, 0.0 *)

Example C_axis_hypotheses :
  lanes_wf buf6 lanes6 /\ Forall (fun cs => length cs = 3) lanes6 /\
  Forall nonnan buf6 /\ no_mixed_zeros buf6 /\ Forall (fun q => valid_q q = true) qs_c /\
  (Z.of_nat 3 <= 2 ^ 53)%Z /\ length qs_c * 2 <> 0.
Proof.
  split.
  { split; cbn [lanes6 concat app].
    - repeat (constructor; [cbn [In]; intuition discriminate|]). constructor.
    - cbn. repeat (constructor; [lia|]). constructor. }
  split; [repeat constructor|].
  split; [unfold buf6; cbn [map]; nonnan_list|].
  split.
  { intros [Hp _]. unfold buf6 in Hp. cbn [map In] in Hp.
    repeat (destruct Hp as [Hp|Hp]; [vm_compute in Hp; discriminate Hp|]). exact Hp. }
  split.
  { unfold qs_c. cbn [map]. repeat (apply Forall_cons; [vm_compute; reflexivity|]). apply Forall_nil. }
  split; [cbn; lia | cbn; lia].
Qed.

Definition axis_vals (r : qout (list (list F64) * list F64 * nat)) : list (list Z) :=
  match r with Q_Ok (vs, _, _) => map (map bits_of_f64) vs | _ => [] end.

Example C_axis_run :
  axis_vals (quantiles_axis n64_carrier Midpoint pick_first qs_c 3 2 buf6 lanes6) =
    [[4607182418800017408; 13836183955189006336]; [0; 0]]%Z /\
  axis_vals (quantiles_axis n64_carrier Midpoint pick_last qs_c 3 2 buf6 lanes6) =
    [[4607182418800017408; 13836183955189006336]; [0; 0]]%Z /\
  axis_vals (quantiles_axis n64_carrier Lower pick_first qs_c 3 2 buf6 lanes6) =
    [[4607182418800017408; 13836183955189006336]; [9223372036854775808; 9223372036854775808]]%Z /\
  axis_vals (quantiles_axis n64_carrier Lower pick_last qs_c 3 2 buf6 lanes6) =
    [[4607182418800017408; 13836183955189006336]; [9223372036854775808; 9223372036854775808]]%Z.
Proof. repeat split; vm_compute; reflexivity. Qed.

Print Assumptions kernel_ext.
Print Assumptions fle_not_total.
Print Assumptions fle_antisym_of_no_mixed_zeros.
Print Assumptions quantiles_lane_N64_eq_any.
Print Assumptions quantiles_lane_N64.
Print Assumptions quantiles_lane_N64_spec.
Print Assumptions quantiles_lane_R.
Print Assumptions n64_midpoint_zeq.
Print Assumptions n64_linear_zeq.
Print Assumptions quantiles_lane_N64_nequiv_any.
Print Assumptions quantiles_lane_N64_deterministic_nequiv.
Print Assumptions quantiles_axis_values_N64.
Print Assumptions quantiles_axis_values_N64_nequiv.
Print Assumptions quantiles_axis_shape_N64.
Print Assumptions quantiles_axis_total_N64.
Print Assumptions quantiles_axis_total_N64_selecting.
Print Assumptions exact_form_fails_on_mixed_zeros.

(* packaged forms used by Props/C01_code_n64.v *)
Lemma no_mixed_zeros_iff_fle_antisym : forall l : list F64, no_mixed_zeros l <-> fle_antisym_on l.
Proof.
  intros l. split; [exact (fle_antisym_of_no_mixed_zeros l) | exact (no_mixed_zeros_of_fle_antisym l)].
Qed.

Lemma isort_fle_perm_sorted : forall lane : list F64, Forall nonnan lane ->
  Permutation lane (isort F64 fle lane) /\
  StronglySorted (fun x y => fle x y = true) (isort F64 fle lane).
Proof. intros lane H. split; [apply isort_fle_perm | exact (isort_fle_StronglySorted lane H)]. Qed.
Print Assumptions no_mixed_zeros_iff_fle_antisym.
Print Assumptions isort_fle_perm_sorted.
