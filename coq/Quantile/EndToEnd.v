(* End-to-end statements for the integer carrier: the packaged hypotheses of Props.C01.lane_ok
   hold for every integer lane and every list of valid q (T1); hence the lane kernel returns
   exactly the sort-based specification evaluated on the insertion-sorted lane with no remaining
   hypothesis about order or indexes (T2); and the array-level routine quantiles_axis returns,
   for every lane, the specification evaluated on the lane's ORIGINAL contents (T3). *)
From Coq Require Import List Arith ZArith Lia Permutation Bool Reals Sorting.Sorted.
Import ListNotations.
From NS Require Import Base.Order Base.Res Base.ArrLemmas Base.SortDedup Base.SortDedupProofs
  Sort.Rank Sort.SelectManyProofs Num.F64 Quantile.Index Quantile.IndexProofs
  Quantile.Interp Quantile.Lane Quantile.Spec Quantile.LaneProofs Quantile.Laws
  Mem.Buffer Mem.BufferProofs Mem.LanesProofs Run.RunQuant Props.C01.
Local Open Scope nat_scope.

(* ------------------------------------------------------------------ *)
(* 0. Integer order facts                                              *)
(* ------------------------------------------------------------------ *)

Lemma Z_leb_antisym : forall x y : Z, Z.leb x y = true -> Z.leb y x = true -> x = y.
Proof. intros x y Hxy Hyx. apply Z.leb_le in Hxy. apply Z.leb_le in Hyx. lia. Qed.

Lemma isort_Z_sorted_rank : forall l : list Z, sorted Z Z.leb (isort Z Z.leb l).
Proof.
  intros l. apply (sorted_of_StronglySorted Z Z.leb Z_leb_total).
  apply (isort_sorted Z Z.leb Z_leb_total Z_leb_trans).
Qed.

Lemma isort_Z_StronglySorted_le : forall l : list Z, StronglySorted Z.le (isort Z Z.leb l).
Proof.
  intros l.
  apply (StronglySorted_impl_gen Z (fun x y => Z.leb x y = true) Z.le).
  - intros x y Hxy. apply Z.leb_le. exact Hxy.
  - apply (isort_sorted Z Z.leb Z_leb_total Z_leb_trans).
Qed.

(* any sorted permutation of an integer lane IS the insertion-sorted lane *)
Lemma sorted_perm_is_isort : forall lane srt : list Z,
  Permutation lane srt -> StronglySorted Z.le srt -> srt = isort Z Z.leb lane.
Proof.
  intros lane srt Hperm Hsorted.
  apply (L8_sorted_unique lane lane srt (isort Z Z.leb lane)).
  - apply Permutation_refl.
  - exact Hsorted.
  - apply isort_Z_StronglySorted_le.
  - exact Hperm.
  - apply isort_perm.
Qed.

Lemma valid_qs_index_in_range : forall (qs : list F64) (n : nat),
  1 <= n -> (Z.of_nat n <= 2 ^ 53)%Z -> Forall (fun q => valid_q q = true) qs ->
  forall q, In q qs -> exists lo hi,
    lower_index q n = Some lo /\ higher_index q n = Some hi /\ lo < n /\ hi < n.
Proof.
  intros qs n Hn1 Hn Hvalid q Hq.
  rewrite Forall_forall in Hvalid.
  apply C01_index_in_range; [apply Hvalid; exact Hq | exact Hn1 | exact Hn].
Qed.

(* [searched] never fails for valid q and 1 <= n <= 2^53 *)
Lemma searched_Ok : forall (s : strategy) (qs : list F64) (n : nat),
  1 <= n -> (Z.of_nat n <= 2 ^ 53)%Z -> Forall (fun q => valid_q q = true) qs ->
  exists ds, searched s qs n = Ok ds.
Proof.
  intros s qs n Hn1 Hn Hvalid.
  destruct (needed_Ok s qs n (valid_qs_index_in_range qs n Hn1 Hn Hvalid)) as (l & Hl).
  exists (sort_dedup nat Nat.leb l). unfold searched. rewrite Hl. reflexivity.
Qed.

(* ------------------------------------------------------------------ *)
(* T1. lane_ok holds for every integer lane and every list of valid q  *)
(* ------------------------------------------------------------------ *)

Lemma lane_ok_Z_ds : forall (t : ity) (s : strategy) (lane : list Z) (qs : list F64) (ds : list nat),
  1 <= length lane -> (Z.of_nat (length lane) <= 2 ^ 53)%Z ->
  Forall (fun q => valid_q q = true) qs ->
  searched s qs (length lane) = Ok ds ->
  Props.C01.lane_ok (int_carrier t) s lane (isort Z Z.leb lane) qs ds.
Proof.
  intros t s lane qs ds Hn1 Hn Hvalid Hds.
  constructor.
  - exact Z_leb_total.
  - exact Z_leb_trans.
  - exact Hn1.
  - exact (valid_qs_index_in_range qs (length lane) Hn1 Hn Hvalid).
  - exact Hds.
  - apply isort_perm.
  - exact (isort_Z_sorted_rank lane).
  - intros x y _ _ Hxy Hyx. exact (Z_leb_antisym x y Hxy Hyx).
Qed.

Theorem lane_ok_Z : forall (t : ity) (s : strategy) (lane : list Z) (qs : list F64),
  (1 <= length lane)%nat -> (Z.of_nat (length lane) <= 2 ^ 53)%Z ->
  Forall (fun q => valid_q q = true) qs ->
  exists ds, searched s qs (length lane) = Ok ds /\
    Props.C01.lane_ok (int_carrier t) s lane (isort Z Z.leb lane) qs ds.
Proof.
  intros t s lane qs Hn1 Hn Hvalid.
  destruct (searched_Ok s qs (length lane) Hn1 Hn Hvalid) as (ds & Hds).
  exists ds. split; [exact Hds|].
  exact (lane_ok_Z_ds t s lane qs ds Hn1 Hn Hvalid Hds).
Qed.

(* ------------------------------------------------------------------ *)
(* T2. The closed per-lane end-to-end statement                        *)
(* ------------------------------------------------------------------ *)

Theorem quantiles_lane_Z : forall (t : ity) (s : strategy) (lane : list Z) (qs : list F64),
  (1 <= length lane)%nat -> (Z.of_nat (length lane) <= 2 ^ 53)%Z ->
  Forall (fun q => valid_q q = true) qs ->
  exists ds, searched s qs (length lane) = Ok ds /\
    forall fuel pick c, (length lane <= fuel)%nat ->
      lane_vals (quantiles_lane (int_carrier t) s fuel pick c qs ds lane) =
      qspecs (int_carrier t) s (isort Z Z.leb lane) qs.
Proof.
  intros t s lane qs Hn1 Hn Hvalid.
  destruct (lane_ok_Z t s lane qs Hn1 Hn Hvalid) as (ds & Hds & Hok).
  exists ds. split; [exact Hds|].
  intros fuel pick c Hfuel.
  exact (C01_lane_values Z (int_carrier t) s lane (isort Z Z.leb lane) qs ds Hok fuel pick c Hfuel).
Qed.

(* the same against ANY sorted permutation of the lane *)
Theorem quantiles_lane_Z_any_sorted : forall (t : ity) (s : strategy) (lane srt : list Z) (qs : list F64),
  (1 <= length lane)%nat -> (Z.of_nat (length lane) <= 2 ^ 53)%Z ->
  Forall (fun q => valid_q q = true) qs ->
  Permutation lane srt -> StronglySorted Z.le srt ->
  exists ds, searched s qs (length lane) = Ok ds /\
    forall fuel pick c, (length lane <= fuel)%nat ->
      lane_vals (quantiles_lane (int_carrier t) s fuel pick c qs ds lane) =
      qspecs (int_carrier t) s srt qs.
Proof.
  intros t s lane srt qs Hn1 Hn Hvalid Hperm Hsorted.
  rewrite (sorted_perm_is_isort lane srt Hperm Hsorted).
  exact (quantiles_lane_Z t s lane qs Hn1 Hn Hvalid).
Qed.

(* the full result triple, not only the values: the run IS the specification followed by
   packaging; the lane is only permuted *)
Theorem quantiles_lane_Z_eq : forall (t : ity) (s : strategy) (lane : list Z) (qs : list F64) (ds : list nat),
  (1 <= length lane)%nat -> (Z.of_nat (length lane) <= 2 ^ 53)%Z ->
  Forall (fun q => valid_q q = true) qs ->
  searched s qs (length lane) = Ok ds ->
  forall fuel pick c, (length lane <= fuel)%nat ->
  exists lane' c', Permutation lane lane' /\
    quantiles_lane (int_carrier t) s fuel pick c qs ds lane =
    (vals <- qspecs (int_carrier t) s (isort Z Z.leb lane) qs ;; Ok (vals, lane', c')).
Proof.
  intros t s lane qs ds Hn1 Hn Hvalid Hds fuel pick c Hfuel.
  destruct (lane_ok_Z_ds t s lane qs ds Hn1 Hn Hvalid Hds) as [H1 H2 H3 H4 H5 H6 H7 H8].
  exact (quantiles_lane_eq (int_carrier t) s H1 H2 lane (isort Z Z.leb lane) qs ds
           H3 H4 H5 H6 H7 H8 fuel pick c Hfuel).
Qed.

(* ------------------------------------------------------------------ *)
(* T3. Array level                                                     *)
(* ------------------------------------------------------------------ *)

Lemma first_invalid_None : forall qs,
  first_invalid qs = None <-> Forall (fun q => valid_q q = true) qs.
Proof.
  induction qs as [|q tl IH]; cbn [first_invalid].
  - split; [intros _; constructor | reflexivity].
  - destruct (valid_q q) eqn:Hq.
    + rewrite IH. split.
      * intros Htl. constructor; assumption.
      * intros Hall. inversion Hall; assumption.
    + split; [discriminate|]. intros Hall. inversion Hall as [|? ? Hq' _]; subst. congruence.
Qed.

(* (a) the first invalid q is reported, whatever the carrier *)
Theorem quantiles_axis_invalid : forall A (C : carrier A) s pick qs n other (buf : list A) lanes q,
  first_invalid qs = Some q ->
  quantiles_axis C s pick qs n other buf lanes = Q_Err (QE_Invalid q).
Proof.
  intros A C s pick qs n other buf lanes q Hq.
  unfold quantiles_axis. rewrite Hq. reflexivity.
Qed.

(* and it is indeed invalid, and the first such *)
Lemma first_invalid_Some : forall qs q, first_invalid qs = Some q ->
  exists pre post, qs = pre ++ q :: post /\ valid_q q = false /\
    Forall (fun q' => valid_q q' = true) pre.
Proof.
  induction qs as [|q0 tl IH]; intros q Hq; cbn [first_invalid] in Hq; [discriminate|].
  destruct (valid_q q0) eqn:Hq0.
  - destruct (IH q Hq) as (pre & post & E & Hbad & Hpre).
    exists (q0 :: pre), post. split; [rewrite E; reflexivity|]. split; [exact Hbad|].
    constructor; assumption.
  - inversion Hq; subst q0. exists [], tl. split; [reflexivity|]. split; [exact Hq0 | constructor].
Qed.

(* (b) an empty axis *)
Theorem quantiles_axis_empty : forall A (C : carrier A) s pick qs n other (buf : list A) lanes,
  first_invalid qs = None -> n = 0 ->
  quantiles_axis C s pick qs n other buf lanes = Q_Err QE_Empty.
Proof.
  intros A C s pick qs n other buf lanes Hq Hn.
  unfold quantiles_axis. rewrite Hq. subst n. reflexivity.
Qed.

(* nothing to compute *)
Theorem quantiles_axis_nothing : forall A (C : carrier A) s pick qs n other (buf : list A) lanes,
  first_invalid qs = None -> n <> 0 -> length qs * other = 0 ->
  quantiles_axis C s pick qs n other buf lanes = Q_Ok ([], buf, 0).
Proof.
  intros A C s pick qs n other buf lanes Hq Hn Hz.
  unfold quantiles_axis. rewrite Hq.
  destruct (Nat.eqb_spec n 0) as [E|_]; [contradiction|].
  rewrite Hz. reflexivity.
Qed.

Section Lanes.
Variable t : ity.
Variable s : strategy.
Variable pick : nat -> nat -> nat.
Variable qs : list F64.
Variable n : nat.
Variable ds : list nat.
Hypothesis Hn1 : 1 <= n.
Hypothesis Hn : (Z.of_nat n <= 2 ^ 53)%Z.
Hypothesis Hvalid : Forall (fun q => valid_q q = true) qs.
Hypothesis Hds : searched s qs n = Ok ds.
Let C := int_carrier t.

(* one lane of the array-level loop *)
Lemma lane_step : forall (lane : list Z) c, length lane = n ->
  exists lane' c', Permutation lane lane' /\
    quantiles_lane C s (S (length lane)) pick c qs ds lane =
    (vals <- qspecs C s (isort Z Z.leb lane) qs ;; Ok (vals, lane', c')).
Proof.
  intros lane c Hlen.
  apply (quantiles_lane_Z_eq t s lane qs ds).
  - rewrite Hlen. exact Hn1.
  - rewrite Hlen. exact Hn.
  - exact Hvalid.
  - rewrite Hlen. exact Hds.
  - lia.
Qed.

(* (d) the lane loop: whatever it returns is, lane by lane, the specification evaluated on
   the ORIGINAL contents of the lane; cells outside the lanes are untouched; every lane is a
   permutation of itself *)
Theorem q_lanes_inv : forall lanes (buf : list Z) c vs buf' c',
  lanes_wf buf lanes -> Forall (fun cs => length cs = n) lanes ->
  q_lanes C s pick c qs ds buf lanes = Ok (vs, buf', c') ->
  length vs = length lanes /\ length buf' = length buf /\
  (forall o, ~ In o (concat lanes) -> nth_error buf' o = nth_error buf o) /\
  (forall k cs, nth_error lanes k = Some cs ->
     exists l l' vals, vread buf cs = Ok l /\ nth_error vs k = Some vals /\
       qspecs C s (isort Z Z.leb l) qs = Ok vals /\
       vread buf' cs = Ok l' /\ Permutation l l').
Proof.
  induction lanes as [|cs tl IH]; intros buf c vs buf' c' [ND F] Hlens Hrun.
  - cbn [q_lanes] in Hrun. inversion Hrun; subst vs buf' c'.
    split; [reflexivity|]. split; [reflexivity|]. split; [reflexivity|].
    intros [|k] cs Hk; cbn [nth_error] in Hk; discriminate Hk.
  - cbn [concat] in ND, F.
    destruct (NoDup_app_inv _ _ ND) as (ND1 & ND2 & Dj).
    apply Forall_app in F. destruct F as [F1 F2].
    pose proof (Forall_inv Hlens) as Hlen_cs. cbn beta in Hlen_cs.
    pose proof (Forall_inv_tail Hlens) as Hlens_tl.
    cbn [q_lanes] in Hrun.
    apply bind_Ok_inv in Hrun. destruct Hrun as (lane & V & Hrun).
    apply bind_Ok_inv in Hrun. destruct Hrun as ([[vals lane'] c1] & QL & Hrun).
    apply bind_Ok_inv in Hrun. destruct Hrun as ([[vs0 b2] c2] & E2 & Hrun).
    inversion Hrun; subst vs buf' c'. clear Hrun.
    assert (Llane : length lane = length cs) by (eapply vread_length; exact V).
    assert (Llane_n : length lane = n) by (rewrite Llane; exact Hlen_cs).
    destruct (lane_step lane c Llane_n) as (lane1 & c1' & HP & Estep).
    rewrite Estep in QL.
    apply bind_Ok_inv in QL. destruct QL as (vals0 & Hq & QL).
    inversion QL; subst vals0 lane1 c1'. clear QL.
    assert (Llane' : length lane' = length cs).
    { rewrite <- (Permutation_length HP). exact Llane. }
    assert (V1 : vread (vwrite buf cs lane') cs = Ok lane').
    { apply vread_vwrite; assumption. }
    assert (W1 : lanes_wf (vwrite buf cs lane') tl).
    { split; [exact ND2|]. eapply Forall_impl; [|exact F2].
      intros o Ho. cbn beta. rewrite vwrite_length. exact Ho. }
    destruct (IH (vwrite buf cs lane') c1 vs0 b2 c2 W1 Hlens_tl E2)
      as (Lvs & Lb & Fr2 & Each).
    split. { cbn [length]. rewrite Lvs. reflexivity. }
    split. { rewrite Lb. apply vwrite_length. }
    split.
    { intros o NI. cbn [concat] in NI. rewrite Fr2.
      - apply vwrite_frame. intros HI. apply NI. apply in_or_app. left. exact HI.
      - intros HI. apply NI. apply in_or_app. right. exact HI. }
    intros [|k] cs0 Hk; cbn [nth_error] in Hk.
    + inversion Hk; subst cs0. exists lane, lane', vals.
      split; [exact V|]. split; [reflexivity|]. split; [exact Hq|]. split; [|exact HP].
      rewrite <- V1. apply vread_frame. intros o Ho. apply Fr2. apply Dj. exact Ho.
    + destruct (Each k cs0 Hk) as (l0 & l0' & vals0 & V0 & Nv0 & Hq0 & V0' & HP0).
      exists l0, l0', vals0.
      split.
      { rewrite <- V0. symmetry. apply vread_frame. intros o Ho. apply vwrite_frame.
        intros HI. apply (Dj o HI).
        apply (In_concat_lane tl cs0 o); [eapply nth_error_In; exact Hk | exact Ho]. }
      split; [exact Nv0|]. split; [exact Hq0|]. split; [exact V0' | exact HP0].
Qed.

(* totality: the loop fails only if the specification of some lane fails (for the integer
   carrier: only the K1 class, Midpoint/Linear not representable); it never runs out of fuel *)
Theorem q_lanes_total : forall lanes (buf : list Z) c,
  lanes_wf buf lanes -> Forall (fun cs => length cs = n) lanes ->
  (forall cs l, In cs lanes -> vread buf cs = Ok l ->
     exists vals, qspecs C s (isort Z Z.leb l) qs = Ok vals) ->
  exists r, q_lanes C s pick c qs ds buf lanes = Ok r.
Proof.
  induction lanes as [|cs tl IH]; intros buf c [ND F] Hlens Hspec.
  - eexists. reflexivity.
  - cbn [concat] in ND, F.
    destruct (NoDup_app_inv _ _ ND) as (ND1 & ND2 & Dj).
    apply Forall_app in F. destruct F as [F1 F2].
    pose proof (Forall_inv Hlens) as Hlen_cs. cbn beta in Hlen_cs.
    pose proof (Forall_inv_tail Hlens) as Hlens_tl.
    destruct (vread_ok buf cs F1) as (lane & V & Llane & _).
    assert (Llane_n : length lane = n) by (rewrite Llane; exact Hlen_cs).
    destruct (lane_step lane c Llane_n) as (lane' & c1 & HP & Estep).
    destruct (Hspec cs lane (or_introl eq_refl) V) as (vals & Hq).
    assert (W1 : lanes_wf (vwrite buf cs lane') tl).
    { split; [exact ND2|]. eapply Forall_impl; [|exact F2].
      intros o Ho. cbn beta. rewrite vwrite_length. exact Ho. }
    destruct (IH (vwrite buf cs lane') c1 W1 Hlens_tl) as ([[vs0 b2] c2] & E2).
    { intros cs0 l0 Hcs0 V0. apply (Hspec cs0 l0); [right; exact Hcs0|].
      rewrite <- V0. symmetry. apply vread_frame. intros o Ho. apply vwrite_frame.
      intros HI. apply (Dj o HI). apply (In_concat_lane tl cs0 o); assumption. }
    cbn [q_lanes]. rewrite V. cbn [bind]. rewrite Estep, Hq. cbn [bind]. rewrite E2. cbn [bind].
    eexists. reflexivity.
Qed.
End Lanes.

(* the guards passed, the routine is the lane loop *)
Lemma quantiles_axis_run : forall A (C : carrier A) s pick qs n other (buf : list A) lanes r,
  quantiles_axis C s pick qs n other buf lanes = Q_Ok r ->
  length qs * other <> 0 ->
  first_invalid qs = None /\ n <> 0 /\
  exists ds, searched s qs n = Ok ds /\ q_lanes C s pick 0 qs ds buf lanes = Ok r.
Proof.
  intros A C s pick qs n other buf lanes r Hrun Hnz.
  unfold quantiles_axis in Hrun.
  destruct (first_invalid qs) as [q|] eqn:Hfi; [discriminate Hrun|].
  split; [reflexivity|].
  destruct (Nat.eqb_spec n 0) as [E0|Hn0]; [discriminate Hrun|].
  split; [exact Hn0|].
  destruct (Nat.eqb_spec (length qs * other) 0) as [Ez|_]; [contradiction|].
  destruct (searched s qs n) as [ds| |] eqn:Hds; try discriminate Hrun.
  exists ds. split; [reflexivity|].
  destruct (q_lanes C s pick 0 qs ds buf lanes) as [r0| |]; try discriminate Hrun.
  inversion Hrun; subst r0. reflexivity.
Qed.

(* (d) every element of the result array is the documented order statistic of its lane,
   computed from the lane's ORIGINAL contents; frame; every lane only permuted *)
Theorem quantiles_axis_values : forall t s pick qs n other (buf : list Z) lanes vs buf' c,
  (Z.of_nat n <= 2 ^ 53)%Z ->
  Forall (fun cs => length cs = n) lanes -> lanes_wf buf lanes ->
  length qs * other <> 0 ->
  quantiles_axis (int_carrier t) s pick qs n other buf lanes = Q_Ok (vs, buf', c) ->
  length vs = length lanes /\ length buf' = length buf /\
  (forall o, ~ In o (concat lanes) -> nth_error buf' o = nth_error buf o) /\
  (forall k cs, nth_error lanes k = Some cs ->
     exists l l' vals, vread buf cs = Ok l /\ nth_error vs k = Some vals /\
       Ok vals = qspecs (int_carrier t) s (isort Z Z.leb l) qs /\
       vread buf' cs = Ok l' /\ Permutation l l').
Proof.
  intros t s pick qs n other buf lanes vs buf' c Hn Hlens Hwf Hnz Hrun.
  destruct (quantiles_axis_run Z (int_carrier t) s pick qs n other buf lanes (vs, buf', c) Hrun Hnz)
    as (Hfi & Hn0 & ds & Hds & Hloop).
  apply first_invalid_None in Hfi.
  assert (Hn1 : 1 <= n) by lia.
  destruct (q_lanes_inv t s pick qs n ds Hn1 Hn Hfi Hds lanes buf 0 vs buf' c Hwf Hlens Hloop)
    as (Lvs & Lb & Fr & Each).
  split; [exact Lvs|]. split; [exact Lb|]. split; [exact Fr|].
  intros k cs Hk.
  destruct (Each k cs Hk) as (l & l' & vals & V & Nv & Hq & V' & HP).
  exists l, l', vals. split; [exact V|]. split; [exact Nv|]. split; [symmetry; exact Hq|].
  split; [exact V' | exact HP].
Qed.

(* (c) the shape of the result: one row per lane, one value per requested q *)
Theorem quantiles_axis_shape : forall t s pick qs n other (buf : list Z) lanes vs buf' c,
  (Z.of_nat n <= 2 ^ 53)%Z ->
  Forall (fun cs => length cs = n) lanes -> lanes_wf buf lanes ->
  quantiles_axis (int_carrier t) s pick qs n other buf lanes = Q_Ok (vs, buf', c) ->
  (length qs * other <> 0)%nat ->
  length vs = length lanes /\ Forall (fun v => length v = length qs) vs.
Proof.
  intros t s pick qs n other buf lanes vs buf' c Hn Hlens Hwf Hrun Hnz.
  destruct (quantiles_axis_values t s pick qs n other buf lanes vs buf' c Hn Hlens Hwf Hnz Hrun)
    as (Lvs & _ & _ & Each).
  split; [exact Lvs|].
  apply Forall_forall. intros v Hv.
  destruct (In_nth_error _ _ Hv) as (k & Nk).
  assert (Hk : k < length lanes).
  { rewrite <- Lvs. apply nth_error_Some. rewrite Nk. discriminate. }
  destruct (nth_error lanes k) as [cs|] eqn:Ncs.
  - destruct (Each k cs Ncs) as (l & l' & vals & _ & Nv & Hq & _).
    rewrite Nk in Nv. inversion Nv; subst vals.
    eapply qspecs_length. symmetry. exact Hq.
  - apply nth_error_None in Ncs. lia.
Qed.

(* totality at array level: all guards passed and every lane's specification defined =>
   the routine returns Q_Ok (never Q_Panic) *)
Theorem quantiles_axis_total : forall t s pick qs n other (buf : list Z) lanes,
  Forall (fun q => valid_q q = true) qs -> 1 <= n -> (Z.of_nat n <= 2 ^ 53)%Z ->
  Forall (fun cs => length cs = n) lanes -> lanes_wf buf lanes ->
  (forall cs l, In cs lanes -> vread buf cs = Ok l ->
     exists vals, qspecs (int_carrier t) s (isort Z Z.leb l) qs = Ok vals) ->
  exists r, quantiles_axis (int_carrier t) s pick qs n other buf lanes = Q_Ok r.
Proof.
  intros t s pick qs n other buf lanes Hvalid Hn1 Hn Hlens Hwf Hspec.
  unfold quantiles_axis.
  rewrite (proj2 (first_invalid_None qs) Hvalid).
  destruct (Nat.eqb_spec n 0) as [E0|_]; [lia|].
  destruct (Nat.eqb (length qs * other) 0); [eexists; reflexivity|].
  destruct (searched_Ok s qs n Hn1 Hn Hvalid) as (ds & Hds). rewrite Hds.
  destruct (q_lanes_total t s pick qs n ds Hn1 Hn Hvalid Hds lanes buf 0 Hwf Hlens Hspec) as (r & Er).
  rewrite Er. exists r. reflexivity.
Qed.

Print Assumptions lane_ok_Z.
Print Assumptions quantiles_lane_Z.
Print Assumptions quantiles_lane_Z_any_sorted.
Print Assumptions quantiles_lane_Z_eq.
Print Assumptions quantiles_axis_invalid.
Print Assumptions first_invalid_Some.
Print Assumptions quantiles_axis_empty.
Print Assumptions quantiles_axis_nothing.
Print Assumptions q_lanes_inv.
Print Assumptions q_lanes_total.
Print Assumptions quantiles_axis_values.
Print Assumptions quantiles_axis_shape.
Print Assumptions quantiles_axis_total.
