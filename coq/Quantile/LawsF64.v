(* Order laws of the sort-based quantile specification [qspec] over N64 lanes (finite binary64
   values sorted by [fle]): totality, bracketing, bounds, endpoints, Lower <= s <= Higher,
   coincidence on integral indexes and EXACT monotonicity in q for all five strategies.
   The float analogue of Quantile/Laws.v (integer carriers); the arithmetic of Midpoint and
   Linear comes from Quantile/InterpF64.v.

   Hypothesis on the data: no gap  higher - lower  overflows ([gap_ok]); this follows from
   |x| <= 2^1022 for every element ([lane_ok], [gap_ok_of_lane_ok]) or from the non-overflow of
   max - min ([gap_ok_of_range]).  Without it N64 returns infinities / panics: known-finding
   class K1, see the examples at the end. *)
From Flocq Require Import Core BinarySingleNaN.
Require Import Reals Lra Lia ZArith Psatz Bool List Sorted Arith.
Import ListNotations.
From NS Require Import Base.Res Num.F64 Quantile.Index Quantile.Interp Quantile.Spec
  Quantile.IndexProofs Quantile.Laws Num.SumF64 Quantile.InterpF64.
Open Scope R_scope.

Local Instance prec64_gt_0'' : Prec_gt_0 53 := Hprec64.
Local Instance vexp64'' : Valid_exp fx := fexp_correct 53 1024 Hprec64.

(* ------------------------------------------------------------------ *)
(* lanes                                                               *)
(* ------------------------------------------------------------------ *)
Definition fin_lane (srt : list F64) : Prop := Forall (fun x => fis_finite x = true) srt.
Definition fle_sorted (srt : list F64) : Prop := StronglySorted (fun a b => fle a b = true) srt.
Definition gap_ok (srt : list F64) : Prop :=
  forall a b, In a srt -> In b srt -> B2R a <= B2R b -> rnd (B2R b - B2R a) < bpow radix2 1024.
(* finite and of magnitude at most 2^1022 *)
Definition lane_ok (srt : list F64) : Prop :=
  Forall (fun x => fis_finite x = true /\ Rabs (B2R x) <= bpow radix2 1022) srt.

Lemma lane_ok_fin : forall srt, lane_ok srt -> fin_lane srt.
Proof.
  intros srt H. unfold lane_ok, fin_lane in *. rewrite Forall_forall in *.
  intros x Hx. exact (proj1 (H x Hx)).
Qed.

Lemma gap_ok_of_lane_ok : forall srt, lane_ok srt -> gap_ok srt.
Proof.
  intros srt H a b Ia Ib Hab. unfold lane_ok in H. rewrite Forall_forall in H.
  destruct (H a Ia) as (_ & Ba). destruct (H b Ib) as (_ & Bb).
  exact (proj1 (side_conditions_of_bound (B2R a) (B2R b) Hab Ba Bb)).
Qed.

Lemma fin_nth : forall srt i a, fin_lane srt -> nth_error srt i = Some a -> fis_finite a = true.
Proof.
  intros srt i a H E. unfold fin_lane in H. rewrite Forall_forall in H.
  apply H. eapply nth_error_In. exact E.
Qed.

Lemma fsorted_nth_le : forall l : list F64, fin_lane l -> fle_sorted l ->
  forall (i j : nat) (a b : F64), (i <= j)%nat -> nth_error l i = Some a -> nth_error l j = Some b ->
  B2R a <= B2R b.
Proof.
  intros l Hf Hs. unfold fle_sorted in Hs.
  induction Hs as [|x l Hl IH Hx]; intros i j a b Hij Ha Hb.
  - destruct i; discriminate Ha.
  - assert (Hf' : fin_lane l) by (unfold fin_lane in *; inversion Hf; assumption).
    destruct i as [|i], j as [|j]; cbn [nth_error] in Ha, Hb.
    + injection Ha as <-. injection Hb as <-. lra.
    + injection Ha as <-.
      assert (Fx : fis_finite x = true) by (unfold fin_lane in Hf; inversion Hf; assumption).
      pose proof (fin_nth l j b Hf' Hb) as Fb.
      apply nth_error_In in Hb. rewrite Forall_forall in Hx.
      apply (fle_spec x b Fx Fb). apply Hx. exact Hb.
    + lia.
    + apply (IH Hf' i j); [lia | exact Ha | exact Hb].
Qed.

Lemma nth_error_some_nthF : forall (l : list F64) (i : nat), (i < length l)%nat ->
  nth_error l i = Some (nth i l fzero).
Proof. intros l i Hi. apply nth_error_nth'. exact Hi. Qed.

(* the gap condition also follows from the non-overflow of max - min alone *)
Lemma gap_ok_of_range : forall srt, fin_lane srt -> fle_sorted srt ->
  rnd (B2R (nth (length srt - 1) srt fzero) - B2R (nth 0 srt fzero)) < bpow radix2 1024 ->
  gap_ok srt.
Proof.
  intros srt Hf Hs Hr a b Ia Ib Hab.
  apply In_nth_error in Ia. apply In_nth_error in Ib.
  destruct Ia as (i & Ei). destruct Ib as (j & Ej).
  assert (Hi : (i < length srt)%nat) by (apply nth_error_Some; congruence).
  assert (Hj : (j < length srt)%nat) by (apply nth_error_Some; congruence).
  assert (E0 : nth_error srt 0 = Some (nth 0 srt fzero)) by (apply nth_error_some_nthF; lia).
  assert (Em : nth_error srt (length srt - 1) = Some (nth (length srt - 1) srt fzero))
    by (apply nth_error_some_nthF; lia).
  assert (L0 : (0 <= i)%nat) by lia. assert (Lm : (j <= length srt - 1)%nat) by lia.
  pose proof (fsorted_nth_le srt Hf Hs 0 i _ _ L0 E0 Ei) as H0.
  pose proof (fsorted_nth_le srt Hf Hs j (length srt - 1) _ _ Lm Ej Em) as H1.
  eapply Rle_lt_trans; [|exact Hr]. apply rnd_le. lra.
Qed.

(* a decidable sufficient check for [lane_ok] *)
Definition f2p1022 : F64 := f64_of_bits 9209861237972664320.   (* 2^1022 *)
Definition lane_okb (srt : list F64) : bool :=
  forallb (fun x => fis_finite x && fle (fabs x) f2p1022) srt.

Lemma f2p1022_spec : fis_finite f2p1022 = true /\ B2R f2p1022 = bpow radix2 1022.
Proof.
  split; [vm_compute; reflexivity|].
  assert (E : B2SF f2p1022 = SpecFloat.S754_finite false 4503599627370496 970) by (vm_compute; reflexivity).
  rewrite <- SF2R_B2SF, E. unfold SF2R, F2R. cbn [cond_Zopp Fnum Fexp].
  change (Z.pos 4503599627370496) with (radix2 ^ 52)%Z.
  rewrite (IZR_Zpower radix2 52) by lia. rewrite <- bpow_plus. reflexivity.
Qed.

Lemma lane_okb_sound : forall srt, lane_okb srt = true -> lane_ok srt.
Proof.
  intros srt H. unfold lane_okb in H. rewrite forallb_forall in H.
  unfold lane_ok. rewrite Forall_forall. intros x Ix. specialize (H x Ix).
  apply andb_true_iff in H. destruct H as (Fx & Hle). split; [exact Fx|].
  destruct f2p1022_spec as (Fp & Ep).
  assert (Fa : fis_finite (fabs x) = true).
  { unfold fis_finite, fabs. rewrite is_finite_Babs. exact Fx. }
  apply (fle_spec (fabs x) f2p1022 Fa Fp) in Hle. rewrite Ep in Hle.
  unfold fabs in Hle. rewrite B2R_Babs in Hle. exact Hle.
Qed.

(* ------------------------------------------------------------------ *)
(* the bracket of a valid q in a sorted N64 lane                       *)
(* ------------------------------------------------------------------ *)
Record fbracket (srt : list F64) (q : F64) (lo hi : nat) (a b : F64) : Prop := {
  fb_lo : lower_index q (length srt) = Some lo;
  fb_hi : higher_index q (length srt) = Some hi;
  fb_a : nth_error srt lo = Some a;
  fb_b : nth_error srt hi = Some b;
  fb_lohi : (lo <= hi)%nat;
  fb_hin : (hi <= length srt - 1)%nat;
  fb_d : (hi - lo <= 1)%nat;
  fb_fa : fis_finite a = true;
  fb_fb : fis_finite b = true;
  fb_ab : B2R a <= B2R b;
  fb_gap : rnd (B2R b - B2R a) < bpow radix2 1024;
  fb_min : B2R (nth 0 srt fzero) <= B2R a;
  fb_max : B2R b <= B2R (nth (length srt - 1) srt fzero);
  fb_ff : fis_finite (qfrac q (length srt)) = true;
  fb_fr : 0 <= B2R (qfrac q (length srt)) < 1;
  fb_fx : B2R (qfrac q (length srt)) = B2R (fidx q (length srt)) - IZR (Z.of_nat lo);
  fb_eq : lo = hi <-> B2R (qfrac q (length srt)) = 0
}.

(* what each strategy returns on the bracket (a, b) with fraction f *)
Definition val_char (s : strategy) (a b f v : F64) : Prop :=
  match s with
  | Lower => v = a
  | Higher => v = b
  | Nearest => v = if flt f fhalf then a else b
  | Midpoint => B2R v = rnd (B2R a + rnd (rnd (B2R b - B2R a) / 2))
  | Linear => B2R v = rnd (B2R a + rnd (B2R f * rnd (B2R b - B2R a)))
  end.

(* Linear's value is monotone in the fraction *)
Lemma linear_value_mono : forall A G f1 f2 : R, 0 <= G -> f1 <= f2 ->
  rnd (A + rnd (f1 * G)) <= rnd (A + rnd (f2 * G)).
Proof.
  intros A G f1 f2 HG Hf. apply rnd_le. apply Rplus_le_compat_l. apply rnd_le.
  apply Rmult_le_compat_r; assumption.
Qed.

Lemma midpoint_value_same : forall A : R, fmt A -> rnd (A + rnd (rnd (A - A) / 2)) = A.
Proof.
  intros A GA. replace (A - A) with 0 by lra. rewrite rnd_0.
  replace (0 / 2) with 0 by lra. rewrite rnd_0, Rplus_0_r. apply rnd_id. exact GA.
Qed.

Lemma linear_value_same : forall A f : R, fmt A -> rnd (A + rnd (f * rnd (A - A))) = A.
Proof.
  intros A f GA. replace (A - A) with 0 by lra. rewrite rnd_0, Rmult_0_r, rnd_0, Rplus_0_r.
  apply rnd_id. exact GA.
Qed.

Lemma brackets_casesF : forall lo1 hi1 lo2 hi2 : nat,
  (lo1 <= lo2)%nat -> (hi1 <= hi2)%nat -> (lo1 <= hi1)%nat -> (lo2 <= hi2)%nat ->
  (hi1 - lo1 <= 1)%nat -> (hi2 - lo2 <= 1)%nat ->
  (lo1 = lo2 /\ hi1 = hi2) \/ (hi1 <= lo2)%nat.
Proof. intros lo1 hi1 lo2 hi2 H1 H2 H3 H4 H5 H6. lia. Qed.

Section LawsF64.
Variable srt : list F64.
Hypothesis Hfin : fin_lane srt.
Hypothesis Hs : fle_sorted srt.
Hypothesis Hgap : gap_ok srt.
Hypothesis Hn1 : (1 <= length srt)%nat.
Hypothesis Hn : (Z.of_nat (length srt) <= 2 ^ 53)%Z.

Lemma fbracket_exists : forall q : F64, valid_q q = true ->
  exists lo hi a b, fbracket srt q lo hi a b.
Proof.
  intros q Vq. apply valid_q_spec in Vq. destruct Vq as (Fq & Hq).
  destruct (index_spec q (length srt) Fq Hq Hn1 Hn)
    as (lo & hi & Lo & Hi & _ & _ & Hlh & Hhn & Hd & Efx & Hfr & Heq).
  pose proof (qfrac_finite q (length srt) Fq Hq Hn1 Hn) as Ff.
  assert (Ea : nth_error srt lo = Some (nth lo srt fzero)) by (apply nth_error_some_nthF; lia).
  assert (Eb : nth_error srt hi = Some (nth hi srt fzero)) by (apply nth_error_some_nthF; lia).
  assert (E0 : nth_error srt 0 = Some (nth 0 srt fzero)) by (apply nth_error_some_nthF; lia).
  assert (Em : nth_error srt (length srt - 1) = Some (nth (length srt - 1) srt fzero))
    by (apply nth_error_some_nthF; lia).
  assert (Hab : B2R (nth lo srt fzero) <= B2R (nth hi srt fzero))
    by exact (fsorted_nth_le srt Hfin Hs lo hi _ _ Hlh Ea Eb).
  exists lo, hi, (nth lo srt fzero), (nth hi srt fzero).
  constructor; try assumption.
  - exact (fin_nth srt lo _ Hfin Ea).
  - exact (fin_nth srt hi _ Hfin Eb).
  - apply Hgap; [eapply nth_error_In; exact Ea | eapply nth_error_In; exact Eb | exact Hab].
  - apply (fsorted_nth_le srt Hfin Hs 0 lo _ _); [lia | exact E0 | exact Ea].
  - apply (fsorted_nth_le srt Hfin Hs hi (length srt - 1) _ _); [lia | exact Eb | exact Em].
Qed.

(* the master lemma: on a bracket every strategy returns a finite value inside the bracket,
   with the value characterised *)
Lemma qspec_value : forall s q lo hi a b, fbracket srt q lo hi a b ->
  exists v, qspec n64_carrier s srt q = Ok v /\ fis_finite v = true /\
    B2R a <= B2R v <= B2R b /\ val_char s a b (qfrac q (length srt)) v.
Proof.
  intros s q lo hi a b B.
  rewrite (qspec_eq n64_carrier s srt q lo hi a b (fb_lo _ _ _ _ _ _ B) (fb_hi _ _ _ _ _ _ B)
             (fb_a _ _ _ _ _ _ B) (fb_b _ _ _ _ _ _ B)).
  pose proof (fb_ab _ _ _ _ _ _ B) as Hab.
  pose proof (fb_fa _ _ _ _ _ _ B) as Fa. pose proof (fb_fb _ _ _ _ _ _ B) as Fb.
  pose proof (fb_gap _ _ _ _ _ _ B) as Hg.
  destruct s; cbn [c_midpoint c_linear n64_carrier val_char].
  - exists b. split; [reflexivity|]. split; [exact Fb|]. split; [lra | reflexivity].
  - exists a. split; [reflexivity|]. split; [exact Fa|]. split; [lra | reflexivity].
  - destruct (flt (qfrac q (length srt)) fhalf).
    + exists a. split; [reflexivity|]. split; [exact Fa|]. split; [lra | reflexivity].
    + exists b. split; [reflexivity|]. split; [exact Fb|]. split; [lra | reflexivity].
  - destruct (n64_midpoint_value a b Fa Fb Hab Hg) as (m & E & Fm & V & Br).
    exists m. split; [exact E|]. split; [exact Fm|]. split; [exact Br | exact V].
  - destruct (n64_linear_bracket a b (qfrac q (length srt)) Fa Fb (fb_ff _ _ _ _ _ _ B)
               (fb_fr _ _ _ _ _ _ B) Hab Hg) as (v & E & Fv & V & Br & _).
    exists v. split; [exact E|]. split; [exact Fv|]. split; [exact Br | exact V].
Qed.

Lemma qspec_value_inv : forall s q lo hi a b v, fbracket srt q lo hi a b ->
  qspec n64_carrier s srt q = Ok v ->
  fis_finite v = true /\ B2R a <= B2R v <= B2R b /\ val_char s a b (qfrac q (length srt)) v.
Proof.
  intros s q lo hi a b v B E.
  destruct (qspec_value s q lo hi a b B) as (v' & E' & R).
  rewrite E in E'. injection E' as <-. exact R.
Qed.

(* 6: totality *)
Theorem F0_total : forall (s : strategy) (q : F64), valid_q q = true ->
  exists v, qspec n64_carrier s srt q = Ok v /\ fis_finite v = true.
Proof.
  intros s q Vq. destruct (fbracket_exists q Vq) as (lo & hi & a & b & B).
  destruct (qspec_value s q lo hi a b B) as (v & E & Fv & _).
  exists v. split; assumption.
Qed.

(* every result lies between the elements at floor and ceil of the index *)
Theorem F1_bracket : forall (s : strategy) (q : F64) (v : F64), valid_q q = true ->
  qspec n64_carrier s srt q = Ok v ->
  exists (lo hi : nat) (a b : F64),
    lower_index q (length srt) = Some lo /\ higher_index q (length srt) = Some hi /\
    nth_error srt lo = Some a /\ nth_error srt hi = Some b /\
    fis_finite v = true /\ B2R a <= B2R v <= B2R b.
Proof.
  intros s q v Vq E. destruct (fbracket_exists q Vq) as (lo & hi & a & b & B).
  destruct (qspec_value_inv s q lo hi a b v B E) as (Fv & Hv & _).
  exists lo, hi, a, b. destruct B. repeat (split; [assumption|]). exact Hv.
Qed.

(* 2: bounds *)
Theorem F2_bounds : forall (s : strategy) (q : F64) (v : F64), valid_q q = true ->
  qspec n64_carrier s srt q = Ok v ->
  B2R (nth 0 srt fzero) <= B2R v <= B2R (nth (length srt - 1) srt fzero).
Proof.
  intros s q v Vq E. destruct (fbracket_exists q Vq) as (lo & hi & a & b & B).
  destruct (qspec_value_inv s q lo hi a b v B E) as (_ & Hv & _).
  pose proof (fb_min _ _ _ _ _ _ B). pose proof (fb_max _ _ _ _ _ _ B). lra.
Qed.

(* the degenerate bracket lo = hi = k *)
Lemma same_indexF : forall (q : F64) (k : nat), valid_q q = true ->
  lower_index q (length srt) = Some k -> higher_index q (length srt) = Some k ->
  let a := nth k srt fzero in
  qspec n64_carrier Lower srt q = Ok a /\
  qspec n64_carrier Higher srt q = Ok a /\
  qspec n64_carrier Nearest srt q = Ok a /\
  forall s : strategy, exists v, qspec n64_carrier s srt q = Ok v /\ fis_finite v = true /\ B2R v = B2R a.
Proof.
  intros q k Vq Lo Hi a.
  destruct (fbracket_exists q Vq) as (lo & hi & a' & b' & B).
  assert (Elo : lo = k) by (pose proof (fb_lo _ _ _ _ _ _ B) as E; congruence).
  assert (Ehi : hi = k) by (pose proof (fb_hi _ _ _ _ _ _ B) as E; congruence).
  subst lo hi.
  assert (Ea : a' = a).
  { pose proof (fb_a _ _ _ _ _ _ B) as E. apply (nth_error_nth _ _ fzero) in E. unfold a. congruence. }
  assert (Eb : b' = a).
  { pose proof (fb_b _ _ _ _ _ _ B) as E. apply (nth_error_nth _ _ fzero) in E. unfold a. congruence. }
  subst a' b'.
  assert (K : forall s : strategy, exists v, qspec n64_carrier s srt q = Ok v /\ fis_finite v = true /\ B2R v = B2R a).
  { intros s. destruct (qspec_value s q k k a a B) as (v & E & Fv & Hv & _).
    exists v. split; [exact E|]. split; [exact Fv | lra]. }
  assert (S : forall s : strategy, s = Lower \/ s = Higher \/ s = Nearest -> qspec n64_carrier s srt q = Ok a).
  { intros s Hsel. destruct (qspec_value s q k k a a B) as (v & E & _ & _ & C).
    rewrite E. f_equal.
    destruct Hsel as [-> | [-> | ->]]; cbn [val_char] in C; try exact C.
    destruct (flt (qfrac q (length srt)) fhalf); exact C. }
  split; [apply S; tauto|]. split; [apply S; tauto|]. split; [apply S; tauto | exact K].
Qed.

(* 5: endpoints *)
Theorem F2_zero : forall q : F64, valid_q q = true -> B2R q = 0 ->
  let m := nth 0 srt fzero in
  qspec n64_carrier Lower srt q = Ok m /\
  qspec n64_carrier Higher srt q = Ok m /\
  qspec n64_carrier Nearest srt q = Ok m /\
  forall s : strategy, exists v, qspec n64_carrier s srt q = Ok v /\ fis_finite v = true /\ B2R v = B2R m.
Proof.
  intros q Vq E0. pose proof Vq as Vq'. apply valid_q_spec in Vq'. destruct Vq' as (Fq & _).
  destruct (index_zero q (length srt) Fq E0 Hn1 Hn) as (Lo & Hi).
  exact (same_indexF q 0%nat Vq Lo Hi).
Qed.

Theorem F2_one : forall q : F64, valid_q q = true -> B2R q = 1 ->
  let m := nth (length srt - 1) srt fzero in
  qspec n64_carrier Lower srt q = Ok m /\
  qspec n64_carrier Higher srt q = Ok m /\
  qspec n64_carrier Nearest srt q = Ok m /\
  forall s : strategy, exists v, qspec n64_carrier s srt q = Ok v /\ fis_finite v = true /\ B2R v = B2R m.
Proof.
  intros q Vq E1. pose proof Vq as Vq'. apply valid_q_spec in Vq'. destruct Vq' as (Fq & _).
  destruct (index_one q (length srt) Fq E1 Hn1 Hn) as (Lo & Hi).
  exact (same_indexF q (length srt - 1)%nat Vq Lo Hi).
Qed.

(* 3 *)
Theorem F3_lower_le_higher : forall (s : strategy) (q : F64) (vl vh v : F64), valid_q q = true ->
  qspec n64_carrier Lower srt q = Ok vl ->
  qspec n64_carrier Higher srt q = Ok vh ->
  qspec n64_carrier s srt q = Ok v ->
  B2R vl <= B2R v <= B2R vh.
Proof.
  intros s q vl vh v Vq HL HH H. destruct (fbracket_exists q Vq) as (lo & hi & a & b & B).
  destruct (qspec_value_inv s q lo hi a b v B H) as (_ & Hv & _).
  destruct (qspec_value_inv Lower q lo hi a b vl B HL) as (_ & _ & CL).
  destruct (qspec_value_inv Higher q lo hi a b vh B HH) as (_ & _ & CH).
  cbn [val_char] in CL, CH. subst vl vh. exact Hv.
Qed.

(* 4 *)
Theorem F4_coincide : forall q : F64, valid_q q = true ->
  lower_index q (length srt) = higher_index q (length srt) ->
  B2R (qfrac q (length srt)) = 0 /\
  qspec n64_carrier Higher srt q = qspec n64_carrier Lower srt q /\
  qspec n64_carrier Nearest srt q = qspec n64_carrier Lower srt q /\
  (forall s : strategy, exists v vl, qspec n64_carrier s srt q = Ok v /\
     qspec n64_carrier Lower srt q = Ok vl /\ fis_finite v = true /\ B2R v = B2R vl) /\
  forall (s1 s2 : strategy) (v1 v2 : F64),
    qspec n64_carrier s1 srt q = Ok v1 -> qspec n64_carrier s2 srt q = Ok v2 -> B2R v1 = B2R v2.
Proof.
  intros q Vq E. destruct (fbracket_exists q Vq) as (lo & hi & a & b & B).
  pose proof (fb_lo _ _ _ _ _ _ B) as Lo. pose proof (fb_hi _ _ _ _ _ _ B) as Hi.
  assert (Elh : lo = hi) by congruence.
  split. { apply (fb_eq _ _ _ _ _ _ B). exact Elh. }
  rewrite <- Elh in Hi.
  destruct (same_indexF q lo Vq Lo Hi) as (EL & EH & EN & K).
  split; [congruence|]. split; [congruence|]. split.
  - intros s. destruct (K s) as (v & Ev & Fv & Vv). exists v, (nth lo srt fzero).
    split; [exact Ev|]. split; [exact EL|]. split; [exact Fv | exact Vv].
  - intros s1 s2 v1 v2 H1 H2.
    destruct (K s1) as (w1 & E1 & _ & W1). destruct (K s2) as (w2 & E2 & _ & W2).
    rewrite H1 in E1. rewrite H2 in E2. injection E1 as <-. injection E2 as <-. lra.
Qed.

Theorem F4_frac_zero : forall q : F64, valid_q q = true ->
  (lower_index q (length srt) = higher_index q (length srt) <-> B2R (qfrac q (length srt)) = 0).
Proof.
  intros q Vq. destruct (fbracket_exists q Vq) as (lo & hi & a & b & B).
  pose proof (fb_lo _ _ _ _ _ _ B) as Lo. pose proof (fb_hi _ _ _ _ _ _ B) as Hi.
  pose proof (fb_eq _ _ _ _ _ _ B) as E.
  rewrite Lo, Hi. split.
  - intros H. apply E. congruence.
  - intros H. apply E in H. congruence.
Qed.

(* 1: exact monotonicity in q, all five strategies *)
Theorem F6_mono : forall (s : strategy) (q1 q2 : F64) (v1 v2 : F64),
  valid_q q1 = true -> valid_q q2 = true -> B2R q1 <= B2R q2 ->
  qspec n64_carrier s srt q1 = Ok v1 -> qspec n64_carrier s srt q2 = Ok v2 ->
  B2R v1 <= B2R v2.
Proof.
  intros s q1 q2 v1 v2 V1 V2 H12 E1 E2.
  destruct (fbracket_exists q1 V1) as (lo1 & hi1 & a1 & b1 & B1).
  destruct (fbracket_exists q2 V2) as (lo2 & hi2 & a2 & b2 & B2).
  destruct (qspec_value_inv s q1 lo1 hi1 a1 b1 v1 B1 E1) as (_ & I1 & C1).
  destruct (qspec_value_inv s q2 lo2 hi2 a2 b2 v2 B2 E2) as (_ & I2 & C2).
  pose proof V1 as V1'. pose proof V2 as V2'.
  apply valid_q_spec in V1'. apply valid_q_spec in V2'.
  destruct V1' as (F1 & Q1). destruct V2' as (F2 & Q2).
  destruct (index_mono q1 q2 (length srt) lo1 lo2 hi1 hi2 F1 F2 (proj1 Q1) H12 (proj2 Q2) Hn1 Hn
              (fb_lo _ _ _ _ _ _ B1) (fb_lo _ _ _ _ _ _ B2) (fb_hi _ _ _ _ _ _ B1) (fb_hi _ _ _ _ _ _ B2))
    as (Hlo & Hhi).
  destruct (brackets_casesF lo1 hi1 lo2 hi2 Hlo Hhi (fb_lohi _ _ _ _ _ _ B1) (fb_lohi _ _ _ _ _ _ B2)
              (fb_d _ _ _ _ _ _ B1) (fb_d _ _ _ _ _ _ B2)) as [[El Eh] | Hsep].
  - (* same bracket *)
    subst lo2 hi2.
    assert (Ea : a2 = a1) by (pose proof (fb_a _ _ _ _ _ _ B1); pose proof (fb_a _ _ _ _ _ _ B2); congruence).
    assert (Eb : b2 = b1) by (pose proof (fb_b _ _ _ _ _ _ B1); pose proof (fb_b _ _ _ _ _ _ B2); congruence).
    subst a2 b2.
    pose proof (fb_ab _ _ _ _ _ _ B1) as Hab.
    pose proof (fb_ff _ _ _ _ _ _ B1) as Ff1. pose proof (fb_ff _ _ _ _ _ _ B2) as Ff2.
    assert (Hfr : B2R (qfrac q1 (length srt)) <= B2R (qfrac q2 (length srt))).
    { rewrite (fb_fx _ _ _ _ _ _ B1), (fb_fx _ _ _ _ _ _ B2).
      pose proof (fidx_mono q1 q2 (length srt) F1 F2 (proj1 Q1) H12 (proj2 Q2) Hn1 Hn). lra. }
    destruct s; cbn [val_char] in C1, C2.
    + subst v1 v2. lra.
    + subst v1 v2. lra.
    + destruct (flt (qfrac q1 (length srt)) fhalf) eqn:L1;
        destruct (flt (qfrac q2 (length srt)) fhalf) eqn:L2; subst v1 v2; try lra.
      exfalso. apply (flt_spec _ _ Ff2 fhalf_finite) in L2.
      assert (L1' : flt (qfrac q1 (length srt)) fhalf = true) by (apply (flt_spec _ _ Ff1 fhalf_finite); lra).
      congruence.
    + rewrite C1, C2. lra.
    + rewrite C1, C2. apply linear_value_mono; [apply rnd_ge_0; lra | exact Hfr].
  - (* separated brackets *)
    pose proof (fsorted_nth_le srt Hfin Hs hi1 lo2 b1 a2 Hsep (fb_b _ _ _ _ _ _ B1) (fb_a _ _ _ _ _ _ B2)). lra.
Qed.

End LawsF64.

(* ------------------------------------------------------------------ *)
(* the same laws under the magnitude bound |x| <= 2^1022                *)
(* ------------------------------------------------------------------ *)
Section Bounded.
Variable srt : list F64.
Hypothesis Hok : lane_ok srt.
Hypothesis Hs : fle_sorted srt.
Hypothesis Hn1 : (1 <= length srt)%nat.
Hypothesis Hn : (Z.of_nat (length srt) <= 2 ^ 53)%Z.
Let Hfin := lane_ok_fin srt Hok.
Let Hgap := gap_ok_of_lane_ok srt Hok.

Definition B0_total := F0_total srt Hfin Hs Hgap Hn1 Hn.
Definition B1_bracket := F1_bracket srt Hfin Hs Hgap Hn1 Hn.
Definition B2_bounds := F2_bounds srt Hfin Hs Hgap Hn1 Hn.
Definition B2_zero := F2_zero srt Hfin Hs Hgap Hn1 Hn.
Definition B2_one := F2_one srt Hfin Hs Hgap Hn1 Hn.
Definition B3_lower_le_higher := F3_lower_le_higher srt Hfin Hs Hgap Hn1 Hn.
Definition B4_coincide := F4_coincide srt Hfin Hs Hgap Hn1 Hn.
Definition B4_frac_zero := F4_frac_zero srt Hfin Hs Hgap Hn1 Hn.
Definition B6_mono := F6_mono srt Hfin Hs Hgap Hn1 Hn.
End Bounded.

(* ------------------------------------------------------------------ *)
(* examples                                                            *)
(* ------------------------------------------------------------------ *)
Definition bits_of_res (r : res F64) : Z :=
  match r with Ok v => bits_of_f64 v | Panic => (-1)%Z | OutOfFuel => (-2)%Z end.

(* [1.0; 2.5; 2.5; 10.0] *)
Definition ex_lane : list F64 :=
  map f64_of_bits [4607182418800017408; 4612811918334230528; 4612811918334230528; 4621819117588971520]%Z.
Definition ex_q03 : F64 := f64_of_bits 4599075939470750515.   (* 0.3 *)
Definition ex_q07 : F64 := f64_of_bits 4604480259023595110.   (* 0.7 *)
Definition ex_q09 : F64 := f64_of_bits 4606281698874543309.   (* 0.9 *)

Lemma ex_lane_hyps : lane_ok ex_lane /\ fle_sorted ex_lane /\ (1 <= length ex_lane)%nat /\
  (Z.of_nat (length ex_lane) <= 2 ^ 53)%Z /\
  valid_q ex_q03 = true /\ valid_q ex_q07 = true /\ valid_q ex_q09 = true.
Proof.
  split; [apply lane_okb_sound; vm_compute; reflexivity|].
  split; [unfold fle_sorted, ex_lane; cbn [map]; repeat constructor; vm_compute; reflexivity|].
  split; [cbn; lia|]. split; [cbn; lia|].
  repeat split; vm_compute; reflexivity.
Qed.

Definition five (l : list F64) (q : F64) : list Z :=
  map (fun s => bits_of_res (qspec n64_carrier s l q)) [Lower; Nearest; Midpoint; Linear; Higher].

(* the five quantiles of [1.0; 2.5; 2.5; 10.0] at q = 0.3, 0.7, 0.9 (bit patterns):
   q = 0.3: 1.0, 2.5, 1.75, 2.35.., 2.5;  q = 0.7: 2.5, 2.5, 6.25, 3.25.., 10.0;
   q = 0.9: 2.5, 10.0, 6.25, 7.75.., 10.0 *)
Example ex_quantiles :
  five ex_lane ex_q03 = [4607182418800017408; 4612811918334230528; 4610560118520545280;
                         4612474148362177740; 4612811918334230528]%Z /\
  five ex_lane ex_q07 = [4612811918334230528; 4612811918334230528; 4618722892845154304;
                         4614500768194494458; 4621819117588971520]%Z /\
  five ex_lane ex_q09 = [4612811918334230528; 4621819117588971520; 4618722892845154304;
                         4620411742705418242; 4621819117588971520]%Z.
Proof. vm_compute. repeat split; reflexivity. Qed.

(* the theorems apply to this lane *)
Example ex_mono_instance : forall (s : strategy) (v1 v2 v3 : F64),
  qspec n64_carrier s ex_lane ex_q03 = Ok v1 -> qspec n64_carrier s ex_lane ex_q07 = Ok v2 ->
  qspec n64_carrier s ex_lane ex_q09 = Ok v3 -> B2R v1 <= B2R v2 <= B2R v3.
Proof.
  intros s v1 v2 v3 E1 E2 E3.
  destruct ex_lane_hyps as (Hok & Hs & Hn1 & Hn & V1 & V2 & V3).
  assert (F : forall q, valid_q q = true -> fis_finite q = true)
    by (intros q V; apply valid_q_spec in V; tauto).
  assert (L12 : B2R ex_q03 <= B2R ex_q07).
  { apply (fle_spec _ _ (F _ V1) (F _ V2)). vm_compute. reflexivity. }
  assert (L23 : B2R ex_q07 <= B2R ex_q09).
  { apply (fle_spec _ _ (F _ V2) (F _ V3)). vm_compute. reflexivity. }
  split.
  - exact (B6_mono ex_lane Hok Hs Hn1 Hn s ex_q03 ex_q07 v1 v2 V1 V2 L12 E1 E2).
  - exact (B6_mono ex_lane Hok Hs Hn1 Hn s ex_q07 ex_q09 v2 v3 V2 V3 L23 E2 E3).
Qed.

Example ex_total_instance : forall s : strategy,
  exists v, qspec n64_carrier s ex_lane ex_q03 = Ok v /\ fis_finite v = true.
Proof.
  intros s. destruct ex_lane_hyps as (Hok & Hs & Hn1 & Hn & V1 & _).
  exact (B0_total ex_lane Hok Hs Hn1 Hn s ex_q03 V1).
Qed.

(* why coincidence / endpoints are stated on B2R: on the lane [-0.0; -0.0] at q = 0 the selecting
   strategies return -0.0 but Midpoint and Linear return +0.0 (l + (h - l)/2 = -0 + +0 = +0) *)
Definition ex_negzero : F64 := f64_of_bits 9223372036854775808.
Example ex_signed_zero :
  lane_okb [ex_negzero; ex_negzero] = true /\
  five [ex_negzero; ex_negzero] fzero = [9223372036854775808; 9223372036854775808; 0; 0; 9223372036854775808]%Z.
Proof. vm_compute. split; reflexivity. Qed.

(* why the gap hypothesis is needed (known-finding class K1): on [-MAX; MAX] at q = 0.5 the gap
   h - l overflows and Midpoint and Linear return +infinity, which is not finite and exceeds the
   lane maximum; Lower / Nearest / Higher are unaffected *)
Definition ex_max : F64 := f64_of_bits 9218868437227405311.
Definition ex_negmax : F64 := f64_of_bits 18442240474082181119.
Example ex_K1_gap_overflow :
  fis_finite ex_negmax = true /\ fis_finite ex_max = true /\ fle ex_negmax ex_max = true /\
  lane_okb [ex_negmax; ex_max] = false /\
  five [ex_negmax; ex_max] fhalf =
    [18442240474082181119; 9218868437227405311; 9218868437227405312; 9218868437227405312; 9218868437227405311]%Z /\
  bits_of_f64 (B754_infinity false) = 9218868437227405312%Z.
Proof. vm_compute. repeat split; reflexivity. Qed.

Print Assumptions F0_total.
Print Assumptions F1_bracket.
Print Assumptions F2_bounds.
Print Assumptions F2_zero.
Print Assumptions F2_one.
Print Assumptions F3_lower_le_higher.
Print Assumptions F4_coincide.
Print Assumptions F4_frac_zero.
Print Assumptions F6_mono.
Print Assumptions gap_ok_of_range.
Print Assumptions lane_okb_sound.
Print Assumptions ex_mono_instance.
Print Assumptions ex_K1_gap_overflow.
