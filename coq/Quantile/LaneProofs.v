(* Proofs about Quantile/Lane.v, the per-lane model of quantiles_axis_mut
   (quantile/mod.rs): for EVERY pivot oracle, pivot counter and (sufficient) fuel the
   values returned for a lane are exactly those of the sort-based specification
   Quantile/Spec.v; the lane is only permuted.  The index functions lower_index /
   higher_index and all F64 operations are treated abstractly: no floating-point and
   no real-number reasoning occurs in this file. *)
From Coq Require Import List Arith Lia Permutation Bool Sorting.Sorted.
Import ListNotations.
From NS Require Import Base.Res Base.ArrLemmas Base.SortDedup Base.SortDedupProofs
  Sort.Partition Sort.Rank Sort.Bulk Sort.BulkProofs Sort.SelectMany Sort.SelectManyProofs
  Num.F64 Quantile.Index Quantile.Interp Quantile.Lane Quantile.Spec.

(* ------------------------------------------------------------------ *)
(* 0. Generic helpers                                                  *)
(* ------------------------------------------------------------------ *)

(* the values component of a lane result *)
Definition lane_vals {A} (r : res (list A * list A * nat)) : res (list A) :=
  x <- r ;; Ok (fst (fst x)).

Lemma bind_Ok_inv {T U} (r : res T) (f : T -> res U) y :
  bind r f = Ok y -> exists x, r = Ok x /\ f x = Ok y.
Proof. destruct r as [x| |]; cbn [bind]; intros H; try discriminate H. exists x. auto. Qed.

Lemma StronglySorted_lt_NoDup : forall l, StronglySorted lt l -> NoDup l.
Proof.
  induction l as [|x t IH]; intros Hs; [constructor|].
  apply StronglySorted_inv in Hs. destruct Hs as [Hst Hxt].
  constructor; [|apply IH; exact Hst].
  intros Hin. rewrite Forall_forall in Hxt. specialize (Hxt x Hin). lia.
Qed.

(* the per-q contribution to [needed] *)
Lemma piece_Ok_inv (b : bool) (o : option nat) (l : list nat) :
  (if b then (i <- unwrap o ;; Ok [i]) else Ok []) = Ok l ->
  (b = true -> exists i, o = Some i /\ In i l) /\
  (forall i, In i l -> b = true /\ o = Some i).
Proof.
  destruct b.
  - destruct o as [i|]; cbn [unwrap bind]; intros H; [|discriminate H].
    inversion H; subst l. split.
    + intros _. exists i. split; [reflexivity | left; reflexivity].
    + intros j [Hj|[]]. subst j. split; reflexivity.
  - intros H. inversion H; subst l. split; [discriminate|]. intros i [].
Qed.

Section L.
Context {A : Type}.
Variable C : carrier A.
Variable s : strategy.
Let leb := c_leb C.
Hypothesis leb_total : forall x y, leb x y = true \/ leb y x = true.
Hypothesis leb_trans : forall x y z, leb x y = true -> leb y z = true -> leb x z = true.

(* ------------------------------------------------------------------ *)
(* 1. Unchecked bulk selection, for every pivot oracle                 *)
(* ------------------------------------------------------------------ *)

Theorem select_many_unchecked_spec : forall fuel pick c a ds,
  StronglySorted lt ds -> Forall (fun i => i < length a) ds ->
  length a <= fuel -> 0 < fuel ->
  exists kvs a' c',
    select_many_unchecked A leb fuel pick c a ds = Ok (kvs, a', c') /\
    Permutation a a' /\ length a' = length a /\
    map fst kvs = ds /\
    Forall (fun kv => placed A leb a' (fst kv) (snd kv)) kvs.
Proof.
  intros fuel pick c a ds Hds Hfds Hfuel Hpos.
  assert (Hsf : sorted_from 0 ds).
  { apply sorted_from_of_strict; [exact Hds|]. apply Forall_forall. intros; lia. }
  unfold select_many_unchecked.
  destruct ds as [|d0 drest].
  { exists [], a, c. split; [reflexivity|]. split; [apply Permutation_refl|].
    split; [reflexivity|]. split; [reflexivity|]. constructor. }
  remember (d0 :: drest) as ds eqn:Eds.
  assert (Hlen0 : 0 < length a).
  { rewrite Eds in Hfds. inversion Hfds as [|? ? Hd0 _]; subst. lia. }
  destruct (get_ok a 0 Hlen0) as (fill & G & _). rewrite G. cbn [bind].
  destruct (bulk_spec A leb leb_total leb_trans fuel pick c fill a ds Hfuel Hpos Hsf Hfds)
    as (vs & a' & c' & R & Pa & La & F2).
  rewrite R. cbn [bind].
  assert (Hlen : length ds = length vs) by (eapply Forall2_length'; exact F2).
  exists (combine ds vs), a', c'.
  rewrite (map_fst_combine ds vs Hlen).
  split; [reflexivity|]. split; [exact Pa|]. split; [exact La|]. split; [reflexivity|].
  apply (Forall2_combine (fun k v => placed A leb a' k v)). exact F2.
Qed.

(* ------------------------------------------------------------------ *)
(* 2. The index map                                                    *)
(* ------------------------------------------------------------------ *)

Lemma lookup_In : forall (kvs : list (nat * A)) k v,
  NoDup (map fst kvs) -> In (k, v) kvs -> lookup kvs k = Ok v.
Proof.
  induction kvs as [|[k' v'] t IH]; intros k v Hnd Hin; [destruct Hin|].
  cbn [lookup]. cbn [map fst] in Hnd. inversion Hnd as [|? ? Hnotin Hnd']; subst.
  destruct Hin as [Heq|Hin].
  - inversion Heq; subst. rewrite Nat.eqb_refl. reflexivity.
  - destruct (Nat.eqb_spec k k') as [->|Hne].
    + exfalso. apply Hnotin. apply in_map_iff. exists (k', v). split; [reflexivity | exact Hin].
    + apply IH; assumption.
Qed.

Lemma lookup_missing : forall (kvs : list (nat * A)) k,
  ~ In k (map fst kvs) -> lookup kvs k = Panic.
Proof.
  induction kvs as [|[k' v'] t IH]; intros k Hnot; [reflexivity|].
  cbn [lookup]. cbn [map fst] in Hnot.
  destruct (Nat.eqb_spec k k') as [->|Hne].
  - exfalso. apply Hnot. left. reflexivity.
  - apply IH. intros Hin. apply Hnot. right. exact Hin.
Qed.

(* ------------------------------------------------------------------ *)
(* 3. The indexes searched for                                         *)
(* ------------------------------------------------------------------ *)

Theorem needed_In : forall qs n l,
  needed s qs n = Ok l ->
  (forall q, In q qs ->
     (needs_lower s q n = true -> exists i, lower_index q n = Some i /\ In i l) /\
     (needs_higher s q n = true -> exists i, higher_index q n = Some i /\ In i l)) /\
  (forall i, In i l -> exists q, In q qs /\
     ((needs_lower s q n = true /\ lower_index q n = Some i) \/
      (needs_higher s q n = true /\ higher_index q n = Some i))).
Proof.
  induction qs as [|q t IH]; intros n l H.
  - cbn [needed] in H. inversion H; subst l. split.
    + intros q [].
    + intros i [].
  - cbn [needed] in H.
    apply bind_Ok_inv in H. destruct H as (lo & Hlo & H).
    apply bind_Ok_inv in H. destruct H as (hi & Hhi & H).
    apply bind_Ok_inv in H. destruct H as (r & Hr & H).
    inversion H; subst l. clear H.
    apply piece_Ok_inv in Hlo. destruct Hlo as [Hlo1 Hlo2].
    apply piece_Ok_inv in Hhi. destruct Hhi as [Hhi1 Hhi2].
    destruct (IH n r Hr) as [IH1 IH2].
    split.
    + intros q' [Hq|Hq].
      * subst q'. split; intros Hb.
        -- destruct (Hlo1 Hb) as (i & Ei & Hi). exists i. split; [exact Ei|].
           apply in_or_app. left. exact Hi.
        -- destruct (Hhi1 Hb) as (i & Ei & Hi). exists i. split; [exact Ei|].
           apply in_or_app. right. apply in_or_app. left. exact Hi.
      * destruct (IH1 q' Hq) as [I1 I2]. split; intros Hb.
        -- destruct (I1 Hb) as (i & Ei & Hi). exists i. split; [exact Ei|].
           apply in_or_app. right. apply in_or_app. right. exact Hi.
        -- destruct (I2 Hb) as (i & Ei & Hi). exists i. split; [exact Ei|].
           apply in_or_app. right. apply in_or_app. right. exact Hi.
    + intros i Hi. apply in_app_or in Hi. destruct Hi as [Hi|Hi].
      * exists q. split; [left; reflexivity|]. left. apply Hlo2. exact Hi.
      * apply in_app_or in Hi. destruct Hi as [Hi|Hi].
        -- exists q. split; [left; reflexivity|]. right. apply Hhi2. exact Hi.
        -- destruct (IH2 i Hi) as (q' & Hq' & Hd). exists q'. split; [right; exact Hq' | exact Hd].
Qed.

(* in-range index functions => every needed index is in range *)
Corollary needed_bound : forall qs n l,
  needed s qs n = Ok l ->
  (forall q, In q qs -> exists lo hi,
     lower_index q n = Some lo /\ higher_index q n = Some hi /\ lo < n /\ hi < n) ->
  Forall (fun i => i < n) l.
Proof.
  intros qs n l H Hidx. apply Forall_forall. intros i Hi.
  destruct (needed_In qs n l H) as [_ H2].
  destruct (H2 i Hi) as (q & Hq & Hd).
  destruct (Hidx q Hq) as (lo & hi & El & Eh & Hlo & Hhi).
  destruct Hd as [[_ E]|[_ E]]; congruence.
Qed.

(* under the index hypothesis [needed] (hence [searched]) never fails *)
Lemma needed_Ok : forall qs n,
  (forall q, In q qs -> exists lo hi,
     lower_index q n = Some lo /\ higher_index q n = Some hi /\ lo < n /\ hi < n) ->
  exists l, needed s qs n = Ok l.
Proof.
  induction qs as [|q t IH]; intros n Hidx.
  - exists []. reflexivity.
  - destruct (Hidx q (or_introl eq_refl)) as (lo & hi & El & Eh & _ & _).
    destruct (IH n) as (r & Hr). { intros q' Hq'. apply Hidx. right. exact Hq'. }
    cbn [needed]. rewrite El, Eh, Hr. cbn [unwrap bind].
    destruct (needs_lower s q n); destruct (needs_higher s q n); cbn [bind]; eexists; reflexivity.
Qed.

(* ------------------------------------------------------------------ *)
(* 4. One lane == the sort-based specification                         *)
(* ------------------------------------------------------------------ *)

(* if the index map agrees with the sorted lane on every needed index then a single
   quantile computed from the map is the specified one *)
Lemma one_quantile_qspec : forall kvs srt l q,
  (forall i, In i l -> lookup kvs i = get srt i) ->
  (needs_lower s q (length srt) = true ->
     exists i, lower_index q (length srt) = Some i /\ In i l) ->
  (needs_higher s q (length srt) = true ->
     exists i, higher_index q (length srt) = Some i /\ In i l) ->
  one_quantile C s kvs (length srt) q = qspec C s srt q.
Proof.
  intros kvs srt l q Hlk Hlo Hhi.
  unfold one_quantile, qspec. cbv zeta.
  destruct (needs_lower s q (length srt)) eqn:Bl;
  destruct (needs_higher s q (length srt)) eqn:Bh.
  - destruct (Hlo eq_refl) as (i & -> & Hi). destruct (Hhi eq_refl) as (j & -> & Hj).
    cbn [unwrap bind]. rewrite (Hlk i Hi), (Hlk j Hj). reflexivity.
  - destruct (Hlo eq_refl) as (i & -> & Hi).
    cbn [unwrap bind]. rewrite (Hlk i Hi). reflexivity.
  - destruct (Hhi eq_refl) as (j & -> & Hj).
    cbn [unwrap bind]. rewrite (Hlk j Hj). reflexivity.
  - reflexivity.
Qed.

Lemma all_quantiles_qspecs : forall kvs srt l qs,
  (forall i, In i l -> lookup kvs i = get srt i) ->
  (forall q, In q qs ->
     (needs_lower s q (length srt) = true ->
        exists i, lower_index q (length srt) = Some i /\ In i l) /\
     (needs_higher s q (length srt) = true ->
        exists i, higher_index q (length srt) = Some i /\ In i l)) ->
  all_quantiles C s kvs (length srt) qs = qspecs C s srt qs.
Proof.
  intros kvs srt l qs Hlk. induction qs as [|q t IH]; intros Hq; [reflexivity|].
  cbn [all_quantiles qspecs].
  destruct (Hq q (or_introl eq_refl)) as [Hlo Hhi].
  rewrite (one_quantile_qspec kvs srt l q Hlk Hlo Hhi).
  rewrite IH; [reflexivity|]. intros q' Hq'. apply Hq. right. exact Hq'.
Qed.

(* every placed value of the index map is THE element the sorted lane holds there *)
Lemma lookup_get_sorted : forall (lane srt lane' : list A) kvs,
  Permutation lane srt -> sorted A leb srt ->
  (forall x y, In x lane -> In y lane -> leb x y = true -> leb y x = true -> x = y) ->
  Permutation lane lane' ->
  StronglySorted lt (map fst kvs) ->
  Forall (fun kv => placed A leb lane' (fst kv) (snd kv)) kvs ->
  forall i, In i (map fst kvs) -> lookup kvs i = get srt i.
Proof.
  intros lane srt lane' kvs Hps Hss Hanti Hpl Hst Hplaced i Hi.
  apply in_map_iff in Hi. destruct Hi as ([k v] & Ek & Hkv). cbn [fst] in Ek. subst k.
  rewrite (lookup_In kvs i v (StronglySorted_lt_NoDup _ Hst) Hkv).
  rewrite Forall_forall in Hplaced. specialize (Hplaced (i, v) Hkv). cbn [fst snd] in Hplaced.
  assert (Hp's : Permutation lane' srt).
  { eapply Permutation_trans; [apply Permutation_sym; exact Hpl | exact Hps]. }
  destruct (placed_rank A leb leb_total leb_trans lane' srt i v Hp's Hss Hplaced)
    as (w & Nw & E1 & E2).
  unfold get. rewrite Nw. f_equal.
  apply Hanti; [| |exact E1|exact E2].
  - eapply Permutation_in; [apply Permutation_sym; exact Hpl|].
    eapply placed_In. exact Hplaced.
  - eapply Permutation_in; [apply Permutation_sym; exact Hps|].
    eapply nth_error_In. exact Nw.
Qed.

Section Main.
Variables lane srt : list A.
Variable qs : list F64.
Variable ds : list nat.
Hypothesis Hn : 1 <= length lane.
Hypothesis Hidx : forall q, In q qs -> exists lo hi,
  lower_index q (length lane) = Some lo /\ higher_index q (length lane) = Some hi /\
  lo < length lane /\ hi < length lane.
Hypothesis Hsearched : searched s qs (length lane) = Ok ds.
Hypothesis Hperm : Permutation lane srt.
Hypothesis Hsorted : sorted A leb srt.
Hypothesis Hanti : forall x y, In x lane -> In y lane ->
  leb x y = true -> leb y x = true -> x = y.

(* the strong form: the lane routine IS the specification followed by packaging; covers
   Ok, Panic and (vacuous for the shipped carriers) OutOfFuel of the carrier operations *)
Theorem quantiles_lane_eq : forall fuel pick c, length lane <= fuel ->
  exists lane' c', Permutation lane lane' /\
    quantiles_lane C s fuel pick c qs ds lane =
    (vals <- qspecs C s srt qs ;; Ok (vals, lane', c')).
Proof.
  intros fuel pick c Hfuel.
  pose proof Hsearched as Hs0. unfold searched in Hs0. apply bind_Ok_inv in Hs0.
  destruct Hs0 as (l & Hl & Hds).
  assert (Eds : sort_dedup nat Nat.leb l = ds) by congruence. clear Hds.
  assert (Hst : StronglySorted lt ds) by (rewrite <- Eds; apply nat_sort_dedup_lt).
  assert (Hmem : forall i, In i ds <-> In i l) by (intros i; rewrite <- Eds; apply nat_sort_dedup_In).
  assert (Hbound : Forall (fun i => i < length lane) ds).
  { apply Forall_forall. intros i Hi. apply Hmem in Hi.
    pose proof (needed_bound qs (length lane) l Hl Hidx) as Hb.
    rewrite Forall_forall in Hb. apply Hb. exact Hi. }
  assert (Hpos : 0 < fuel) by lia.
  destruct (select_many_unchecked_spec fuel pick c lane ds Hst Hbound Hfuel Hpos)
    as (kvs & lane' & c' & R & Pl & Ll & Ek & Hplaced).
  exists lane', c'. split; [exact Pl|].
  unfold quantiles_lane. unfold leb in R. rewrite R. cbn [bind].
  assert (Elen : length lane = length srt) by (apply Permutation_length; exact Hperm).
  rewrite Elen.
  rewrite (all_quantiles_qspecs kvs srt ds qs); [reflexivity| |].
  - rewrite <- Ek. rewrite <- Ek in Hst.
    apply (lookup_get_sorted lane srt lane' kvs Hperm Hsorted Hanti Pl Hst Hplaced).
  - rewrite <- Elen. intros q Hq.
    destruct (needed_In qs (length lane) l Hl) as [H1 _].
    destruct (H1 q Hq) as [Hlo Hhi]. split; intros Hb.
    + destruct (Hlo Hb) as (i & Ei & Hi). exists i. split; [exact Ei|]. apply Hmem. exact Hi.
    + destruct (Hhi Hb) as (i & Ei & Hi). exists i. split; [exact Ei|]. apply Hmem. exact Hi.
Qed.

Theorem quantiles_lane_spec : forall fuel pick c, length lane <= fuel ->
  (forall vals, qspecs C s srt qs = Ok vals ->
     exists lane' c', quantiles_lane C s fuel pick c qs ds lane = Ok (vals, lane', c') /\
       Permutation lane lane') /\
  (qspecs C s srt qs = Panic -> quantiles_lane C s fuel pick c qs ds lane = Panic).
Proof.
  intros fuel pick c Hfuel.
  destruct (quantiles_lane_eq fuel pick c Hfuel) as (lane' & c' & Pl & E).
  split.
  - intros vals Hv. exists lane', c'. rewrite E, Hv. cbn [bind]. split; [reflexivity | exact Pl].
  - intros Hp. rewrite E, Hp. reflexivity.
Qed.

(* values only *)
Corollary quantiles_lane_vals : forall fuel pick c, length lane <= fuel ->
  lane_vals (quantiles_lane C s fuel pick c qs ds lane) = qspecs C s srt qs.
Proof.
  intros fuel pick c Hfuel.
  destruct (quantiles_lane_eq fuel pick c Hfuel) as (lane' & c' & _ & E).
  rewrite E. unfold lane_vals. destruct (qspecs C s srt qs); reflexivity.
Qed.

(* converse reading: whatever the run returns is what the specification says *)
Corollary quantiles_lane_inv : forall fuel pick c, length lane <= fuel ->
  (forall vals lane' c', quantiles_lane C s fuel pick c qs ds lane = Ok (vals, lane', c') ->
     qspecs C s srt qs = Ok vals /\ Permutation lane lane') /\
  (quantiles_lane C s fuel pick c qs ds lane = Panic -> qspecs C s srt qs = Panic).
Proof.
  intros fuel pick c Hfuel.
  destruct (quantiles_lane_eq fuel pick c Hfuel) as (l1 & c1 & Pl & E).
  rewrite E. destruct (qspecs C s srt qs) as [v| |]; cbn [bind]; split.
  - intros vals lane' c' H. inversion H; subst. split; [reflexivity | exact Pl].
  - discriminate.
  - discriminate.
  - reflexivity.
  - discriminate.
  - discriminate.
Qed.

(* ------------------------------------------------------------------ *)
(* 5a. Independence of pivots, counter and fuel                        *)
(* ------------------------------------------------------------------ *)

Corollary quantiles_lane_deterministic : forall fuel1 pick1 c1 fuel2 pick2 c2,
  length lane <= fuel1 -> length lane <= fuel2 ->
  lane_vals (quantiles_lane C s fuel1 pick1 c1 qs ds lane) =
  lane_vals (quantiles_lane C s fuel2 pick2 c2 qs ds lane) /\
  (forall vals l1 c1', quantiles_lane C s fuel1 pick1 c1 qs ds lane = Ok (vals, l1, c1') ->
     exists l2 c2', quantiles_lane C s fuel2 pick2 c2 qs ds lane = Ok (vals, l2, c2')) /\
  (quantiles_lane C s fuel1 pick1 c1 qs ds lane = Panic ->
   quantiles_lane C s fuel2 pick2 c2 qs ds lane = Panic).
Proof.
  intros fuel1 pick1 c1 fuel2 pick2 c2 Hf1 Hf2.
  split; [|split].
  - rewrite !quantiles_lane_vals; auto.
  - intros vals l1 c1' R1.
    destruct (quantiles_lane_inv fuel1 pick1 c1 Hf1) as [I1 _].
    destruct (I1 vals l1 c1' R1) as [Hv _].
    destruct (quantiles_lane_spec fuel2 pick2 c2 Hf2) as [S2 _].
    destruct (S2 vals Hv) as (l2 & c2' & R2 & _). exists l2, c2'. exact R2.
  - intros R1.
    destruct (quantiles_lane_inv fuel1 pick1 c1 Hf1) as [_ I1].
    destruct (quantiles_lane_spec fuel2 pick2 c2 Hf2) as [_ S2]. apply S2. apply I1. exact R1.
Qed.
End Main.

(* ------------------------------------------------------------------ *)
(* 5b. Independence of the order of the lane's elements                *)
(* ------------------------------------------------------------------ *)

Corollary quantiles_lane_perm_invariant : forall (lane lane2 srt : list A) qs ds,
  1 <= length lane ->
  (forall q, In q qs -> exists lo hi,
     lower_index q (length lane) = Some lo /\ higher_index q (length lane) = Some hi /\
     lo < length lane /\ hi < length lane) ->
  searched s qs (length lane) = Ok ds ->
  Permutation lane srt -> sorted A leb srt ->
  (forall x y, In x lane -> In y lane -> leb x y = true -> leb y x = true -> x = y) ->
  Permutation lane lane2 ->
  forall fuel1 pick1 c1 fuel2 pick2 c2,
  length lane <= fuel1 -> length lane <= fuel2 ->
  lane_vals (quantiles_lane C s fuel1 pick1 c1 qs ds lane) =
  lane_vals (quantiles_lane C s fuel2 pick2 c2 qs ds lane2) /\
  (forall vals l1 c1', quantiles_lane C s fuel1 pick1 c1 qs ds lane = Ok (vals, l1, c1') ->
     exists l2 c2', quantiles_lane C s fuel2 pick2 c2 qs ds lane2 = Ok (vals, l2, c2')) /\
  (quantiles_lane C s fuel1 pick1 c1 qs ds lane = Panic ->
   quantiles_lane C s fuel2 pick2 c2 qs ds lane2 = Panic).
Proof.
  intros lane lane2 srt qs ds Hn Hidx Hs Hperm Hsorted Hanti P12
    fuel1 pick1 c1 fuel2 pick2 c2 Hf1 Hf2.
  assert (El : length lane2 = length lane) by (symmetry; apply Permutation_length; exact P12).
  assert (Hn2 : 1 <= length lane2) by lia.
  assert (Hidx2 : forall q, In q qs -> exists lo hi,
     lower_index q (length lane2) = Some lo /\ higher_index q (length lane2) = Some hi /\
     lo < length lane2 /\ hi < length lane2) by (rewrite El; exact Hidx).
  assert (Hs2 : searched s qs (length lane2) = Ok ds) by (rewrite El; exact Hs).
  assert (Hperm2 : Permutation lane2 srt).
  { eapply Permutation_trans; [apply Permutation_sym; exact P12 | exact Hperm]. }
  assert (Hanti2 : forall x y, In x lane2 -> In y lane2 ->
     leb x y = true -> leb y x = true -> x = y).
  { intros x y Hx Hy. apply Hanti; eapply Permutation_in; try (apply Permutation_sym; exact P12); assumption. }
  assert (Hf2' : length lane2 <= fuel2) by lia.
  split; [|split].
  - rewrite (quantiles_lane_vals lane srt qs ds Hn Hidx Hs Hperm Hsorted Hanti fuel1 pick1 c1 Hf1).
    rewrite (quantiles_lane_vals lane2 srt qs ds Hn2 Hidx2 Hs2 Hperm2 Hsorted Hanti2 fuel2 pick2 c2 Hf2').
    reflexivity.
  - intros vals l1 c1' R1.
    destruct (quantiles_lane_inv lane srt qs ds Hn Hidx Hs Hperm Hsorted Hanti fuel1 pick1 c1 Hf1) as [I1 _].
    destruct (I1 vals l1 c1' R1) as [Hv _].
    destruct (quantiles_lane_spec lane2 srt qs ds Hn2 Hidx2 Hs2 Hperm2 Hsorted Hanti2 fuel2 pick2 c2 Hf2') as [S2 _].
    destruct (S2 vals Hv) as (l2 & c2' & R2 & _). exists l2, c2'. exact R2.
  - intros R1.
    destruct (quantiles_lane_inv lane srt qs ds Hn Hidx Hs Hperm Hsorted Hanti fuel1 pick1 c1 Hf1) as [_ I1].
    destruct (quantiles_lane_spec lane2 srt qs ds Hn2 Hidx2 Hs2 Hperm2 Hsorted Hanti2 fuel2 pick2 c2 Hf2') as [_ S2].
    apply S2. apply I1. exact R1.
Qed.

(* ------------------------------------------------------------------ *)
(* 5c. Request order, duplicates, bulk == single (C18)                 *)
(* ------------------------------------------------------------------ *)

Lemma qspecs_Forall2 : forall (srt : list A) qs vals,
  qspecs C s srt qs = Ok vals <-> Forall2 (fun q v => qspec C s srt q = Ok v) qs vals.
Proof.
  intros srt. induction qs as [|q t IH]; intros vals; cbn [qspecs]; split; intros H.
  - inversion H; subst. constructor.
  - inversion H; subst. reflexivity.
  - apply bind_Ok_inv in H. destruct H as (v & Hv & H).
    apply bind_Ok_inv in H. destruct H as (r & Hr & H). inversion H; subst vals.
    constructor; [exact Hv|]. apply IH. exact Hr.
  - inversion H as [|? v ? r Hv Hr]; subst. rewrite Hv. cbn [bind].
    apply IH in Hr. rewrite Hr. reflexivity.
Qed.

Lemma qspecs_single : forall (srt : list A) q v,
  qspecs C s srt [q] = Ok [v] <-> qspec C s srt q = Ok v.
Proof.
  intros srt q v. rewrite qspecs_Forall2. split; intros H.
  - inversion H; subst. assumption.
  - constructor; [exact H | constructor].
Qed.

Lemma qspecs_length : forall (srt : list A) qs vals,
  qspecs C s srt qs = Ok vals -> length vals = length qs.
Proof.
  intros srt qs vals H. apply qspecs_Forall2 in H. symmetry. eapply Forall2_length'. exact H.
Qed.

Lemma Forall2_nth_error_l {X Y} (R : X -> Y -> Prop) : forall l vs j x,
  Forall2 R l vs -> nth_error l j = Some x -> exists y, nth_error vs j = Some y /\ R x y.
Proof.
  intros l vs j x H. revert j. induction H as [|x0 y0 l' vs' Hxy _ IH]; intros j Hj.
  - destruct j; discriminate Hj.
  - destruct j as [|j']; cbn [nth_error] in *.
    + inversion Hj; subst. exists y0. split; [reflexivity | exact Hxy].
    + apply IH. exact Hj.
Qed.

Theorem quantiles_lane_request_order : forall (lane srt : list A) qs ds,
  1 <= length lane ->
  (forall q, In q qs -> exists lo hi,
     lower_index q (length lane) = Some lo /\ higher_index q (length lane) = Some hi /\
     lo < length lane /\ hi < length lane) ->
  searched s qs (length lane) = Ok ds ->
  Permutation lane srt -> sorted A leb srt ->
  (forall x y, In x lane -> In y lane -> leb x y = true -> leb y x = true -> x = y) ->
  forall fuel pick c vals lane' c', length lane <= fuel ->
  quantiles_lane C s fuel pick c qs ds lane = Ok (vals, lane', c') ->
  length vals = length qs /\
  Forall2 (fun q v => qspec C s srt q = Ok v) qs vals /\
  (forall j q, nth_error qs j = Some q ->
     exists v, nth_error vals j = Some v /\ qspec C s srt q = Ok v /\
               qspecs C s srt [q] = Ok [v]).
Proof.
  intros lane srt qs ds Hn Hidx Hs Hperm Hsorted Hanti fuel pick c vals lane' c' Hfuel R.
  destruct (quantiles_lane_inv lane srt qs ds Hn Hidx Hs Hperm Hsorted Hanti fuel pick c Hfuel) as [I1 _].
  destruct (I1 vals lane' c' R) as [Hv _].
  split; [eapply qspecs_length; exact Hv|].
  apply qspecs_Forall2 in Hv. split; [exact Hv|].
  intros j q Hj.
  destruct (Forall2_nth_error_l _ qs vals j q Hv Hj) as (v & Nv & Ev).
  exists v. split; [exact Nv|]. split; [exact Ev|]. apply qspecs_single. exact Ev.
Qed.

(* ------------------------------------------------------------------ *)
(* 6. The selecting strategies return an element of the lane           *)
(* ------------------------------------------------------------------ *)

Theorem qspec_selecting : forall (srt : list A) q lo hi,
  s = Higher \/ s = Lower \/ s = Nearest ->
  lower_index q (length srt) = Some lo -> higher_index q (length srt) = Some hi ->
  lo < length srt -> hi < length srt ->
  exists v, qspec C s srt q = Ok v /\
    nth_error srt (if needs_lower s q (length srt) then lo else hi) = Some v /\
    In v srt.
Proof.
  intros srt q lo hi Hsel El Eh Hlo Hhi.
  destruct (get_ok srt lo Hlo) as (vl & Gl & Nl).
  destruct (get_ok srt hi Hhi) as (vh & Gh & Nh).
  unfold qspec. cbv zeta. rewrite El, Eh. cbn [unwrap bind]. rewrite Gl, Gh. cbn [bind].
  destruct Hsel as [-> | [-> | ->]].
  - cbn [needs_lower needs_higher interpolate bind unwrap].
    exists vh. split; [reflexivity|]. split; [exact Nh|]. eapply nth_error_In. exact Nh.
  - cbn [needs_lower needs_higher interpolate bind unwrap].
    exists vl. split; [reflexivity|]. split; [exact Nl|]. eapply nth_error_In. exact Nl.
  - cbn [needs_higher].
    destruct (needs_lower Nearest q (length srt)) eqn:B;
      cbn [negb bind interpolate]; rewrite B; cbn [unwrap].
    + exists vl. split; [reflexivity|]. split; [exact Nl|]. eapply nth_error_In. exact Nl.
    + exists vh. split; [reflexivity|]. split; [exact Nh|]. eapply nth_error_In. exact Nh.
Qed.

End L.

(* The statements below that mention lower_index / higher_index / needs_lower / needed
   inherit the four standard Reals axioms from the DEFINITIONS of those functions
   (Print Assumptions lower_index already lists them); no proof in this file uses
   them: the only libraries required are List, Arith, Lia, Permutation, Bool, Sorted. *)
Print Assumptions select_many_unchecked_spec.
Print Assumptions lookup_In.
Print Assumptions lookup_missing.
Print Assumptions needed_In.
Print Assumptions needed_bound.
Print Assumptions needed_Ok.
Print Assumptions quantiles_lane_eq.
Print Assumptions quantiles_lane_spec.
Print Assumptions quantiles_lane_vals.
Print Assumptions quantiles_lane_inv.
Print Assumptions quantiles_lane_deterministic.
Print Assumptions quantiles_lane_perm_invariant.
Print Assumptions qspecs_Forall2.
Print Assumptions qspecs_single.
Print Assumptions quantiles_lane_request_order.
Print Assumptions qspec_selecting.
