(* quantile/interpolate.rs: the float index q * (len - 1), its floor / ceil and its
   fractional part, in binary64. *)
From Coq Require Import ZArith Bool List.
From NS Require Import Num.F64.

(* float_quantile_index: q * ((len - 1) as f64) *)
Definition fidx (q : F64) (n : nat) : F64 := fmul q (f64_of_Z (Z.of_nat n - 1)).

(* N64::to_usize (through f64): None when not finite, <= -1 or too large *)
Definition to_usize (x : F64) : option nat :=
  if fis_finite x && (0 <=? ftrunc_Z x)%Z && (ftrunc_Z x <? 2 ^ 64)%Z
  then Some (Z.to_nat (ftrunc_Z x)) else None.

Definition lower_index (q : F64) (n : nat) : option nat := to_usize (ffloor (fidx q n)).
Definition higher_index (q : F64) (n : nat) : option nat := to_usize (fceil (fidx q n)).

(* float_quantile_index_fraction: x.fract() = x - x.trunc() *)
Definition qfrac (q : F64) (n : nat) : F64 := let x := fidx q n in fsub x (ftrunc x).

(* the validity test of the quantile routines: !((q >= 0.) && (q <= 1.)) *)
Definition valid_q (q : F64) : bool := fle fzero q && fle q fone.
