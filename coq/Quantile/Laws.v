(* Order laws of the sort-based quantile specification [qspec] over integer lanes:
   bracketing, bounds, endpoints, Lower <= s <= Higher, coincidence, Linear stays in the
   bracket (for |x| < 2^52), monotonicity in q, relabelling, permutation invariance. *)
From Flocq Require Import Core BinarySingleNaN.
Require Import Reals Lra Lia ZArith Psatz Bool List Sorted Permutation Arith.
Import ListNotations.
From NS Require Import Base.Res Num.F64 Quantile.Index Quantile.Interp Quantile.Spec Quantile.IndexProofs.
Local Open Scope Z_scope.

Local Instance prec64_gt_0' : Prec_gt_0 53 := Hprec64.
Local Instance vexp64' : Valid_exp fexp64 := fexp_correct 53 1024 Hprec64.

(* ------------------------------------------------------------------ *)
(* lists                                                               *)
(* ------------------------------------------------------------------ *)
Lemma sorted_nth_le : forall l : list Z, StronglySorted Z.le l ->
  forall (i j : nat) (a b : Z), (i <= j)%nat -> nth_error l i = Some a -> nth_error l j = Some b -> a <= b.
Proof.
  induction 1 as [|x l Hl IH Hx]; intros i j a b Hij Ha Hb.
  - destruct i; discriminate Ha.
  - destruct i as [|i], j as [|j]; cbn [nth_error] in Ha, Hb.
    + injection Ha as <-. injection Hb as <-. lia.
    + injection Ha as <-. apply nth_error_In in Hb. rewrite Forall_forall in Hx. apply Hx; exact Hb.
    + lia.
    + eapply IH; [|exact Ha|exact Hb]. lia.
Qed.

Lemma nth_error_some_nth : forall (l : list Z) (i : nat), (i < length l)%nat -> nth_error l i = Some (nth i l 0).
Proof. intros l i Hi. apply nth_error_nth'. exact Hi. Qed.

Definition small (l : list Z) : Prop := Forall (fun x => Z.abs x < 2 ^ 52) l.

Lemma small_nth : forall l i a, small l -> nth_error l i = Some a -> Z.abs a < 2 ^ 52.
Proof.
  intros l i a Hl Ha. unfold small in Hl. rewrite Forall_forall in Hl.
  apply Hl. eapply nth_error_In; exact Ha.
Qed.

(* ------------------------------------------------------------------ *)
(* unfolding qspec                                                     *)
(* ------------------------------------------------------------------ *)
Lemma qspec_eq : forall {A : Type} (C : carrier A) (s : strategy) (srt : list A) (q : F64) (lo hi : nat) (a b : A),
  lower_index q (length srt) = Some lo -> higher_index q (length srt) = Some hi ->
  nth_error srt lo = Some a -> nth_error srt hi = Some b ->
  qspec C s srt q =
  match s with
  | Lower => Ok a
  | Higher => Ok b
  | Nearest => if flt (qfrac q (length srt)) fhalf then Ok a else Ok b
  | Midpoint => c_midpoint C a b
  | Linear => c_linear C a b (qfrac q (length srt))
  end.
Proof.
  intros A C s srt q lo hi a b Hlo Hhi Ha Hb.
  unfold qspec. cbv zeta. unfold interpolate, needs_higher, needs_lower, get.
  rewrite Hlo, Hhi.
  destruct s; cbn [bind unwrap]; rewrite ?Ha, ?Hb; cbn [bind unwrap]; try reflexivity.
  destruct (flt (qfrac q (length srt)) fhalf); cbn [negb bind unwrap]; rewrite ?Ha, ?Hb; cbn [bind unwrap]; reflexivity.
Qed.

(* ------------------------------------------------------------------ *)
(* floats                                                              *)
(* ------------------------------------------------------------------ *)
Lemma flt_spec : forall a b : F64,
  fis_finite a = true -> fis_finite b = true -> (flt a b = true <-> (B2R a < B2R b)%R).
Proof.
  intros a b Fa Fb. unfold flt, fcmp.
  rewrite (Bcompare_correct 53 1024 a b Fa Fb).
  destruct (Rcompare_spec (B2R a) (B2R b)) as [H | H | H]; split; intros H'; try reflexivity; try lra; discriminate.
Qed.

Lemma fhalf_finite : fis_finite fhalf = true.
Proof. vm_compute. reflexivity. Qed.

Lemma generic_format_IZR64_abs : forall z : Z, Z.abs z <= 2 ^ 53 -> generic_format radix2 fexp64 (IZR z).
Proof.
  intros z Hz. destruct (Z_le_gt_dec 0 z) as [H | H].
  - apply generic_format_IZR64. lia.
  - replace z with (- (- z)) by lia. rewrite opp_IZR. apply generic_format_opp.
    apply generic_format_IZR64. lia.
Qed.

Lemma IZR_lt_1024 : forall z : Z, Z.abs z <= 2 ^ 53 -> (Rabs (IZR z) < bpow radix2 1024)%R.
Proof.
  intros z Hz. rewrite <- abs_IZR.
  eapply Rle_lt_trans; [|exact bpow53_lt_1024].
  rewrite <- (IZR_Zpower radix2 53) by lia. apply IZR_le. exact Hz.
Qed.

Lemma f64_of_Z_exact_abs : forall z : Z, Z.abs z <= 2 ^ 53 ->
  fis_finite (f64_of_Z z) = true /\ B2R (f64_of_Z z) = IZR z.
Proof.
  intros z Hz.
  pose proof (binary_normalize_correct 53 1024 Hprec64 Hmax64 mode_NE z 0 false) as C.
  cbv zeta in C. rewrite <- IZR_as_F2R in C. cbn [round_mode] in C.
  rewrite (round_generic radix2 fexp64 ZnearestE (IZR z) (generic_format_IZR64_abs z Hz)) in C.
  pose proof (IZR_lt_1024 z Hz) as B.
  apply Rlt_bool_true in B. rewrite B in C. destruct C as (C1 & C2 & _).
  unfold fis_finite, f64_of_Z. split; assumption.
Qed.

Lemma fsub_int : forall l h : Z, Z.abs l <= 2 ^ 53 -> Z.abs h <= 2 ^ 53 -> Z.abs (h - l) <= 2 ^ 53 ->
  fis_finite (fsub (f64_of_Z h) (f64_of_Z l)) = true /\
  B2R (fsub (f64_of_Z h) (f64_of_Z l)) = IZR (h - l).
Proof.
  intros l h Hl Hh Hd.
  destruct (f64_of_Z_exact_abs l Hl) as (Fl & El). destruct (f64_of_Z_exact_abs h Hh) as (Fh & Eh).
  pose proof (Bminus_correct 53 1024 Hprec64 Hmax64 mode_NE _ _ Fh Fl) as C.
  cbn [round_mode] in C. rewrite Eh, El, <- minus_IZR in C.
  rewrite (round_generic radix2 fexp64 ZnearestE _ (generic_format_IZR64_abs _ Hd)) in C.
  pose proof (IZR_lt_1024 _ Hd) as B.
  apply Rlt_bool_true in B. rewrite B in C. destruct C as (C1 & C2 & _).
  unfold fsub, fis_finite. split; [exact C2 | exact C1].
Qed.

Lemma ftrunc_Z_spec : forall x : F64, ftrunc_Z x = Ztrunc (B2R x).
Proof.
  intros x. apply eq_IZR. unfold ftrunc_Z.
  rewrite (Btrunc_correct 53 1024 Hmax64 x), round_FIX0. reflexivity.
Qed.

(* x - x is NaN or zero *)
Lemma fsub_same : forall y : F64, fis_finite (fsub y y) = true -> B2R (fsub y y) = 0%R.
Proof.
  intros y Fyy.
  assert (Fy : fis_finite y = true).
  { destruct y as [s | s | | s m e He]; try reflexivity.
    - destruct s; cbv in Fyy; discriminate Fyy.
    - cbv in Fyy; discriminate Fyy. }
  pose proof (Bminus_correct 53 1024 Hprec64 Hmax64 mode_NE y y Fy Fy) as C.
  cbn [round_mode] in C.
  replace (B2R y - B2R y)%R with 0%R in C by lra.
  rewrite round_0 in C by auto with typeclass_instances.
  assert (B : (Rabs 0 < bpow radix2 1024)%R) by (rewrite Rabs_R0; apply bpow_gt_0).
  apply Rlt_bool_true in B. rewrite B in C. destruct C as (C1 & _). exact C1.
Qed.

Lemma fmul_finite_r : forall a b : F64, fis_finite (fmul a b) = true -> fis_finite b = true.
Proof.
  intros a b H.
  destruct b as [sb | sb | | sb mb eb Hb]; try reflexivity; exfalso;
    destruct a as [sa | sa | | sa ma ea Ha]; cbn in H; discriminate H.
Qed.

Lemma fmul_zero_r : forall a b : F64, fis_finite a = true -> fis_finite b = true -> B2R b = 0%R ->
  fis_finite (fmul a b) = true /\ B2R (fmul a b) = 0%R.
Proof.
  intros a b Fa Fb Eb.
  pose proof (Bmult_correct 53 1024 Hprec64 Hmax64 mode_NE a b) as C.
  cbn [round_mode] in C. rewrite Eb, Rmult_0_r in C.
  rewrite round_0 in C by auto with typeclass_instances.
  assert (B : (Rabs 0 < bpow radix2 1024)%R) by (rewrite Rabs_R0; apply bpow_gt_0).
  apply Rlt_bool_true in B. rewrite B in C. destruct C as (C1 & C2 & _).
  unfold fmul, fis_finite in *. rewrite C2, Fa, Fb. split; [reflexivity | exact C1].
Qed.

(* ------------------------------------------------------------------ *)
(* integer carriers                                                    *)
(* ------------------------------------------------------------------ *)
Lemma in_range_iff : forall t x, in_range t x = true <-> imin t <= x <= imax t.
Proof. intros t x. unfold in_range. rewrite andb_true_iff, !Z.leb_le. tauto. Qed.

Lemma in_range_between : forall t l h v,
  in_range t l = true -> in_range t h = true -> l <= v <= h -> in_range t v = true.
Proof. intros t l h v Hl Hh Hv. rewrite in_range_iff in *. lia. Qed.

Lemma int_midpoint_ok : forall t l h v, l <= h -> int_midpoint t l h = Ok v -> v = l + (h - l) / 2.
Proof.
  intros t l h v Hlh H. unfold int_midpoint in H. cbv zeta in H.
  destruct (in_range t (h - l)); [|discriminate H].
  destruct (in_range t (l + (h - l) ÷ 2)); [|discriminate H].
  injection H as <-. rewrite Z.quot_div_nonneg by lia. reflexivity.
Qed.

Lemma midpoint_between : forall l h, l <= h -> l <= l + (h - l) / 2 <= h.
Proof.
  intros l h Hlh.
  assert (H0 : 0 <= (h - l) / 2) by (apply Z.div_pos; lia).
  assert (H1 : (h - l) / 2 <= h - l) by (apply Z.div_le_upper_bound; lia).
  lia.
Qed.

Lemma midpoint_mono : forall l1 h1 l2 h2, l1 <= l2 -> h1 <= h2 ->
  l1 + (h1 - l1) / 2 <= l2 + (h2 - l2) / 2.
Proof.
  intros l1 h1 l2 h2 Hl Hh.
  rewrite <- !Z.div_add_l by lia.
  apply Z.div_le_mono; lia.
Qed.

Lemma int_midpoint_same : forall t l, in_range t 0 = true -> in_range t l = true -> int_midpoint t l l = Ok l.
Proof.
  intros t l H0 Hl. unfold int_midpoint. cbv zeta.
  replace (l - l) with 0 by lia. rewrite H0.
  replace (l + 0 ÷ 2) with l by (rewrite Z.quot_0_l by lia; lia).
  rewrite Hl. reflexivity.
Qed.

Lemma int_linear_ok : forall t l h frac v, int_linear t l h frac = Ok v ->
  fis_finite (fmul frac (fsub (f64_of_Z h) (f64_of_Z l))) = true /\
  v = l + ftrunc_Z (fmul frac (fsub (f64_of_Z h) (f64_of_Z l))).
Proof.
  intros t l h frac v H. unfold int_linear, int_of_f64 in H. cbv zeta in H.
  destruct (fis_finite (fmul frac (fsub (f64_of_Z h) (f64_of_Z l)))); [|discriminate H].
  destruct (in_range t (ftrunc_Z (fmul frac (fsub (f64_of_Z h) (f64_of_Z l))))); [|discriminate H].
  destruct (in_range t (l + ftrunc_Z (fmul frac (fsub (f64_of_Z h) (f64_of_Z l))))); [|discriminate H].
  injection H as <-. split; reflexivity.
Qed.

Lemma int_linear_intro : forall t l h frac,
  fis_finite (fmul frac (fsub (f64_of_Z h) (f64_of_Z l))) = true ->
  in_range t (ftrunc_Z (fmul frac (fsub (f64_of_Z h) (f64_of_Z l)))) = true ->
  in_range t (l + ftrunc_Z (fmul frac (fsub (f64_of_Z h) (f64_of_Z l)))) = true ->
  int_linear t l h frac = Ok (l + ftrunc_Z (fmul frac (fsub (f64_of_Z h) (f64_of_Z l)))).
Proof.
  intros t l h frac H1 H2 H3. unfold int_linear, int_of_f64. cbv zeta.
  rewrite H1, H2, H3. reflexivity.
Qed.

(* lower = higher: Linear returns lower whatever the fraction (or panics) *)
Lemma int_linear_same : forall t l frac v, fis_finite frac = true -> int_linear t l l frac = Ok v -> v = l.
Proof.
  intros t l frac v Ff H. apply int_linear_ok in H. destruct H as (Fx & ->).
  pose proof (fmul_finite_r _ _ Fx) as Fd.
  pose proof (fsub_same _ Fd) as Ed.
  destruct (fmul_zero_r frac _ Ff Fd Ed) as (_ & Ex).
  rewrite (ftrunc_Z_int _ 0 Ex). lia.
Qed.

Lemma int_linear_same_ok : forall t l frac, fis_finite frac = true ->
  in_range t 0 = true -> in_range t l = true -> Z.abs l <= 2 ^ 53 -> int_linear t l l frac = Ok l.
Proof.
  intros t l frac Ff H0 Hl Hs.
  assert (Hd : Z.abs (l - l) <= 2 ^ 53) by (replace (l - l) with 0 by lia; cbn; lia).
  destruct (fsub_int l l Hs Hs Hd) as (Fd & Ed).
  replace (l - l) with 0 in Ed by lia.
  destruct (fmul_zero_r frac _ Ff Fd Ed) as (Fx & Ex).
  pose proof (ftrunc_Z_int _ 0 Ex) as Ez.
  rewrite (int_linear_intro t l l frac Fx); rewrite Ez; [f_equal; lia | exact H0 |].
  replace (l + 0) with l by lia. exact Hl.
Qed.

(* the core arithmetic of Linear on exactly representable integers *)
Lemma linear_core : forall (l h : Z) (frac : F64),
  l <= h -> Z.abs l <= 2 ^ 53 -> Z.abs h <= 2 ^ 53 -> h - l <= 2 ^ 53 ->
  fis_finite frac = true -> (0 <= B2R frac <= 1)%R ->
  let x := fmul frac (fsub (f64_of_Z h) (f64_of_Z l)) in
  let y := (B2R frac * IZR (h - l))%R in
  fis_finite x = true /\ B2R x = rnd64 y /\
  ftrunc_Z x = Ztrunc (rnd64 y) /\
  0 <= ftrunc_Z x <= h - l /\
  Zfloor y <= ftrunc_Z x <= Zceil y.
Proof.
  intros l h frac Hlh Hl Hh Hd Ff Hf x y.
  assert (Hd' : Z.abs (h - l) <= 2 ^ 53) by lia.
  destruct (fsub_int l h Hl Hh Hd') as (Fd & Ed).
  assert (Hd0 : (0 <= IZR (h - l))%R) by (apply IZR_le; lia).
  assert (Hm : (0 <= B2R (fsub (f64_of_Z h) (f64_of_Z l)))%R) by (rewrite Ed; exact Hd0).
  destruct (mult_in_range 53 1024 Hprec64 Hmax64 frac _ Ff Fd Hf Hm) as (Fx & Ex & Hx).
  rewrite Ed in Ex, Hx. fold (fmul frac (fsub (f64_of_Z h) (f64_of_Z l))) in Fx, Ex, Hx. fold x in Fx, Ex, Hx. fold y in Ex.
  assert (Hy : (0 <= y <= IZR (h - l))%R) by (unfold y; nra).
  assert (Et : ftrunc_Z x = Zfloor (B2R x)).
  { rewrite ftrunc_Z_spec. apply Ztrunc_floor. exact (proj1 Hx). }
  split; [exact Fx|]. split; [exact Ex|].
  split; [rewrite ftrunc_Z_spec, Ex; reflexivity|].
  assert (Hfl0 : 0 <= Zfloor y) by (apply Zfloor_lub; exact (proj1 Hy)).
  assert (Hcl : Zceil y <= h - l) by (apply Zceil_glb; exact (proj2 Hy)).
  assert (Hfc : Zfloor y <= Zceil y).
  { apply le_IZR. pose proof (Zfloor_lb y). pose proof (Zceil_ub y). lra. }
  split.
  - rewrite Et. split.
    + apply Zfloor_lub. exact (proj1 Hx).
    + rewrite <- (Zfloor_IZR (h - l)). apply Zfloor_le. exact (proj2 Hx).
  - rewrite Et, Ex. split.
    + apply Zfloor_lub.
      rewrite <- (round_generic radix2 fexp64 ZnearestE (IZR (Zfloor y))) by (apply generic_format_IZR64; lia).
      apply round_le; auto with typeclass_instances. apply Zfloor_lb.
    + rewrite <- (Zfloor_IZR (Zceil y)). apply Zfloor_le.
      rewrite <- (round_generic radix2 fexp64 ZnearestE (IZR (Zceil y))) by (apply generic_format_IZR64; lia).
      apply round_le; auto with typeclass_instances. apply Zceil_ub.
Qed.

Lemma small_bounds : forall l h, l <= h -> Z.abs l < 2 ^ 52 -> Z.abs h < 2 ^ 52 ->
  Z.abs l <= 2 ^ 53 /\ Z.abs h <= 2 ^ 53 /\ h - l <= 2 ^ 53.
Proof. intros l h Hlh Hl Hh. lia. Qed.

(* L5 *)
Theorem L5_linear_bracket : forall (t : ity) (l h : Z) (frac : F64) (v : Z),
  l <= h -> Z.abs l < 2 ^ 52 -> Z.abs h < 2 ^ 52 ->
  fis_finite frac = true -> (0 <= B2R frac < 1)%R ->
  int_linear t l h frac = Ok v ->
  exists z : Z,
    v = l + z /\
    z = Ztrunc (rnd64 (B2R frac * IZR (h - l))) /\
    0 <= z <= h - l /\
    l <= v <= h /\
    Zfloor (B2R frac * IZR (h - l)) <= z <= Zceil (B2R frac * IZR (h - l)) /\
    (Rabs (IZR v - (IZR l + B2R frac * IZR (h - l))) < 1)%R.
Proof.
  intros t l h frac v Hlh Hl Hh Ff Hf H.
  destruct (small_bounds l h Hlh Hl Hh) as (Bl & Bh & Bd).
  assert (Hf' : (0 <= B2R frac <= 1)%R) by lra.
  destruct (linear_core l h frac Hlh Bl Bh Bd Ff Hf') as (_ & _ & Ez & Hz & Hfc).
  apply int_linear_ok in H. destruct H as (_ & Ev).
  set (z := ftrunc_Z (fmul frac (fsub (f64_of_Z h) (f64_of_Z l)))) in *.
  set (y := (B2R frac * IZR (h - l))%R) in *.
  exists z. split; [exact Ev|]. split; [exact Ez|]. split; [exact Hz|]. split; [lia|]. split; [exact Hfc|].
  rewrite Ev, plus_IZR.
  replace (IZR l + IZR z - (IZR l + y))%R with (IZR z - y)%R by lra.
  pose proof (Zfloor_lb y) as F1. pose proof (Zfloor_ub y) as F2.
  pose proof (Zceil_ub y) as C1. pose proof (Zceil_lb y) as C2.
  assert (Z1 : (IZR (Zfloor y) <= IZR z)%R) by (apply IZR_le; lia).
  assert (Z2 : (IZR z <= IZR (Zceil y))%R) by (apply IZR_le; lia).
  apply Rabs_def1; lra.
Qed.

Theorem L5_linear_total : forall (t : ity) (l h : Z) (frac : F64),
  l <= h -> Z.abs l < 2 ^ 52 -> Z.abs h < 2 ^ 52 ->
  fis_finite frac = true -> (0 <= B2R frac < 1)%R ->
  in_range t l = true -> in_range t h = true -> in_range t (h - l) = true -> in_range t 0 = true ->
  exists v : Z, int_linear t l h frac = Ok v.
Proof.
  intros t l h frac Hlh Hl Hh Ff Hf Rl Rh Rd R0.
  destruct (small_bounds l h Hlh Hl Hh) as (Bl & Bh & Bd).
  assert (Hf' : (0 <= B2R frac <= 1)%R) by lra.
  destruct (linear_core l h frac Hlh Bl Bh Bd Ff Hf') as (Fx & _ & _ & Hz & _).
  eexists. apply int_linear_intro; [exact Fx | |].
  - apply (in_range_between t 0 (h - l)); assumption.
  - apply (in_range_between t l h); [assumption | assumption | lia].
Qed.

Lemma int_linear_mono : forall t l h f1 f2 v1 v2,
  l <= h -> Z.abs l < 2 ^ 52 -> Z.abs h < 2 ^ 52 ->
  fis_finite f1 = true -> fis_finite f2 = true ->
  (0 <= B2R f1)%R -> (B2R f1 <= B2R f2)%R -> (B2R f2 <= 1)%R ->
  int_linear t l h f1 = Ok v1 -> int_linear t l h f2 = Ok v2 -> v1 <= v2.
Proof.
  intros t l h f1 f2 v1 v2 Hlh Hl Hh F1 F2 H0 H12 H1 E1 E2.
  destruct (small_bounds l h Hlh Hl Hh) as (Bl & Bh & Bd).
  assert (Hd' : Z.abs (h - l) <= 2 ^ 53) by lia.
  destruct (fsub_int l h Bl Bh Hd') as (Fd & Ed).
  assert (Hm : (0 <= B2R (fsub (f64_of_Z h) (f64_of_Z l)))%R) by (rewrite Ed; apply IZR_le; lia).
  pose proof (mult_mono 53 1024 Hprec64 Hmax64 f1 f2 _ F1 F2 Fd H0 H12 H1 Hm) as Hle.
  apply int_linear_ok in E1. apply int_linear_ok in E2.
  destruct E1 as (_ & ->). destruct E2 as (_ & ->).
  rewrite !ftrunc_Z_spec. apply Zplus_le_compat_l. apply Ztrunc_le. exact Hle.
Qed.

(* ------------------------------------------------------------------ *)
(* the bracket of a valid q in a sorted lane                           *)
(* ------------------------------------------------------------------ *)
Record bracket (srt : list Z) (q : F64) (lo hi : nat) (a b : Z) : Prop := {
  bk_lo : lower_index q (length srt) = Some lo;
  bk_hi : higher_index q (length srt) = Some hi;
  bk_a : nth_error srt lo = Some a;
  bk_b : nth_error srt hi = Some b;
  bk_lohi : (lo <= hi)%nat;
  bk_hin : (hi <= length srt - 1)%nat;
  bk_d : (hi - lo <= 1)%nat;
  bk_ab : a <= b;
  bk_min : nth 0 srt 0 <= a;
  bk_max : b <= nth (length srt - 1) srt 0;
  bk_ff : fis_finite (qfrac q (length srt)) = true;
  bk_fr : (0 <= B2R (qfrac q (length srt)) < 1)%R;
  bk_fx : B2R (qfrac q (length srt)) = (B2R (fidx q (length srt)) - IZR (Z.of_nat lo))%R;
  bk_eq : lo = hi <-> B2R (qfrac q (length srt)) = 0%R
}.

Lemma qfrac_finite : forall (q : F64) (n : nat),
  fis_finite q = true -> (0 <= B2R q <= 1)%R -> (1 <= n)%nat -> Z.of_nat n <= 2 ^ 53 ->
  fis_finite (qfrac q n) = true.
Proof.
  intros q n Fq Hq Hn1 Hn2.
  destruct (fidx_range q n Fq Hq Hn1 Hn2) as (Fx & _ & Hx).
  assert (HM : Z.of_nat n - 1 < 2 ^ 64) by lia.
  destruct (index_core (fidx q n) (Z.of_nat n - 1) Fx Hx HM) as (_ & _ & _ & _ & _ & _ & Ff & _).
  unfold qfrac. cbv zeta. exact Ff.
Qed.

Lemma fidx_mono : forall (q1 q2 : F64) (n : nat),
  fis_finite q1 = true -> fis_finite q2 = true ->
  (0 <= B2R q1)%R -> (B2R q1 <= B2R q2)%R -> (B2R q2 <= 1)%R ->
  (1 <= n)%nat -> Z.of_nat n <= 2 ^ 53 ->
  (B2R (fidx q1 n) <= B2R (fidx q2 n))%R.
Proof.
  intros q1 q2 n F1 F2 H0 H12 H1 Hn1 Hn2.
  destruct (f64_of_Z_exact (Z.of_nat n - 1) (nat_pred_bounds n Hn1 Hn2)) as (Fm & Em).
  assert (Hm : (0 <= B2R (f64_of_Z (Z.of_nat n - 1)))%R) by (rewrite Em; apply IZR_le; lia).
  unfold fidx, fmul. apply mult_mono; assumption.
Qed.

Section Laws.
Variable t : ity.
Variable srt : list Z.
Hypothesis Hs : StronglySorted Z.le srt.
Let n := length srt.
Hypothesis Hn1 : (1 <= n)%nat.
Hypothesis Hn : Z.of_nat n <= 2 ^ 53.

Lemma bracket_exists : forall q : F64, valid_q q = true ->
  exists lo hi a b, bracket srt q lo hi a b.
Proof.
  intros q Vq. apply valid_q_spec in Vq. destruct Vq as (Fq & Hq).
  destruct (index_spec q n Fq Hq Hn1 Hn) as (lo & hi & Lo & Hi & _ & _ & Hlh & Hhn & Hd & Efx & Hfr & Heq).
  pose proof (qfrac_finite q n Fq Hq Hn1 Hn) as Ff.
  fold n.
  assert (Ea : nth_error srt lo = Some (nth lo srt 0)) by (apply nth_error_some_nth; fold n; lia).
  assert (Eb : nth_error srt hi = Some (nth hi srt 0)) by (apply nth_error_some_nth; fold n; lia).
  assert (E0 : nth_error srt 0 = Some (nth 0 srt 0)) by (apply nth_error_some_nth; fold n; lia).
  assert (Em : nth_error srt (n - 1) = Some (nth (n - 1) srt 0)) by (apply nth_error_some_nth; fold n; lia).
  exists lo, hi, (nth lo srt 0), (nth hi srt 0).
  constructor; fold n; try assumption.
  - exact (sorted_nth_le srt Hs lo hi _ _ Hlh Ea Eb).
  - apply (sorted_nth_le srt Hs 0 lo _ _); [lia | exact E0 | exact Ea].
  - apply (sorted_nth_le srt Hs hi (n - 1) _ _); [lia | exact Eb | exact Em].
Qed.

Lemma qspec_bracket : forall s q lo hi a b, bracket srt q lo hi a b ->
  qspec (int_carrier t) s srt q =
  match s with
  | Lower => Ok a
  | Higher => Ok b
  | Nearest => if flt (qfrac q n) fhalf then Ok a else Ok b
  | Midpoint => int_midpoint t a b
  | Linear => int_linear t a b (qfrac q n)
  end.
Proof.
  intros s q lo hi a b B. destruct B.
  exact (qspec_eq (int_carrier t) s srt q lo hi a b bk_lo0 bk_hi0 bk_a0 bk_b0).
Qed.

(* every Ok value lies in the bracket *)
Lemma in_bracket : forall s q lo hi a b v, bracket srt q lo hi a b ->
  (s = Linear -> small srt) ->
  qspec (int_carrier t) s srt q = Ok v -> a <= v <= b.
Proof.
  intros s q lo hi a b v B Hsm H. rewrite (qspec_bracket s q lo hi a b B) in H.
  pose proof (bk_ab _ _ _ _ _ _ B) as Hab.
  destruct s.
  - injection H as <-. lia.
  - injection H as <-. lia.
  - destruct (flt (qfrac q n) fhalf); injection H as <-; lia.
  - apply (int_midpoint_ok t a b v Hab) in H. subst v. apply midpoint_between. exact Hab.
  - specialize (Hsm eq_refl).
    pose proof (small_nth _ _ _ Hsm (bk_a _ _ _ _ _ _ B)) as Sa.
    pose proof (small_nth _ _ _ Hsm (bk_b _ _ _ _ _ _ B)) as Sb.
    destruct (L5_linear_bracket t a b (qfrac q n) v Hab Sa Sb (bk_ff _ _ _ _ _ _ B) (bk_fr _ _ _ _ _ _ B) H)
      as (z & _ & _ & _ & Hv & _).
    exact Hv.
Qed.

(* L1 *)
Theorem L1_select : forall q : F64, valid_q q = true ->
  exists (lo hi : nat) (a b : Z),
    lower_index q n = Some lo /\ higher_index q n = Some hi /\
    nth_error srt lo = Some a /\ nth_error srt hi = Some b /\ a <= b /\
    qspec (int_carrier t) Lower srt q = Ok a /\
    qspec (int_carrier t) Higher srt q = Ok b /\
    qspec (int_carrier t) Nearest srt q = Ok (if flt (qfrac q n) fhalf then a else b).
Proof.
  intros q Vq. destruct (bracket_exists q Vq) as (lo & hi & a & b & B).
  exists lo, hi, a, b.
  pose proof (qspec_bracket Lower q lo hi a b B) as EL.
  pose proof (qspec_bracket Higher q lo hi a b B) as EH.
  pose proof (qspec_bracket Nearest q lo hi a b B) as EN.
  destruct B. fold n in bk_lo0, bk_hi0.
  repeat (split; [assumption|]).
  rewrite EN. destruct (flt (qfrac q n) fhalf); reflexivity.
Qed.

Theorem L1_bracket : forall (s : strategy) (q : F64) (v : Z), valid_q q = true ->
  (s = Linear -> small srt) ->
  qspec (int_carrier t) s srt q = Ok v ->
  exists (lo hi : nat) (a b : Z),
    lower_index q n = Some lo /\ higher_index q n = Some hi /\
    nth_error srt lo = Some a /\ nth_error srt hi = Some b /\ a <= v <= b.
Proof.
  intros s q v Vq Hsm H. destruct (bracket_exists q Vq) as (lo & hi & a & b & B).
  exists lo, hi, a, b.
  pose proof (in_bracket s q lo hi a b v B Hsm H) as Hv.
  destruct B. fold n in bk_lo0, bk_hi0.
  repeat (split; [assumption|]). exact Hv.
Qed.

(* L2: bounds *)
Theorem L2_bounds : forall (s : strategy) (q : F64) (v : Z), valid_q q = true ->
  (s = Linear -> small srt) ->
  qspec (int_carrier t) s srt q = Ok v ->
  nth 0 srt 0 <= v <= nth (n - 1) srt 0.
Proof.
  intros s q v Vq Hsm H. destruct (bracket_exists q Vq) as (lo & hi & a & b & B).
  pose proof (in_bracket s q lo hi a b v B Hsm H) as Hv.
  pose proof (bk_min _ _ _ _ _ _ B) as Hmin. pose proof (bk_max _ _ _ _ _ _ B) as Hmax.
  fold n in Hmax. lia.
Qed.

(* the degenerate bracket lo = hi = k *)
Lemma same_index : forall (q : F64) (k : nat), valid_q q = true ->
  lower_index q n = Some k -> higher_index q n = Some k ->
  let a := nth k srt 0 in
  qspec (int_carrier t) Lower srt q = Ok a /\
  qspec (int_carrier t) Higher srt q = Ok a /\
  qspec (int_carrier t) Nearest srt q = Ok a /\
  (forall v, qspec (int_carrier t) Midpoint srt q = Ok v -> v = a) /\
  (forall v, qspec (int_carrier t) Linear srt q = Ok v -> v = a) /\
  (in_range t 0 = true -> in_range t a = true -> qspec (int_carrier t) Midpoint srt q = Ok a) /\
  (in_range t 0 = true -> in_range t a = true -> Z.abs a <= 2 ^ 53 -> qspec (int_carrier t) Linear srt q = Ok a).
Proof.
  intros q k Vq Lo Hi a.
  destruct (bracket_exists q Vq) as (lo & hi & a' & b' & B).
  assert (Elo : lo = k) by (pose proof (bk_lo _ _ _ _ _ _ B) as E; fold n in E; congruence).
  assert (Ehi : hi = k) by (pose proof (bk_hi _ _ _ _ _ _ B) as E; fold n in E; congruence).
  subst lo hi.
  assert (Ea : a' = a).
  { pose proof (bk_a _ _ _ _ _ _ B) as E. apply (nth_error_nth _ _ 0) in E. unfold a. congruence. }
  assert (Eb : b' = a).
  { pose proof (bk_b _ _ _ _ _ _ B) as E. apply (nth_error_nth _ _ 0) in E. unfold a. congruence. }
  subst a' b'.
  pose proof (bk_ff _ _ _ _ _ _ B) as Ff. fold n in Ff.
  rewrite !(fun s => qspec_bracket s q k k a a B).
  split; [reflexivity|]. split; [reflexivity|].
  split; [destruct (flt (qfrac q n) fhalf); reflexivity|].
  split. { intros v H. apply int_midpoint_ok in H; [|lia]. subst v. replace (a - a) with 0 by lia. cbn. lia. }
  split. { intros v H. exact (int_linear_same t a (qfrac q n) v Ff H). }
  split. { intros R0 Ra. exact (int_midpoint_same t a R0 Ra). }
  intros R0 Ra Sa. exact (int_linear_same_ok t a (qfrac q n) Ff R0 Ra Sa).
Qed.

Theorem L2_zero : forall q : F64, valid_q q = true -> B2R q = 0%R ->
  let m := nth 0 srt 0 in
  qspec (int_carrier t) Lower srt q = Ok m /\
  qspec (int_carrier t) Higher srt q = Ok m /\
  qspec (int_carrier t) Nearest srt q = Ok m /\
  (forall v, qspec (int_carrier t) Midpoint srt q = Ok v -> v = m) /\
  (forall v, qspec (int_carrier t) Linear srt q = Ok v -> v = m) /\
  (in_range t 0 = true -> in_range t m = true -> qspec (int_carrier t) Midpoint srt q = Ok m) /\
  (in_range t 0 = true -> in_range t m = true -> Z.abs m <= 2 ^ 53 -> qspec (int_carrier t) Linear srt q = Ok m).
Proof.
  intros q Vq E0. pose proof Vq as Vq'. apply valid_q_spec in Vq'. destruct Vq' as (Fq & _).
  destruct (index_zero q n Fq E0 Hn1 Hn) as (Lo & Hi).
  exact (same_index q 0%nat Vq Lo Hi).
Qed.

Theorem L2_one : forall q : F64, valid_q q = true -> B2R q = 1%R ->
  let m := nth (n - 1) srt 0 in
  qspec (int_carrier t) Lower srt q = Ok m /\
  qspec (int_carrier t) Higher srt q = Ok m /\
  qspec (int_carrier t) Nearest srt q = Ok m /\
  (forall v, qspec (int_carrier t) Midpoint srt q = Ok v -> v = m) /\
  (forall v, qspec (int_carrier t) Linear srt q = Ok v -> v = m) /\
  (in_range t 0 = true -> in_range t m = true -> qspec (int_carrier t) Midpoint srt q = Ok m) /\
  (in_range t 0 = true -> in_range t m = true -> Z.abs m <= 2 ^ 53 -> qspec (int_carrier t) Linear srt q = Ok m).
Proof.
  intros q Vq E1. pose proof Vq as Vq'. apply valid_q_spec in Vq'. destruct Vq' as (Fq & _).
  destruct (index_one q n Fq E1 Hn1 Hn) as (Lo & Hi).
  exact (same_index q (n - 1)%nat Vq Lo Hi).
Qed.

(* L3 *)
Theorem L3_lower_le_higher : forall (s : strategy) (q : F64) (vl vh v : Z), valid_q q = true ->
  (s = Linear -> small srt) ->
  qspec (int_carrier t) Lower srt q = Ok vl ->
  qspec (int_carrier t) Higher srt q = Ok vh ->
  qspec (int_carrier t) s srt q = Ok v ->
  vl <= v <= vh.
Proof.
  intros s q vl vh v Vq Hsm HL HH H. destruct (bracket_exists q Vq) as (lo & hi & a & b & B).
  pose proof (in_bracket s q lo hi a b v B Hsm H) as Hv.
  rewrite (qspec_bracket Lower q lo hi a b B) in HL. rewrite (qspec_bracket Higher q lo hi a b B) in HH.
  injection HL as <-. injection HH as <-. exact Hv.
Qed.

(* L4 *)
Theorem L4_coincide : forall q : F64, valid_q q = true ->
  lower_index q n = higher_index q n ->
  B2R (qfrac q n) = 0%R /\
  qspec (int_carrier t) Higher srt q = qspec (int_carrier t) Lower srt q /\
  qspec (int_carrier t) Nearest srt q = qspec (int_carrier t) Lower srt q /\
  forall (s1 s2 : strategy) (v1 v2 : Z),
    qspec (int_carrier t) s1 srt q = Ok v1 -> qspec (int_carrier t) s2 srt q = Ok v2 -> v1 = v2.
Proof.
  intros q Vq E. destruct (bracket_exists q Vq) as (lo & hi & a & b & B).
  pose proof (bk_lo _ _ _ _ _ _ B) as Lo. pose proof (bk_hi _ _ _ _ _ _ B) as Hi. fold n in Lo, Hi.
  assert (Elh : lo = hi) by congruence.
  split. { apply (bk_eq _ _ _ _ _ _ B). exact Elh. }
  rewrite <- Elh in Hi.
  destruct (same_index q lo Vq Lo Hi) as (EL & EH & EN & HM & HLi & _).
  split; [congruence|]. split; [congruence|].
  assert (K : forall s v, qspec (int_carrier t) s srt q = Ok v -> v = nth lo srt 0).
  { intros s v H. destruct s; try congruence; auto. }
  intros s1 s2 v1 v2 H1 H2. rewrite (K s1 v1 H1), (K s2 v2 H2). reflexivity.
Qed.

Theorem L4_frac_zero : forall q : F64, valid_q q = true ->
  (lower_index q n = higher_index q n <-> B2R (qfrac q n) = 0%R).
Proof.
  intros q Vq. destruct (bracket_exists q Vq) as (lo & hi & a & b & B).
  pose proof (bk_lo _ _ _ _ _ _ B) as Lo. pose proof (bk_hi _ _ _ _ _ _ B) as Hi. fold n in Lo, Hi.
  pose proof (bk_eq _ _ _ _ _ _ B) as E. fold n in E.
  rewrite Lo, Hi. split.
  - intros H. apply E. congruence.
  - intros H. apply E in H. congruence.
Qed.

(* L6 *)
Lemma brackets_cases : forall lo1 hi1 lo2 hi2 : nat,
  (lo1 <= lo2)%nat -> (hi1 <= hi2)%nat -> (lo1 <= hi1)%nat -> (lo2 <= hi2)%nat ->
  (hi1 - lo1 <= 1)%nat -> (hi2 - lo2 <= 1)%nat ->
  (lo1 = lo2 /\ hi1 = hi2) \/ (hi1 <= lo2)%nat.
Proof. intros. lia. Qed.

Theorem L6_mono : forall (s : strategy) (q1 q2 : F64) (v1 v2 : Z),
  valid_q q1 = true -> valid_q q2 = true -> (B2R q1 <= B2R q2)%R ->
  (s = Linear -> small srt) ->
  qspec (int_carrier t) s srt q1 = Ok v1 -> qspec (int_carrier t) s srt q2 = Ok v2 ->
  v1 <= v2.
Proof.
  intros s q1 q2 v1 v2 V1 V2 H12 Hsm E1 E2.
  destruct (bracket_exists q1 V1) as (lo1 & hi1 & a1 & b1 & B1).
  destruct (bracket_exists q2 V2) as (lo2 & hi2 & a2 & b2 & B2).
  pose proof (in_bracket s q1 lo1 hi1 a1 b1 v1 B1 Hsm E1) as I1.
  pose proof (in_bracket s q2 lo2 hi2 a2 b2 v2 B2 Hsm E2) as I2.
  pose proof V1 as V1'. pose proof V2 as V2'.
  apply valid_q_spec in V1'. apply valid_q_spec in V2'.
  destruct V1' as (F1 & Q1). destruct V2' as (F2 & Q2).
  destruct (index_mono q1 q2 n lo1 lo2 hi1 hi2 F1 F2 (proj1 Q1) H12 (proj2 Q2) Hn1 Hn
              (bk_lo _ _ _ _ _ _ B1) (bk_lo _ _ _ _ _ _ B2) (bk_hi _ _ _ _ _ _ B1) (bk_hi _ _ _ _ _ _ B2))
    as (Hlo & Hhi).
  destruct (brackets_cases lo1 hi1 lo2 hi2 Hlo Hhi (bk_lohi _ _ _ _ _ _ B1) (bk_lohi _ _ _ _ _ _ B2)
              (bk_d _ _ _ _ _ _ B1) (bk_d _ _ _ _ _ _ B2)) as [[El Eh] | Hsep].
  - (* same bracket *)
    subst lo2 hi2.
    assert (Ea : a2 = a1) by (pose proof (bk_a _ _ _ _ _ _ B1); pose proof (bk_a _ _ _ _ _ _ B2); congruence).
    assert (Eb : b2 = b1) by (pose proof (bk_b _ _ _ _ _ _ B1); pose proof (bk_b _ _ _ _ _ _ B2); congruence).
    subst a2 b2.
    pose proof (bk_ab _ _ _ _ _ _ B1) as Hab.
    pose proof (bk_ff _ _ _ _ _ _ B1) as Ff1. pose proof (bk_ff _ _ _ _ _ _ B2) as Ff2.
    pose proof (bk_fr _ _ _ _ _ _ B1) as Hf1. pose proof (bk_fr _ _ _ _ _ _ B2) as Hf2.
    assert (Hfr : (B2R (qfrac q1 n) <= B2R (qfrac q2 n))%R).
    { pose proof (bk_fx _ _ _ _ _ _ B1) as X1. pose proof (bk_fx _ _ _ _ _ _ B2) as X2. fold n in X1, X2.
      rewrite X1, X2.
      pose proof (fidx_mono q1 q2 n F1 F2 (proj1 Q1) H12 (proj2 Q2) Hn1 Hn). lra. }
    fold n in Ff1, Ff2, Hf1, Hf2.
    rewrite (qspec_bracket s q1 lo1 hi1 a1 b1 B1) in E1.
    rewrite (qspec_bracket s q2 lo1 hi1 a1 b1 B2) in E2.
    destruct s.
    + injection E1 as <-. injection E2 as <-. lia.
    + injection E1 as <-. injection E2 as <-. lia.
    + destruct (flt (qfrac q1 n) fhalf) eqn:L1; destruct (flt (qfrac q2 n) fhalf) eqn:L2;
        injection E1 as <-; injection E2 as <-; try lia.
      exfalso. apply (flt_spec _ _ Ff2 fhalf_finite) in L2.
      assert (L1' : flt (qfrac q1 n) fhalf = true) by (apply (flt_spec _ _ Ff1 fhalf_finite); lra).
      congruence.
    + rewrite E1 in E2. injection E2 as <-. lia.
    + specialize (Hsm eq_refl).
      pose proof (small_nth _ _ _ Hsm (bk_a _ _ _ _ _ _ B1)) as Sa.
      pose proof (small_nth _ _ _ Hsm (bk_b _ _ _ _ _ _ B1)) as Sb.
      apply (int_linear_mono t a1 b1 (qfrac q1 n) (qfrac q2 n) v1 v2 Hab Sa Sb Ff1 Ff2); try assumption; lra.
  - (* separated brackets *)
    pose proof (sorted_nth_le srt Hs hi1 lo2 b1 a2 Hsep (bk_b _ _ _ _ _ _ B1) (bk_a _ _ _ _ _ _ B2)). lia.
Qed.

End Laws.

(* ------------------------------------------------------------------ *)
(* L7: relabelling                                                     *)
(* ------------------------------------------------------------------ *)
Definition res_map {A B : Type} (f : A -> B) (r : res A) : res B :=
  match r with Ok v => Ok (f v) | Panic => Panic | OutOfFuel => OutOfFuel end.

Lemma get_map : forall {A B : Type} (f : A -> B) (l : list A) (i : nat),
  get (map f l) i = res_map f (get l i).
Proof.
  intros A B f l i. unfold get. rewrite nth_error_map.
  destruct (nth_error l i); reflexivity.
Qed.

Lemma qspec_map_select : forall {A B : Type} (CA : carrier A) (CB : carrier B) (f : A -> B)
  (s : strategy) (srt : list A) (q : F64),
  s = Lower \/ s = Higher \/ s = Nearest ->
  qspec CB s (map f srt) q = res_map f (qspec CA s srt q).
Proof.
  intros A B CA CB f s srt q Hsel. unfold qspec. cbv zeta. rewrite map_length.
  destruct Hsel as [-> | [-> | ->]]; unfold interpolate, needs_higher, needs_lower.
  - destruct (lower_index q (length srt)) as [i|]; cbn [bind unwrap]; [|reflexivity].
    rewrite get_map. destruct (get srt i); reflexivity.
  - destruct (higher_index q (length srt)) as [i|]; cbn [bind unwrap]; [|reflexivity].
    rewrite get_map. destruct (get srt i); reflexivity.
  - destruct (flt (qfrac q (length srt)) fhalf); cbn [negb].
    + destruct (lower_index q (length srt)) as [i|]; cbn [bind unwrap]; [|reflexivity].
      rewrite get_map. destruct (get srt i); reflexivity.
    + destruct (higher_index q (length srt)) as [i|]; cbn [bind unwrap]; [|reflexivity].
      rewrite get_map. destruct (get srt i); reflexivity.
Qed.

Lemma sorted_map_incr : forall (f : Z -> Z) (l : list Z),
  (forall x y, x < y -> f x < f y) -> StronglySorted Z.le l -> StronglySorted Z.le (map f l).
Proof.
  intros f l Hf Hl. induction Hl as [|x l Hl IH Hx]; cbn [map]; constructor.
  - exact IH.
  - rewrite Forall_forall in *. intros y Hy. apply in_map_iff in Hy. destruct Hy as (z & <- & Hz).
    specialize (Hx z Hz). destruct (Z.eq_dec x z) as [-> | NE]; [lia|].
    assert (x < z) by lia. specialize (Hf x z H). lia.
Qed.

Theorem L7_relabel : forall (t t' : ity) (f : Z -> Z) (s : strategy) (srt : list Z) (q : F64),
  (forall x y, x < y -> f x < f y) ->
  StronglySorted Z.le srt ->
  s = Lower \/ s = Higher \/ s = Nearest ->
  StronglySorted Z.le (map f srt) /\
  qspec (int_carrier t') s (map f srt) q =
    match qspec (int_carrier t) s srt q with Ok v => Ok (f v) | r => r end.
Proof.
  intros t t' f s srt q Hf Hs Hsel. split.
  - apply sorted_map_incr; assumption.
  - rewrite (qspec_map_select (int_carrier t) (int_carrier t') f s srt q Hsel).
    destruct (qspec (int_carrier t) s srt q); reflexivity.
Qed.

(* ------------------------------------------------------------------ *)
(* L8: the sorted permutation is unique                                *)
(* ------------------------------------------------------------------ *)
Lemma sorted_perm_eq : forall s1 s2 : list Z,
  StronglySorted Z.le s1 -> StronglySorted Z.le s2 -> Permutation s1 s2 -> s1 = s2.
Proof.
  induction s1 as [|x1 s1 IH]; intros s2 H1 H2 P.
  - apply Permutation_nil in P. subst s2. reflexivity.
  - destruct s2 as [|x2 s2].
    + apply Permutation_sym, Permutation_nil in P. discriminate P.
    + inversion H1 as [|? ? S1 F1]; subst. inversion H2 as [|? ? S2 F2]; subst.
      rewrite Forall_forall in F1, F2.
      assert (E : x1 = x2).
      { assert (I1 : In x1 (x2 :: s2)) by (apply (Permutation_in _ P); left; reflexivity).
        assert (I2 : In x2 (x1 :: s1)) by (apply (Permutation_in _ (Permutation_sym P)); left; reflexivity).
        destruct I1 as [I1 | I1]; [congruence|]. destruct I2 as [I2 | I2]; [congruence|].
        specialize (F1 _ I2). specialize (F2 _ I1). lia. }
      subst x2. f_equal. apply IH; [exact S1 | exact S2|].
      eapply Permutation_cons_inv; exact P.
Qed.

Theorem L8_sorted_unique : forall l1 l2 s1 s2 : list Z,
  Permutation l1 l2 -> StronglySorted Z.le s1 -> StronglySorted Z.le s2 ->
  Permutation l1 s1 -> Permutation l2 s2 -> s1 = s2.
Proof.
  intros l1 l2 s1 s2 P S1 S2 P1 P2. apply sorted_perm_eq; [exact S1 | exact S2|].
  eapply Permutation_trans; [apply Permutation_sym; exact P1|].
  eapply Permutation_trans; [exact P | exact P2].
Qed.

Theorem L8_qspec_perm_invariant : forall (t : ity) (s : strategy) (q : F64) (l1 l2 s1 s2 : list Z),
  Permutation l1 l2 -> StronglySorted Z.le s1 -> StronglySorted Z.le s2 ->
  Permutation l1 s1 -> Permutation l2 s2 ->
  qspec (int_carrier t) s s1 q = qspec (int_carrier t) s s2 q.
Proof.
  intros t s q l1 l2 s1 s2 P S1 S2 P1 P2.
  rewrite (L8_sorted_unique l1 l2 s1 s2 P S1 S2 P1 P2). reflexivity.
Qed.

(* ------------------------------------------------------------------ *)
(* Why Linear needs the magnitude hypothesis [small]: above 2^53 the    *)
(* conversions `as f64` round, and Linear leaves the bracket and is not *)
(* monotone in q.                                                       *)
(* ------------------------------------------------------------------ *)
Definition cx_i64 : ity := {| signed := true; bits := 64 |}.
Definition cx_q090 : F64 := f64_of_bits 4606281698874543309.   (* 0.9 *)
Definition cx_q045 : F64 := f64_of_bits 4601778099247172813.   (* 0.45 *)
Definition cx_q050 : F64 := f64_of_bits 4602678819172646912.   (* 0.5 *)

Example linear_escapes_bracket :
  valid_q cx_q090 = true /\
  qspec (int_carrier cx_i64) Lower [2 ^ 53 + 1; 2 ^ 53 + 3] cx_q090 = Ok (2 ^ 53 + 1) /\
  qspec (int_carrier cx_i64) Higher [2 ^ 53 + 1; 2 ^ 53 + 3] cx_q090 = Ok (2 ^ 53 + 3) /\
  qspec (int_carrier cx_i64) Linear [2 ^ 53 + 1; 2 ^ 53 + 3] cx_q090 = Ok (2 ^ 53 + 4).
Proof. vm_compute. repeat split; reflexivity. Qed.

Example linear_not_monotone :
  valid_q cx_q045 = true /\ valid_q cx_q050 = true /\
  qspec (int_carrier cx_i64) Linear [2 ^ 53 + 1; 2 ^ 53 + 3; 2 ^ 53 + 3] cx_q045 = Ok (2 ^ 53 + 4) /\
  qspec (int_carrier cx_i64) Linear [2 ^ 53 + 1; 2 ^ 53 + 3; 2 ^ 53 + 3] cx_q050 = Ok (2 ^ 53 + 3).
Proof. vm_compute. repeat split; reflexivity. Qed.

Check L1_select. Check L1_bracket. Check L2_bounds. Check L2_zero. Check L2_one.
Check L3_lower_le_higher. Check L4_coincide. Check L4_frac_zero. Check L5_linear_bracket.
Check L5_linear_total. Check L6_mono. Check L7_relabel. Check L8_sorted_unique. Check L8_qspec_perm_invariant.
Print Assumptions L1_select.
Print Assumptions L1_bracket.
Print Assumptions L2_bounds.
Print Assumptions L2_zero.
Print Assumptions L2_one.
Print Assumptions L3_lower_le_higher.
Print Assumptions L4_coincide.
Print Assumptions L4_frac_zero.
Print Assumptions L5_linear_bracket.
Print Assumptions L5_linear_total.
Print Assumptions L6_mono.
Print Assumptions L7_relabel.
Print Assumptions L8_sorted_unique.
Print Assumptions L8_qspec_perm_invariant.
Print Assumptions linear_escapes_bracket.
Print Assumptions linear_not_monotone.
