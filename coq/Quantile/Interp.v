(* The five interpolation strategies (quantile/interpolate.rs) over a carrier of element
   operations: integers of a given width, or N64. *)
From Coq Require Import ZArith Bool List.
Import ListNotations.
From NS Require Import Base.Res Num.F64 Quantile.Index.

Inductive strategy := Higher | Lower | Nearest | Midpoint | Linear.

Definition needs_lower (s : strategy) (q : F64) (n : nat) : bool :=
  match s with
  | Higher => false
  | Lower | Midpoint | Linear => true
  | Nearest => flt (qfrac q n) fhalf
  end.

Definition needs_higher (s : strategy) (q : F64) (n : nat) : bool :=
  match s with
  | Lower => false
  | Higher | Midpoint | Linear => true
  | Nearest => negb (needs_lower Nearest q n)
  end.

(* element operations used by Midpoint and Linear; Panic = the computation is not
   representable in the element type (known-finding class K1) *)
Record carrier (A : Type) := {
  c_leb : A -> A -> bool;
  c_midpoint : A -> A -> res A;          (* lower + (higher - lower) / 2 *)
  c_linear : A -> A -> F64 -> res A      (* lower + from_f64(frac * (higher_f64 - lower_f64)) *)
}.
Arguments c_leb {A}. Arguments c_midpoint {A}. Arguments c_linear {A}.

Definition unwrap {A} (o : option A) : res A := match o with Some x => Ok x | None => Panic end.

Definition interpolate {A} (C : carrier A) (s : strategy) (lower higher : option A) (q : F64) (n : nat) : res A :=
  match s with
  | Higher => unwrap higher
  | Lower => unwrap lower
  | Nearest => if needs_lower Nearest q n then unwrap lower else unwrap higher
  | Midpoint => l <- unwrap lower ;; h <- unwrap higher ;; c_midpoint C l h
  | Linear => l <- unwrap lower ;; h <- unwrap higher ;; c_linear C l h (qfrac q n)
  end.

(* ---- bounded integers ---- *)
Record ity := { signed : bool; bits : Z }.
Definition imin (t : ity) : Z := if signed t then - 2 ^ (bits t - 1) else 0.
Definition imax (t : ity) : Z := if signed t then 2 ^ (bits t - 1) - 1 else 2 ^ bits t - 1.
Definition in_range (t : ity) (x : Z) : bool := (imin t <=? x)%Z && (x <=? imax t)%Z.

Definition int_midpoint (t : ity) (l h : Z) : res Z :=
  let d := (h - l)%Z in
  if in_range t d then
    let r := (l + Z.quot d 2)%Z in
    if in_range t r then Ok r else Panic
  else Panic.

(* FromPrimitive::from_f64 for an integer type: truncation, None outside the type's range *)
Definition int_of_f64 (t : ity) (x : F64) : option Z :=
  if fis_finite x then
    let z := ftrunc_Z x in if in_range t z then Some z else None
  else None.

Definition int_linear (t : ity) (l h : Z) (frac : F64) : res Z :=
  let x := fmul frac (fsub (f64_of_Z h) (f64_of_Z l)) in
  match int_of_f64 t x with
  | Some z => let r := (l + z)%Z in if in_range t r then Ok r else Panic
  | None => Panic
  end.

Definition int_carrier (t : ity) : carrier Z :=
  {| c_leb := Z.leb; c_midpoint := int_midpoint t; c_linear := int_linear t |}.

(* ---- N64: finite, non-NaN binary64 ---- *)
Definition n64_ok (x : F64) : res F64 := if fis_nan x then Panic else Ok x.
Definition n64_midpoint (l h : F64) : res F64 := n64_ok (fadd l (fdiv (fsub h l) ftwo)).
Definition n64_linear (l h : F64) (frac : F64) : res F64 := n64_ok (fadd l (fmul frac (fsub h l))).
Definition n64_carrier : carrier F64 :=
  {| c_leb := fle; c_midpoint := n64_midpoint; c_linear := n64_linear |}.
