From Coq Require Import List Arith ZArith Bool Lia.
Import ListNotations.
From NS Require Import Num.F64 Quantile.Index Quantile.Lane Errors.Decision.

Lemma shape_eqb_eq a b : shape_eqb a b = true <-> a = b.
Proof.
  unfold shape_eqb. revert b. induction a as [|x a IH]; intros [|y b]; cbn; split; intros H;
    try discriminate; auto.
  - apply andb_true_iff in H. destruct H as [H1 H2].
    apply andb_true_iff in H2. destruct H2 as [H2 H3]. apply Nat.eqb_eq in H2. subst y.
    f_equal. apply IH. apply andb_true_iff. split; assumption.
  - injection H as -> ->.
    assert (E : Nat.eqb (length b) (length b) && forallb (fun xy => Nat.eqb (fst xy) (snd xy)) (combine b b) = true)
      by (apply IH; reflexivity).
    apply andb_true_iff in E. destruct E as [E1 E2].
    rewrite E1, Nat.eqb_refl, E2. reflexivity.
Qed.

Lemma first_invalid_spec qs :
  (first_invalid qs = None <-> Forall (fun q => valid_q q = true) qs) /\
  (forall q, first_invalid qs = Some q ->
     exists pre post, qs = pre ++ q :: post /\ Forall (fun x => valid_q x = true) pre /\ valid_q q = false).
Proof.
  induction qs as [|x t [IH1 IH2]]; cbn [first_invalid].
  - split; [split; auto | intros q H; discriminate].
  - destruct (valid_q x) eqn:E.
    + split.
      * rewrite IH1. split; intros H; [constructor; auto | inversion H; auto].
      * intros q H. destruct (IH2 q H) as (pre & post & -> & Hp & Hq).
        exists (x :: pre), post. split; [reflexivity|]. split; [constructor; auto | exact Hq].
    + split.
      * split; [discriminate | intros H; inversion H; congruence].
      * intros q H. injection H as <-. exists [], t. split; [reflexivity|]. split; [constructor | exact E].
Qed.

(* EmptyInput exactly when the (first) input has no elements, for the families that check it *)
Theorem empty_iff : forall f c, In f [F_single; F_pair; F_pair_ddof; F_axis; F_axis_ddof] ->
  (decide f c = O_Empty <-> size (c_self c) = 0).
Proof.
  intros f c Hf. cbn [In] in Hf.
  destruct Hf as [<-|[<-|[<-|[<-|[<-|[]]]]]]; cbn [decide];
    destruct (Nat.eqb_spec (size (c_self c)) 0) as [E|E];
    (split; intros H; [ try exact E | try reflexivity; try contradiction ]).
  - discriminate H.
  - destruct (shape_eqb (c_self c) (c_other c)); discriminate H.
  - destruct (shape_eqb (c_self c) (c_other c)); [destruct (c_ddof_ok c)|]; discriminate H.
  - destruct (Nat.eqb (nth (c_axis c) (c_self c) 0) (size (c_other c))); discriminate H.
  - destruct (Nat.eqb (nth (c_axis c) (c_self c) 0) (size (c_other c))); [destruct (c_ddof_ok c)|]; discriminate H.
Qed.

(* ShapeMismatch carrying both shapes exactly when a non-empty input meets a different shape *)
Theorem mismatch_iff : forall f c, In f [F_pair; F_pair_ddof] ->
  (decide f c = O_Shape (c_self c) (c_other c) <-> size (c_self c) <> 0 /\ c_self c <> c_other c).
Proof.
  intros f c Hf. cbn [In] in Hf.
  assert (HS : shape_eqb (c_self c) (c_other c) = true <-> c_self c = c_other c) by apply shape_eqb_eq.
  destruct Hf as [<-|[<-|[]]]; cbn [decide];
    destruct (Nat.eqb_spec (size (c_self c)) 0) as [E|E];
    destruct (shape_eqb (c_self c) (c_other c)) eqn:S.
  - split; [discriminate | intros [H1 _]; contradiction].
  - split; [discriminate | intros [H1 _]; contradiction].
  - split; [discriminate | intros [_ H2]; exfalso; apply H2, HS; reflexivity].
  - split; [intros _ | reflexivity]. split; [exact E | intros H2; apply HS in H2; discriminate].
  - split; [discriminate | intros [H1 _]; contradiction].
  - split; [discriminate | intros [H1 _]; contradiction].
  - split; [destruct (c_ddof_ok c); discriminate | intros [_ H2]; exfalso; apply H2, HS; reflexivity].
  - split; [intros _ | reflexivity]. split; [exact E | intros H2; apply HS in H2; discriminate].
Qed.

Theorem mismatch_payload : forall f c s1 s2, decide f c = O_Shape s1 s2 -> s1 = c_self c /\ s2 = c_other c.
Proof.
  intros f c s1 s2. destruct f; cbn [decide].
  - destruct (Nat.eqb (size (c_self c)) 0); discriminate.
  - destruct (Nat.eqb (size (c_self c)) 0); [discriminate|].
    destruct (shape_eqb (c_self c) (c_other c)); [discriminate|].
    intros H; injection H as <- <-; auto.
  - destruct (Nat.eqb (size (c_self c)) 0); [discriminate|].
    destruct (shape_eqb (c_self c) (c_other c)); [destruct (c_ddof_ok c); discriminate|].
    intros H; injection H as <- <-; auto.
  - destruct (shape_eqb (c_self c) (c_other c)); [discriminate|].
    intros H; injection H as <- <-; auto.
  - destruct (Nat.eqb (size (c_self c)) 0); [discriminate|].
    destruct (Nat.eqb (nth (c_axis c) (c_self c) 0) (size (c_other c))); [discriminate|].
    intros H; injection H as <- <-; auto.
  - destruct (Nat.eqb (size (c_self c)) 0); [discriminate|].
    destruct (Nat.eqb (nth (c_axis c) (c_self c) 0) (size (c_other c))); [destruct (c_ddof_ok c); discriminate|].
    intros H; injection H as <- <-; auto.
  - destruct (Nat.eqb (nth (c_axis c) (c_self c) 0) (size (c_other c))); [discriminate|].
    intros H; injection H as <- <-; auto.
  - destruct (first_invalid (c_qs c)); [discriminate|].
    destruct (Nat.eqb (nth (c_axis c) (c_self c) 0) 0); discriminate.
  - destruct (Nat.ltb 0 (nth 0 (c_self c) 0) && Nat.ltb 0 (nth 1 (c_self c) 0)); discriminate.
  - destruct (negb (c_ddof_ok c)); [discriminate|].
    destruct (Nat.eqb (nth 1 (c_self c) 0) 0); discriminate.
Qed.

(* per-axis weights: a different length than the axis *)
Theorem axis_mismatch_iff : forall f c, In f [F_axis; F_axis_ddof] ->
  (decide f c = O_Shape (c_self c) (c_other c) <->
   size (c_self c) <> 0 /\ nth (c_axis c) (c_self c) 0 <> size (c_other c)).
Proof.
  intros f c Hf. cbn [In] in Hf.
  destruct Hf as [<-|[<-|[]]]; cbn [decide];
    destruct (Nat.eqb_spec (size (c_self c)) 0) as [E|E];
    destruct (Nat.eqb_spec (nth (c_axis c) (c_self c) 0) (size (c_other c))) as [S|S].
  - split; [discriminate | intros [H1 _]; contradiction].
  - split; [discriminate | intros [H1 _]; contradiction].
  - split; [discriminate | intros [_ H2]; contradiction].
  - split; [intros _; split; assumption | reflexivity].
  - split; [discriminate | intros [H1 _]; contradiction].
  - split; [discriminate | intros [H1 _]; contradiction].
  - split; [destruct (c_ddof_ok c); discriminate | intros [_ H2]; contradiction].
  - split; [intros _; split; assumption | reflexivity].
Qed.

(* two decompositions around a first invalid element agree *)
Lemma first_invalid_unique : forall pre q post pre0 q0 post0,
  pre ++ q :: post = pre0 ++ q0 :: post0 ->
  Forall (fun x => valid_q x = true) pre -> valid_q q = false ->
  Forall (fun x => valid_q x = true) pre0 -> valid_q q0 = false ->
  q0 = q.
Proof.
  induction pre as [|a pre IH]; intros q post [|b pre0] q0 post0 Heq Hp Hv Hp0 Hv0; cbn in Heq.
  - injection Heq as -> _. reflexivity.
  - injection Heq as -> _. inversion Hp0; congruence.
  - injection Heq as -> _. inversion Hp; congruence.
  - injection Heq as -> Heq. inversion Hp; inversion Hp0; subst. eapply IH; eauto.
Qed.

(* InvalidQuantile carries the FIRST offending q and is checked before emptiness *)
Theorem invalid_q_first : forall c q,
  decide F_quantiles c = O_InvalidQ q <->
  exists pre post, c_qs c = pre ++ q :: post /\ Forall (fun x => valid_q x = true) pre /\ valid_q q = false.
Proof.
  intros c q. cbn [decide]. destruct (first_invalid_spec (c_qs c)) as [H1 H2].
  destruct (first_invalid (c_qs c)) as [q0|] eqn:E.
  - split.
    + intros H. injection H as <-. apply H2. reflexivity.
    + intros (pre & post & Hq & Hp & Hv). f_equal.
      destruct (H2 q0 eq_refl) as (pre0 & post0 & Hq0 & Hp0 & Hv0).
      rewrite Hq in Hq0. eapply first_invalid_unique; eauto.
  - split; [destruct (Nat.eqb (nth (c_axis c) (c_self c) 0) 0); discriminate|].
    intros (pre & post & Hq & Hp & Hv). exfalso.
    assert (HF : Forall (fun q => valid_q q = true) (c_qs c)) by (apply H1; reflexivity).
    rewrite Hq in HF. apply Forall_app in HF. destruct HF as [_ HF]. inversion HF; congruence.
Qed.

Theorem quantile_empty_iff : forall c,
  decide F_quantiles c = O_Empty <->
  Forall (fun q => valid_q q = true) (c_qs c) /\ nth (c_axis c) (c_self c) 0 = 0.
Proof.
  intros c. cbn [decide]. destruct (first_invalid_spec (c_qs c)) as [H1 _].
  destruct (first_invalid (c_qs c)) as [q0|] eqn:E.
  - split; [discriminate|]. intros [HF _]. apply H1 in HF. discriminate.
  - destruct (Nat.eqb_spec (nth (c_axis c) (c_self c) 0) 0) as [Z|Z].
    + split; [intros _ | reflexivity]. split; [apply H1; reflexivity | exact Z].
    + split; [discriminate | intros [_ H]; contradiction].
Qed.

(* the sum-type routines accept empty inputs *)
Theorem sum_type_accepts_empty : forall c,
  (c_self c = c_other c -> decide F_pair_sum c = O_Ok) /\
  (nth (c_axis c) (c_self c) 0 = size (c_other c) -> decide F_axis_sum c = O_Ok).
Proof.
  intros c. split; intros H; cbn [decide].
  - assert (E : shape_eqb (c_self c) (c_other c) = true) by (apply shape_eqb_eq; exact H).
    rewrite E. reflexivity.
  - apply Nat.eqb_eq in H. rewrite H. reflexivity.
Qed.

(* none of the error conditions surfaces as a panic: a Panic outcome only arises from the
   documented ddof assertions *)
Theorem no_guard_panics : forall f c, decide f c = O_Panic -> c_ddof_ok c = false.
Proof.
  intros f c. destruct f; cbn [decide].
  - destruct (Nat.eqb (size (c_self c)) 0); discriminate.
  - destruct (Nat.eqb (size (c_self c)) 0); [discriminate|].
    destruct (shape_eqb (c_self c) (c_other c)); discriminate.
  - destruct (Nat.eqb (size (c_self c)) 0); [discriminate|].
    destruct (shape_eqb (c_self c) (c_other c)); [|discriminate].
    destruct (c_ddof_ok c); [discriminate | reflexivity].
  - destruct (shape_eqb (c_self c) (c_other c)); discriminate.
  - destruct (Nat.eqb (size (c_self c)) 0); [discriminate|].
    destruct (Nat.eqb (nth (c_axis c) (c_self c) 0) (size (c_other c))); discriminate.
  - destruct (Nat.eqb (size (c_self c)) 0); [discriminate|].
    destruct (Nat.eqb (nth (c_axis c) (c_self c) 0) (size (c_other c))); [|discriminate].
    destruct (c_ddof_ok c); [discriminate | reflexivity].
  - destruct (Nat.eqb (nth (c_axis c) (c_self c) 0) (size (c_other c))); discriminate.
  - destruct (first_invalid (c_qs c)); [discriminate|].
    destruct (Nat.eqb (nth (c_axis c) (c_self c) 0) 0); discriminate.
  - destruct (Nat.ltb 0 (nth 0 (c_self c) 0) && Nat.ltb 0 (nth 1 (c_self c) 0)); discriminate.
  - destruct (c_ddof_ok c); cbn [negb]; [|reflexivity].
    destruct (Nat.eqb (nth 1 (c_self c) 0) 0); discriminate.
Qed.

(* every family returns Ok on a non-empty, well-shaped, valid call *)
Theorem ok_otherwise : forall f c, f <> F_pearson -> f <> F_cov ->
  size (c_self c) <> 0 -> c_self c = c_other c \/ In f [F_single; F_quantiles; F_axis; F_axis_ddof; F_axis_sum] ->
  nth (c_axis c) (c_self c) 0 = size (c_other c) \/ ~ In f [F_axis; F_axis_ddof; F_axis_sum] ->
  nth (c_axis c) (c_self c) 0 <> 0 \/ f <> F_quantiles ->
  Forall (fun q => valid_q q = true) (c_qs c) -> c_ddof_ok c = true -> decide f c = O_Ok.
Proof.
  intros f c Hp Hc Hn Hs Ha Hq Hv Hd.
  destruct (first_invalid_spec (c_qs c)) as [H1 _]. apply H1 in Hv. clear H1.
  apply Nat.eqb_neq in Hn.
  assert (HS : c_self c = c_other c -> shape_eqb (c_self c) (c_other c) = true)
    by (intros H; apply shape_eqb_eq; exact H).
  destruct f; cbn [decide]; cbn [In] in Hs, Ha; rewrite ?Hn, ?Hd.
  - reflexivity.
  - destruct Hs as [Hs|Hs]; [rewrite (HS Hs); reflexivity|].
    exfalso. repeat (destruct Hs as [Hs|Hs]; [discriminate Hs|]). exact Hs.
  - destruct Hs as [Hs|Hs]; [rewrite (HS Hs); reflexivity|].
    exfalso. repeat (destruct Hs as [Hs|Hs]; [discriminate Hs|]). exact Hs.
  - destruct Hs as [Hs|Hs]; [rewrite (HS Hs); reflexivity|].
    exfalso. repeat (destruct Hs as [Hs|Hs]; [discriminate Hs|]). exact Hs.
  - destruct Ha as [Ha|Ha]; [apply Nat.eqb_eq in Ha; rewrite Ha; reflexivity|].
    exfalso; apply Ha; auto.
  - destruct Ha as [Ha|Ha]; [apply Nat.eqb_eq in Ha; rewrite Ha; reflexivity|].
    exfalso; apply Ha; auto.
  - destruct Ha as [Ha|Ha]; [apply Nat.eqb_eq in Ha; rewrite Ha; reflexivity|].
    exfalso; apply Ha; auto.
  - rewrite Hv. destruct Hq as [Hq|Hq]; [|congruence].
    apply Nat.eqb_neq in Hq. rewrite Hq. reflexivity.
  - congruence.
  - congruence.
Qed.

Print Assumptions shape_eqb_eq.
Print Assumptions first_invalid_spec.
Print Assumptions empty_iff.
Print Assumptions mismatch_iff.
Print Assumptions mismatch_payload.
Print Assumptions axis_mismatch_iff.
Print Assumptions invalid_q_first.
Print Assumptions quantile_empty_iff.
Print Assumptions sum_type_accepts_empty.
Print Assumptions no_guard_panics.
Print Assumptions ok_otherwise.
