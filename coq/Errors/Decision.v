(* The guard sequences of the fallible public routines, as decision functions from an
   abstract call descriptor (shapes, axis, requested quantiles) to the documented outcome.
   Transcribed guard by guard from lib.rs (return_err_if_empty!, return_err_unless_same_shape!),
   summary_statistics/means.rs, deviation.rs, entropy.rs, quantile/mod.rs, correlation.rs. *)
From Coq Require Import List Arith ZArith Bool.
Import ListNotations.
From NS Require Import Num.F64 Quantile.Index Quantile.Lane.

Inductive outcome :=
| O_Ok
| O_Empty
| O_Shape (first second : list nat)
| O_InvalidQ (q : F64)
| O_Panic.

Definition size (shape : list nat) : nat := fold_left Nat.mul shape 1.
Definition shape_eqb (a b : list nat) : bool :=
  Nat.eqb (length a) (length b) && forallb (fun xy => Nat.eqb (fst xy) (snd xy)) (combine a b).

(* routine families by guard sequence *)
Inductive family :=
| F_single            (* mean, harmonic_mean, geometric_mean, kurtosis, skewness, central_moment(s), entropy *)
| F_pair              (* the ten deviation measures, weighted_mean, kl_divergence, cross_entropy: empty, then shape *)
| F_pair_ddof         (* weighted_var, weighted_std: empty, shape, then the ddof assertion *)
| F_pair_sum          (* weighted_sum: shape only - an empty input is accepted and yields zero *)
| F_axis              (* weighted_mean_axis: empty, then the weights' length against the axis *)
| F_axis_ddof         (* weighted_var_axis, weighted_std_axis *)
| F_axis_sum          (* weighted_sum_axis: length check only *)
| F_quantiles         (* quantiles_axis_mut, quantile_axis_mut, quantile(s)_mut, quantile_axis_skipnan_mut *)
| F_pearson           (* pearson_correlation: both dimensions positive *)
| F_cov.              (* cov: documented panic for ddof >= n_observations, then mean_axis *)

Record call := {
  c_self : list nat;        (* shape of self *)
  c_other : list nat;       (* shape of the second argument (weights / other / q-less routines: ignored) *)
  c_axis : nat;             (* axis for per-axis routines *)
  c_qs : list F64;          (* requested quantiles *)
  c_ddof_ok : bool;         (* ddof within the routine's documented range *)
}.

Definition decide (f : family) (c : call) : outcome :=
  let n := size (c_self c) in
  match f with
  | F_single => if Nat.eqb n 0 then O_Empty else O_Ok
  | F_pair =>
    if Nat.eqb n 0 then O_Empty
    else if shape_eqb (c_self c) (c_other c) then O_Ok else O_Shape (c_self c) (c_other c)
  | F_pair_ddof =>
    if Nat.eqb n 0 then O_Empty
    else if shape_eqb (c_self c) (c_other c) then (if c_ddof_ok c then O_Ok else O_Panic)
    else O_Shape (c_self c) (c_other c)
  | F_pair_sum =>
    if shape_eqb (c_self c) (c_other c) then O_Ok else O_Shape (c_self c) (c_other c)
  | F_axis =>
    if Nat.eqb n 0 then O_Empty
    else if Nat.eqb (nth (c_axis c) (c_self c) 0) (size (c_other c)) then O_Ok
    else O_Shape (c_self c) (c_other c)
  | F_axis_ddof =>
    if Nat.eqb n 0 then O_Empty
    else if Nat.eqb (nth (c_axis c) (c_self c) 0) (size (c_other c)) then (if c_ddof_ok c then O_Ok else O_Panic)
    else O_Shape (c_self c) (c_other c)
  | F_axis_sum =>
    if Nat.eqb (nth (c_axis c) (c_self c) 0) (size (c_other c)) then O_Ok
    else O_Shape (c_self c) (c_other c)
  | F_quantiles =>
    match first_invalid (c_qs c) with
    | Some q => O_InvalidQ q
    | None => if Nat.eqb (nth (c_axis c) (c_self c) 0) 0 then O_Empty else O_Ok
    end
  | F_pearson =>
    if Nat.ltb 0 (nth 0 (c_self c) 0) && Nat.ltb 0 (nth 1 (c_self c) 0) then O_Ok else O_Empty
  | F_cov =>
    if negb (c_ddof_ok c) then O_Panic      (* ddof >= n_observations: documented panic *)
    else if Nat.eqb (nth 1 (c_self c) 0) 0 then O_Empty
    else O_Ok
  end.
