(* Helpers shared by the generated cases files: everything in a cases file is a
   Z literal; these wrappers convert and compare. *)
From Coq Require Import List Arith ZArith Lia Bool.
Import ListNotations.
From NS Require Import Base.Res Mem.Buffer.

Definition zn (z : Z) : nat := Z.to_nat z.
Definition nz (n : nat) : Z := Z.of_nat n.

Fixpoint list_eqb {A} (eqb : A -> A -> bool) (l1 l2 : list A) : bool :=
  match l1, l2 with
  | [], [] => true
  | x :: t1, y :: t2 => eqb x y && list_eqb eqb t1 t2
  | _, _ => false
  end.

Definition zlist_eqb := list_eqb Z.eqb.
Definition nlist_eqb := list_eqb Nat.eqb.

Definition mkview (off len stride : Z) : view1 :=
  {| v_off := off; v_len := zn len; v_stride := stride |}.

(* positions (0-based) of the [false] entries of a list of verdicts *)
Fixpoint failing_from (k : Z) (l : list bool) : list Z :=
  match l with
  | [] => []
  | b :: t => if b then failing_from (k + 1) t else k :: failing_from (k + 1) t
  end.
Definition failing (l : list bool) : list Z := failing_from 0 l.

(* out-of-range guard on an index given as an arbitrary Z (e.g. 2^64 - 1) *)
Definition idx_in_range (i : Z) (n : nat) : bool := (0 <=? i)%Z && (i <? nz n)%Z.
