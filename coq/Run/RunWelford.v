(* ndarray's own std_axis(Axis(1), 0) on the rows of a matrix: the Welford model of Num/WelfordF64.v,
   compared bit for bit with the library (harness routine nd_std_axis).  This ties the model the
   Pearson theorems (Props/C08_f64_pearson.v) talk about to ndarray 0.16.1's var_axis. *)
From Coq Require Import List ZArith Bool.
Import ListNotations.
From NS Require Import Num.F64 Num.WelfordF64 Run.RunBase.

Definition m_nd_std (rows : list (list Z)) : list Z :=
  map (fun r => bits_of_f64 (welford_std (map f64_of_bits r) fzero)) rows.
Definition chk_nd_std (rows : list (list Z)) (obs : list Z) : bool :=
  zlist_eqb (m_nd_std rows) obs.
