(* Executable instances of the sort models over Z, at buffer level, and the
   agreement predicates used by the correspondence check. *)
From Coq Require Import List Arith ZArith Lia Bool.
Import ListNotations.
From NS Require Import Base.Res Mem.Buffer Sort.Partition Sort.Select Sort.Bulk Run.RunBase.

Inductive obs_part := OP_Panic (buf : list Z) | OP_Ok (k : Z) (buf : list Z).

Definition m_partition (buf : list Z) (off len stride p : Z) : res (nat * list Z) :=
  let cs := cells (mkview off len stride) in
  if idx_in_range p (zn len) then
    lift_op (fun l => partition Z Z.leb l (zn p)) buf cs
  else Panic.

Definition chk_partition (buf : list Z) (off len stride p : Z) (o : obs_part) : bool :=
  match m_partition buf off len stride p, o with
  | Ok (k, b), OP_Ok k' b' => Z.eqb (nz k) k' && zlist_eqb b b'
  | Panic, OP_Panic b' => zlist_eqb buf b'
  | _, _ => false
  end.
