(* Executable instances of the sort models over Z, at buffer level, and the
   agreement predicates used by the correspondence check. *)
From Coq Require Import List Arith ZArith Lia Bool.
Import ListNotations.
From NS Require Import Base.Res Base.SortDedup Mem.Buffer Sort.Partition Sort.Select Sort.Bulk Sort.SelectMany Run.RunBase.

Inductive obs_part := OP_Panic (buf : list Z) | OP_Ok (k : Z) (buf : list Z).

Definition m_partition (buf : list Z) (off len stride p : Z) : res (nat * list Z) :=
  let cs := cells (mkview off len stride) in
  if idx_in_range p (zn len) then
    lift_op (fun l => partition Z Z.leb l (zn p)) buf cs
  else Panic.

Definition chk_partition (buf : list Z) (off len stride p : Z) (o : obs_part) : bool :=
  match m_partition buf off len stride p, o with
  | Ok (k, b), OP_Ok k' b' => Z.eqb (nz k) k' && zlist_eqb b b'
  | Panic, OP_Panic b' => zlist_eqb buf b'
  | _, _ => false
  end.

(* ---- selection: the pivot choices logged by the implementation are replayed ---- *)
Definition script_pick (s : list Z) : nat -> nat -> nat := fun c _ => zn (nth c s 0%Z).

Inductive obs_sel := OS_Panic (buf : list Z) | OS_Ok (v : Z) (buf : list Z) (ncalls : Z).

Definition m_select (buf : list Z) (off len stride i : Z) (script : list Z)
  : res (Z * list Z * nat) :=
  let cs := cells (mkview off len stride) in
  if idx_in_range i (zn len) then
    l <- vread buf cs ;;
    r <- select Z Z.leb (S (zn len)) (script_pick script) 0 l (zn i) ;;
    let '(v, l', c) := r in Ok (v, vwrite buf cs l', c)
  else Panic.

Definition chk_select (buf : list Z) (off len stride i : Z) (script : list Z) (o : obs_sel) : bool :=
  match m_select buf off len stride i script, o with
  | Ok (v, b, c), OS_Ok v' b' c' => Z.eqb v v' && zlist_eqb b b' && Z.eqb (nz c) c'
  | Panic, OS_Panic b' => zlist_eqb buf b'
  | _, _ => false
  end.

Inductive obs_many := OM_Panic (buf : list Z) | OM_Ok (keys vals buf : list Z) (ncalls : Z).

Definition m_select_many (buf : list Z) (off len stride : Z) (idxs : list Z) (script : list Z)
  : res (list (nat * Z) * list Z * nat) :=
  let cs := cells (mkview off len stride) in
  if forallb (fun i => idx_in_range i (zn len)) idxs then
    l <- vread buf cs ;;
    r <- select_many Z Z.leb (S (zn len)) (script_pick script) l (map zn idxs) ;;
    let '(kvs, l', c) := r in Ok (kvs, vwrite buf cs l', c)
  else Panic.

Definition chk_select_many (buf : list Z) (off len stride : Z) (idxs script : list Z) (o : obs_many) : bool :=
  match m_select_many buf off len stride idxs script, o with
  | Ok (kvs, b, c), OM_Ok ks vs b' c' =>
    zlist_eqb (map (fun kv => nz (fst kv)) kvs) ks && zlist_eqb (map snd kvs) vs &&
    zlist_eqb b b' && Z.eqb (nz c) c'
  | Panic, OM_Panic b' => zlist_eqb buf b'
  | _, _ => false
  end.

(* ---- element types whose order is coarser than identity (N64: -0 = +0; records ordered by a key) ----
   An element is 2 * key + tag; the order looks at the key only.  The models are the same generic
   routines (Sort/Partition.v, Sort/Select.v, whose theorems hold for every total transitive leb),
   instantiated at this preorder: equal keys are NOT interchangeable, every element keeps its identity. *)
Definition leb_half (a b : Z) : bool := (a / 2 <=? b / 2)%Z.

Definition m_partition_half (buf : list Z) (off len stride p : Z) : res (nat * list Z) :=
  let cs := cells (mkview off len stride) in
  if idx_in_range p (zn len) then
    lift_op (fun l => partition Z leb_half l (zn p)) buf cs
  else Panic.

Definition chk_partition_half (buf : list Z) (off len stride p : Z) (o : obs_part) : bool :=
  match m_partition_half buf off len stride p, o with
  | Ok (k, b), OP_Ok k' b' => Z.eqb (nz k) k' && zlist_eqb b b'
  | Panic, OP_Panic b' => zlist_eqb buf b'
  | _, _ => false
  end.

Definition m_select_half (buf : list Z) (off len stride i : Z) (script : list Z)
  : res (Z * list Z * nat) :=
  let cs := cells (mkview off len stride) in
  if idx_in_range i (zn len) then
    l <- vread buf cs ;;
    r <- select Z leb_half (S (zn len)) (script_pick script) 0 l (zn i) ;;
    let '(v, l', c) := r in Ok (v, vwrite buf cs l', c)
  else Panic.

Definition chk_select_half (buf : list Z) (off len stride i : Z) (script : list Z) (o : obs_sel) : bool :=
  match m_select_half buf off len stride i script, o with
  | Ok (v, b, c), OS_Ok v' b' c' => Z.eqb v v' && zlist_eqb b b' && Z.eqb (nz c) c'
  | Panic, OS_Panic b' => zlist_eqb buf b'
  | _, _ => false
  end.
