(* Executable instances of the numeric kernels: binary64 / binary32 bit patterns and integers. *)
From Coq Require Import List Arith ZArith Lia Bool.
Import ListNotations.
From NS Require Import Num.Ops Num.Kernels Num.Layout Num.F64 Num.F64Inst Num.F32 Num.F32Inst Num.ZInst Run.RunBase.
Local Open Scope Z_scope.

(* routine selector shared by the three carriers *)
Section G.
Context {T : Type}.
Variable O : ops T.
Variable dec : Z -> T.
Variable enc : T -> Z.

(* whole-array statistics of one array: sel, data, plan, integer parameter *)
Definition stat1 (sel : Z) (pl : plan) (data : list Z) (p : Z) : list Z :=
  let d := map dec data in
  if sel =? 0 then [enc (mean O pl d)]
  else if sel =? 1 then [enc (harmonic_mean O pl d)]
  else if sel =? 2 then [enc (geometric_mean O pl d)]
  else if sel =? 3 then [enc (kurtosis O pl d)]
  else if sel =? 4 then [enc (skewness O pl d)]
  else if sel =? 5 then [enc (central_moment O pl d (zn p))]
  else if sel =? 6 then map enc (central_moments O pl d (zn p))
  else if sel =? 7 then [enc (entropy O pl d)]
  else [].

(* two arrays in logical order: sel, data, weights (with the weights' plan), ddof *)
Definition stat2 (sel : Z) (plw : plan) (data ws : list Z) (ddof : Z) : list Z :=
  let d := map dec data in
  let w := map dec ws in
  if sel =? 0 then [enc (weighted_sum O d w)]
  else if sel =? 1 then [enc (weighted_mean O plw d w)]
  else if sel =? 2 then [enc (west O d w (dec ddof))]
  else if sel =? 3 then [enc (o_sqrt O (west O d w (dec ddof)))]
  else if sel =? 4 then [enc (kl_divergence O d w)]
  else if sel =? 5 then [enc (cross_entropy O d w)]
  else [].

(* per-axis forms: lanes are lists of logical positions, one value per lane *)
Definition stat_axis (sel : Z) (plw : plan) (data ws : list Z) (lanes : list (list nat)) (ddof : Z) : list Z :=
  let d := map dec data in
  let w := map dec ws in
  let lane l := map (fun p => nth p d (o_zero O)) l in
  if sel =? 0 then map (fun l => enc (weighted_sum O (lane l) w)) lanes
  else if sel =? 1 then map (fun l => enc (o_div O (weighted_sum O (lane l) w) (nd_sum O plw w))) lanes
  else if sel =? 2 then map (fun l => enc (west O (lane l) w (dec ddof))) lanes
  else if sel =? 3 then map (fun l => enc (o_sqrt O (west O (lane l) w (dec ddof)))) lanes
  else [].

(* deviation accumulations under a traversal of logical positions *)
Definition dev (sel : Z) (a b : list Z) (trav : list nat) : list Z :=
  let x := map dec a in
  let y := map dec b in
  if sel =? 0 then [enc (sq_l2_dist O x y trav)]
  else if sel =? 1 then [enc (l1_dist O x y trav)]
  else if sel =? 2 then [enc (linf_dist O x y trav)]
  else [].
End G.

Definition tabs := list (Z * Z).
From NS Require Export Num.Layout.
(* the layout of a view as the harness observed it on the real ndarray array (shape, strides in elements) *)
Definition mkL (shape strides : list Z) : layout := {| l_shape := map Z.to_nat shape; l_strides := strides |}.

Definition f64_stat1 (lt et : tabs) := stat1 (f64_ops lt et) f64_of_bits bits_of_f64.
Definition f64_stat2 (lt et : tabs) := stat2 (f64_ops lt et) f64_of_bits bits_of_f64.
Definition f64_stat_axis (lt et : tabs) := stat_axis (f64_ops lt et) f64_of_bits bits_of_f64.
Definition f64_dev := dev (f64_ops [] []) f64_of_bits bits_of_f64.
Definition f32_stat1 (lt et : tabs) := stat1 (f32_ops lt et) f32_of_bits bits_of_f32.
Definition f32_stat2 (lt et : tabs) := stat2 (f32_ops lt et) f32_of_bits bits_of_f32.
Definition f32_stat_axis (lt et : tabs) := stat_axis (f32_ops lt et) f32_of_bits bits_of_f32.
Definition f32_dev := dev (f32_ops [] []) f32_of_bits bits_of_f32.
Definition z_stat1 := stat1 Z_ops (fun x => x) (fun x => x).
Definition z_stat2 := stat2 Z_ops (fun x => x) (fun x => x).
Definition z_stat_axis := stat_axis Z_ops (fun x => x) (fun x => x).
Definition z_dev := dev Z_ops (fun x => x) (fun x => x).

(* derived float routines recomputed from a base value (relational comparison) *)
Definition f64_sqrt_bits (b : Z) : Z := bits_of_f64 (fsqrt (f64_of_bits b)).
Definition f64_div_bits (a b : Z) : Z := bits_of_f64 (fdiv (f64_of_bits a) (f64_of_bits b)).
Definition f64_of_Z_bits (n : Z) : Z := bits_of_f64 (f64_of_Z n).

Definition chkn (model observed : list Z) : bool := zlist_eqb model observed.
