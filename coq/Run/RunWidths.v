(* Executable instances of the complete strategy model (Hist/Widths.v): the width is computed from
   the data and the recorded libm values, then EquiSpaced counts and builds the bins. *)
From Coq Require Import List Arith ZArith Lia Bool.
Import ListNotations.
From NS Require Import Base.Res Num.Ops Num.ZInst Num.F64 Num.F64Inst Quantile.Interp Hist.Edges
  Hist.Strategies Hist.Widths Run.RunBase Run.RunStrat.
Local Open Scope Z_scope.

Definition kind_of (z : Z) : kind :=
  match z with 0 => KSqrt | 1 => KRice | 2 => KSturges | 3 => KFD | _ => KAuto end.

Definition enc_full {T} (enc : T -> Z) (r : res (serr + T * nat * list T)) : list Z :=
  match r with
  | Ok (inl SE_Empty) => [1]
  | Ok (inl SE_Strategy) => [2]
  | Ok (inr (w, nb, es)) => [0; enc w; nz nb; nz (bins_len T es); nz (length es)] ++ map enc es
  | Panic => [3]
  | OutOfFuel => [4]
  end.

Definition mk_libm (cbrt log2 : Z) : libm := {| l_cbrt := f64_of_bits cbrt; l_log2 := f64_of_bits log2 |}.

(* bounded integers: element arithmetic of the width formulas is overflow-checked; the edges
   min + i * w are placed over Z with from_usize(i) restricted to the type (classes K4 / K5 are about
   that placement and stay outside the model, as in Run/RunStrat.v) *)
(* debug profile: the edge min + from_usize(i) * w is computed in the element type with overflow checks,
   for every i in 0..=n_bins (the counting loop and the builder evaluate the same expressions); the grid
   itself is the unbounded one whenever none of these leaves the type *)
Fixpoint placement_ok_from (t : ity) (mn w iz : Z) (k : nat) : bool :=
  match k with
  | O => true
  | S k' => in_range t (iz * w) && in_range t (mn + iz * w) && placement_ok_from t mn w (iz + 1) k'
  end.
(* i = 0 .. nb, with the index carried as a binary integer (a unary index would make this quadratic) *)
Definition placement_ok (t : ity) (mn w : Z) (nb : nat) : bool := placement_ok_from t mn w 0 (S nb).

Definition m_full_int (sg : bool) (bits : Z) (k : Z) (data : list Z) (cbrt log2 : Z) : list Z :=
  let t := {| signed := sg; bits := bits |} in
  let repr := fun i => in_range t (nz i) in
  let fuel_of := fun w mn mx => zn (if 0 <? w then (mx - mn) / w + 3 else 3) in
  let r := strategy_full (int_elt t) Z_ops repr fuel_of (kind_of k) data (mk_libm cbrt log2) in
  match r with
  | Ok (inr (w, nb, es)) =>
    if placement_ok t (hd 0 es) w nb then enc_full (fun v => v) r else [3]
  | _ => enc_full (fun v => v) r
  end.

(* N64 (debug profile: every N64 operation panics on a NaN result).  The EquiSpaced model places the
   edges with unchecked binary64 operations; for finite data the only way an edge min + i * w can be
   NaN is an accepted width of +inf (max - min overflowed: class K6), where already 0 * inf is NaN *)
Definition m_full_n64 (k : Z) (data : list Z) (cbrt log2 : Z) : list Z :=
  let d := map f64_of_bits data in
  let L := mk_libm cbrt log2 in
  match from_array n64_elt fzero (kind_of k) d L with
  | Ok (inr (w, _, _)) =>
    if fis_finite w then
      enc_full bits_of_f64
        (strategy_full n64_elt (f64_ops [] []) (fun _ => true) (fun _ _ _ => 100000%nat) (kind_of k) d L)
    else [3]
  | Ok (inl SE_Empty) => [1]
  | Ok (inl SE_Strategy) => [2]
  | Panic => [3]
  | OutOfFuel => [4]
  end.

(* only the decision and the width (for grids too large to rebuild inside Coq) *)
Definition enc_head {T} (enc : T -> Z) (r : res (serr + T * T * T)) : list Z :=
  match r with
  | Ok (inl SE_Empty) => [1]
  | Ok (inl SE_Strategy) => [2]
  | Ok (inr (w, mn, mx)) => [0; enc w; enc mn; enc mx]
  | Panic => [3]
  | OutOfFuel => [4]
  end.
Definition m_head_int (sg : bool) (bits : Z) (k : Z) (data : list Z) (cbrt log2 : Z) : list Z :=
  enc_head (fun v => v) (from_array (int_elt {| signed := sg; bits := bits |}) 0 (kind_of k) data (mk_libm cbrt log2)).
Definition m_head_n64 (k : Z) (data : list Z) (cbrt log2 : Z) : list Z :=
  enc_head bits_of_f64 (from_array n64_elt fzero (kind_of k) (map f64_of_bits data) (mk_libm cbrt log2)).

Definition chkw (model observed : list Z) : bool := zlist_eqb model observed.

(* large grids: the observed edge list travels as a digest (Run/RunStrat.v) *)
Definition chkwd (model observed_digest : list Z) : bool :=
  zlist_eqb (firstn 5 model ++ Run.RunStrat.digest (skipn 5 model)) observed_digest.
