(* Executable instances of the bin-building model: integers (with a from_usize range) and N64. *)
From Coq Require Import List Arith ZArith Lia Bool.
Import ListNotations.
From NS Require Import Base.Res Num.Ops Num.ZInst Num.F64 Num.F64Inst Hist.Edges Hist.Strategies Run.RunBase.
Local Open Scope Z_scope.

Definition enc_strat {T} (enc : T -> Z) (nb : res nat) (r : res (serr + list T)) : list Z :=
  match r with
  | Ok (inl SE_Empty) => [1]
  | Ok (inl SE_Strategy) => [2]
  | Ok (inr es) =>
    match nb with
    | Ok n => [0; nz n; nz (bins_len T es); nz (length es)] ++ map enc es
    | Panic => [3]
    | OutOfFuel => [4]
    end
  | Panic => [3]
  | OutOfFuel => [4]
  end.

(* integers: from_usize(i) is Some iff i <= umax *)
Definition m_strategy_int (umax : Z) (data : list Z) (w : Z) : list Z :=
  match data with
  | [] => [1]
  | x :: t =>
    let mn := fold_left Z.min t x in
    let mx := fold_left Z.max t x in
    let repr := fun i => (nz i <=? umax) in
    let fuel := zn (if 0 <? w then (mx - mn) / w + 3 else 3) in
    enc_strat (fun v => v) (n_bins Z_ops Z.leb repr fuel mn w mx)
              (strategy_bins Z_ops Z.leb repr fuel data mn mx w)
  end.

Definition fmin2 (a b : F64) : F64 := if fle b a then b else a.
Definition fmax2 (a b : F64) : F64 := if fle a b then b else a.

Definition m_strategy_n64 (data : list Z) (w : Z) : list Z :=
  match map f64_of_bits data with
  | [] => [1]
  | x :: t =>
    let mn := fold_left fmin2 t x in
    let mx := fold_left fmax2 t x in
    let O := f64_ops [] [] in
    let fuel := 100000%nat in
    enc_strat bits_of_f64 (n_bins O fle (fun _ => true) fuel mn (f64_of_bits w) mx)
              (strategy_bins O fle (fun _ => true) fuel (x :: t) mn mx (f64_of_bits w))
  end.

(* the pre-repair counting loop, for regression *)
Definition m_strategy_n64_v0 (data : list Z) (w : Z) (fuel : Z) : list Z :=
  match map f64_of_bits data with
  | [] => [1]
  | x :: t =>
    let mn := fold_left fmin2 t x in
    let mx := fold_left fmax2 t x in
    let O := f64_ops [] [] in
    match build_v0 O fle (fun _ => true) (zn fuel) mn (f64_of_bits w) mx with
    | Ok es => [0; nz (bins_len F64 es)] ++ map bits_of_f64 es
    | Panic => [3]
    | OutOfFuel => [4]
    end
  end.

Definition chks (model observed : list Z) : bool := zlist_eqb model observed.

(* for grids of more than a few thousand edges the observed edge list is not written into the
   generated file (coqc spends minutes parsing a 10^5-element literal); the model's edges are
   compared through a digest instead: count, first, last, plain sum and position-weighted sum *)
Definition wsum (l : list Z) : Z :=
  snd (fold_left (fun st e => (fst st + 1, snd st + fst st * e)) l (1, 0)).
Definition digest (l : list Z) : list Z :=
  [nz (length l); hd 0 l; last l 0; fold_left Z.add l 0; wsum l].
Definition chksd (model observed_digest : list Z) : bool :=
  zlist_eqb (firstn 4 model ++ digest (skipn 4 model)) observed_digest.
