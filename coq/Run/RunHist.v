(* Executable instances of the histogram models over Z and flat encodings of
   their complete observable results (compared with the implementation's output,
   flattened the same way by the orchestrator). *)
From Coq Require Import List Arith ZArith Lia Bool.
Import ListNotations.
From NS Require Import Base.Res Base.SortDedup Hist.Edges Hist.Histogram Run.RunBase.
Local Open Scope Z_scope.

Definition enc_opt_pair (o : option (nat * nat)) : list Z :=
  match o with None => [0] | Some (i, j) => [1; nz i; nz j] end.
Definition enc_opt_nat (o : option nat) : list Z :=
  match o with None => [0] | Some i => [1; nz i] end.
Definition enc_res_opt_range (r : res (option (Z * Z))) : list Z :=
  match r with Ok None => [0] | Ok (Some (a, b)) => [1; a; b] | _ => [2] end.
Definition enc_res_range (r : res (Z * Z)) : list Z :=
  match r with Ok (a, b) => [1; a; b] | _ => [2] end.

Definition m_bins (data probes positions : list Z) : list Z :=
  let es := edges_from Z Z.leb data in
  [nz (length es)] ++ es ++
  [nz (length es); nz (bins_len Z es); if Nat.eqb (bins_len Z es) 0 then 1 else 0] ++
  flat_map (fun p => enc_opt_pair (indices_of Z Z.leb es p) ++ enc_opt_nat (index_of Z Z.leb es p)
                     ++ enc_res_opt_range (range_of Z Z.leb es p)) probes ++
  flat_map (fun i => if (0 <=? i) && (i <? nz (length es)) then enc_res_range (bins_index Z es (zn i))
                     else [2]) positions.

Definition mk_grid (axes : list (list Z)) : grid Z := map (edges_from Z Z.leb) axes.

Definition enc_index_of (r : res (option (list nat))) : list Z :=
  match r with
  | Ok None => [0]
  | Ok (Some idx) => [1; nz (length idx)] ++ map nz idx
  | _ => [2]
  end.

Definition enc_ranges (r : res (list (Z * Z))) : list Z :=
  match r with
  | Ok l => [1; nz (length l)] ++ flat_map (fun ab => [fst ab; snd ab]) l
  | _ => [2]
  end.

Definition small (i : Z) : bool := (0 <=? i) && (i <? 1000000).

Definition m_grid (axes pts idxs : list (list Z)) : list Z :=
  let g := mk_grid axes in
  [nz (grid_ndim Z g)] ++ [nz (length (grid_shape Z g))] ++ map nz (grid_shape Z g) ++
  flat_map (fun pt => enc_index_of (grid_index_of Z Z.leb g pt)) pts ++
  flat_map (fun ix => if forallb small ix then enc_ranges (grid_index Z g (map zn ix)) else [2]) idxs.

(* history of single inserts: tag (0 added, 1 rejected, 2 panic) and the counts after each *)
Fixpoint hist_trace (g : grid Z) (counts : list nat) (h : list (list Z)) : list Z :=
  match h with
  | [] => []
  | pt :: t =>
    match add_observation Z Z.leb g counts pt with
    | Ok (c', Added) => [0] ++ map nz c' ++ hist_trace g c' t
    | Ok (c', BinNotFound) => [1] ++ map nz c' ++ hist_trace g c' t
    | _ => [2] ++ map nz counts ++ hist_trace g counts t
    end
  end.

Definition m_hist (axes pts : list (list Z)) : list Z :=
  let g := mk_grid axes in
  [nz (length (grid_shape Z g))] ++ map nz (grid_shape Z g) ++ map nz (hist_init Z g) ++
  hist_trace g (hist_init Z g) pts.

Definition m_histm (axes rows : list (list Z)) : list Z :=
  let g := mk_grid axes in
  match histogram Z Z.leb g rows with
  | Ok c => [nz (length (grid_shape Z g))] ++ map nz (grid_shape Z g) ++ map nz c
  | _ => [-1]
  end.

Definition chk (model observed : list Z) : bool := zlist_eqb model observed.
