(* pearson_correlation: the PROVED entry bound (Num/PearsonF64.v, Props/C08_f64_pearson.v:
   C08_pearson_entry_error_f64) evaluated exactly over Q on concrete data, and the check that an
   observed binary64 entry lies within it of Pearson's r of the data.  Everything is rational except
   sigma_i sigma_j = sqrt (V_i V_j), which enters only through a rational LOWER bound L (integer
   square root, verified by L^2 <= V_i V_j) and through the exact comparison of a rational with
   C / sqrt V by squaring.  Soundness: Num/PearsonCheckF64.v.  (Qred keeps the numbers at a few
   thousand bits: eta64 = 2^-1075 and g64 k, a 53 k bit dyadic, are carried exactly.)
   h = height of the dot-product evaluation, hm = height of the summation trees of the means (every
   evaluation order of n terms has height <= n, so a harness instantiates h = hm = n). *)
From Coq Require Import List Arith ZArith QArith Qabs Bool.
Import ListNotations.
From NS Require Import Num.Ops Num.F64 Num.QInst Run.RunBase Run.RunCov.

(* exact value of a binary64 (0 for infinities and NaN, as B2R) *)
Definition toQ (x : F64) : Q := match f64_to_Q x with Some q => q | None => 0%Q end.

Definition qcxy (x y : list Q) : Q :=
  let mx := qmean x in let my := qmean y in
  qsum (map (fun p => (fst p - mx) * (snd p - my)) (combine x y))%Q.
Definition qss (x : list Q) : Q := let m := qmean x in qsum (map (fun v => (v - m) * (v - m)) x)%Q.

Definition qmin (a b : Q) : Q := if Qle_bool a b then a else b.
Definition qmax (a b : Q) : Q := if Qle_bool a b then b else a.
Definition qlo (x : list Q) : Q := fold_right qmin (hd 0%Q x) x.
Definition qhi (x : list Q) : Q := fold_right qmax (hd 0%Q x) x.
Definition in_rangeQ (lo hi : Q) (x : list Q) : bool := forallb (fun v => Qle_bool lo v && Qle_bool v hi) x.

(* Num/WelfordErrR.v wSp, Num/WelfordErrF64.v wVarB, and Es / sigma (Num/PearsonExampleF64.v
   pearson_Es_rel) *)
Definition wSpQ (n : nat) (D X Sq : Q) : Q :=
  let nq := inject_Z (Z.of_nat n) in
  (((61 # 60) * nq + (41 # 20)) * u64Q * Sq
   + D * ((17 # 4) * nq * u64Q * D + (21 # 40) * nq * (nq + 3) * (u64Q * X + eta64Q))
   + (61 # 60) * nq * eta64Q)%Q.
Definition wVarBQ (n : nat) (D X Sq Dn : Q) : Q :=
  ((wSpQ n D X Sq * (1 + g64Q 2) + g64Q 2 * Sq) / Qabs Dn + eta64Q)%Q.
Definition std_relQ (n : nat) (D X Sq : Q) : Q :=
  let nq := inject_Z (Z.of_nat n) in
  (wVarBQ n D X Sq nq / (Sq / nq) * (1 + u64Q) + u64Q)%Q.

(* a rational L >= 0 with L^2 <= v, relative accuracy 2^-64 *)
Definition sqrt_lowQ (v : Q) : Q :=
  Qmake (Z.sqrt (Qnum v * Zpos (Qden v) * 2 ^ 128)) (Qden v * 2 ^ 64).

Record pearson_stats := mk_pstats {
  ps_C : Q;        (* exact covariance cxy / n *)
  ps_V : Q;        (* V_i V_j *)
  ps_L : Q;        (* lower bound of sqrt (V_i V_j) *)
  ps_relP : Q;     (* upper bound of relP *)
  ps_B : Q         (* upper bound of the proved entry bound *)
}.

Definition pearson_stats_Q (h hm : nat) (xi xj : list Q) : option pearson_stats :=
  let n := length xi in
  let nq := inject_Z (Z.of_nat n) in
  let loi := qlo xi in let hii := qhi xi in let Xi := qmax (Qabs loi) (Qabs hii) in
  let loj := qlo xj in let hij := qhi xj in let Xj := qmax (Qabs loj) (Qabs hij) in
  let Si := qss xi in let Sj := qss xj in
  let V := Qred ((Si / nq) * (Sj / nq))%Q in
  let L := sqrt_lowQ V in
  let ri := Qred (std_relQ n (hii - loi) Xi Si) in
  let rj := Qred (std_relQ n (hij - loj) Xj Sj) in
  let relP := Qred ((ri + rj + ri * rj) * (1 + u64Q) + u64Q + eta64Q / L)%Q in
  let Ec := Qred (cov_bound_Q h n (mean_bound_Q hm xi) (mean_bound_Q hm xj) xi xj nq) in
  if Nat.eqb (length xj) n && Nat.leb 1 n && Qle_bool (nq * u64Q) (1 # 64)
     && in_rangeQ loi hii xi && in_rangeQ loj hij xj
     && negb (Qle_bool Si 0) && negb (Qle_bool Sj 0)
     && negb (Qle_bool L 0) && Qle_bool (L * L) V
     && Qle_bool relP (1 # 2)
  then Some (mk_pstats (Qred (qcxy xi xj / nq)) V L relP
               (Qred (2 * (Ec / L + relP) * (1 + u64Q) + u64Q + eta64Q)))%Q
  else None.

Definition pearson_bound_Q (h hm : nat) (xi xj : list Q) : option Q :=
  match pearson_stats_Q h hm xi xj with Some s => Some (ps_B s) | None => None end.

(* the proved bound is at most c *)
Definition pearson_bound_leb (h hm : nat) (xi xj : list Q) (c : Q) : bool :=
  match pearson_bound_Q h hm xi xj with Some B => Qle_bool B c | None => false end.

(* exact comparison  t <= C / sqrt V  (V > 0) by squaring *)
Definition le_rho (t C V : Q) : bool :=
  if Qle_bool t 0 then Qle_bool 0 C || Qle_bool (C * C) (t * t * V)
  else Qle_bool 0 C && Qle_bool (t * t * V) (C * C).
(* C / sqrt V <= t *)
Definition rho_le (t C V : Q) : bool := le_rho (- t) (- C) V.

(* the observed entry is within the proved bound of Pearson's r of the data *)
Definition pearson_check_Q (h hm : nat) (xi xj : list Q) (obs : Q) : bool :=
  match pearson_stats_Q h hm xi xj with
  | Some s => le_rho (obs - ps_B s) (ps_C s) (ps_V s) && rho_le (obs + ps_B s) (ps_C s) (ps_V s)
  | None => false
  end.

(* on bit patterns, for a whole matrix (rows = data, impl = observed correlation matrix) *)
Definition m_pearson_check (rows : list (list Z)) (impl : list (list Z)) : bool :=
  let rq := map (map (fun b => toQ (f64_of_bits b))) rows in
  let iq := map (map (fun b => toQ (f64_of_bits b))) impl in
  let k := length rq in
  forallb (fun r => forallb (fun b => fis_finite (f64_of_bits b)) r) rows &&
  forallb (fun r => forallb (fun b => fis_finite (f64_of_bits b)) r) impl &&
  forallb (fun i =>
    forallb (fun j =>
      let n := length (nth i rq []) in
      pearson_check_Q n n (nth i rq []) (nth j rq []) (qentry iq i j))
    (seq 0 k)) (seq 0 k).

(* the data of Num/PearsonExampleF64.v with the entries ndarray-stats 0.6.0 returns *)
Example m_pearson_check_example :
  m_pearson_check
    [[0x3FF0000000000000; 0x4000000000000000; 0x4010000000000000; 0x401C000000000000];
     [0x4000000000000000; 0x3FF0000000000000; 0x4018000000000000; 0x4008000000000000];
     [0x3FB999999999999A; 0x3FC999999999999A; 0x3FD3333333333333; 0x3FD999999999999A]]%Z
    [[0x3FF0000000000000; 0x3FDA20BD700C2C3F; 0x3FEF3A92CA2F4B7D];
     [0x3FDA20BD700C2C3F; 0x3FF0000000000000; 0x3FDE990CDAD55ED0];
     [0x3FEF3A92CA2F4B7D; 0x3FDE990CDAD55ED0; 0x3FF0000000000001]]%Z = true.
Proof. vm_compute. reflexivity. Qed.

(* a wrong entry (last bit of (0,1) flipped upwards by 2^20 ulps) is rejected *)
Example m_pearson_check_rejects :
  m_pearson_check
    [[0x3FF0000000000000; 0x4000000000000000; 0x4010000000000000; 0x401C000000000000];
     [0x4000000000000000; 0x3FF0000000000000; 0x4018000000000000; 0x4008000000000000]]%Z
    [[0x3FF0000000000000; 0x3FDA20BD701C2C3F];
     [0x3FDA20BD700C2C3F; 0x3FF0000000000000]]%Z = false.
Proof. vm_compute. reflexivity. Qed.
