(* Executable instances of the quantile models: integer element types (over Z with a width)
   and N64 (bit patterns), at buffer level over the lanes of an n-D view. *)
From Coq Require Import List Arith ZArith Lia Bool.
Import ListNotations.
From NS Require Import Base.Res Base.SortDedup Mem.Buffer Mem.RemoveNan Sort.Partition Sort.Bulk Sort.SelectMany
  Num.F64 Quantile.Index Quantile.Interp Quantile.Lane Run.RunBase.
Local Open Scope Z_scope.

Inductive pmode := PScript (s : list Z) | PPolicy (id : Z).

Definition mk_pick (m : pmode) : nat -> nat -> nat :=
  match m with
  | PScript s => fun c _ => zn (nth c s 0)
  | PPolicy id => fun _ n => if id =? 0 then 0%nat else if id =? 1 then (n - 1)%nat else (n / 2)%nat
  end.

Definition strat_of (k : Z) : strategy :=
  if k =? 0 then Higher else if k =? 1 then Lower else if k =? 2 then Nearest
  else if k =? 3 then Midpoint else Linear.

Section G.
Context {A : Type}.
Variable C : carrier A.

Fixpoint q_lanes (s : strategy) (pick : nat -> nat -> nat) (c : nat) (qs : list F64) (ds : list nat)
    (buf : list A) (lanes : list (list nat)) : res (list (list A) * list A * nat) :=
  match lanes with
  | [] => Ok ([], buf, c)
  | cs :: t =>
    lane <- vread buf cs ;;
    r <- quantiles_lane C s (S (length lane)) pick c qs ds lane ;;
    let '(vals, lane', c') := r in
    r2 <- q_lanes s pick c' qs ds (vwrite buf cs lane') t ;;
    let '(vs, buf', c'') := r2 in Ok (vals :: vs, buf', c'')
  end.

(* quantiles_axis_mut: guards, then lane by lane.  [axis_len] = length of the axis,
   [other] = product of the other axis lengths, [lanes] = cells of each lane in the order visited *)
Definition quantiles_axis (s : strategy) (pick : nat -> nat -> nat) (qs : list F64)
    (axis_len other : nat) (buf : list A) (lanes : list (list nat))
  : qout (list (list A) * list A * nat) :=
  match first_invalid qs with
  | Some q => Q_Err (QE_Invalid q)
  | None =>
    if Nat.eqb axis_len 0 then Q_Err QE_Empty
    else if Nat.eqb (length qs * other) 0 then Q_Ok ([], buf, 0%nat)
    else match searched s qs axis_len with
         | Ok ds => match q_lanes s pick 0 qs ds buf lanes with
                    | Ok r => Q_Ok r
                    | _ => Q_Panic
                    end
         | _ => Q_Panic
         end
  end.
End G.

Definition enc_q {A} (enc : A -> Z) (r : qout (list (list A) * list A * nat)) : list Z :=
  match r with
  | Q_Ok (vs, buf, c) => [0; nz c] ++ flat_map (fun l => map enc l) vs ++ map enc buf
  | Q_Err QE_Empty => [1]
  | Q_Err (QE_Invalid q) => [2; bits_of_f64 q]
  | Q_Panic => [3]
  end.

Definition m_quantiles_int (sg : bool) (bw : Z) (strat : Z) (qs : list Z) (axis_len other : Z)
    (buf : list Z) (lanes : list (list nat)) (pm : pmode) : list Z :=
  enc_q (fun x => x)
    (quantiles_axis (int_carrier {| signed := sg; bits := bw |}) (strat_of strat) (mk_pick pm)
       (map f64_of_bits qs) (zn axis_len) (zn other) buf lanes).

Definition m_quantiles_n64 (strat : Z) (qs : list Z) (axis_len other : Z)
    (buf : list Z) (lanes : list (list nat)) (pm : pmode) : list Z :=
  enc_q bits_of_f64
    (quantiles_axis n64_carrier (strat_of strat) (mk_pick pm)
       (map f64_of_bits qs) (zn axis_len) (zn other) (map f64_of_bits buf) lanes).

(* the index triple, for direct comparison with an exact-rational oracle *)
Definition m_index (q : Z) (n : Z) : list Z :=
  let qf := f64_of_bits q in
  [match lower_index qf (zn n) with Some i => nz i | None => -1 end;
   match higher_index qf (zn n) with Some i => nz i | None => -1 end;
   bits_of_f64 (qfrac qf (zn n))].

Definition chkq (model observed : list Z) : bool := zlist_eqb model observed.

(* ---- quantile_axis_skipnan_mut: per lane, strip the missing values (Mem/RemoveNan.v), then the
   single-q lane kernel on the returned prefix; an all-missing lane yields the missing value ---- *)
Section SK.
Context {A : Type}.
Variable C : carrier A.
Variable is_nan : A -> bool.
Variable nan_val : A.

Fixpoint qsk_lanes (s : strategy) (pick : nat -> nat -> nat) (c : nat) (q : F64)
    (buf : list A) (lanes : list (list nat)) : res (list A * list A * nat) :=
  match lanes with
  | [] => Ok ([], buf, c)
  | cs :: t =>
    r <- lift_op (Mem.RemoveNan.remove_nan A is_nan) buf cs ;;
    let '(i, buf1) := r in
    if Nat.eqb i 0 then
      (r2 <- qsk_lanes s pick c q buf1 t ;; let '(vs, b2, c2) := r2 in Ok (nan_val :: vs, b2, c2))
    else
      let cs' := firstn i cs in
      lane <- vread buf1 cs' ;;
      match searched s [q] i with
      | Ok ds =>
        r1 <- quantiles_lane C s (S i) pick c [q] ds lane ;;
        let '(vals, lane', c') := r1 in
        r2 <- qsk_lanes s pick c' q (vwrite buf1 cs' lane') t ;;
        let '(vs, b2, c2) := r2 in Ok (hd nan_val vals :: vs, b2, c2)
      | _ => Panic
      end
  end.

Definition qskipnan (s : strategy) (pick : nat -> nat -> nat) (q : F64) (axis_len : nat)
    (buf : list A) (lanes : list (list nat)) : qout (list A * list A * nat) :=
  if negb (valid_q q) then Q_Err (QE_Invalid q)
  else if Nat.eqb axis_len 0 then Q_Err QE_Empty
  else match qsk_lanes s pick 0 q buf lanes with
       | Ok r => Q_Ok r
       | _ => Q_Panic
       end.
End SK.

Definition enc_qsk {A} (enc : A -> Z) (r : qout (list A * list A * nat)) : list Z :=
  match r with
  | Q_Ok (vs, buf, c) => [0; nz c] ++ map enc vs ++ map enc buf
  | Q_Err QE_Empty => [1]
  | Q_Err (QE_Invalid q) => [2; bits_of_f64 q]
  | Q_Panic => [3]
  end.

Definition qsk_nank : Z := -777777777.

(* Option<int>: None is the key qsk_nank *)
Definition m_qskipnan_int (sg : bool) (bw : Z) (strat : Z) (q : Z) (axis_len : Z)
    (buf : list Z) (lanes : list (list nat)) (pm : pmode) : list Z :=
  enc_qsk (fun x => x)
    (qskipnan (int_carrier {| signed := sg; bits := bw |}) (Z.eqb qsk_nank) qsk_nank (strat_of strat) (mk_pick pm)
       (f64_of_bits q) (zn axis_len) buf lanes).

(* f64: NaN by its bit pattern *)
Definition m_qskipnan_f64 (strat : Z) (q : Z) (axis_len : Z)
    (buf : list Z) (lanes : list (list nat)) (pm : pmode) : list Z :=
  enc_qsk bits_of_f64
    (qskipnan n64_carrier fis_nan (f64_of_bits nan_bits) (strat_of strat) (mk_pick pm)
       (f64_of_bits q) (zn axis_len) (map f64_of_bits buf) lanes).
