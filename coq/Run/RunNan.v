(* Executable instances of the NaN-related models over Z keys: a missing value is the
   key [nank]; every other key is an ordinary value compared with Z.leb. *)
From Coq Require Import List Arith ZArith Lia Bool.
Import ListNotations.
From NS Require Import Base.Res Mem.Buffer Mem.RemoveNan MinMax.MinMax MinMax.SkipNan Run.RunBase.
Local Open Scope Z_scope.

Definition nank : Z := -777777777.
(* the missing keys: nank and the fifteen keys below it (distinct NaN bit patterns of the float
   types: sign and payload variants; Option types only use nank) *)
Definition znan (x : Z) : bool := Z.leb (nank - 15) x && Z.leb x nank.

Definition enc_view (v : view1) : list Z :=
  (* offsets of empty views are not observable *)
  [if Nat.eqb (v_len v) 0 then 0 else v_off v; nz (v_len v); v_stride v].

(* remove_nan_mut on a 1-D view, then again on the returned prefix (idempotence) *)
Definition m_remove_nan (buf : list Z) (off len stride : Z) : list Z :=
  let v := mkview off len stride in
  match remove_nan_b znan buf v with
  | Ok (v1, buf1) =>
    let v1' := slice_prefix v (v_len v1) in
    match remove_nan_b znan buf1 v1' with
    | Ok (v2, buf2) => [1] ++ enc_view v1 ++ buf1 ++ enc_view v2 ++ buf2
    | _ => [2]
    end
  | _ => [2]
  end.

(* the pre-repair Option<T> path, for regression *)
Definition m_remove_nan_v0 (buf : list Z) (off len stride : Z) : list Z :=
  let v := mkview off len stride in
  match remove_nan_b_v0 znan buf v with
  | Ok (v1, buf1) => [1] ++ enc_view v1 ++ buf1
  | _ => [2]
  end.

Definition enc_opt (o : option Z) : list Z := match o with None => [nank] | Some x => [x] end.
Definition enc_optn (o : option nat) : list Z := match o with None => [0] | Some p => [1; nz p] end.

(* skip-NaN value/index forms and the indexed fold on the whole array (logical order [data],
   observed traversal order [trav] of fold_skipnan) *)
Definition m_skipnan (data trav : list Z) : list Z :=
  enc_opt (min_skipnan Z znan Z.leb data trav) ++
  enc_opt (max_skipnan Z znan Z.leb data trav) ++
  enc_optn (argmin_skipnan Z znan Z.leb data) ++
  enc_optn (argmax_skipnan Z znan Z.leb data) ++
  indexed_fold_skipnan Z znan (fun acc px => acc ++ [nz (fst px); snd px]) [] data.

(* per-lane forms: [lanes] are the cell lists of the lanes in result order *)
Fixpoint lanes_remove_nan (buf : list Z) (lanes : list (list nat)) : res (list (list Z) * list Z) :=
  match lanes with
  | [] => Ok ([], buf)
  | cs :: t =>
    r <- lift_op (remove_nan Z znan) buf cs ;;
    let '(i, buf1) := r in
    kept <- vread buf1 (firstn i cs) ;;
    r2 <- lanes_remove_nan buf1 t ;;
    let '(ls, buf2) := r2 in Ok (kept :: ls, buf2)
  end.

Definition enc_lanes (ls : list (list Z)) : list Z :=
  flat_map (fun l => nz (length l) :: l) ls.

Definition m_skipnan_axis (buf : list Z) (lanes : list (list nat)) : list Z :=
  (* fold_axis_skipnan collecting: the non-NaN elements of each lane in lane order *)
  let folded := map (fun cs => match vread buf cs with Ok l => filter (fun x => negb (znan x)) l | _ => [] end) lanes in
  match lanes_remove_nan buf lanes with
  | Ok (ls, buf') => [1] ++ enc_lanes folded ++ enc_lanes ls ++ buf'
  | _ => [2]
  end.

(* ---- plain min / max / argmin / argmax over keys with NaN ---- *)
Definition zcmp (a b : Z) : option comparison :=
  if znan a || znan b then None else Some (Z.compare a b).

Definition enc_mm_nat (r : mm_res nat) : list Z :=
  match r with MM_Ok p => [0; nz p] | MM_Empty => [1] | MM_Undef => [2] end.
Definition enc_mm_val (r : mm_res Z) : list Z :=
  match r with MM_Ok v => [0; v] | MM_Empty => [1] | MM_Undef => [2] end.

Definition m_minmax (data trav : list Z) : list Z :=
  enc_mm_nat (argmin Z zcmp data) ++ enc_mm_nat (argmax Z zcmp data) ++
  enc_mm_val (min_trav Z zcmp data trav) ++ enc_mm_val (max_trav Z zcmp data trav).

Definition chkl (model observed : list Z) : bool := zlist_eqb model observed.
