(* The decision model evaluated on call descriptors; outcomes flattened for comparison. *)
From Coq Require Import List Arith ZArith Bool.
Import ListNotations.
From NS Require Import Num.F64 Errors.Decision Run.RunBase.
Local Open Scope Z_scope.

Definition fam_of (k : Z) : family :=
  if k =? 0 then F_single else if k =? 1 then F_pair else if k =? 2 then F_pair_ddof
  else if k =? 3 then F_pair_sum else if k =? 4 then F_axis else if k =? 5 then F_axis_ddof
  else if k =? 6 then F_axis_sum else if k =? 7 then F_quantiles else if k =? 8 then F_pearson else F_cov.

Definition enc_outcome (o : outcome) : list Z :=
  match o with
  | O_Ok => [0]
  | O_Empty => [1]
  | O_Shape a b => [2; nz (length a)] ++ map nz a ++ [nz (length b)] ++ map nz b
  | O_InvalidQ q => [3; bits_of_f64 q]
  | O_Panic => [4]
  end.

Definition m_decide (fam : Z) (self other : list Z) (axis : Z) (qs : list Z) (ddof_ok : bool) : list Z :=
  enc_outcome (decide (fam_of fam)
    {| c_self := map zn self; c_other := map zn other; c_axis := zn axis;
       c_qs := map f64_of_bits qs; c_ddof_ok := ddof_ok |}).

Definition chke (model observed : list Z) : bool := zlist_eqb model observed.
