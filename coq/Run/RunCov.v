(* cov / pearson: the reference model evaluated exactly over Q on the dyadic inputs; the
   implementation's binary64 entries must lie within the (assumed, see DESIGN.md) bound
   c * n * u * sum_k |x_ik - mean_i| |x_jk - mean_j| / |n - ddof| of the exact entry. *)
From Coq Require Import List Arith ZArith QArith Qabs Bool.
Import ListNotations.
From NS Require Import Num.Ops Num.F64 Num.QInst Num.Cov Run.RunBase.

Definition qsum (l : list Q) : Q := fold_left (fun a b => Qred (a + b)) l 0%Q.

Fixpoint all_some {A} (l : list (option A)) : option (list A) :=
  match l with
  | [] => Some []
  | Some x :: t => match all_some t with Some r => Some (x :: r) | None => None end
  | None :: _ => None
  end.

Definition rows_Q (rows : list (list Z)) : option (list (list Q)) :=
  all_some (map (fun r => all_some (map (fun b => f64_to_Q (f64_of_bits b)) r)) rows).

Definition qentry (m : list (list Q)) (i j : nat) : Q := nth j (nth i m []) 0%Q.

(* |impl_ij - exact_ij| <= c n u cond_ij / |n - ddof| for every entry *)
Definition chk_cov (c : Z) (rows : list (list Z)) (ddof : Z) (impl : list (list Z)) : bool :=
  match rows_Q rows, f64_to_Q (f64_of_bits ddof), rows_Q impl with
  | Some rq, Some dq, Some iq =>
    let n := length (hd [] rq) in
    let exact := cov Q_ops qsum rq dq in
    let dn := map (denoise Q_ops qsum) rq in
    let u := Qmake 1 (Z.to_pos (2 ^ 53)) in
    let den := Qabs (inject_Z (Z.of_nat n) - dq) in
    let k := length rq in
    forallb (fun i =>
      forallb (fun j =>
        let cond := qsum (map (fun ab => Qabs (fst ab * snd ab)) (combine (nth i dn []) (nth j dn []))) in
        let scale := qsum (map (fun ab => Qabs (fst ab) * Qabs (snd ab)) (combine (nth i rq []) (nth j rq []))) in
        let bound := (inject_Z c * inject_Z (Z.of_nat (S n)) * u * (cond + u * inject_Z (Z.of_nat (S n)) * scale) / den)%Q in
        Qle_bool (Qabs (qentry iq i j - qentry exact i j)) bound)
      (seq 0 k)) (seq 0 k)
  | _, _, _ => false
  end.

(* ---- the PROVED bound (Num/CovF64.v, Props/C08_f64.v: C08_cov_entry_error_means_f64) evaluated
   exactly over Q.  h = height of the dot-product evaluation (any order, fused or not), hm = height
   of the summation trees of the means; every evaluation order of n terms has height <= n, so the
   check instantiates h = hm = n. *)
Definition u64Q : Q := Qmake 1 (Z.to_pos (2 ^ 53)).
Definition eta64Q : Q := Qmake 1 (Z.to_pos (2 ^ 1075)).
(* (1 + 2^-53)^k - 1 = ((2^53 + 1)^k - 2^(53 k)) / 2^(53 k) *)
Definition g64Q (k : nat) : Q :=
  let kz := Z.of_nat k in
  Qmake ((2 ^ 53 + 1) ^ kz - 2 ^ (53 * kz)) (Z.to_pos (2 ^ (53 * kz))).
Definition qasum (l : list Q) : Q := qsum (map Qabs l).
Definition qmean (l : list Q) : Q := (qsum l / inject_Z (Z.of_nat (length l)))%Q.
Definition qadev (l : list Q) : Q := let m := qmean l in qsum (map (fun v => Qabs (v - m)) l).
Definition qaxy (x y : list Q) : Q :=
  let mx := qmean x in let my := qmean y in
  qsum (map (fun p => Qabs (fst p - mx) * Qabs (snd p - my)) (combine x y)).
Definition mean_bound_Q (hm : nat) (x : list Q) : Q :=
  (g64Q (hm + 1) * qasum x / inject_Z (Z.of_nat (length x)) + eta64Q)%Q.
Definition cov_bound_Q (h n : nat) (ei ej : Q) (x y : list Q) (D : Q) : Q :=
  let nq := inject_Z (Z.of_nat n) in
  let covq := (qaxy x y + ej * qadev x + ei * qadev y + nq * ei * ej)%Q in
  ((g64Q (h + 5) * covq + (1 + g64Q 2) * (nq * ei * ej + nq * (1 + g64Q h) * eta64Q)) / Qabs D + eta64Q)%Q.

(* The same inequality evaluated WITHOUT rational arithmetic (gcd on 2000-bit numbers dominated the
   run time): every quantity is multiplied by the power of n that makes it dyadic, and dyadic numbers
   m * 2^e are pairs (m, e).  With s_i = sum_k x_ik, D = n - ddof, c = the implementation's entry:
       |c - cxy / D| <= cov_bound h n e_i e_j x_i x_j D
   <=> |n^2 c D - sum_k (n x_ik - s_i)(n x_jk - s_j)|
         <= G5 (AXY + E_j AD_i + E_i AD_j + n E_i E_j) + (1 + G2)(n E_i E_j + n^3 (1 + G_h) eta) + n^2 eta |D|
   where E_i = n e_i = G_m sum_k|x_ik| + n eta, AD_i = sum_k |n x_ik - s_i|, AXY = sum_k |n x_ik - s_i||n x_jk - s_j|. *)
Definition dy := (Z * Z)%type.           (* (m, e) denotes m * 2^e *)
Definition dadd (a b : dy) : dy :=
  let e := Z.min (snd a) (snd b) in (Z.shiftl (fst a) (snd a - e) + Z.shiftl (fst b) (snd b - e), e)%Z.
Definition dmul (a b : dy) : dy := (fst a * fst b, snd a + snd b)%Z.
Definition dneg (a : dy) : dy := (- fst a, snd a)%Z.
Definition dsub (a b : dy) : dy := dadd a (dneg b).
Definition dabs (a : dy) : dy := (Z.abs (fst a), snd a).
Definition dleb (a b : dy) : bool := (0 <=? fst (dsub b a))%Z.
Definition dZ (z : Z) : dy := (z, 0%Z).
Definition dsum (l : list dy) : dy := fold_left dadd l (0, 0)%Z.
Definition f64_to_dy (x : F64) : option dy :=
  match x with
  | BinarySingleNaN.B754_zero _ => Some (0, 0)%Z
  | BinarySingleNaN.B754_finite s m e _ => Some (if s then Zneg m else Zpos m, e)
  | _ => None
  end.
Definition rows_dy (rows : list (list Z)) : option (list (list dy)) :=
  all_some (map (fun r => all_some (map (fun b => f64_to_dy (f64_of_bits b)) r)) rows).
Definition g64D (k : nat) : dy :=
  let kz := Z.of_nat k in ((2 ^ 53 + 1) ^ kz - 2 ^ (53 * kz), - (53 * kz))%Z.
Definition eta64D : dy := (1, -1075)%Z.
Definition dentry (m : list (list dy)) (i j : nat) : dy := nth j (nth i m []) (0, 0)%Z.

Definition chk_cov_proved (rows : list (list Z)) (ddof : Z) (impl : list (list Z)) : bool :=
  match rows_dy rows, f64_to_dy (f64_of_bits ddof), rows_dy impl with
  | Some rq, Some dq, Some iq =>
    let n := length (hd [] rq) in
    let nz := dZ (Z.of_nat n) in
    let D := dsub nz dq in
    let k := length rq in
    let G5 := g64D (n + 5) in
    let G2 := g64D 2 in
    let Gh := g64D n in
    let Gm := g64D (n + 1) in
    let n2 := dmul nz nz in
    let tail := dmul (dmul n2 nz) (dmul (dadd (dZ 1) Gh) eta64D) in      (* n^3 (1 + G_h) eta *)
    let last := dmul n2 (dmul eta64D (dabs D)) in                          (* n^2 eta |D| *)
    let sums := map dsum rq in
    let cen := map (fun rs => map (fun v => dsub (dmul nz v) (snd rs)) (fst rs)) (combine rq sums) in  (* n x - s *)
    let acen := map (map dabs) cen in
    let ads := map dsum acen in
    let Es := map (fun r => dadd (dmul Gm (dsum (map dabs r))) (dmul nz eta64D)) rq in
    negb (Z.eqb (fst D) 0) &&
    forallb (fun i =>
      let Ei := nth i Es (0, 0)%Z in let adi := nth i ads (0, 0)%Z in
      let ci := nth i cen [] in let ai := nth i acen [] in
      forallb (fun j =>
        let Ej := nth j Es (0, 0)%Z in let adj := nth j ads (0, 0)%Z in
        let cj := nth j cen [] in let aj := nth j acen [] in
        let cxy2 := dsum (map (fun p => dmul (fst p) (snd p)) (combine ci cj)) in       (* n^2 cxy *)
        let axy2 := dsum (map (fun p => dmul (fst p) (snd p)) (combine ai aj)) in
        let nee := dmul nz (dmul Ei Ej) in
        let covq := dadd (dadd axy2 (dmul Ej adi)) (dadd (dmul Ei adj) nee) in
        let rhs := dadd (dadd (dmul G5 covq) (dmul (dadd (dZ 1) G2) (dadd nee tail))) last in
        let lhs := dabs (dsub (dmul n2 (dmul (dentry iq i j) D)) cxy2) in
        dleb lhs rhs)
      (seq 0 k)) (seq 0 k)
  | _, _, _ => false
  end.

(* the rational form of the same check (slow; kept as the reference the dyadic form is compared with) *)
Definition chk_cov_proved_Q (rows : list (list Z)) (ddof : Z) (impl : list (list Z)) : bool :=
  match rows_Q rows, f64_to_Q (f64_of_bits ddof), rows_Q impl with
  | Some rq, Some dq, Some iq =>
    let n := length (hd [] rq) in
    let exact := cov Q_ops qsum rq dq in
    let D := (inject_Z (Z.of_nat n) - dq)%Q in
    let k := length rq in
    let ems := map (mean_bound_Q n) rq in
    forallb (fun i =>
      forallb (fun j =>
        let bound := cov_bound_Q n n (nth i ems 0%Q) (nth j ems 0%Q) (nth i rq []) (nth j rq []) D in
        Qle_bool (Qabs (qentry iq i j - qentry exact i j)) bound)
      (seq 0 k)) (seq 0 k)
  | _, _, _ => false
  end.
