(* cov / pearson: the reference model evaluated exactly over Q on the dyadic inputs; the
   implementation's binary64 entries must lie within the (assumed, see DESIGN.md) bound
   c * n * u * sum_k |x_ik - mean_i| |x_jk - mean_j| / |n - ddof| of the exact entry. *)
From Coq Require Import List Arith ZArith QArith Qabs Bool.
Import ListNotations.
From NS Require Import Num.Ops Num.F64 Num.QInst Num.Cov Run.RunBase.

Definition qsum (l : list Q) : Q := fold_left (fun a b => Qred (a + b)) l 0%Q.

Fixpoint all_some {A} (l : list (option A)) : option (list A) :=
  match l with
  | [] => Some []
  | Some x :: t => match all_some t with Some r => Some (x :: r) | None => None end
  | None :: _ => None
  end.

Definition rows_Q (rows : list (list Z)) : option (list (list Q)) :=
  all_some (map (fun r => all_some (map (fun b => f64_to_Q (f64_of_bits b)) r)) rows).

Definition qentry (m : list (list Q)) (i j : nat) : Q := nth j (nth i m []) 0%Q.

(* |impl_ij - exact_ij| <= c n u cond_ij / |n - ddof| for every entry *)
Definition chk_cov (c : Z) (rows : list (list Z)) (ddof : Z) (impl : list (list Z)) : bool :=
  match rows_Q rows, f64_to_Q (f64_of_bits ddof), rows_Q impl with
  | Some rq, Some dq, Some iq =>
    let n := length (hd [] rq) in
    let exact := cov Q_ops qsum rq dq in
    let dn := map (denoise Q_ops qsum) rq in
    let u := Qmake 1 (Z.to_pos (2 ^ 53)) in
    let den := Qabs (inject_Z (Z.of_nat n) - dq) in
    let k := length rq in
    forallb (fun i =>
      forallb (fun j =>
        let cond := qsum (map (fun ab => Qabs (fst ab * snd ab)) (combine (nth i dn []) (nth j dn []))) in
        let scale := qsum (map (fun ab => Qabs (fst ab) * Qabs (snd ab)) (combine (nth i rq []) (nth j rq []))) in
        let bound := (inject_Z c * inject_Z (Z.of_nat (S n)) * u * (cond + u * inject_Z (Z.of_nat (S n)) * scale) / den)%Q in
        Qle_bool (Qabs (qentry iq i j - qentry exact i j)) bound)
      (seq 0 k)) (seq 0 k)
  | _, _, _ => false
  end.
