(* Hist/Widths.v at the bounded-integer element type [int_elt t]:
     W5  constant data: the width arithmetic does not fail and the Strategy error is returned;
         the complementary panics (zero or unrepresentable bin count);
     W6  the complete C12 statement for integer data, with no hypothesis left about the width;
         termination (no OutOfFuel) for the fuel (max - min) / w + 3. *)
From Coq Require Import List Arith ZArith Lia Bool.
Import ListNotations.
From Flocq Require Import Core BinarySingleNaN.
From NS Require Import Base.Order Base.Res Base.SortDedup Base.SortDedupProofs Num.Ops Num.ZInst Num.F64
  Quantile.Index Quantile.Interp Quantile.Lane Quantile.Spec Quantile.IndexProofs
  Hist.Edges Hist.EdgesProofs Hist.Histogram Hist.Strategies Hist.StrategiesProofs Hist.Widths
  Hist.WidthsProofs.
Local Open Scope Z_scope.

(* ================================================================== *)
(* the Nearest quantile of a constant list                              *)
(* ================================================================== *)

Section ConstQuantile.
Context {A : Type}.
Variable C : carrier A.

Lemma nth_error_const : forall (l : list A) x i,
  Forall (fun y => y = x) l -> (i < length l)%nat -> nth_error l i = Some x.
Proof.
  intros l x i H. revert i. induction H as [| y l -> _ IH]; intros i Hi; cbn [length] in Hi; [lia |].
  destruct i as [| i]; [reflexivity |]. cbn [nth_error]. apply IH. lia.
Qed.

Lemma get_const : forall (l : list A) x i,
  Forall (fun y => y = x) l -> (i < length l)%nat -> get l i = Ok x.
Proof. intros l x i H Hi. unfold get. rewrite (nth_error_const l x i H Hi). reflexivity. Qed.

Theorem qspec_nearest_const : forall (srt : list A) x q,
  valid_q q = true -> (1 <= length srt)%nat -> Z.of_nat (length srt) <= 2 ^ 53 ->
  Forall (fun y => y = x) srt ->
  qspec C Nearest srt q = Ok x.
Proof.
  intros srt x q Hq Hn1 Hn Hc.
  apply valid_q_spec in Hq. destruct Hq as [Hf Hr].
  destruct (index_spec q (length srt) Hf Hr Hn1 Hn) as (lo & hi & Hlo & Hhi & _ & _ & Hle & Hhn & _).
  unfold qspec. cbn [needs_higher interpolate].
  destruct (needs_lower Nearest q (length srt)); cbn [negb].
  - rewrite Hlo. cbn [unwrap bind]. rewrite (get_const srt x lo Hc) by lia. reflexivity.
  - cbn [bind]. rewrite Hhi. cbn [unwrap bind]. rewrite (get_const srt x hi Hc) by lia. reflexivity.
Qed.

(* the Nearest quantile is an element of the list it is taken from *)
Theorem qspec_nearest_In : forall (srt : list A) q v,
  qspec C Nearest srt q = Ok v -> In v srt.
Proof.
  intros srt q v H. unfold qspec in H. cbn [needs_higher interpolate] in H.
  destruct (needs_lower Nearest q (length srt)); cbn [negb] in H.
  - apply bind_Ok_inv in H. destruct H as (olo & H1 & H).
    apply bind_Ok_inv in H1. destruct H1 as (i & _ & H1).
    apply bind_Ok_inv in H1. destruct H1 as (v1 & Hg & H1). injection H1 as <-.
    cbn [bind unwrap] in H. injection H as <-.
    unfold get in Hg. destruct (nth_error srt i) eqn:Hn; [| discriminate Hg].
    injection Hg as ->. eapply nth_error_In. exact Hn.
  - cbn [bind] in H. apply bind_Ok_inv in H. destruct H as (ohi & H1 & H).
    apply bind_Ok_inv in H1. destruct H1 as (i & _ & H1).
    apply bind_Ok_inv in H1. destruct H1 as (v1 & Hg & H1). injection H1 as <-.
    cbn [unwrap] in H. injection H as <-.
    unfold get in Hg. destruct (nth_error srt i) eqn:Hn; [| discriminate Hg].
    injection Hg as ->. eapply nth_error_In. exact Hn.
Qed.
End ConstQuantile.

Lemma isort_const : forall {A} (leb : A -> A -> bool) x l,
  leb x x = true -> Forall (fun y => y = x) l -> isort A leb l = l.
Proof.
  intros A leb x l Hxx H. induction H as [| y l -> Hl IH]; [reflexivity |].
  cbn [isort]. rewrite IH. destruct Hl as [| z l -> _]; cbn [insert]; [reflexivity |].
  rewrite Hxx. reflexivity.
Qed.

Lemma Forall_repeat_eq : forall {A} (x : A) m, Forall (fun y => y = x) (repeat x m).
Proof. intros A x m. induction m as [| m IH]; cbn [repeat]; constructor; [reflexivity | exact IH]. Qed.

Lemma valid_q25 : valid_q q25 = true. Proof. vm_compute. reflexivity. Qed.
Lemma valid_q75 : valid_q q75 = true. Proof. vm_compute. reflexivity. Qed.

(* ================================================================== *)
(* int_elt: basic facts                                                 *)
(* ================================================================== *)

Section Int.
Variable t : ity.
Notation E := (int_elt t).

Lemma int_leb : e_leb E = Z.leb. Proof. reflexivity. Qed.

Lemma int_total : total (e_leb E). Proof. exact Z_leb_total. Qed.
Lemma int_trans : transitive (e_leb E). Proof. exact Z_leb_trans. Qed.

Lemma chk_not_oof : forall z, chk t z <> OutOfFuel.
Proof. intros z. unfold chk. destruct (in_range t z); discriminate. Qed.

Lemma int_arith_no_oof : arith_no_oof E.
Proof.
  repeat split; intros a b; cbn [e_sub e_mul e_div int_elt]; try apply chk_not_oof.
  destruct (b =? 0); [discriminate | apply chk_not_oof].
Qed.

Theorem from_array_int_not_oof : forall zero k data L, from_array E zero k data L <> OutOfFuel.
Proof. apply from_array_not_oof. exact int_arith_no_oof. Qed.

Lemma int_ltb : forall a b, ltb E a b = true <-> a < b.
Proof.
  intros a b. rewrite ltb_true. cbn [e_leb int_elt]. rewrite Z.leb_le, Z.leb_gt. lia.
Qed.

Lemma int_ltb_ltb : forall a b, ltb E a b = (a <? b).
Proof.
  intros a b. destruct (Z.ltb_spec a b) as [H | H].
  - apply int_ltb. exact H.
  - destruct (ltb E a b) eqn:Hl; [| reflexivity]. apply int_ltb in Hl. lia.
Qed.

Lemma accepts_int : forall w mn mx, accepts E 0 w mn mx = true <-> 0 < w /\ mn < mx.
Proof.
  intros w mn mx. unfold accepts. cbn [e_leb int_elt].
  rewrite andb_true_iff, !negb_true_iff, !Z.leb_gt. tauto.
Qed.

(* the minimum and maximum of integer data *)
Theorem first_min_int : forall x l,
  In (first_min E x l) (x :: l) /\ Forall (fun y => first_min E x l <= y) (x :: l).
Proof.
  intros x l. split; [apply first_min_In |].
  apply Forall_forall. intros y Hy. apply Z.leb_le.
  exact (first_min_le E int_total int_trans l x y Hy).
Qed.

Theorem first_max_int : forall x l,
  In (first_max E x l) (x :: l) /\ Forall (fun y => y <= first_max E x l) (x :: l).
Proof.
  intros x l. split; [apply first_max_In |].
  apply Forall_forall. intros y Hy. apply Z.leb_le.
  exact (first_max_ge E int_total int_trans l x y Hy).
Qed.

Lemma min_max_int : forall x l,
  Forall (fun y => first_min E x l <= y <= first_max E x l) (x :: l).
Proof.
  intros x l. destruct (first_min_int x l) as [_ H1]. destruct (first_max_int x l) as [_ H2].
  rewrite Forall_forall in *. intros y Hy. split; [apply H1 | apply H2]; exact Hy.
Qed.

(* ================================================================== *)
(* W5 for integers                                                      *)
(* ================================================================== *)

Lemma in_range_bounds : forall z, in_range t z = true <-> imin t <= z <= imax t.
Proof. intros z. unfold in_range. rewrite andb_true_iff, !Z.leb_le. tauto. Qed.

Definition simple_kind (k : kind) : Prop := k = KSqrt \/ k = KRice \/ k = KSturges.

Lemma from_array_simple_kind : forall zero k data L, simple_kind k ->
  from_array E zero k data L = simple_from_array E zero k data L.
Proof. intros zero k data L [-> | [-> | ->]]; reflexivity. Qed.

(* constant data, a positive representable bin count: width 0 / count = 0, rejected *)
Theorem from_array_int_constant_simple : forall k x m L,
  simple_kind k -> in_range t 0 = true ->
  0 < count_bins k (Z.of_nat (S m)) L <= imax t ->
  from_array E 0 k (x :: repeat x m) L = Ok (inl SE_Strategy).
Proof.
  intros k x m L Hk H0 Hc. rewrite (from_array_simple_kind _ _ _ _ Hk).
  cbn [simple_from_array].
  rewrite (first_min_const E x _ (Forall_repeat_eq x m)), (first_max_const E x _ (Forall_repeat_eq x m)).
  cbn [length]. rewrite repeat_length.
  unfold width_of_count. cbn [e_sub e_of_usize e_div int_elt].
  rewrite Z.sub_diag. unfold chk at 1. rewrite H0. cbn [bind].
  assert (Hr : in_range t (count_bins k (Z.of_nat (S m)) L) = true).
  { apply in_range_bounds. apply in_range_bounds in H0. lia. }
  rewrite Hr. cbn [unwrap bind].
  destruct (Z.eqb_spec (count_bins k (Z.of_nat (S m)) L) 0) as [Hz | _]; [lia |].
  rewrite Z.quot_0_l by lia. unfold chk. rewrite H0. cbn [bind].
  rewrite accepts_same_false; [reflexivity | apply Z.leb_refl].
Qed.

(* the complementary failures of the width arithmetic: a zero bin count divides by zero, a bin
   count that from_usize cannot represent panics on unwrap *)
Theorem from_array_int_count_zero : forall k x l L,
  simple_kind k -> count_bins k (Z.of_nat (S (length l))) L = 0 ->
  from_array E 0 k (x :: l) L = Panic.
Proof.
  intros k x l L Hk Hc. rewrite (from_array_simple_kind _ _ _ _ Hk).
  cbn [simple_from_array length]. rewrite Hc.
  unfold width_of_count. cbn [e_sub e_of_usize e_div int_elt].
  destruct (chk t _) as [r | |] eqn:Hs; cbn [bind]; try reflexivity;
    [| exfalso; exact (chk_not_oof _ Hs)].
  destruct (in_range t 0); cbn [unwrap bind]; reflexivity.
Qed.

Theorem from_array_int_count_unrepresentable : forall k x l L,
  simple_kind k -> in_range t (count_bins k (Z.of_nat (S (length l))) L) = false ->
  from_array E 0 k (x :: l) L = Panic.
Proof.
  intros k x l L Hk Hc. rewrite (from_array_simple_kind _ _ _ _ Hk).
  cbn [simple_from_array length].
  unfold width_of_count. cbn [e_sub e_of_usize e_div int_elt]. rewrite Hc.
  destruct (chk t _) as [r | |] eqn:Hs; cbn [bind]; try reflexivity.
  exfalso; exact (chk_not_oof _ Hs).
Qed.

(* Freedman-Diaconis on constant data: both quartiles are x, iqr = 0, width 0 / d = 0, rejected *)
Theorem fd_quartiles_const : forall x m q, valid_q q = true -> Z.of_nat (S m) <= 2 ^ 53 ->
  qspec (e_car E) Nearest (isort Z (e_leb E) (x :: repeat x m)) q = Ok x.
Proof.
  intros x m q Hq Hn.
  assert (Hc : Forall (fun y => y = x) (x :: repeat x m)).
  { constructor; [reflexivity | apply Forall_repeat_eq]. }
  rewrite (isort_const (e_leb E) x _ (Z.leb_refl x) Hc).
  apply qspec_nearest_const; [exact Hq | cbn [length]; lia | | exact Hc].
  cbn [length]. rewrite repeat_length. exact Hn.
Qed.

Theorem from_array_int_constant_fd : forall x m L d,
  in_range t 0 = true -> in_range t 2 = true -> Z.of_nat (S m) <= 2 ^ 53 ->
  int_of_f64 t (l_cbrt L) = Some d -> d <> 0 ->
  from_array E 0 KFD (x :: repeat x m) L = Ok (inl SE_Strategy).
Proof.
  intros x m L d H0 H2 Hn Hd Hd0.
  cbn [from_array fd_from_array]. unfold fd_width.
  rewrite (fd_quartiles_const x m q25 valid_q25 Hn), (fd_quartiles_const x m q75 valid_q75 Hn).
  cbn [bind e_sub e_of_usize e_mul e_of_f64 e_div int_elt].
  rewrite Z.sub_diag. unfold chk at 1. rewrite H0. cbn [bind]. rewrite H2. cbn [unwrap bind].
  rewrite Z.mul_0_r. unfold chk at 1. rewrite H0. cbn [bind]. rewrite Hd. cbn [unwrap bind].
  destruct (Z.eqb_spec d 0) as [Hz | _]; [congruence |].
  rewrite Z.quot_0_l by exact Hd0. unfold chk. rewrite H0. cbn [bind].
  rewrite (first_min_const E x _ (Forall_repeat_eq x m)), (first_max_const E x _ (Forall_repeat_eq x m)).
  rewrite accepts_same_false; [reflexivity | apply Z.leb_refl].
Qed.

(* ... and the complementary failures: libm's cube root not convertible, or converted to 0 *)
Theorem from_array_int_fd_den_zero : forall x l L,
  int_of_f64 t (l_cbrt L) = Some 0 -> from_array E 0 KFD (x :: l) L = Panic.
Proof.
  intros x l L Hd. cbn [from_array fd_from_array]. unfold fd_width.
  destruct (qspec _ _ _ q25) as [a | |] eqn:Ha; cbn [bind]; try reflexivity;
    [| exfalso; exact (qspec_nearest_not_oof E _ _ Ha)].
  destruct (qspec _ _ _ q75) as [b | |] eqn:Hb; cbn [bind]; try reflexivity;
    [| exfalso; exact (qspec_nearest_not_oof E _ _ Hb)].
  destruct (e_sub E b a) as [iqr | |] eqn:Hs; cbn [bind]; try reflexivity;
    [| exfalso; exact (proj1 int_arith_no_oof b a Hs)].
  destruct (unwrap (e_of_usize E 2)) as [two | |] eqn:Hu; cbn [bind]; try reflexivity;
    [| exfalso; exact (unwrap_not_oof _ Hu)].
  destruct (e_mul E two iqr) as [num | |] eqn:Hm; cbn [bind]; try reflexivity;
    [| exfalso; exact (proj1 (proj2 int_arith_no_oof) two iqr Hm)].
  cbn [e_of_f64 e_div int_elt]. rewrite Hd. cbn [unwrap bind]. reflexivity.
Qed.

Theorem from_array_int_constant_auto : forall x m L d,
  in_range t 0 = true -> in_range t 2 = true -> Z.of_nat (S m) <= 2 ^ 53 ->
  int_of_f64 t (l_cbrt L) = Some d -> d <> 0 ->
  0 < count_bins KSturges (Z.of_nat (S m)) L <= imax t ->
  from_array E 0 KAuto (x :: repeat x m) L = Ok (inl SE_Strategy).
Proof.
  intros x m L d H0 H2 Hn Hd Hd0 Hc.
  rewrite auto_unfold.
  rewrite (from_array_int_constant_fd x m L d H0 H2 Hn Hd Hd0).
  rewrite (from_array_int_constant_simple KSturges x m L (or_intror (or_intror eq_refl)) H0 Hc).
  reflexivity.
Qed.

(* W5 as a dichotomy, for every kind and every constant integer data set, no side condition *)
Theorem from_array_int_constant_cases : forall k x l L, Forall (fun y => y = x) l ->
  from_array E 0 k (x :: l) L = Ok (inl SE_Strategy) \/ from_array E 0 k (x :: l) L = Panic.
Proof.
  intros k x l L Hc.
  exact (from_array_constant_cases E int_arith_no_oof 0 k x l L (Z.leb_refl x) Hc).
Qed.

(* ================================================================== *)
(* W6: integers end to end                                              *)
(* ================================================================== *)

Definition fuelZ (w mn mx : Z) : nat := Z.to_nat ((mx - mn) / w + 3).

Lemma fuelZ_enough : forall w mn mx, 0 < w -> mn < mx ->
  (Z.to_nat ((mx - mn) / w) + 2 <= fuelZ w mn mx)%nat.
Proof.
  intros w mn mx Hw Hm. unfold fuelZ.
  assert (Hq : 0 <= (mx - mn) / w) by (apply Z.div_pos; lia). lia.
Qed.

(* an accepted width determines the whole outcome: no Panic, no OutOfFuel *)
Theorem strategy_full_int_of_from_array : forall k data L w mn mx,
  from_array E 0 k data L = Ok (inr (w, mn, mx)) ->
  strategy_full E Z_ops (fun _ => true) fuelZ k data L =
  Ok (inr (w, nbZ mn w mx, zgrid mn w (nbZ mn w mx))).
Proof.
  intros k data L w mn mx H.
  rewrite (strategy_full_of_from_array_inr E Z_ops _ fuelZ k data L w mn mx H).
  destruct (from_array_inr_nonempty _ _ _ _ _ _ H) as (x & l & ->).
  apply from_array_inr in H. destruct H as (Hacc & _ & _).
  apply accepts_int in Hacc. destruct Hacc as [Hw Hm].
  pose proof (fuelZ_enough w mn mx Hw Hm) as Hf.
  rewrite int_leb.
  rewrite (n_bins_Z _ mn w mx Hw Hm Hf). cbn [bind].
  rewrite (build_Z' _ mn w mx Hw Hm Hf). reflexivity.
Qed.

(* termination and totality: strategy_full never runs out of fuel (for any repr), and with every
   index representable it fails only if from_array does *)
Theorem strategy_full_int_not_oof : forall repr k data L,
  strategy_full E Z_ops repr fuelZ k data L <> OutOfFuel.
Proof.
  intros repr k data L.
  destruct (strategy_full_repr_cases E Z_ops repr fuelZ k data L) as [-> | ->]; [discriminate |].
  destruct (from_array E 0 k data L) as [[e | [[w mn] mx]] | |] eqn:Hfa.
  - rewrite (strategy_full_of_from_array_inl E Z_ops _ fuelZ k data L e Hfa). discriminate.
  - rewrite (strategy_full_int_of_from_array k data L w mn mx Hfa). discriminate.
  - rewrite (strategy_full_of_from_array_panic E Z_ops _ fuelZ k data L Hfa). discriminate.
  - exfalso. exact (from_array_int_not_oof 0 k data L Hfa).
Qed.

Theorem strategy_full_int_panic_iff : forall k data L,
  strategy_full E Z_ops (fun _ => true) fuelZ k data L = Panic <-> from_array E 0 k data L = Panic.
Proof.
  intros k data L. split.
  - intros H. destruct (from_array E 0 k data L) as [[e | [[w mn] mx]] | |] eqn:Hfa.
    + rewrite (strategy_full_of_from_array_inl E Z_ops _ fuelZ k data L e Hfa) in H. discriminate H.
    + rewrite (strategy_full_int_of_from_array k data L w mn mx Hfa) in H. discriminate H.
    + reflexivity.
    + exfalso. exact (from_array_int_not_oof 0 k data L Hfa).
  - exact (strategy_full_of_from_array_panic E Z_ops _ fuelZ k data L).
Qed.

(* the main theorem *)
Theorem strategy_full_int_spec : forall k data L w nb es,
  strategy_full E Z_ops (fun _ => true) fuelZ k data L = Ok (inr (w, nb, es)) ->
  0 < w /\
  exists x l, data = x :: l /\
    let mn := first_min E x l in
    let mx := first_max E x l in
    from_array E 0 k data L = Ok (inr (w, mn, mx)) /\
    Forall (fun y => mn <= y <= mx) data /\ In mn data /\ In mx data /\
    mn < mx /\
    nth_error es 0 = Some mn /\
    es = map (fun i => mn + Z.of_nat i * w) (seq 0 (S nb)) /\
    nb = Z.to_nat ((mx - mn) / w + 1) /\
    bins_len Z es = nb /\
    (forall i a b, nth_error es i = Some a -> nth_error es (S i) = Some b -> b - a = w) /\
    (exists last, nth_error es (length es - 1) = Some last /\ mx < last <= mx + w) /\
    (forall y, In y data -> index_of Z Z.leb es y = Some (Z.to_nat ((y - mn) / w))) /\
    (exists c, histogram Z Z.leb [es] (map (fun y => [y]) data) = Ok c /\
               list_sum c = length data).
Proof.
  intros k data L w nb es H.
  destruct (strategy_full_refines E Z_ops _ fuelZ k data L w nb es H)
    as (mn & mx & Hfa & Hnb & Hb & _).
  destruct (from_array_inr_nonempty _ _ _ _ _ _ Hfa) as (x & l & ->).
  pose proof Hfa as Hfa'.
  apply from_array_inr in Hfa'. destruct Hfa' as (Hacc & Emn & Emx).
  apply accepts_int in Hacc. destruct Hacc as [Hw Hm].
  pose proof (fuelZ_enough w mn mx Hw Hm) as Hf.
  rewrite int_leb in Hnb, Hb.
  assert (Enb : nb = nbZ mn w mx).
  { rewrite (n_bins_Z _ mn w mx Hw Hm Hf) in Hnb. injection Hnb as <-. reflexivity. }
  pose proof (min_max_int x l) as Hrange. rewrite <- Emn, <- Emx in Hrange.
  split; [exact Hw |]. exists x, l. split; [reflexivity |].
  cbv zeta. rewrite <- Emn, <- Emx.
  split; [exact Hfa |]. split; [exact Hrange |].
  split; [rewrite Emn; apply first_min_In |]. split; [rewrite Emx; apply first_max_In |].
  split; [exact Hm |].
  split; [exact (first_edge_Z _ mn w mx es Hw Hm Hf Hb) |].
  split; [rewrite Enb; exact (es_eq _ mn w mx es Hw Hm Hf Hb) |].
  split; [exact Enb |].
  split; [rewrite Enb; exact (bins_len_Z _ mn w mx es Hw Hm Hf Hb) |].
  split; [exact (equal_width_Z _ mn w mx es Hw Hm Hf Hb) |].
  split.
  { destruct (last_edge_Z _ mn w mx es Hw Hm Hf Hb) as (last & H1 & _ & H3).
    exists last. split; assumption. }
  split.
  { intros y Hy. apply (cover_Z _ mn w mx es Hw Hm Hf Hb).
    rewrite Forall_forall in Hrange. apply Hrange. exact Hy. }
  exact (all_counted_Z _ mn w mx es Hw Hm Hf Hb (x :: l) Hrange).
Qed.

(* the same for an arbitrary from_usize: a successful run never consulted an unrepresentable index *)
Corollary strategy_full_int_spec_repr : forall repr k data L w nb es,
  strategy_full E Z_ops repr fuelZ k data L = Ok (inr (w, nb, es)) ->
  strategy_full E Z_ops (fun _ => true) fuelZ k data L = Ok (inr (w, nb, es)).
Proof. intros repr k data L w nb es. apply strategy_full_repr_ok. Qed.

End Int.
