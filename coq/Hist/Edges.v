(* Edges / Bins / Grid of histogram/bins.rs and histogram/grid.rs.
   An Edges value is a list (kept strictly sorted by construction); Bins wraps
   Edges; a Grid is one Bins per axis.  The std-library binary search is modelled
   by a left-to-right search whose result is uniquely determined on a strictly
   sorted list (see bsearch_spec in EdgesProofs.v), so nothing is assumed about
   which of several equal elements binary_search would find. *)
From Coq Require Import List Arith Bool.
Import ListNotations.
From NS Require Import Base.Res Base.SortDedup.

Section E.
Variable A : Type.
Variable leb : A -> A -> bool.
Notation eqv := (eqv A leb).
Notation sltb := (sltb A leb).

(* Edges::from(Vec): sort_unstable + dedup *)
Definition edges_from (l : list A) : list A := sort_dedup A leb l.

(* slice::binary_search: (true, i) = Ok(i), (false, j) = Err(j) with j the insertion point *)
Fixpoint bsearch (es : list A) (v : A) (pos : nat) : bool * nat :=
  match es with
  | [] => (false, pos)
  | e :: t =>
    if eqv e v then (true, pos)
    else if sltb e v then bsearch t v (S pos)
    else (false, pos)
  end.

(* Edges::indices_of *)
Definition indices_of (es : list A) (v : A) : option (nat * nat) :=
  let n := length es in
  match bsearch es v 0 with
  | (true, i) => if i =? n - 1 then None else Some (i, i + 1)
  | (false, j) =>
    match j with
    | 0 => None
    | _ => if j =? n then None else Some (j - 1, j)
    end
  end.

(* Bins::len *)
Definition bins_len (es : list A) : nat :=
  match length es with 0 => 0 | S m => m end.

(* Bins::index_of *)
Definition index_of (es : list A) (v : A) : option nat :=
  match indices_of es v with Some (l, _) => Some l | None => None end.

(* Bins::range_of: indexes self.edges[left], self.edges[right] (a panic if out of range) *)
Definition range_of (es : list A) (v : A) : res (option (A * A)) :=
  match indices_of es v with
  | Some (l, r) => s <- get es l ;; e <- get es r ;; Ok (Some (s, e))
  | None => Ok None
  end.

(* Bins::index: Range { start: edges[index], end: edges[index + 1] }, start evaluated first *)
Definition bins_index (es : list A) (i : nat) : res (A * A) :=
  s <- get es i ;; e <- get es (i + 1) ;; Ok (s, e).

(* ---- Grid: one edge list per axis ---- *)
Definition grid := list (list A).

Definition grid_ndim (g : grid) : nat := length g.
Definition grid_shape (g : grid) : list nat := map bins_len g.

Fixpoint index_all (g : grid) (pt : list A) : option (list nat) :=
  match g, pt with
  | es :: g', v :: pt' =>
    match index_of es v with
    | Some i => match index_all g' pt' with Some r => Some (i :: r) | None => None end
    | None => None
    end
  | _, _ => Some []
  end.

(* Grid::index_of: arity assertion, then zip + collect::<Option<Vec<_>>> *)
Definition grid_index_of (g : grid) (pt : list A) : res (option (list nat)) :=
  if length pt =? length g then Ok (index_all g pt) else Panic.

Fixpoint ranges_all (g : grid) (idx : list nat) : res (list (A * A)) :=
  match g, idx with
  | es :: g', i :: idx' => r <- bins_index es i ;; t <- ranges_all g' idx' ;; Ok (r :: t)
  | _, _ => Ok []
  end.

(* Grid::index *)
Definition grid_index (g : grid) (idx : list nat) : res (list (A * A)) :=
  if length idx =? length g then ranges_all g idx else Panic.
End E.
