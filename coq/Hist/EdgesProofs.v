(* Proofs about the Edges / Bins / Grid model of Hist/Edges.v. *)
From Coq Require Import List Arith Lia Permutation Bool Sorting.Sorted.
Import ListNotations.
From NS Require Import Base.Res Base.ArrLemmas Base.SortDedup Base.SortDedupProofs Hist.Edges.

Section EP.
Variable A : Type.
Variable leb : A -> A -> bool.
Hypothesis leb_total : forall x y, leb x y = true \/ leb y x = true.
Hypothesis leb_trans :
  forall x y z, leb x y = true -> leb y z = true -> leb x z = true.

Definition strict (es : list A) :=
  StronglySorted (fun x y => sltb A leb x y = true) es.

(* ------------------------------------------------------------------ *)
(* Order helpers                                                       *)
(* ------------------------------------------------------------------ *)

Lemma slt_le : forall x y, sltb A leb x y = true -> leb x y = true.
Proof.
  intros x y H. unfold sltb in H.
  destruct (leb_total x y) as [Hxy | Hyx]; [exact Hxy |].
  rewrite Hyx in H. discriminate.
Qed.

Lemma le_slt_trans :
  forall x y z, leb x y = true -> sltb A leb y z = true -> sltb A leb x z = true.
Proof.
  intros x y z Hxy Hyz. unfold sltb in *.
  destruct (leb z x) eqn:Ezx; [| reflexivity].
  rewrite (leb_trans z x y Ezx Hxy) in Hyz. discriminate.
Qed.

Lemma slt_le_trans :
  forall x y z, sltb A leb x y = true -> leb y z = true -> sltb A leb x z = true.
Proof.
  intros x y z Hxy Hyz. unfold sltb in *.
  destruct (leb z x) eqn:Ezx; [| reflexivity].
  rewrite (leb_trans y z x Hyz Ezx) in Hxy. discriminate.
Qed.

Lemma slt_not_le :
  forall x y, sltb A leb x y = true -> leb y x = true -> False.
Proof.
  intros x y Hxy Hyx. unfold sltb in Hxy. rewrite Hyx in Hxy. discriminate.
Qed.

Lemma strict_nth_lt :
  forall es, strict es ->
  forall i j a b, i < j -> nth_error es i = Some a -> nth_error es j = Some b ->
    sltb A leb a b = true.
Proof.
  intros es Hs. induction Hs as [| e t Hst IH Hfa]; intros i j a b Hij Ha Hb.
  - destruct i; discriminate.
  - destruct j as [| j']; [lia |]. cbn [nth_error] in Hb.
    destruct i as [| i']; cbn [nth_error] in Ha.
    + injection Ha as Ha. subst a.
      rewrite Forall_forall in Hfa. apply Hfa. eapply nth_error_In. exact Hb.
    + apply (IH i' j'); [lia | exact Ha | exact Hb].
Qed.

Lemma strict_nth_le :
  forall es, strict es ->
  forall i j a b, i <= j -> nth_error es i = Some a -> nth_error es j = Some b ->
    leb a b = true.
Proof.
  intros es Hs i j a b Hij Ha Hb.
  destruct (Nat.eq_dec i j) as [E | NE].
  - subst j. rewrite Ha in Hb. injection Hb as Hb. subst b.
    apply (leb_refl A leb leb_total).
  - apply slt_le. apply (strict_nth_lt es Hs i j); [lia | exact Ha | exact Hb].
Qed.

(* ------------------------------------------------------------------ *)
(* 1. Edges::from                                                      *)
(* ------------------------------------------------------------------ *)

Theorem edges_from_strict : forall l, strict (edges_from A leb l).
Proof.
  intros l. unfold strict, edges_from.
  apply (sort_dedup_strict A leb leb_total leb_trans).
Qed.

Theorem edges_from_In : forall l x, In x (edges_from A leb l) -> In x l.
Proof.
  intros l x Hx. unfold edges_from in Hx.
  exact (sort_dedup_In A leb l x Hx).
Qed.

Theorem edges_from_complete :
  forall l x, In x l -> exists y, In y (edges_from A leb l) /\ eqv A leb x y = true.
Proof.
  intros l x Hx. unfold edges_from.
  apply (sort_dedup_complete A leb leb_total leb_trans l x Hx).
Qed.

(* ------------------------------------------------------------------ *)
(* 2. binary search                                                    *)
(* ------------------------------------------------------------------ *)

(* Bounds that hold on any list, sorted or not. *)
Lemma bsearch_bounds :
  forall es v pos found k,
    bsearch A leb es v pos = (found, k) ->
    pos <= k <= pos + length es /\ (found = true -> k < pos + length es).
Proof.
  intros es v. induction es as [| e t IH]; intros pos found k Hb; cbn [bsearch] in Hb.
  - injection Hb as Hf Hk. subst found k. cbn [length]. split; [lia | discriminate].
  - cbn [length]. destruct (eqv A leb e v).
    + injection Hb as Hf Hk. subst found k. split; [lia | intros _; lia].
    + destruct (sltb A leb e v).
      * destruct (IH (S pos) found k Hb) as [Hr Hf]. split; [lia |].
        intros Hft. specialize (Hf Hft). lia.
      * injection Hb as Hf Hk. subst found k. split; [lia | discriminate].
Qed.

Theorem bsearch_spec :
  forall es v pos found k,
    strict es ->
    bsearch A leb es v pos = (found, k) ->
    pos <= k <= pos + length es /\
    (forall m x, m < k - pos -> nth_error es m = Some x -> sltb A leb x v = true) /\
    (found = true ->
       exists x, nth_error es (k - pos) = Some x /\ eqv A leb x v = true) /\
    (found = false ->
       forall m x, k - pos <= m -> nth_error es m = Some x -> sltb A leb v x = true).
Proof.
  intros es v. induction es as [| e t IH]; intros pos found k Hs Hb; cbn [bsearch] in Hb.
  - injection Hb as Hf Hk. subst found k. cbn [length].
    split; [lia |]. split; [| split].
    + intros m x _ Hn. destruct m; discriminate.
    + discriminate.
    + intros _ m x _ Hn. destruct m; discriminate.
  - apply StronglySorted_inv in Hs. destruct Hs as [Hst Hfa].
    cbn [length].
    destruct (eqv A leb e v) eqn:Eeq.
    + injection Hb as Hf Hk. subst found k.
      replace (pos - pos) with 0 by lia.
      split; [lia |]. split; [| split].
      * intros m x Hm. lia.
      * intros _. exists e. split; [reflexivity | exact Eeq].
      * discriminate.
    + destruct (sltb A leb e v) eqn:Eslt.
      * destruct (IH (S pos) found k Hst Hb) as (Hr & Hbefore & Hfound & Hafter).
        split; [lia |].
        replace (k - pos) with (S (k - S pos)) by lia.
        split; [| split].
        -- intros m x Hm Hn. destruct m as [| m']; cbn [nth_error] in Hn.
           ++ injection Hn as Hn. subst x. exact Eslt.
           ++ apply (Hbefore m'); [lia | exact Hn].
        -- intros Hf. destruct (Hfound Hf) as (x & Hx & Hxe).
           exists x. split; [exact Hx | exact Hxe].
        -- intros Hf m x Hm Hn. destruct m as [| m']; [lia |].
           cbn [nth_error] in Hn. apply (Hafter Hf m'); [lia | exact Hn].
      * injection Hb as Hf Hk. subst found k.
        replace (pos - pos) with 0 by lia.
        assert (Hve : sltb A leb v e = true).
        { unfold sltb, eqv in *.
          destruct (leb v e); destruct (leb e v); cbn in *; congruence. }
        split; [lia |]. split; [| split].
        -- intros m x Hm. lia.
        -- discriminate.
        -- intros _ m x _ Hn. destruct m as [| m']; cbn [nth_error] in Hn.
           ++ injection Hn as Hn. subst x. exact Hve.
           ++ apply slt_le_trans with e; [exact Hve |].
              apply slt_le. rewrite Forall_forall in Hfa. apply Hfa.
              eapply nth_error_In. exact Hn.
Qed.

(* ------------------------------------------------------------------ *)
(* 3. / 4. Edges::indices_of                                           *)
(* ------------------------------------------------------------------ *)

Theorem indices_of_some :
  forall es v i j, strict es ->
    (indices_of A leb es v = Some (i, j) <->
     j = i + 1 /\
     exists a b, nth_error es i = Some a /\ nth_error es j = Some b /\
                 leb a v = true /\ sltb A leb v b = true).
Proof.
  intros es v i j Hs. unfold indices_of.
  destruct (bsearch A leb es v 0) as [found k] eqn:Eb.
  destruct (bsearch_spec es v 0 found k Hs Eb) as (Hr & Hbef & Hfnd & Haft).
  rewrite Nat.sub_0_r in Hbef, Hfnd, Haft. cbn [plus] in Hr.
  split.
  - intros H. destruct found.
    + destruct (Hfnd eq_refl) as (x & Hx & Hxe).
      destruct (Nat.eqb_spec k (length es - 1)) as [E | NE]; [discriminate |].
      injection H as Hi Hj. subst i j. split; [reflexivity |].
      assert (Hk : k < length es) by (apply nth_error_Some; congruence).
      destruct (nth_error es (k + 1)) as [b |] eqn:Hb.
      2:{ apply nth_error_None in Hb. lia. }
      unfold eqv in Hxe. apply andb_true_iff in Hxe. destruct Hxe as [Hxv Hvx].
      exists x, b. split; [exact Hx |]. split; [reflexivity |]. split; [exact Hxv |].
      apply le_slt_trans with x; [exact Hvx |].
      apply (strict_nth_lt es Hs k (k + 1)); [lia | exact Hx | exact Hb].
    + destruct k as [| k']; [discriminate |].
      destruct (Nat.eqb_spec (S k') (length es)) as [E | NE]; [discriminate |].
      injection H as Hi Hj. subst j.
      assert (Hi' : i = k') by lia. clear Hi. subst i.
      split; [lia |].
      destruct (nth_error es k') as [a |] eqn:Ha.
      2:{ apply nth_error_None in Ha. lia. }
      destruct (nth_error es (S k')) as [b |] eqn:Hb.
      2:{ apply nth_error_None in Hb. lia. }
      exists a, b. split; [reflexivity |]. split; [reflexivity |]. split.
      * apply slt_le. apply (Hbef k' a); [lia | exact Ha].
      * apply (Haft eq_refl (S k') b); [lia | exact Hb].
  - intros (Hj & a & b & Ha & Hb & Hav & Hvb). subst j.
    assert (Hlen : i + 1 < length es) by (apply nth_error_Some; congruence).
    destruct found.
    + destruct (Hfnd eq_refl) as (x & Hx & Hxe).
      unfold eqv in Hxe. apply andb_true_iff in Hxe. destruct Hxe as [Hxv Hvx].
      assert (Hki : k = i).
      { destruct (lt_eq_lt_dec k i) as [[Hlt | Heq] | Hgt]; [| exact Heq |]; exfalso.
        - apply (slt_not_le x a).
          + apply (strict_nth_lt es Hs k i); [exact Hlt | exact Hx | exact Ha].
          + apply leb_trans with v; [exact Hav | exact Hvx].
        - apply (slt_not_le v b Hvb).
          apply leb_trans with x; [| exact Hxv].
          apply (strict_nth_le es Hs (i + 1) k); [lia | exact Hb | exact Hx]. }
      subst k.
      destruct (Nat.eqb_spec i (length es - 1)) as [E | NE]; [lia | reflexivity].
    + assert (Hki : k = i + 1).
      { destruct (lt_eq_lt_dec k (i + 1)) as [[Hlt | Heq] | Hgt]; [| exact Heq |]; exfalso.
        - apply (slt_not_le v a); [| exact Hav].
          apply (Haft eq_refl i a); [lia | exact Ha].
        - apply (slt_not_le v b Hvb). apply slt_le.
          apply (Hbef (i + 1) b); [exact Hgt | exact Hb]. }
      subst k. replace (i + 1) with (S i) by lia.
      destruct (Nat.eqb_spec (S i) (length es)) as [E | NE]; [lia |].
      f_equal. f_equal. lia.
Qed.

Theorem indices_of_none :
  forall es v, strict es ->
    (indices_of A leb es v = None <->
     length es < 2 \/
     (exists a, nth_error es 0 = Some a /\ sltb A leb v a = true) \/
     (exists b, nth_error es (length es - 1) = Some b /\ leb b v = true)).
Proof.
  intros es v Hs. split.
  - unfold indices_of.
    destruct (bsearch A leb es v 0) as [found k] eqn:Eb.
    destruct (bsearch_spec es v 0 found k Hs Eb) as (Hr & Hbef & Hfnd & Haft).
    rewrite Nat.sub_0_r in Hbef, Hfnd, Haft. cbn [plus] in Hr.
    intros H. destruct found.
    + destruct (Hfnd eq_refl) as (x & Hx & Hxe).
      destruct (Nat.eqb_spec k (length es - 1)) as [E | NE]; [| discriminate].
      right. right. exists x. rewrite <- E. split; [exact Hx |].
      unfold eqv in Hxe. apply andb_true_iff in Hxe. tauto.
    + destruct k as [| k'].
      * destruct es as [| e t]; [left; cbn; lia |].
        right. left. exists e. split; [reflexivity |].
        apply (Haft eq_refl 0 e); [lia | reflexivity].
      * destruct (Nat.eqb_spec (S k') (length es)) as [E | NE]; [| discriminate].
        right. right.
        destruct (nth_error es (length es - 1)) as [b |] eqn:Hb.
        2:{ apply nth_error_None in Hb. lia. }
        exists b. split; [reflexivity |]. apply slt_le.
        apply (Hbef (length es - 1) b); [lia | exact Hb].
  - intros H.
    destruct (indices_of A leb es v) as [[i j] |] eqn:Ei; [exfalso | reflexivity].
    apply (indices_of_some es v i j Hs) in Ei.
    destruct Ei as (Hj & a & b & Ha & Hb & Hav & Hvb). subst j.
    assert (Hlen : i + 1 < length es) by (apply nth_error_Some; congruence).
    destruct H as [H | [(a0 & Ha0 & Hva0) | (b1 & Hb1 & Hb1v)]].
    + lia.
    + apply (slt_not_le v a0 Hva0).
      apply leb_trans with a; [| exact Hav].
      apply (strict_nth_le es Hs 0 i); [lia | exact Ha0 | exact Ha].
    + apply (slt_not_le v b Hvb).
      apply leb_trans with b1; [| exact Hb1v].
      apply (strict_nth_le es Hs (i + 1) (length es - 1)); [lia | exact Hb | exact Hb1].
Qed.

(* ------------------------------------------------------------------ *)
(* 5. a value lies in at most one bin                                  *)
(* ------------------------------------------------------------------ *)

Theorem bin_unique :
  forall es v, strict es ->
  forall i i' a b a' b',
    nth_error es i = Some a -> nth_error es (i + 1) = Some b ->
    leb a v = true -> sltb A leb v b = true ->
    nth_error es i' = Some a' -> nth_error es (i' + 1) = Some b' ->
    leb a' v = true -> sltb A leb v b' = true ->
    i = i'.
Proof.
  intros es v Hs i i' a b a' b' Ha Hb Hav Hvb Ha' Hb' Hav' Hvb'.
  assert (H1 : indices_of A leb es v = Some (i, i + 1)).
  { apply (indices_of_some es v i (i + 1) Hs). split; [reflexivity |].
    exists a, b. auto. }
  assert (H2 : indices_of A leb es v = Some (i', i' + 1)).
  { apply (indices_of_some es v i' (i' + 1) Hs). split; [reflexivity |].
    exists a', b'. auto. }
  rewrite H1 in H2. injection H2 as H2 _. exact H2.
Qed.

(* ------------------------------------------------------------------ *)
(* 6. Bins::len                                                        *)
(* ------------------------------------------------------------------ *)

Theorem bins_len_spec : forall es, bins_len A es = length es - 1.
Proof. intros es. unfold bins_len. destruct (length es); lia. Qed.

(* ------------------------------------------------------------------ *)
(* 8. Bins::index  (stated before 7, which uses it)                    *)
(* ------------------------------------------------------------------ *)

Lemma bins_index_nth :
  forall es i a b,
    nth_error es i = Some a -> nth_error es (i + 1) = Some b ->
    bins_index A es i = Ok (a, b).
Proof.
  intros es i a b Ha Hb. unfold bins_index, get. rewrite Ha. cbn [bind].
  rewrite Hb. reflexivity.
Qed.

Lemma bins_index_Ok_inv :
  forall es i a b,
    bins_index A es i = Ok (a, b) ->
    nth_error es i = Some a /\ nth_error es (i + 1) = Some b /\ i < bins_len A es.
Proof.
  intros es i a b H. unfold bins_index, get in H.
  destruct (nth_error es i) as [a0 |] eqn:Ha; [| discriminate]. cbn [bind] in H.
  destruct (nth_error es (i + 1)) as [b0 |] eqn:Hb; [| discriminate]. cbn [bind] in H.
  injection H as H1 H2. subst a0 b0. split; [reflexivity |]. split; [reflexivity |].
  rewrite bins_len_spec.
  assert (i + 1 < length es) by (apply nth_error_Some; congruence). lia.
Qed.

Theorem bins_index_ok_iff :
  forall es i, (exists r, bins_index A es i = Ok r) <-> i < bins_len A es.
Proof.
  intros es i. split.
  - intros [[a b] H]. apply bins_index_Ok_inv in H. tauto.
  - intros H. rewrite bins_len_spec in H.
    destruct (nth_error es i) as [a |] eqn:Ha.
    2:{ apply nth_error_None in Ha. lia. }
    destruct (nth_error es (i + 1)) as [b |] eqn:Hb.
    2:{ apply nth_error_None in Hb. lia. }
    exists (a, b). apply bins_index_nth; assumption.
Qed.

Theorem bins_index_oob :
  forall es i, bins_len A es <= i -> bins_index A es i = Panic.
Proof.
  intros es i H. rewrite bins_len_spec in H. unfold bins_index.
  rewrite (get_panic es (i + 1)) by lia.
  unfold get at 1. destruct (nth_error es i); reflexivity.
Qed.

(* bins_index never runs out of fuel: it is a value or a panic *)
Lemma bins_index_ok_or_panic :
  forall es i, (exists r, bins_index A es i = Ok r) \/ bins_index A es i = Panic.
Proof.
  intros es i. destruct (Nat.lt_ge_cases i (bins_len A es)) as [H | H].
  - left. apply bins_index_ok_iff. exact H.
  - right. apply bins_index_oob. exact H.
Qed.

(* ------------------------------------------------------------------ *)
(* 7. accessor agreement                                               *)
(* ------------------------------------------------------------------ *)

Theorem index_of_range_of :
  forall es v i, strict es ->
    index_of A leb es v = Some i ->
    i < bins_len A es /\
    exists a b, nth_error es i = Some a /\ nth_error es (i + 1) = Some b /\
                range_of A leb es v = Ok (Some (a, b)) /\
                bins_index A es i = Ok (a, b).
Proof.
  intros es v i Hs H. unfold index_of in H.
  destruct (indices_of A leb es v) as [[l r] |] eqn:Ei; [| discriminate].
  injection H as H. subst l.
  pose proof Ei as Ei'.
  apply (indices_of_some es v i r Hs) in Ei'.
  destruct Ei' as (Hr & a & b & Ha & Hb & Hav & Hvb). subst r.
  assert (Hlen : i + 1 < length es) by (apply nth_error_Some; congruence).
  split; [rewrite bins_len_spec; lia |].
  exists a, b. split; [exact Ha |]. split; [exact Hb |]. split.
  - unfold range_of. rewrite Ei. unfold get. rewrite Ha. cbn [bind]. rewrite Hb.
    reflexivity.
  - apply bins_index_nth; assumption.
Qed.

Theorem index_of_none_range_of :
  forall es v, index_of A leb es v = None -> range_of A leb es v = Ok None.
Proof.
  intros es v H. unfold index_of in H. unfold range_of.
  destruct (indices_of A leb es v) as [[l r] |]; [discriminate | reflexivity].
Qed.

(* index_of lands inside 0..bins_len even without the sortedness invariant *)
Lemma index_of_lt_len :
  forall es v i, index_of A leb es v = Some i -> i < bins_len A es.
Proof.
  intros es v i H. unfold index_of, indices_of in H. rewrite bins_len_spec.
  destruct (bsearch A leb es v 0) as [found k] eqn:Eb.
  destruct (bsearch_bounds es v 0 found k Eb) as [Hr Hf]. cbn [plus] in Hr, Hf.
  destruct found.
  - specialize (Hf eq_refl).
    destruct (Nat.eqb_spec k (length es - 1)) as [E | NE]; [discriminate |].
    injection H as H. lia.
  - destruct k as [| k']; [discriminate |].
    destruct (Nat.eqb_spec (S k') (length es)) as [E | NE]; [discriminate |].
    injection H as H. lia.
Qed.

(* index_of characterised directly by the half-open interval *)
Corollary index_of_some :
  forall es v i, strict es ->
    (index_of A leb es v = Some i <->
     exists a b, nth_error es i = Some a /\ nth_error es (i + 1) = Some b /\
                 leb a v = true /\ sltb A leb v b = true).
Proof.
  intros es v i Hs. unfold index_of. split.
  - intros H. destruct (indices_of A leb es v) as [[l r] |] eqn:Ei; [| discriminate].
    injection H as H. subst l. apply (indices_of_some es v i r Hs) in Ei.
    destruct Ei as (Hr & a & b & Ha & Hb & Hav & Hvb). subst r.
    exists a, b. auto.
  - intros (a & b & Ha & Hb & Hav & Hvb).
    assert (H : indices_of A leb es v = Some (i, i + 1)).
    { apply (indices_of_some es v i (i + 1) Hs). split; [reflexivity |].
      exists a, b. auto. }
    rewrite H. reflexivity.
Qed.

(* ------------------------------------------------------------------ *)
(* 9. Grid                                                             *)
(* ------------------------------------------------------------------ *)

Theorem grid_shape_length :
  forall g : grid A, length (grid_shape A g) = grid_ndim A g.
Proof. intros g. unfold grid_shape, grid_ndim. apply map_length. Qed.

Theorem grid_index_of_arity :
  forall (g : grid A) pt, length pt <> length g -> grid_index_of A leb g pt = Panic.
Proof.
  intros g pt H. unfold grid_index_of.
  destruct (Nat.eqb_spec (length pt) (length g)) as [E | NE]; [contradiction | reflexivity].
Qed.

Lemma grid_index_of_eq :
  forall (g : grid A) pt, length pt = length g ->
    grid_index_of A leb g pt = Ok (index_all A leb g pt).
Proof.
  intros g pt H. unfold grid_index_of.
  destruct (Nat.eqb_spec (length pt) (length g)) as [E | NE]; [reflexivity | contradiction].
Qed.

Lemma index_all_some :
  forall (g : grid A) pt idx, length pt = length g ->
    (index_all A leb g pt = Some idx <->
     length idx = length g /\
     forall k es v i, nth_error g k = Some es -> nth_error pt k = Some v ->
                      nth_error idx k = Some i -> index_of A leb es v = Some i).
Proof.
  intros g. induction g as [| es g' IH]; intros pt idx Hlen.
  - destruct pt as [| v pt']; [| discriminate]. cbn [index_all]. split.
    + intros H. injection H as H. subst idx. split; [reflexivity |].
      intros k es v i Hg. destruct k; discriminate.
    + intros [Hl _]. destruct idx; [reflexivity | discriminate].
  - destruct pt as [| v pt']; [discriminate |]. cbn [length] in Hlen.
    injection Hlen as Hlen. cbn [index_all]. split.
    + intros H.
      destruct (index_of A leb es v) as [i0 |] eqn:Ei; [| discriminate].
      destruct (index_all A leb g' pt') as [r |] eqn:Er; [| discriminate].
      injection H as H. subst idx.
      apply (IH pt' r Hlen) in Er. destruct Er as [Hl Hall].
      split; [cbn [length]; lia |].
      intros k es1 v1 i1 Hg Hp Hi. destruct k as [| k']; cbn [nth_error] in Hg, Hp, Hi.
      * injection Hg as Hg. injection Hp as Hp. injection Hi as Hi. subst es1 v1 i1.
        exact Ei.
      * apply (Hall k' es1 v1 i1 Hg Hp Hi).
    + intros [Hl Hall]. destruct idx as [| i0 idx']; [discriminate |].
      cbn [length] in Hl. injection Hl as Hl.
      rewrite (Hall 0 es v i0 eq_refl eq_refl eq_refl).
      assert (Hr : index_all A leb g' pt' = Some idx').
      { apply (IH pt' idx' Hlen). split; [exact Hl |].
        intros k es1 v1 i1 Hg Hp Hi. apply (Hall (S k) es1 v1 i1 Hg Hp Hi). }
      rewrite Hr. reflexivity.
Qed.

Lemma index_all_none :
  forall (g : grid A) pt, length pt = length g ->
    (index_all A leb g pt = None <->
     exists k es v, nth_error g k = Some es /\ nth_error pt k = Some v /\
                    index_of A leb es v = None).
Proof.
  intros g. induction g as [| es g' IH]; intros pt Hlen.
  - destruct pt as [| v pt']; [| discriminate]. cbn [index_all]. split.
    + discriminate.
    + intros (k & es & v & Hg & _). destruct k; discriminate.
  - destruct pt as [| v pt']; [discriminate |]. cbn [length] in Hlen.
    injection Hlen as Hlen. cbn [index_all]. split.
    + intros H. destruct (index_of A leb es v) as [i0 |] eqn:Ei.
      * destruct (index_all A leb g' pt') as [r |] eqn:Er; [discriminate |].
        apply (IH pt' Hlen) in Er. destruct Er as (k & es1 & v1 & Hg & Hp & Hn).
        exists (S k), es1, v1. auto.
      * exists 0, es, v. auto.
    + intros (k & es1 & v1 & Hg & Hp & Hn).
      destruct k as [| k']; cbn [nth_error] in Hg, Hp.
      * injection Hg as Hg. injection Hp as Hp. subst es1 v1. rewrite Hn. reflexivity.
      * destruct (index_of A leb es v) as [i0 |]; [| reflexivity].
        assert (Hr : index_all A leb g' pt' = None).
        { apply (IH pt' Hlen). exists k', es1, v1. auto. }
        rewrite Hr. reflexivity.
Qed.

Theorem grid_index_of_spec :
  forall (g : grid A) pt idx, length pt = length g ->
    (grid_index_of A leb g pt = Ok (Some idx) <->
     length idx = length g /\
     forall k es v i, nth_error g k = Some es -> nth_error pt k = Some v ->
                      nth_error idx k = Some i -> index_of A leb es v = Some i).
Proof.
  intros g pt idx Hlen. rewrite (grid_index_of_eq g pt Hlen).
  rewrite <- (index_all_some g pt idx Hlen). split.
  - intros H. injection H as H. exact H.
  - intros H. rewrite H. reflexivity.
Qed.

Theorem grid_index_of_none :
  forall (g : grid A) pt, length pt = length g ->
    (grid_index_of A leb g pt = Ok None <->
     exists k es v, nth_error g k = Some es /\ nth_error pt k = Some v /\
                    index_of A leb es v = None).
Proof.
  intros g pt Hlen. rewrite (grid_index_of_eq g pt Hlen).
  rewrite <- (index_all_none g pt Hlen). split.
  - intros H. injection H as H. exact H.
  - intros H. rewrite H. reflexivity.
Qed.

(* Grid::index_of is total apart from the arity assertion *)
Theorem grid_index_of_panic_iff :
  forall (g : grid A) pt,
    grid_index_of A leb g pt = Panic <-> length pt <> length g.
Proof.
  intros g pt. split.
  - intros H E. rewrite (grid_index_of_eq g pt E) in H. discriminate.
  - apply grid_index_of_arity.
Qed.

Theorem grid_index_arity :
  forall (g : grid A) idx, length idx <> length g -> grid_index A g idx = Panic.
Proof.
  intros g idx H. unfold grid_index.
  destruct (Nat.eqb_spec (length idx) (length g)) as [E | NE]; [contradiction | reflexivity].
Qed.

Lemma grid_index_eq :
  forall (g : grid A) idx, length idx = length g ->
    grid_index A g idx = ranges_all A g idx.
Proof.
  intros g idx H. unfold grid_index.
  destruct (Nat.eqb_spec (length idx) (length g)) as [E | NE]; [reflexivity | contradiction].
Qed.

Lemma ranges_all_ok_iff :
  forall (g : grid A) idx, length idx = length g ->
    ((exists r, ranges_all A g idx = Ok r) <->
     forall k es i, nth_error g k = Some es -> nth_error idx k = Some i ->
                    i < bins_len A es).
Proof.
  intros g. induction g as [| es g' IH]; intros idx Hlen.
  - destruct idx as [| i0 idx']; [| discriminate]. cbn [ranges_all]. split.
    + intros _ k es i Hg. destruct k; discriminate.
    + intros _. exists []. reflexivity.
  - destruct idx as [| i0 idx']; [discriminate |]. cbn [length] in Hlen.
    injection Hlen as Hlen. cbn [ranges_all]. split.
    + intros [r H].
      destruct (bins_index A es i0) as [ab | |] eqn:Eb; cbn [bind] in H; try discriminate.
      destruct (ranges_all A g' idx') as [t | |] eqn:Et; cbn [bind] in H; try discriminate.
      intros k es1 i1 Hg Hi. destruct k as [| k']; cbn [nth_error] in Hg, Hi.
      * injection Hg as Hg. injection Hi as Hi. subst es1 i1.
        apply bins_index_ok_iff. exists ab. exact Eb.
      * apply (proj1 (IH idx' Hlen)) with (k := k'); [exists t; exact Et | exact Hg | exact Hi].
    + intros Hall.
      destruct (proj2 (bins_index_ok_iff es i0)) as [ab Hab].
      { apply (Hall 0 es i0); reflexivity. }
      destruct (proj2 (IH idx' Hlen)) as [t Ht].
      { intros k es1 i1 Hg Hi. apply (Hall (S k) es1 i1 Hg Hi). }
      exists (ab :: t). rewrite Hab. cbn [bind]. rewrite Ht. reflexivity.
Qed.

Lemma ranges_all_ok_or_panic :
  forall (g : grid A) idx,
    (exists r, ranges_all A g idx = Ok r) \/ ranges_all A g idx = Panic.
Proof.
  intros g. induction g as [| es g' IH]; intros idx.
  - left. exists []. reflexivity.
  - destruct idx as [| i0 idx']; [left; exists []; reflexivity |].
    cbn [ranges_all].
    destruct (bins_index_ok_or_panic es i0) as [[ab Hab] | Hp].
    + rewrite Hab. cbn [bind].
      destruct (IH idx') as [[t Ht] | Hp].
      * left. exists (ab :: t). rewrite Ht. reflexivity.
      * right. rewrite Hp. reflexivity.
    + right. rewrite Hp. reflexivity.
Qed.

Theorem grid_index_ok_iff :
  forall (g : grid A) idx, length idx = length g ->
    ((exists r, grid_index A g idx = Ok r) <->
     forall k es i, nth_error g k = Some es -> nth_error idx k = Some i ->
                    i < bins_len A es).
Proof.
  intros g idx Hlen. rewrite (grid_index_eq g idx Hlen).
  apply ranges_all_ok_iff. exact Hlen.
Qed.

(* ... otherwise Panic: grid_index is a value or a panic, never OutOfFuel *)
Theorem grid_index_ok_or_panic :
  forall (g : grid A) idx,
    (exists r, grid_index A g idx = Ok r) \/ grid_index A g idx = Panic.
Proof.
  intros g idx. unfold grid_index.
  destruct (Nat.eqb_spec (length idx) (length g)) as [E | NE].
  - apply ranges_all_ok_or_panic.
  - right. reflexivity.
Qed.

Theorem grid_index_oob :
  forall (g : grid A) idx k es i,
    nth_error g k = Some es -> nth_error idx k = Some i -> bins_len A es <= i ->
    grid_index A g idx = Panic.
Proof.
  intros g idx k es i Hg Hi Hle.
  destruct (grid_index_ok_or_panic g idx) as [Hok | Hp]; [exfalso | exact Hp].
  destruct (Nat.eq_dec (length idx) (length g)) as [E | NE].
  - pose proof (proj1 (grid_index_ok_iff g idx E) Hok k es i Hg Hi). lia.
  - destruct Hok as [r Hr]. rewrite (grid_index_arity g idx NE) in Hr. discriminate.
Qed.

(* when Ok, the k-th range is bins_index of the k-th axis *)
Theorem grid_index_nth :
  forall (g : grid A) idx r,
    grid_index A g idx = Ok r ->
    length r = length g /\
    forall k es i, nth_error g k = Some es -> nth_error idx k = Some i ->
      exists ab, nth_error r k = Some ab /\ bins_index A es i = Ok ab.
Proof.
  intros g idx r H. unfold grid_index in H.
  destruct (Nat.eqb_spec (length idx) (length g)) as [E | NE]; [| discriminate].
  revert idx r E H. induction g as [| es g' IH]; intros idx r Hlen H.
  - destruct idx as [| i0 idx']; [| discriminate]. cbn [ranges_all] in H.
    injection H as H. subst r. split; [reflexivity |].
    intros k es i Hg. destruct k; discriminate.
  - destruct idx as [| i0 idx']; [discriminate |]. cbn [length] in Hlen.
    injection Hlen as Hlen. cbn [ranges_all] in H.
    destruct (bins_index A es i0) as [ab | |] eqn:Eb; cbn [bind] in H; try discriminate.
    destruct (ranges_all A g' idx') as [t | |] eqn:Et; cbn [bind] in H; try discriminate.
    injection H as H. subst r.
    destruct (IH idx' t Hlen Et) as [Hl Hall].
    split; [cbn [length]; lia |].
    intros k es1 i1 Hg Hi. destruct k as [| k']; cbn [nth_error] in Hg, Hi |- *.
    + injection Hg as Hg. injection Hi as Hi. subst es1 i1.
      exists ab. split; [reflexivity | exact Eb].
    + apply (Hall k' es1 i1 Hg Hi).
Qed.

(* The result of Grid::index_of lies inside the grid's shape.  The sortedness
   hypothesis is not needed (index_of_lt_len holds on any edge list). *)
Theorem grid_index_of_in_shape_gen :
  forall (g : grid A) pt idx,
    grid_index_of A leb g pt = Ok (Some idx) ->
    Forall2 (fun i s => i < s) idx (grid_shape A g).
Proof.
  intros g pt idx H. unfold grid_index_of in H.
  destruct (Nat.eqb_spec (length pt) (length g)) as [E | NE]; [| discriminate].
  injection H as H. revert pt idx E H.
  induction g as [| es g' IH]; intros pt idx Hlen H.
  - destruct pt as [| v pt']; [| discriminate]. cbn [index_all] in H.
    injection H as H. subst idx. constructor.
  - destruct pt as [| v pt']; [discriminate |]. cbn [length] in Hlen.
    injection Hlen as Hlen. cbn [index_all] in H.
    destruct (index_of A leb es v) as [i0 |] eqn:Ei; [| discriminate].
    destruct (index_all A leb g' pt') as [r |] eqn:Er; [| discriminate].
    injection H as H. subst idx. cbn [grid_shape map]. constructor.
    + apply (index_of_lt_len es v i0 Ei).
    + apply (IH pt' r Hlen Er).
Qed.

Theorem grid_index_of_in_shape :
  forall (g : grid A) pt idx,
    Forall strict g ->
    grid_index_of A leb g pt = Ok (Some idx) ->
    Forall2 (fun i s => i < s) idx (grid_shape A g).
Proof.
  intros g pt idx _ H. apply (grid_index_of_in_shape_gen g pt idx H).
Qed.

(* Consequently Grid::index succeeds on whatever Grid::index_of returns. *)
Corollary grid_index_of_then_index :
  forall (g : grid A) pt idx,
    grid_index_of A leb g pt = Ok (Some idx) ->
    exists r, grid_index A g idx = Ok r.
Proof.
  intros g pt idx H.
  destruct (Nat.eq_dec (length pt) (length g)) as [E | NE].
  2:{ rewrite (grid_index_of_arity g pt NE) in H. discriminate. }
  apply (grid_index_of_spec g pt idx E) in H. destruct H as [Hlen Hall].
  apply (grid_index_ok_iff g idx Hlen).
  intros k es i Hg Hi.
  destruct (nth_error pt k) as [v |] eqn:Hp.
  - apply (index_of_lt_len es v i). apply (Hall k es v i Hg Hp Hi).
  - apply nth_error_None in Hp.
    assert (k < length g) by (apply nth_error_Some; congruence). lia.
Qed.

End EP.

(* ------------------------------------------------------------------ *)
(* Concrete check on Z                                                 *)
(* ------------------------------------------------------------------ *)
From Coq Require Import ZArith.

Example edges_from_Z :
  edges_from Z Z.leb [5;1;3;3;1]%Z = [1;3;5]%Z.
Proof. vm_compute. reflexivity. Qed.

Example indices_of_Z :
  map (indices_of Z Z.leb [1;3;5]%Z) [0;1;2;3;4;5;6]%Z =
  [None; Some (0,1); Some (0,1); Some (1,2); Some (1,2); None; None].
Proof. vm_compute. reflexivity. Qed.

Print Assumptions edges_from_strict.
Print Assumptions edges_from_In.
Print Assumptions edges_from_complete.
Print Assumptions bsearch_spec.
Print Assumptions indices_of_some.
Print Assumptions indices_of_none.
Print Assumptions bin_unique.
Print Assumptions bins_len_spec.
Print Assumptions index_of_range_of.
Print Assumptions index_of_none_range_of.
Print Assumptions bins_index_ok_iff.
Print Assumptions bins_index_oob.
Print Assumptions grid_shape_length.
Print Assumptions grid_index_of_arity.
Print Assumptions grid_index_of_spec.
Print Assumptions grid_index_of_none.
Print Assumptions grid_index_arity.
Print Assumptions grid_index_ok_iff.
Print Assumptions grid_index_ok_or_panic.
Print Assumptions grid_index_oob.
Print Assumptions grid_index_nth.
Print Assumptions grid_index_of_in_shape.
Print Assumptions grid_index_of_in_shape_gen.
Print Assumptions grid_index_of_then_index.
Print Assumptions index_of_some.
Print Assumptions index_of_lt_len.
Print Assumptions edges_from_Z.
Print Assumptions indices_of_Z.
