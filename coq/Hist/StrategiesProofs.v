(* Proofs about the EquiSpaced bin builder model of Hist/Strategies.v.
   Part A: coverage over an arbitrary totally pre-ordered carrier.
   Part B: exact description over the integers (Z_ops, Z.leb, every index representable). *)
From Coq Require Import List Arith ZArith Lia Bool Permutation Sorting.Sorted.
Import ListNotations.
From NS Require Import Base.Res Base.SortDedup Base.SortDedupProofs Num.Ops Num.ZInst
  Hist.Edges Hist.EdgesProofs Hist.Histogram Hist.HistogramProofs Hist.Strategies.

(* ================================================================== *)
(* Part A: generic coverage                                            *)
(* ================================================================== *)

Section GenericCoverage.
Context {T : Type} (O : ops T) (leb : T -> T -> bool) (repr : nat -> bool).
Hypothesis leb_total : forall x y, leb x y = true \/ leb y x = true.
Hypothesis leb_trans :
  forall x y z, leb x y = true -> leb y z = true -> leb x z = true.

Local Notation le := (fun x y => leb x y = true).
Local Notation slt := (fun x y => sltb T leb x y = true).

(* ---- A1: the loop exit ---- *)
Theorem n_bins_loop_spec :
  forall fuel mn w mx n0 n,
    n_bins_loop O leb repr fuel mn w mx n0 = Ok n ->
    n0 <= n /\
    (forall i, n0 <= i < n ->
       exists e, edge O repr mn w i = Ok e /\ leb e mx = true) /\
    (exists e, edge O repr mn w n = Ok e /\ leb e mx = false).
Proof.
  induction fuel as [| f IH]; intros mn w mx n0 n H; cbn [n_bins_loop] in H.
  - discriminate H.
  - destruct (edge O repr mn w n0) as [e | |] eqn:He; cbn [bind] in H;
      try discriminate H.
    destruct (leb e mx) eqn:Hle.
    + apply IH in H. destruct H as (H1 & H2 & H3).
      split; [lia |]. split; [| exact H3].
      intros i Hi. destruct (Nat.eq_dec i n0) as [-> | Hne].
      * exists e. split; assumption.
      * apply H2. lia.
    + injection H as <-. split; [lia |]. split; [intros i Hi; lia |].
      exists e. split; assumption.
Qed.

Corollary n_bins_spec :
  forall fuel mn w mx n,
    n_bins O leb repr fuel mn w mx = Ok n ->
    (forall i, i < n ->
       exists e, edge O repr mn w i = Ok e /\ leb e mx = true) /\
    (exists e, edge O repr mn w n = Ok e /\ leb e mx = false).
Proof.
  intros fuel mn w mx n H. unfold n_bins in H.
  apply n_bins_loop_spec in H. destruct H as (_ & H2 & H3).
  split; [| exact H3]. intros i Hi. apply H2. lia.
Qed.

(* ---- A2: the placed edges ---- *)
Theorem edges_upto_spec :
  forall k mn w i es,
    edges_upto O repr mn w k i = Ok es ->
    length es = k /\
    forall j, j < k ->
      exists e, edge O repr mn w (i + j) = Ok e /\ nth_error es j = Some e.
Proof.
  induction k as [| k IH]; intros mn w i es H; cbn [edges_upto] in H.
  - injection H as <-. split; [reflexivity | intros j Hj; lia].
  - destruct (edge O repr mn w i) as [e | |] eqn:He; cbn [bind] in H;
      try discriminate H.
    destruct (edges_upto O repr mn w k (S i)) as [r | |] eqn:Hr; cbn [bind] in H;
      try discriminate H.
    injection H as <-. apply IH in Hr. destruct Hr as [Hl Hn].
    split; [cbn [length]; lia |].
    intros [| j] Hj.
    + exists e. rewrite Nat.add_0_r. split; [exact He | reflexivity].
    + destruct (Hn j) as (e' & He' & Hnth); [lia |].
      exists e'. replace (i + S j) with (S i + j) by lia.
      split; [exact He' | exact Hnth].
Qed.

(* ---- helpers on sort_dedup: extreme elements ---- *)

Lemma In_nth_error_lt :
  forall (l : list T) x, In x l -> exists j, j < length l /\ nth_error l j = Some x.
Proof.
  intros l x Hx. apply In_nth_error in Hx. destruct Hx as [j Hj].
  exists j. split; [| exact Hj]. apply nth_error_Some. congruence.
Qed.

Lemma eqv_le1 : forall x y, eqv T leb x y = true -> leb x y = true.
Proof. intros x y H. unfold eqv in H. apply andb_true_iff in H. tauto. Qed.

Lemma eqv_le2 : forall x y, eqv T leb x y = true -> leb y x = true.
Proof. intros x y H. unfold eqv in H. apply andb_true_iff in H. tauto. Qed.

Lemma sort_dedup_first_le :
  forall l a x,
    nth_error (sort_dedup T leb l) 0 = Some a -> In x l -> leb a x = true.
Proof.
  intros l a x Ha Hx.
  destruct (sort_dedup_complete T leb leb_total leb_trans l x Hx) as (y & Hy & Exy).
  destruct (In_nth_error_lt _ _ Hy) as (j & Hj & Hnj).
  apply leb_trans with y; [| apply eqv_le2; exact Exy].
  eapply (strict_nth_le T leb leb_total);
    [apply (sort_dedup_strict T leb leb_total leb_trans l) | | exact Ha | exact Hnj].
  lia.
Qed.

Lemma sort_dedup_last_ge :
  forall l b x,
    nth_error (sort_dedup T leb l) (length (sort_dedup T leb l) - 1) = Some b ->
    In x l -> leb x b = true.
Proof.
  intros l b x Hb Hx.
  destruct (sort_dedup_complete T leb leb_total leb_trans l x Hx) as (y & Hy & Exy).
  destruct (In_nth_error_lt _ _ Hy) as (j & Hj & Hnj).
  apply leb_trans with y; [apply eqv_le1; exact Exy |].
  eapply (strict_nth_le T leb leb_total);
    [apply (sort_dedup_strict T leb leb_total leb_trans l) | | exact Hnj | exact Hb].
  lia.
Qed.

Lemma sort_dedup_two :
  forall l x y,
    In x l -> In y l -> sltb T leb x y = true -> 2 <= length (sort_dedup T leb l).
Proof.
  intros l x y Hx Hy Hxy.
  destruct (sort_dedup_complete T leb leb_total leb_trans l x Hx) as (x' & Hx' & Ex).
  destruct (sort_dedup_complete T leb leb_total leb_trans l y Hy) as (y' & Hy' & Ey).
  destruct (In_nth_error_lt _ _ Hx') as (i & Hi & Hni).
  destruct (In_nth_error_lt _ _ Hy') as (j & Hj & Hnj).
  destruct (le_lt_dec 2 (length (sort_dedup T leb l))) as [Hlen | Hlen]; [exact Hlen |].
  exfalso.
  assert (i = 0) by lia. assert (j = 0) by lia. subst i j.
  rewrite Hni in Hnj. injection Hnj as <-.
  unfold sltb in Hxy. apply negb_true_iff in Hxy.
  assert (Hyx : leb y x = true).
  { apply leb_trans with x'; [apply eqv_le1; exact Ey | apply eqv_le2; exact Ex]. }
  congruence.
Qed.

(* ---- A3: every value between the first placed edge and the maximum is in a bin ---- *)

Lemma build_inv :
  forall fuel mn w mx es,
    build O leb repr fuel mn w mx = Ok es ->
    exists n placed,
      n_bins O leb repr fuel mn w mx = Ok n /\
      edges_upto O repr mn w (S n) 0 = Ok placed /\
      es = edges_from T leb placed.
Proof.
  intros fuel mn w mx es H. unfold build in H.
  destruct (n_bins O leb repr fuel mn w mx) as [n | |] eqn:Hn; cbn [bind] in H;
    try discriminate H.
  destruct (edges_upto O repr mn w (S n) 0) as [placed | |] eqn:Hp; cbn [bind] in H;
    try discriminate H.
  injection H as <-. exists n, placed.
  split; [reflexivity |]. split; [exact Hp | reflexivity].
Qed.

Theorem build_strict :
  forall fuel mn w mx es,
    build O leb repr fuel mn w mx = Ok es -> strict T leb es.
Proof.
  intros fuel mn w mx es H.
  destruct (build_inv _ _ _ _ _ H) as (n & placed & _ & _ & ->).
  apply (edges_from_strict T leb leb_total leb_trans).
Qed.

Theorem build_cover :
  forall fuel mn w mx es,
    build O leb repr fuel mn w mx = Ok es ->
    forall e0, edge O repr mn w 0 = Ok e0 ->
    forall x, leb e0 x = true -> leb x mx = true ->
    exists i, index_of T leb es x = Some i.
Proof.
  intros fuel mn w mx es H e0 He0 x Hlo Hhi.
  pose proof (build_strict _ _ _ _ _ H) as Hstrict.
  destruct (build_inv _ _ _ _ _ H) as (n & placed & Hn & Hp & Hes).
  apply n_bins_spec in Hn. destruct Hn as (_ & en & Hen & Hgt).
  apply edges_upto_spec in Hp. destruct Hp as (Hlen & Hnth).
  assert (Hin0 : In e0 placed).
  { destruct (Hnth 0) as (e & He & Hne); [lia |].
    cbn [Nat.add] in He. rewrite He0 in He. injection He as <-.
    eapply nth_error_In. exact Hne. }
  assert (Hinn : In en placed).
  { destruct (Hnth n) as (e & He & Hne); [lia |].
    cbn [Nat.add] in He. rewrite Hen in He. injection He as <-.
    eapply nth_error_In. exact Hne. }
  assert (Hx_en : sltb T leb x en = true).
  { unfold sltb. apply negb_true_iff.
    destruct (leb en x) eqn:E; [| reflexivity].
    assert (leb en mx = true) by (eapply leb_trans; eassumption). congruence. }
  assert (He0_en : sltb T leb e0 en = true).
  { eapply (le_slt_trans T leb leb_trans); eassumption. }
  destruct (index_of T leb es x) as [i |] eqn:Hidx; [exists i; reflexivity |].
  exfalso. unfold index_of in Hidx.
  destruct (indices_of T leb es x) as [[l r] |] eqn:Hind; [discriminate Hidx |].
  apply (indices_of_none T leb leb_total leb_trans es x Hstrict) in Hind.
  subst es. unfold edges_from in *.
  destruct Hind as [Hshort | [(a & Ha & Hxa) | (b & Hb & Hbx)]].
  - pose proof (sort_dedup_two placed e0 en Hin0 Hinn He0_en). lia.
  - pose proof (sort_dedup_first_le placed a e0 Ha Hin0) as Hae0.
    apply (slt_not_le T leb x a Hxa).
    eapply leb_trans; eassumption.
  - pose proof (sort_dedup_last_ge placed b en Hb Hinn) as Henb.
    apply (slt_not_le T leb x en Hx_en).
    eapply leb_trans; eassumption.
Qed.

(* ... and the bin is the only one containing it *)
Theorem build_cover_exactly_one :
  forall fuel mn w mx es,
    build O leb repr fuel mn w mx = Ok es ->
    forall e0, edge O repr mn w 0 = Ok e0 ->
    forall x, leb e0 x = true -> leb x mx = true ->
    exists i, index_of T leb es x = Some i /\
      forall i',
        (exists a b, nth_error es i' = Some a /\ nth_error es (i' + 1) = Some b /\
                     leb a x = true /\ sltb T leb x b = true) <-> i' = i.
Proof.
  intros fuel mn w mx es H e0 He0 x Hlo Hhi.
  pose proof (build_strict _ _ _ _ _ H) as Hstrict.
  destruct (build_cover _ _ _ _ _ H e0 He0 x Hlo Hhi) as [i Hi].
  exists i. split; [exact Hi |]. intros i'.
  rewrite <- (index_of_some T leb leb_total leb_trans es x i' Hstrict).
  rewrite Hi. split; [intros E; injection E as <-; reflexivity | intros ->; reflexivity].
Qed.

(* ---- A4: advertised number of bins = number built, when the placed edges are distinct ---- *)

Lemma isort_sorted_id :
  forall l, StronglySorted le l -> isort T leb l = l.
Proof.
  intros l Hs. induction Hs as [| h t Hs IH Hfa]; cbn [isort].
  - reflexivity.
  - rewrite IH. destruct t as [| h' t']; cbn [insert]; [reflexivity |].
    inversion Hfa as [| ? ? Hhh' _]; subst. cbv beta in Hhh'. rewrite Hhh'. reflexivity.
Qed.

Lemma edges_from_strict_id :
  forall l, strict T leb l -> edges_from T leb l = l.
Proof.
  intros l Hs. unfold edges_from, sort_dedup.
  rewrite isort_sorted_id.
  - apply dedup_id. exact Hs.
  - eapply StronglySorted_impl_gen; [| exact Hs].
    intros x y Hxy. apply (slt_le T leb leb_total). exact Hxy.
Qed.

Theorem build_bins_len :
  forall fuel mn w mx es n placed,
    build O leb repr fuel mn w mx = Ok es ->
    n_bins O leb repr fuel mn w mx = Ok n ->
    edges_upto O repr mn w (S n) 0 = Ok placed ->
    strict T leb placed ->
    es = placed /\ bins_len T es = n.
Proof.
  intros fuel mn w mx es n placed H Hn Hp Hs.
  unfold build in H. rewrite Hn in H. cbn [bind] in H. rewrite Hp in H. cbn [bind] in H.
  injection H as <-. rewrite (edges_from_strict_id placed Hs).
  split; [reflexivity |].
  rewrite bins_len_spec. apply edges_upto_spec in Hp. destruct Hp as [Hl _]. lia.
Qed.

(* ---- A5: outcomes of strategy_bins ---- *)

Theorem strategy_empty :
  forall fuel mn mx w, strategy_bins O leb repr fuel [] mn mx w = Ok (inl SE_Empty).
Proof. reflexivity. Qed.

Theorem strategy_invalid :
  forall fuel data mn mx w,
    data <> [] -> equispaced_ok O leb w mn mx = false ->
    strategy_bins O leb repr fuel data mn mx w = Ok (inl SE_Strategy).
Proof.
  intros fuel data mn mx w Hne Hok. destruct data as [| d t]; [congruence |].
  cbn [strategy_bins]. rewrite Hok. reflexivity.
Qed.

Theorem strategy_valid :
  forall fuel data mn mx w,
    data <> [] -> equispaced_ok O leb w mn mx = true ->
    strategy_bins O leb repr fuel data mn mx w =
      (es <- build O leb repr fuel mn w mx ;; Ok (inr es)).
Proof.
  intros fuel data mn mx w Hne Hok. destruct data as [| d t]; [congruence |].
  cbn [strategy_bins]. rewrite Hok. reflexivity.
Qed.

Theorem strategy_constant :
  forall fuel data mn mx w,
    data <> [] -> leb mx mn = true ->
    strategy_bins O leb repr fuel data mn mx w = Ok (inl SE_Strategy).
Proof.
  intros fuel data mn mx w Hne Hc. apply strategy_invalid; [exact Hne |].
  unfold equispaced_ok. rewrite Hc. apply andb_false_r.
Qed.

Theorem strategy_nonpos_width :
  forall fuel data mn mx w,
    data <> [] -> leb w (o_zero O) = true ->
    strategy_bins O leb repr fuel data mn mx w = Ok (inl SE_Strategy).
Proof.
  intros fuel data mn mx w Hne Hc. apply strategy_invalid; [exact Hne |].
  unfold equispaced_ok. rewrite Hc. reflexivity.
Qed.

End GenericCoverage.

(* ================================================================== *)
(* Part B: integers                                                    *)
(* ================================================================== *)

Local Open Scope Z_scope.

Definition allrepr : nat -> bool := fun _ => true.

(* the advertised number of bins and the grid of edges *)
Definition nbZ (mn w mx : Z) : nat := Z.to_nat ((mx - mn) / w + 1).
Definition zgrid (mn w : Z) (n : nat) : list Z :=
  map (fun i => mn + Z.of_nat i * w) (seq 0 (S n)).

Theorem equispaced_ok_Z :
  forall w mn mx, equispaced_ok Z_ops Z.leb w mn mx = true <-> 0 < w /\ mn < mx.
Proof.
  intros w mn mx. unfold equispaced_ok. cbn [o_zero Z_ops].
  rewrite andb_true_iff, !negb_true_iff, !Z.leb_gt. tauto.
Qed.

(* ---- B1 ---- *)
Theorem edge_Z :
  forall mn w i, edge Z_ops (fun _ => true) mn w i = Ok (mn + Z.of_nat i * w).
Proof. intros mn w i. reflexivity. Qed.

Lemma edge_le_iff :
  forall mn w mx i, 0 < w ->
    (mn + Z.of_nat i * w <=? mx) = (Z.of_nat i <=? (mx - mn) / w).
Proof.
  intros mn w mx i Hw.
  pose proof (Z.div_mod (mx - mn) w) as Hdm.
  pose proof (Z.mod_pos_bound (mx - mn) w Hw) as Hr.
  assert (Hdm' : mx - mn = w * ((mx - mn) / w) + (mx - mn) mod w) by (apply Hdm; lia).
  clear Hdm.
  set (q := (mx - mn) / w) in *. set (r := (mx - mn) mod w) in *.
  destruct (Z.leb_spec (Z.of_nat i) q) as [Hle | Hgt].
  - apply Z.leb_le. nia.
  - apply Z.leb_gt. nia.
Qed.

(* ---- B2 ---- *)
Lemma n_bins_loop_Z :
  forall mn w mx, 0 < w -> mn <= mx ->
  forall (d n0 fuel : nat),
    (nbZ mn w mx - n0 = d)%nat -> (n0 <= nbZ mn w mx)%nat -> (d + 1 <= fuel)%nat ->
    n_bins_loop Z_ops Z.leb (fun _ => true) fuel mn w mx n0 = Ok (nbZ mn w mx).
Proof.
  intros mn w mx Hw Hmx.
  assert (Hq : 0 <= (mx - mn) / w) by (apply Z.div_pos; lia).
  induction d as [| d IH]; intros n0 fuel Hd Hn0 Hf.
  - destruct fuel as [| f]; [lia |]. cbn [n_bins_loop]. rewrite edge_Z. cbn [bind].
    rewrite edge_le_iff by exact Hw.
    assert (n0 = nbZ mn w mx) by lia. subst n0.
    destruct (Z.leb_spec (Z.of_nat (nbZ mn w mx)) ((mx - mn) / w)) as [Hle | Hgt];
      [| reflexivity].
    unfold nbZ in Hle. lia.
  - destruct fuel as [| f]; [lia |]. cbn [n_bins_loop]. rewrite edge_Z. cbn [bind].
    rewrite edge_le_iff by exact Hw.
    destruct (Z.leb_spec (Z.of_nat n0) ((mx - mn) / w)) as [Hle | Hgt].
    + apply IH; lia.
    + exfalso. unfold nbZ in Hd. lia.
Qed.

Theorem n_bins_Z :
  forall fuel mn w mx, 0 < w -> mn < mx ->
    (Z.to_nat ((mx - mn) / w) + 2 <= fuel)%nat ->
    n_bins Z_ops Z.leb (fun _ => true) fuel mn w mx = Ok (Z.to_nat ((mx - mn) / w + 1)).
Proof.
  intros fuel mn w mx Hw Hmx Hf. unfold n_bins.
  assert (Hq : 0 <= (mx - mn) / w) by (apply Z.div_pos; lia).
  apply (n_bins_loop_Z mn w mx Hw ltac:(lia) (nbZ mn w mx - 0)%nat 0%nat fuel).
  - reflexivity.
  - lia.
  - unfold nbZ. lia.
Qed.

(* ---- B3 ---- *)
Lemma edges_upto_Z :
  forall mn w k i,
    edges_upto Z_ops (fun _ => true) mn w k i =
    Ok (map (fun i => mn + Z.of_nat i * w) (seq i k)).
Proof.
  intros mn w. induction k as [| k IH]; intros i; cbn [edges_upto].
  - reflexivity.
  - rewrite edge_Z. cbn [bind]. rewrite IH. reflexivity.
Qed.

Lemma sltb_Z : forall x y, sltb Z Z.leb x y = true <-> x < y.
Proof. intros x y. unfold sltb. rewrite negb_true_iff, Z.leb_gt. tauto. Qed.

Lemma zgrid_gen_strict :
  forall mn w, 0 < w ->
  forall k i, strict Z Z.leb (map (fun i => mn + Z.of_nat i * w) (seq i k)).
Proof.
  intros mn w Hw. unfold strict.
  induction k as [| k IH]; intros i; cbn [seq map].
  - constructor.
  - constructor; [apply IH |].
    apply Forall_forall. intros y Hy. apply in_map_iff in Hy.
    destruct Hy as (j & <- & Hj). apply in_seq in Hj.
    apply sltb_Z. nia.
Qed.

Lemma zgrid_strict : forall mn w n, 0 < w -> strict Z Z.leb (zgrid mn w n).
Proof. intros mn w n Hw. apply zgrid_gen_strict. exact Hw. Qed.

Theorem build_Z :
  forall fuel mn w mx, 0 < w -> mn < mx ->
    (Z.to_nat ((mx - mn) / w) + 2 <= fuel)%nat ->
    build Z_ops Z.leb (fun _ => true) fuel mn w mx =
    Ok (map (fun i => mn + Z.of_nat i * w) (seq 0 (S (Z.to_nat ((mx - mn) / w + 1))))).
Proof.
  intros fuel mn w mx Hw Hmx Hf. unfold build.
  rewrite (n_bins_Z fuel mn w mx Hw Hmx Hf). cbn [bind].
  rewrite edges_upto_Z. cbn [bind]. f_equal.
  apply (edges_from_strict_id Z.leb Z_leb_total).
  apply zgrid_gen_strict. exact Hw.
Qed.

Corollary build_Z' :
  forall fuel mn w mx, 0 < w -> mn < mx ->
    (Z.to_nat ((mx - mn) / w) + 2 <= fuel)%nat ->
    build Z_ops Z.leb (fun _ => true) fuel mn w mx = Ok (zgrid mn w (nbZ mn w mx)).
Proof. exact build_Z. Qed.

(* ---- B4 ---- *)
Lemma zgrid_length : forall mn w n, length (zgrid mn w n) = S n.
Proof. intros mn w n. unfold zgrid. rewrite map_length, seq_length. reflexivity. Qed.

Lemma zgrid_nth :
  forall mn w n i, (i <= n)%nat ->
    nth_error (zgrid mn w n) i = Some (mn + Z.of_nat i * w).
Proof.
  intros mn w n i Hi. unfold zgrid.
  apply (map_nth_error (fun i => mn + Z.of_nat i * w)).
  rewrite (nth_error_nth' _ 0%nat) by (rewrite seq_length; lia).
  rewrite seq_nth by lia. reflexivity.
Qed.

Lemma nbZ_bounds :
  forall mn w mx, 0 < w -> mn < mx ->
    mx < mn + Z.of_nat (nbZ mn w mx) * w <= mx + w.
Proof.
  intros mn w mx Hw Hmx.
  assert (Hq : 0 <= (mx - mn) / w) by (apply Z.div_pos; lia).
  pose proof (Z.div_mod (mx - mn) w) as Hdm.
  pose proof (Z.mod_pos_bound (mx - mn) w Hw) as Hr.
  assert (Hdm' : mx - mn = w * ((mx - mn) / w) + (mx - mn) mod w) by (apply Hdm; lia).
  unfold nbZ. rewrite Z2Nat.id by lia.
  set (q := (mx - mn) / w) in *. set (r := (mx - mn) mod w) in *. nia.
Qed.

Section ZConsequences.
Variables (fuel : nat) (mn w mx : Z) (es : list Z).
Hypothesis Hw : 0 < w.
Hypothesis Hmx : mn < mx.
Hypothesis Hfuel : (Z.to_nat ((mx - mn) / w) + 2 <= fuel)%nat.
Hypothesis Hbuild : build Z_ops Z.leb (fun _ => true) fuel mn w mx = Ok es.

Lemma es_eq : es = zgrid mn w (nbZ mn w mx).
Proof.
  pose proof (build_Z' fuel mn w mx Hw Hmx Hfuel) as H.
  rewrite Hbuild in H. injection H as ->. reflexivity.
Qed.

(* bins start exactly at the data minimum *)
Theorem first_edge_Z : nth_error es 0 = Some mn.
Proof.
  rewrite es_eq, zgrid_nth by lia. f_equal. cbn [Z.of_nat]. lia.
Qed.

(* the i-th edge *)
Theorem nth_edge_Z :
  forall i, (i <= nbZ mn w mx)%nat -> nth_error es i = Some (mn + Z.of_nat i * w).
Proof. intros i Hi. rewrite es_eq. apply zgrid_nth. exact Hi. Qed.

Theorem length_es_Z : length es = S (nbZ mn w mx).
Proof. rewrite es_eq. apply zgrid_length. Qed.

(* equally wide bins *)
Theorem equal_width_Z :
  forall i a b, nth_error es i = Some a -> nth_error es (S i) = Some b -> b - a = w.
Proof.
  intros i a b Ha Hb.
  assert (Hi : (S i < length es)%nat) by (apply nth_error_Some; congruence).
  rewrite length_es_Z in Hi.
  rewrite nth_edge_Z in Ha by lia. rewrite nth_edge_Z in Hb by lia.
  assert (Ea : a = mn + Z.of_nat i * w) by congruence.
  assert (Eb : b = mn + Z.of_nat (S i) * w) by congruence.
  rewrite Ea, Eb, Nat2Z.inj_succ. ring.
Qed.

(* the last edge is strictly above the maximum, by at most one bin width *)
Theorem last_edge_Z :
  exists l, nth_error es (length es - 1) = Some l /\
            l = mn + Z.of_nat (nbZ mn w mx) * w /\ mx < l <= mx + w.
Proof.
  exists (mn + Z.of_nat (nbZ mn w mx) * w).
  rewrite length_es_Z. replace (S (nbZ mn w mx) - 1)%nat with (nbZ mn w mx) by lia.
  split; [apply nth_edge_Z; lia |]. split; [reflexivity |].
  apply nbZ_bounds; assumption.
Qed.

(* advertised number of bins = number of bins built *)
Theorem bins_len_Z : bins_len Z es = nbZ mn w mx.
Proof. rewrite bins_len_spec, length_es_Z. lia. Qed.

Theorem n_bins_eq_bins_len_Z :
  n_bins Z_ops Z.leb (fun _ => true) fuel mn w mx = Ok (bins_len Z es).
Proof. rewrite bins_len_Z. apply n_bins_Z; assumption. Qed.

Theorem es_strict_Z : strict Z Z.leb es.
Proof. rewrite es_eq. apply zgrid_strict. exact Hw. Qed.

(* ---- B5 ---- *)
Theorem cover_Z :
  forall x, mn <= x <= mx ->
    index_of Z Z.leb es x = Some (Z.to_nat ((x - mn) / w)).
Proof.
  intros x Hx.
  apply (index_of_some Z Z.leb Z_leb_total Z_leb_trans es x _ es_strict_Z).
  assert (Hq : 0 <= (x - mn) / w) by (apply Z.div_pos; lia).
  assert (Hqq : (x - mn) / w <= (mx - mn) / w) by (apply Z.div_le_mono; lia).
  pose proof (Z.div_mod (x - mn) w) as Hdm.
  pose proof (Z.mod_pos_bound (x - mn) w Hw) as Hr.
  assert (Hdm' : x - mn = w * ((x - mn) / w) + (x - mn) mod w) by (apply Hdm; lia).
  clear Hdm.
  set (i := Z.to_nat ((x - mn) / w)).
  assert (Hi : (i + 1 <= nbZ mn w mx)%nat) by (unfold i, nbZ; lia).
  exists (mn + Z.of_nat i * w), (mn + Z.of_nat (i + 1) * w).
  split; [apply nth_edge_Z; lia |]. split; [apply nth_edge_Z; lia |].
  assert (Hiq : Z.of_nat i = (x - mn) / w) by (unfold i; lia).
  split.
  - apply Z.leb_le. rewrite Hiq. nia.
  - apply sltb_Z. rewrite Nat2Z.inj_add, Hiq. nia.
Qed.

(* ---- B6 ---- *)
Lemma list_sum_repeat0 : forall n, list_sum (repeat 0%nat n) = 0%nat.
Proof. induction n as [| n IH]; cbn [repeat list_sum]; [reflexivity | exact IH]. Qed.

Lemma filter_all :
  forall (A : Type) (p : A -> bool) l, Forall (fun r => p r = true) l -> filter p l = l.
Proof.
  intros A p l H. induction H as [| r t Hr Ht IH]; cbn [filter].
  - reflexivity.
  - rewrite Hr, IH. reflexivity.
Qed.

Theorem all_counted_Z :
  forall data, Forall (fun x => mn <= x <= mx) data ->
    exists c, histogram Z Z.leb [es] (map (fun x => [x]) data) = Ok c /\
              list_sum c = length data.
Proof.
  intros data Hdata.
  destruct (histogram_spec Z Z.leb [es] (map (fun x => [x]) data)) as (c & Hc & _).
  { apply Forall_forall. intros r Hr. apply in_map_iff in Hr.
    destruct Hr as (x & <- & _). reflexivity. }
  exists c. split; [exact Hc |].
  unfold histogram in Hc.
  rewrite (total_count_gen Z Z.leb _ _ _ _ Hc).
  unfold hist_init. rewrite list_sum_repeat0. cbn [Nat.add].
  rewrite filter_all; [apply map_length |].
  apply Forall_forall. intros r Hr. apply in_map_iff in Hr.
  destruct Hr as (x & <- & Hx).
  rewrite Forall_forall in Hdata. specialize (Hdata x Hx).
  unfold grid_index_of. cbn [length Nat.eqb index_all].
  rewrite (cover_Z x Hdata). reflexivity.
Qed.

End ZConsequences.

(* ---- B7: accumulating the width is exact over Z (any fuel, any width) ---- *)
Lemma n_bins_v0_loop_Z :
  forall fuel mn w mx n,
    n_bins_v0_loop Z_ops Z.leb fuel w mx (mn + Z.of_nat n * w) n =
    n_bins_loop Z_ops Z.leb (fun _ => true) fuel mn w mx n.
Proof.
  induction fuel as [| f IH]; intros mn w mx n; cbn [n_bins_v0_loop n_bins_loop].
  - reflexivity.
  - rewrite edge_Z. cbn [bind].
    destruct (mn + Z.of_nat n * w <=? mx); [| reflexivity].
    rewrite <- IH. f_equal. cbn [o_add Z_ops]. lia.
Qed.

Theorem n_bins_v0_Z :
  forall fuel mn w mx,
    n_bins_v0 Z_ops Z.leb fuel mn w mx = n_bins Z_ops Z.leb (fun _ => true) fuel mn w mx.
Proof.
  intros fuel mn w mx. unfold n_bins_v0, n_bins.
  rewrite <- n_bins_v0_loop_Z. f_equal. cbn [Z.of_nat]. lia.
Qed.

Corollary build_v0_Z :
  forall fuel mn w mx,
    build_v0 Z_ops Z.leb (fun _ => true) fuel mn w mx =
    build Z_ops Z.leb (fun _ => true) fuel mn w mx.
Proof. intros fuel mn w mx. unfold build_v0, build. rewrite n_bins_v0_Z. reflexivity. Qed.

(* ---- B8: K4 witness: an i8-like from_usize fails at 128 ---- *)
Theorem K4_witness :
  build Z_ops Z.leb (fun i => Nat.leb i 127) 200 (-60) 1 67 = Panic.
Proof. vm_compute. reflexivity. Qed.

(* with every index representable the same input builds 128 bins *)
Example K4_contrast :
  (es <- build Z_ops Z.leb (fun _ => true) 200 (-60) 1 67 ;; Ok (bins_len Z es)) = Ok 128%nat.
Proof. vm_compute. reflexivity. Qed.

Print Assumptions n_bins_loop_spec.
Print Assumptions edges_upto_spec.
Print Assumptions build_cover.
Print Assumptions build_cover_exactly_one.
Print Assumptions build_bins_len.
Print Assumptions strategy_empty.
Print Assumptions strategy_invalid.
Print Assumptions strategy_valid.
Print Assumptions strategy_constant.
Print Assumptions strategy_nonpos_width.
Print Assumptions equispaced_ok_Z.
Print Assumptions edge_Z.
Print Assumptions n_bins_Z.
Print Assumptions build_Z.
Print Assumptions first_edge_Z.
Print Assumptions nth_edge_Z.
Print Assumptions equal_width_Z.
Print Assumptions last_edge_Z.
Print Assumptions bins_len_Z.
Print Assumptions n_bins_eq_bins_len_Z.
Print Assumptions cover_Z.
Print Assumptions all_counted_Z.
Print Assumptions n_bins_v0_Z.
Print Assumptions build_v0_Z.
Print Assumptions K4_witness.
