(* Hist/Widths.v in binary64 (W9):
     1. count_bins KSqrt n = ZnearestA (rnd (sqrt n)) and 1 <= count_bins KSqrt n <= n for
        1 <= n <= 2^53: the Sqrt width division never divides by zero and the count is
        representable wherever n is;
     2. N64 (n64_elt): constant finite data is rejected with the Strategy error, the width
        arithmetic does not fail (Sqrt unconditionally; Rice / Sturges when libm's value gives a
        count in 1 .. 2^53; FD when libm's cube root is a non-zero number; Auto from the two);
     3. N64: an accepted width is not NaN and is strictly positive (possibly +infinity, see the
        finding [n64_infinite_width_accepted]). *)
From Coq Require Import List Arith ZArith Lia Bool.
From Flocq Require Import Core BinarySingleNaN.
Require Import Reals Lra Psatz.
From NS Require Import Base.Order Base.Res Base.SortDedup Num.Ops Num.F64 Num.F64Inst
  Quantile.Index Quantile.Interp Quantile.Lane Quantile.Spec Quantile.IndexProofs Quantile.InterpF64
  Num.SumF64 Num.WestF64 Hist.Edges Hist.Strategies Hist.StrategiesF64 Hist.Widths Hist.WidthsProofs
  Hist.WidthsZ.
Import ListNotations.
Local Open Scope R_scope.

Local Instance prec64_gt_0wf : Prec_gt_0 53 := Hprec64.
Local Instance vexp64wf : Valid_exp (SpecFloat.fexp 53 1024) := fexp_correct 53 1024 Hprec64.

(* ================================================================== *)
(* 1. Sqrt's bin count                                                  *)
(* ================================================================== *)

Lemma positive_finite_shape : forall x : F64, fis_finite x = true -> 0 < B2R x ->
  exists m e H, x = B754_finite false m e H.
Proof.
  intros [s | s | | s m e H] Fx Hx; try discriminate Fx.
  - cbn in Hx. lra.
  - destruct s.
    + exfalso. cbn [BinarySingleNaN.B2R] in Hx.
      assert (F2R (Float radix2 (cond_Zopp true (Z.pos m)) e) < 0).
      { apply F2R_lt_0. cbn. lia. }
      lra.
    + exists m, e, H. reflexivity.
Qed.

Lemma sqrt_ge_1 : forall x, 1 <= x -> 1 <= sqrt x.
Proof. intros x Hx. rewrite <- sqrt_1. apply sqrt_le_1_alt. exact Hx. Qed.

Lemma sqrt_le_self : forall x, 1 <= x -> sqrt x <= x.
Proof.
  intros x Hx. pose proof (sqrt_ge_1 x Hx) as H1.
  assert (Hs : sqrt x * sqrt x = x) by (apply sqrt_sqrt; lra).
  nra.
Qed.

Lemma fmt_1' : fmt 1.
Proof. change 1 with (IZR 1). apply generic_format_IZR64. lia. Qed.

Theorem fsqrt_of_Z : forall n : Z, (1 <= n <= 2 ^ 53)%Z ->
  fis_finite (fsqrt (f64_of_Z n)) = true /\
  B2R (fsqrt (f64_of_Z n)) = rnd (sqrt (IZR n)) /\
  1 <= B2R (fsqrt (f64_of_Z n)) <= IZR n.
Proof.
  intros n Hn.
  destruct (f64_of_Z_exact n ltac:(lia)) as (Ff & Ef).
  assert (Hpos : 0 < B2R (f64_of_Z n)) by (rewrite Ef; apply IZR_lt; lia).
  destruct (positive_finite_shape _ Ff Hpos) as (m & e & H & Eshape).
  pose proof (Bsqrt_correct 53 1024 Hprec64 Hmax64 mode_NE (f64_of_Z n)) as (C1 & C2 & _).
  fold (fsqrt (f64_of_Z n)) in C1, C2. cbn [round_mode] in C1.
  rewrite Eshape in C2 at 2. rewrite Ef in C1.
  split; [exact C2 |]. split; [exact C1 |].
  assert (H1n : 1 <= IZR n) by (apply IZR_le; lia).
  rewrite C1. split.
  - rewrite <- (round_generic radix2 _ ZnearestE 1 fmt_1') at 1.
    apply round_le; [typeclasses eauto | typeclasses eauto |]. apply sqrt_ge_1. exact H1n.
  - rewrite <- (round_generic radix2 _ ZnearestE (IZR n) (generic_format_IZR64 n ltac:(lia))) at 2.
    apply round_le; [typeclasses eauto | typeclasses eauto |]. apply sqrt_le_self. exact H1n.
Qed.

Lemma usize_max_big : (2 ^ 53 < usize_max)%Z.
Proof. unfold usize_max. lia. Qed.

(* `x as usize` of a finite float holding an integer in 0 .. 2^64 - 1 *)
Lemma sat_usize_int : forall (y : F64) (k : Z),
  fis_finite y = true -> B2R y = IZR k -> (0 <= k <= usize_max)%Z -> sat_usize y = k.
Proof.
  intros y k Fy Ey Hk. pose proof (ftrunc_Z_int y k Ey) as Et.
  destruct y as [s | s | | s m e H]; try discriminate Fy; unfold sat_usize; rewrite Et; lia.
Qed.

(* f64::round of a finite float *)
Lemma fround_spec : forall x : F64,
  fis_finite (fround x) = fis_finite x /\ B2R (fround x) = IZR (ZnearestA (B2R x)).
Proof.
  intros x. pose proof (Bnearbyint_correct 53 1024 Hmax64 mode_NA x) as (C1 & C2 & _).
  fold (fround x) in C1, C2. cbn [round_mode] in C1. rewrite round_FIX0 in C1.
  split; [exact C2 | exact C1].
Qed.

Lemma ZnearestA_between : forall (x : R) (a b : Z), IZR a <= x <= IZR b -> (a <= ZnearestA x <= b)%Z.
Proof.
  intros x a b [Ha Hb]. split.
  - rewrite <- (Zrnd_IZR ZnearestA a). apply Zrnd_le; [apply valid_rnd_N | exact Ha].
  - rewrite <- (Zrnd_IZR ZnearestA b). apply Zrnd_le; [apply valid_rnd_N | exact Hb].
Qed.

Theorem count_bins_sqrt : forall (n : Z) (L : libm), (1 <= n <= 2 ^ 53)%Z ->
  count_bins KSqrt n L = ZnearestA (rnd (sqrt (IZR n))) /\
  (1 <= count_bins KSqrt n L <= n)%Z.
Proof.
  intros n L Hn.
  destruct (fsqrt_of_Z n Hn) as (Fs & Es & Hs).
  destruct (fround_spec (fsqrt (f64_of_Z n))) as (Fr & Er).
  rewrite Fs in Fr.
  pose proof (ZnearestA_between _ 1 n Hs) as Hk.
  cbn [count_bins].
  rewrite (sat_usize_int _ _ Fr Er) by (pose proof usize_max_big; lia).
  rewrite <- Es. split; [reflexivity | exact Hk].
Qed.

Corollary count_bins_sqrt_pos : forall (n : Z) (L : libm), (1 <= n <= 2 ^ 53)%Z ->
  (1 <= count_bins KSqrt n L)%Z.
Proof. intros n L Hn. apply (count_bins_sqrt n L Hn). Qed.

(* the count is within one of the real square root (rounding twice: to binary64, then to an integer) *)
Theorem count_bins_sqrt_near : forall (n : Z) (L : libm), (1 <= n <= 2 ^ 53)%Z ->
  Rabs (IZR (count_bins KSqrt n L) - rnd (sqrt (IZR n))) <= / 2.
Proof.
  intros n L Hn. rewrite (proj1 (count_bins_sqrt n L Hn)), Rabs_minus_sym. apply Znearest_half.
Qed.

(* ================================================================== *)
(* 2. N64: constant data                                                *)
(* ================================================================== *)

Lemma n64_leb : e_leb n64_elt = fle. Proof. reflexivity. Qed.

Lemma n64_ok_not_oof : forall x, n64_ok x <> OutOfFuel.
Proof. intros x. unfold n64_ok. destruct (fis_nan x); discriminate. Qed.

Lemma n64_arith_no_oof : arith_no_oof n64_elt.
Proof. repeat split; intros a b; cbn [e_sub e_mul e_div n64_elt]; apply n64_ok_not_oof. Qed.

Theorem from_array_n64_not_oof : forall zero k data L, from_array n64_elt zero k data L <> OutOfFuel.
Proof. apply from_array_not_oof. exact n64_arith_no_oof. Qed.

(* x - x for a finite x: a zero *)
Lemma fsub_self : forall x : F64, fis_finite x = true ->
  fis_finite (fsub x x) = true /\ B2R (fsub x x) = 0.
Proof.
  intros x Fx.
  pose proof (Bminus_correct 53 1024 Hprec64 Hmax64 mode_NE x x Fx Fx) as C.
  fold (fsub x x) in C. rewrite Rminus_diag_eq in C by reflexivity.
  rewrite round_0 in C by typeclasses eauto.
  rewrite Rabs_R0 in C. rewrite Rlt_bool_true in C by apply bpow_gt_0.
  destruct C as (C1 & C2 & _). split; [exact C2 | exact C1].
Qed.

(* a product with a zero factor *)
Lemma fmul_zero_r : forall x y : F64, fis_finite x = true -> fis_finite y = true -> B2R y = 0 ->
  fis_finite (fmul x y) = true /\ B2R (fmul x y) = 0.
Proof.
  intros x y Fx Fy Ey.
  pose proof (Bmult_correct 53 1024 Hprec64 Hmax64 mode_NE x y) as C.
  fold (fmul x y) in C. rewrite Ey, Rmult_0_r in C.
  rewrite round_0 in C by typeclasses eauto.
  rewrite Rabs_R0 in C. rewrite Rlt_bool_true in C by apply bpow_gt_0.
  destruct C as (C1 & C2 & _). unfold fis_finite in *. rewrite Fx, Fy in C2.
  split; [exact C2 | exact C1].
Qed.

(* 0 / d for a non-zero number d: not NaN *)
Lemma n64_div_zero_num : forall r d : F64, fis_finite r = true -> B2R d <> 0 ->
  exists w, e_div n64_elt r d = Ok w.
Proof.
  intros r d Fr Hd. cbn [e_div n64_elt]. unfold n64_ok.
  rewrite (fdiv_not_nan r d Fr Hd). eexists. reflexivity.
Qed.

Definition simple_kind := Hist.WidthsZ.simple_kind.

Lemma from_array_simple_kind_n64 : forall zero k data L, simple_kind k ->
  from_array n64_elt zero k data L = simple_from_array n64_elt zero k data L.
Proof. intros zero k data L [-> | [-> | ->]]; reflexivity. Qed.

Theorem from_array_n64_constant_simple : forall k x m L,
  simple_kind k -> fis_finite x = true ->
  (1 <= count_bins k (Z.of_nat (S m)) L <= 2 ^ 53)%Z ->
  from_array n64_elt fzero k (x :: repeat x m) L = Ok (inl SE_Strategy).
Proof.
  intros k x m L Hk Fx Hc. rewrite (from_array_simple_kind_n64 _ _ _ _ Hk).
  cbn [simple_from_array].
  rewrite (first_min_const n64_elt x _ (Forall_repeat_eq x m)),
          (first_max_const n64_elt x _ (Forall_repeat_eq x m)).
  cbn [length]. rewrite repeat_length.
  destruct (fsub_self x Fx) as (Fr & Er).
  destruct (f64_of_Z_exact (count_bins k (Z.of_nat (S m)) L) ltac:(lia)) as (Fd & Ed).
  assert (Hd : B2R (f64_of_Z (count_bins k (Z.of_nat (S m)) L)) <> 0).
  { rewrite Ed. apply not_0_IZR. lia. }
  destruct (n64_div_zero_num _ _ Fr Hd) as (w & Hw).
  unfold width_of_count. cbn [e_sub e_of_usize n64_elt]. unfold n64_ok at 1.
  rewrite (finite_not_nan _ Fr). cbn [bind unwrap]. rewrite Hw. cbn [bind].
  rewrite accepts_same_false; [reflexivity |].
  rewrite n64_leb. apply fle_refl_nonnan. apply finite_not_nan. exact Fx.
Qed.

Corollary from_array_n64_constant_sqrt : forall x m L,
  fis_finite x = true -> (Z.of_nat (S m) <= 2 ^ 53)%Z ->
  from_array n64_elt fzero KSqrt (x :: repeat x m) L = Ok (inl SE_Strategy).
Proof.
  intros x m L Fx Hn. apply from_array_n64_constant_simple; [left; reflexivity | exact Fx |].
  destruct (count_bins_sqrt (Z.of_nat (S m)) L ltac:(lia)) as (_ & H). lia.
Qed.

Lemma fle_refl_finite : forall x : F64, fis_finite x = true -> fle x x = true.
Proof. intros x Fx. apply fle_refl_nonnan. apply finite_not_nan. exact Fx. Qed.

Theorem fd_quartiles_const_n64 : forall x m q, fis_finite x = true -> valid_q q = true ->
  (Z.of_nat (S m) <= 2 ^ 53)%Z ->
  qspec (e_car n64_elt) Nearest (isort F64 (e_leb n64_elt) (x :: repeat x m)) q = Ok x.
Proof.
  intros x m q Fx Hq Hn.
  assert (Hc : Forall (fun y => y = x) (x :: repeat x m)).
  { constructor; [reflexivity | apply Forall_repeat_eq]. }
  rewrite (isort_const (e_leb n64_elt) x _ (fle_refl_finite x Fx) Hc).
  apply qspec_nearest_const; [exact Hq | cbn [length]; lia | | exact Hc].
  cbn [length]. rewrite repeat_length. exact Hn.
Qed.

Theorem from_array_n64_constant_fd : forall x m L,
  fis_finite x = true -> (Z.of_nat (S m) <= 2 ^ 53)%Z -> B2R (l_cbrt L) <> 0 ->
  from_array n64_elt fzero KFD (x :: repeat x m) L = Ok (inl SE_Strategy).
Proof.
  intros x m L Fx Hn Hd.
  cbn [from_array fd_from_array]. unfold fd_width.
  rewrite (fd_quartiles_const_n64 x m q25 Fx valid_q25 Hn),
          (fd_quartiles_const_n64 x m q75 Fx valid_q75 Hn).
  destruct (fsub_self x Fx) as (Fr & Er).
  destruct (f64_of_Z_exact 2 ltac:(lia)) as (F2 & _).
  destruct (fmul_zero_r (f64_of_Z 2) (fsub x x) F2 Fr Er) as (Fm & Em).
  destruct (n64_div_zero_num _ _ Fm Hd) as (w & Hw).
  assert (Nd : fis_nan (l_cbrt L) = false).
  { destruct (l_cbrt L); try reflexivity. exfalso. apply Hd. reflexivity. }
  cbn [bind e_sub e_of_usize e_mul e_of_f64 n64_elt]. unfold n64_ok at 1.
  rewrite (finite_not_nan _ Fr). cbn [bind unwrap]. unfold n64_ok at 1.
  rewrite (finite_not_nan _ Fm). cbn [bind]. rewrite Nd. cbn [unwrap bind].
  rewrite Hw. cbn [bind].
  rewrite (first_min_const n64_elt x _ (Forall_repeat_eq x m)),
          (first_max_const n64_elt x _ (Forall_repeat_eq x m)).
  rewrite accepts_same_false; [reflexivity |].
  rewrite n64_leb. apply fle_refl_finite. exact Fx.
Qed.

Theorem from_array_n64_constant_auto : forall x m L,
  fis_finite x = true -> (Z.of_nat (S m) <= 2 ^ 53)%Z -> B2R (l_cbrt L) <> 0 ->
  (1 <= count_bins KSturges (Z.of_nat (S m)) L <= 2 ^ 53)%Z ->
  from_array n64_elt fzero KAuto (x :: repeat x m) L = Ok (inl SE_Strategy).
Proof.
  intros x m L Fx Hn Hd Hc. rewrite auto_unfold.
  rewrite (from_array_n64_constant_fd x m L Fx Hn Hd).
  rewrite (from_array_n64_constant_simple KSturges x m L (or_intror (or_intror eq_refl)) Fx Hc).
  reflexivity.
Qed.

(* W5 as a dichotomy, for every kind and every constant non-NaN data set, no side condition *)
Theorem from_array_n64_constant_cases : forall k x l L, fis_nan x = false ->
  Forall (fun y => y = x) l ->
  from_array n64_elt fzero k (x :: l) L = Ok (inl SE_Strategy) \/
  from_array n64_elt fzero k (x :: l) L = Panic.
Proof.
  intros k x l L Nx Hc.
  apply (from_array_constant_cases n64_elt n64_arith_no_oof fzero k x l L); [| exact Hc].
  rewrite n64_leb. apply fle_refl_nonnan. exact Nx.
Qed.

(* ================================================================== *)
(* 3. N64: an accepted width                                            *)
(* ================================================================== *)

Lemma n64_ok_inv : forall x w, n64_ok x = Ok w -> w = x /\ fis_nan w = false.
Proof.
  intros x w H. unfold n64_ok in H. destruct (fis_nan x) eqn:N; [discriminate H |].
  injection H as <-. split; [reflexivity | exact N].
Qed.

Lemma width_of_count_n64_not_nan : forall mn mx nb w,
  width_of_count n64_elt mn mx nb = Ok w -> fis_nan w = false.
Proof.
  intros mn mx nb w H. unfold width_of_count in H.
  apply bind_Ok_inv in H. destruct H as (r & _ & H).
  apply bind_Ok_inv in H. destruct H as (d & _ & H).
  cbn [e_div n64_elt] in H. apply n64_ok_inv in H. tauto.
Qed.

Lemma fd_width_n64_not_nan : forall data L w, fd_width n64_elt data L = Ok w -> fis_nan w = false.
Proof.
  intros data L w H. unfold fd_width in H.
  apply bind_Ok_inv in H. destruct H as (a & _ & H).
  apply bind_Ok_inv in H. destruct H as (b & _ & H).
  apply bind_Ok_inv in H. destruct H as (iqr & _ & H).
  apply bind_Ok_inv in H. destruct H as (two & _ & H).
  apply bind_Ok_inv in H. destruct H as (num & _ & H).
  apply bind_Ok_inv in H. destruct H as (den & _ & H).
  cbn [e_div n64_elt] in H. apply n64_ok_inv in H. tauto.
Qed.

(* EquiSpaced::new on N64: width > 0 (as a non-NaN extended real) and min < max in the order fle *)
Theorem from_array_n64_accepted : forall k data L w mn mx,
  from_array n64_elt fzero k data L = Ok (inr (w, mn, mx)) ->
  fis_nan w = false /\ fle w fzero = false /\ fle mx mn = false /\
  (w = B754_infinity false \/ (fis_finite w = true /\ 0 < B2R w)).
Proof.
  intros k data L w mn mx H.
  destruct (from_array_inr_nonempty _ _ _ _ _ _ H) as (x & l & ->).
  pose proof (from_array_inr_width n64_elt fzero k x l L w mn mx H) as Hw.
  apply from_array_inr in H. destruct H as (Hacc & _ & _).
  unfold accepts in Hacc. rewrite n64_leb in Hacc.
  apply andb_true_iff in Hacc. rewrite !negb_true_iff in Hacc. destruct Hacc as [Hw0 Hmm].
  assert (Nw : fis_nan w = false).
  { destruct k; try (eapply width_of_count_n64_not_nan; exact Hw);
      try (eapply fd_width_n64_not_nan; exact Hw).
    destruct Hw as [Hw | Hw];
      [eapply fd_width_n64_not_nan; exact Hw | eapply width_of_count_n64_not_nan; exact Hw]. }
  split; [exact Nw |]. split; [exact Hw0 |]. split; [exact Hmm |].
  assert (N0 : fis_nan fzero = false) by reflexivity.
  destruct (nonnan_cases w Nw) as [E | [E | Fw]].
  - exfalso. subst w. discriminate Hw0.
  - left. exact E.
  - right. split; [exact Fw |].
    destruct (Rlt_or_le 0 (B2R w)) as [Hp | Hn]; [exact Hp |].
    exfalso. assert (Hle : fle w fzero = true).
    { apply (fle_char w fzero Nw N0). right. right. split; [exact Fw |]. split; [reflexivity |].
      exact Hn. }
    congruence.
Qed.

Print Assumptions count_bins_sqrt.
Print Assumptions from_array_n64_constant_sqrt.
Print Assumptions from_array_n64_constant_auto.
Print Assumptions from_array_n64_accepted.
