(* histogram/strategies.rs: the per-strategy bin-count / bin-width formulas of Sqrt, Rice, Sturges,
   FreedmanDiaconis and Auto (from_array), composed with EquiSpaced (Hist/Strategies.v), so that the
   advised width is COMPUTED by the model instead of being read from the implementation.

     Sqrt      n_bins = round(sqrt(n as f64)) as usize            width = (max - min) / from_usize(n_bins)
     Rice      n_bins = round(2 * powf(n as f64, 1/3)) as usize   same
     Sturges   n_bins = round(log2(n as f64)) as usize + 1        same
     FD        iqr = Q(0.75, Nearest) - Q(0.25, Nearest) on a scratch copy;
               width = from_usize(2) * iqr / from_f64(powf(n as f64, 1/3))
     Auto      FD and Sturges: the one that succeeded, or the smaller width when both did

   sqrt is Flocq's correctly rounded Bsqrt; f64::round is Bnearbyint with ties away from zero; `as usize`
   saturates.  powf(n, 1/3) and log2(n) come from libm: they are an ORACLE (a record of two binary64
   values for this n, recorded from the implementation's own libm by the harness), as ln / exp are for
   the entropy kernels.  The quartiles are the sort-based specification `qspec` (Quantile/Spec.v), which
   the lane kernel is proved to compute for every pivot sequence (C01), applied to the insertion-sorted
   data.  Element arithmetic is the element type's own: overflow-checked bounded integers (debug
   profile: Panic) or N64 (Panic on a NaN result). *)
From Coq Require Import ZArith Bool List Arith.
Import ListNotations.
From Flocq Require Import Core BinarySingleNaN.
From NS Require Import Base.Res Base.SortDedup Num.Ops Num.F64 Quantile.Index Quantile.Interp Quantile.Lane
  Quantile.Spec Hist.Edges Hist.Strategies.

(* f64::round: to the nearest integer, ties away from zero *)
Definition fround : F64 -> F64 := @BinarySingleNaN.Bnearbyint 53 1024 Hmax64 mode_NA.

(* `x as usize`: saturating, NaN to 0 *)
Definition usize_max : Z := (2 ^ 64 - 1)%Z.
Definition sat_usize (x : F64) : Z :=
  match x with
  | B754_nan => 0%Z
  | B754_infinity s => if s then 0%Z else usize_max
  | _ => Z.max 0 (Z.min (ftrunc_Z x) usize_max)
  end.

Inductive kind := KSqrt | KRice | KSturges | KFD | KAuto.

(* libm's values for this n *)
Record libm := { l_cbrt : F64 ;     (* (n as f64).powf(1. / 3.) *)
                 l_log2 : F64 }.    (* (n as f64).log2() *)

Definition count_bins (k : kind) (n : Z) (L : libm) : Z :=
  match k with
  | KSqrt => sat_usize (fround (fsqrt (f64_of_Z n)))
  | KRice => sat_usize (fround (fmul ftwo (l_cbrt L)))
  | _ => (sat_usize (fround (l_log2 L)) + 1)%Z
  end.

(* the element type as the width formulas use it *)
Record elt (T : Type) := {
  e_leb : T -> T -> bool;
  e_sub : T -> T -> res T;
  e_mul : T -> T -> res T;
  e_div : T -> T -> res T;
  e_of_usize : Z -> option T;       (* FromPrimitive::from_usize *)
  e_of_f64 : F64 -> option T;       (* FromPrimitive::from_f64 *)
  e_car : carrier T                 (* for the quartiles *)
}.
Arguments e_leb {T}. Arguments e_sub {T}. Arguments e_mul {T}. Arguments e_div {T}.
Arguments e_of_usize {T}. Arguments e_of_f64 {T}. Arguments e_car {T}.

(* bounded integers with overflow checks (debug profile); `/` truncates and panics on a zero divisor *)
Definition chk (t : ity) (z : Z) : res Z := if in_range t z then Ok z else Panic.
Definition int_elt (t : ity) : elt Z := {|
  e_leb := Z.leb;
  e_sub := fun a b => chk t (a - b);
  e_mul := fun a b => chk t (a * b);
  e_div := fun a b => if (b =? 0)%Z then Panic else chk t (Z.quot a b);
  e_of_usize := fun i => if in_range t i then Some i else None;
  e_of_f64 := int_of_f64 t;
  e_car := int_carrier t |}.

(* N64: every operation panics on a NaN result (noisy_float's checker, debug profile) *)
Definition n64_elt : elt F64 := {|
  e_leb := fle;
  e_sub := fun a b => n64_ok (fsub a b);
  e_mul := fun a b => n64_ok (fmul a b);
  e_div := fun a b => n64_ok (fdiv a b);
  e_of_usize := fun i => Some (f64_of_Z i);
  e_of_f64 := fun x => if fis_nan x then None else Some x;
  e_car := n64_carrier |}.

Section W.
Context {T : Type}.
Variable E : elt T.
Notation leb := (e_leb E).
Definition ltb (a b : T) : bool := leb a b && negb (leb b a).

(* QuantileExt::min / max on non-empty data: the FIRST minimal / maximal element *)
Definition first_min (x : T) (t : list T) : T := fold_left (fun acc e => if ltb e acc then e else acc) t x.
Definition first_max (x : T) (t : list T) : T := fold_left (fun acc e => if ltb acc e then e else acc) t x.

(* compute_bin_width(min, max, n_bins) = (max - min) / T::from_usize(n_bins).unwrap() *)
Definition width_of_count (mn mx : T) (nb : Z) : res T :=
  r <- e_sub E mx mn ;; d <- unwrap (e_of_usize E nb) ;; e_div E r d.

Definition q25 : F64 := f64_of_bits 4598175219545276416%Z.   (* 0.25 *)
Definition q75 : F64 := f64_of_bits 4604930618986332160%Z.   (* 0.75 *)

(* FreedmanDiaconis: the two quartiles (Nearest) of the sorted data, then 2 * iqr / from_f64(powf(n, 1/3)) *)
Definition fd_width (data : list T) (L : libm) : res T :=
  let srt := isort T leb data in
  a <- qspec (e_car E) Nearest srt q25 ;;
  b <- qspec (e_car E) Nearest srt q75 ;;
  iqr <- e_sub E b a ;;
  two <- unwrap (e_of_usize E 2) ;;
  num <- e_mul E two iqr ;;
  den <- unwrap (e_of_f64 E (l_cbrt L)) ;;
  e_div E num den.

(* EquiSpaced::new *)
Definition accepts (zero w mn mx : T) : bool := negb (leb w zero) && negb (leb mx mn).

(* from_array up to and including EquiSpaced::new: the error, or (width, min, max) *)
Definition simple_from_array (zero : T) (k : kind) (data : list T) (L : libm) : res (serr + T * T * T) :=
  match data with
  | [] => Ok (inl SE_Empty)
  | x :: t =>
    let mn := first_min x t in
    let mx := first_max x t in
    w <- width_of_count mn mx (count_bins k (Z.of_nat (length data)) L) ;;
    if accepts zero w mn mx then Ok (inr (w, mn, mx)) else Ok (inl SE_Strategy)
  end.

Definition fd_from_array (zero : T) (data : list T) (L : libm) : res (serr + T * T * T) :=
  match data with
  | [] => Ok (inl SE_Empty)
  | x :: t =>
    w <- fd_width data L ;;
    let mn := first_min x t in
    let mx := first_max x t in
    if accepts zero w mn mx then Ok (inr (w, mn, mx)) else Ok (inl SE_Strategy)
  end.

Definition from_array (zero : T) (k : kind) (data : list T) (L : libm) : res (serr + T * T * T) :=
  match k with
  | KSqrt | KRice | KSturges => simple_from_array zero k data L
  | KFD => fd_from_array zero data L
  | KAuto =>
    fd <- fd_from_array zero data L ;;
    st <- simple_from_array zero KSturges data L ;;
    match fd, st with
    | inl _, inr s => Ok (inr s)
    | inr f, inl _ => Ok (inr f)
    | inr (wf, mnf, mxf), inr (ws, mns, mxs) =>
      (* if fd.bin_width() > sturges.bin_width() { Sturges } else { FD } *)
      if ltb ws wf then Ok (inr (ws, mns, mxs)) else Ok (inr (wf, mnf, mxf))
    | inl e, inl _ => Ok (inl e)
    end
  end.
End W.

(* the whole strategy: from_array, then n_bins() and build() of EquiSpaced (Hist/Strategies.v) *)
Section Full.
Context {T : Type}.
Variable E : elt T.
Variable O : ops T.
Variable repr : nat -> bool.

(* [fuel_of w mn mx]: fuel for the counting loop, chosen from the accepted width (theorems show which
   fuel suffices; an exhausted fuel is the outcome OutOfFuel, never a normal-looking value) *)
Definition strategy_full (fuel_of : T -> T -> T -> nat) (k : kind) (data : list T) (L : libm)
  : res (serr + T * nat * list T) :=
  r <- from_array E (o_zero O) k data L ;;
  match r with
  | inl e => Ok (inl e)
  | inr (w, mn, mx) =>
    let fuel := fuel_of w mn mx in
    nb <- n_bins O (e_leb E) repr fuel mn w mx ;;
    es <- build O (e_leb E) repr fuel mn w mx ;;
    Ok (inr (w, nb, es))
  end.
End Full.
