(* W8: the complete strategy model executed (Run/RunWidths.v), and concrete inputs satisfying the
   hypotheses of the theorems of Hist/WidthsProofs.v / Hist/WidthsZ.v. *)
From Coq Require Import List Arith ZArith Lia Bool.
Import ListNotations.
From NS Require Import Num.F64Inst Base.Res Num.Ops Num.ZInst Num.F64 Quantile.Interp Hist.Edges Hist.Histogram
  Hist.Strategies Hist.StrategiesProofs Hist.Widths Hist.WidthsProofs Hist.WidthsZ Run.RunWidths.
Local Open Scope Z_scope.

Definition ex_data : list Z := [424; 441; 499; 35; 421; 487; 440; 466; 446; 402; 400; 1659].
Definition ex_cbrt12 : Z := 4612337753436226293.   (* 12f64.powf(1/3) = 2.2894284851066637 *)
Definition ex_log2_12 : Z := 4615255036691209908.  (* 12f64.log2()    = 3.584962500721156 *)

(* Sqrt on 12 i64 values: round(sqrt 12) = 3 bins asked, width (1659 - 35) / 3 = 541, 4 bins built *)
Example ex_sqrt_i64 :
  m_full_int true 64 0 ex_data 0 0 = [0; 541; 4; 4; 5; 35; 576; 1117; 1658; 2199].
Proof. vm_compute. reflexivity. Qed.

(* FreedmanDiaconis: quartiles 466 and 421 (Nearest), width 2 * 45 / 2 = 45 *)
Example ex_fd_head_i64 : m_head_int true 64 3 ex_data ex_cbrt12 0 = [0; 45; 35; 1659].
Proof. vm_compute. reflexivity. Qed.

Example ex_sturges_i64 :
  m_full_int true 64 2 ex_data ex_cbrt12 ex_log2_12 = [0; 324; 6; 6; 7; 35; 359; 683; 1007; 1331; 1655; 1979].
Proof. vm_compute. reflexivity. Qed.

(* Auto: both accept, FD's width 45 < Sturges' 324: the grid is FD's *)
Example ex_auto_is_fd_i64 :
  m_full_int true 64 4 ex_data ex_cbrt12 ex_log2_12 = m_full_int true 64 3 ex_data ex_cbrt12 ex_log2_12.
Proof. vm_compute. reflexivity. Qed.

(* N64: data 1.0, 2.0, 4.0, 8.5 under Sqrt: width 3.75, edges 1.0, 4.75, 8.5, 12.25 *)
Definition ex_n64 : list Z :=
  [4607182418800017408; 4611686018427387904; 4616189618054758400; 4620974692658839552].
Example ex_sqrt_n64 :
  m_full_n64 0 ex_n64 0 0 =
  [0; 4615626668101337088; 3; 3; 4;
   4607182418800017408; 4617034042984890368; 4620974692658839552; 4623085754984169472].
Proof. vm_compute. reflexivity. Qed.
Example ex_sqrt_head_n64 :
  m_head_n64 0 ex_n64 0 0 = [0; 4615626668101337088; 4607182418800017408; 4620974692658839552].
Proof. vm_compute. reflexivity. Qed.

(* constant data: the Strategy error, for a count-based strategy, for FD (cbrt 4 = 1.587..) and N64 *)
Example ex_constant_sqrt : m_full_int true 64 0 [7; 7; 7; 7] 0 0 = [2].
Proof. vm_compute. reflexivity. Qed.
Example ex_constant_fd : m_full_int true 64 3 [7; 7; 7; 7] 4609827837958778428 0 = [2].
Proof. vm_compute. reflexivity. Qed.
Example ex_constant_n64 : m_full_n64 0 [4607182418800017408; 4607182418800017408] 0 0 = [2].
Proof. vm_compute. reflexivity. Qed.

(* empty data: EmptyInput *)
Example ex_empty : m_full_int true 64 0 [] 0 0 = [1].
Proof. vm_compute. reflexivity. Qed.
Example ex_empty_auto_n64 : m_full_n64 4 [] 0 0 = [1].
Proof. vm_compute. reflexivity. Qed.

(* i8 data whose range 100 - (-100) = 200 does not fit i8: the subtraction overflows (debug panic) *)
Example ex_i8_range_overflow : m_full_int true 8 0 [-100; 100] 0 0 = [3].
Proof. vm_compute. reflexivity. Qed.

(* ---- witnesses for the hypotheses of the theorems ---- *)
Definition i64 : ity := {| signed := true; bits := 64 |}.
Definition ex_L : libm := mk_libm ex_cbrt12 ex_log2_12.

(* strategy_full_int_spec: the premise holds for all five kinds on ex_data *)
Example ex_spec_premise_sqrt :
  strategy_full (int_elt i64) Z_ops (fun _ => true) fuelZ KSqrt ex_data ex_L =
  Ok (inr (541, 4%nat, [35; 576; 1117; 1658; 2199])).
Proof. vm_compute. reflexivity. Qed.
Example ex_spec_premise_rice :
  exists w nb es, strategy_full (int_elt i64) Z_ops (fun _ => true) fuelZ KRice ex_data ex_L = Ok (inr (w, nb, es)).
Proof. eexists _, _, _. vm_compute. reflexivity. Qed.
Example ex_spec_premise_sturges :
  exists w nb es, strategy_full (int_elt i64) Z_ops (fun _ => true) fuelZ KSturges ex_data ex_L = Ok (inr (w, nb, es)).
Proof. eexists _, _, _. vm_compute. reflexivity. Qed.
Example ex_spec_premise_fd :
  exists nb es, strategy_full (int_elt i64) Z_ops (fun _ => true) fuelZ KFD ex_data ex_L = Ok (inr (45, nb, es)).
Proof. eexists _, _. vm_compute. reflexivity. Qed.
Example ex_spec_premise_auto :
  exists nb es, strategy_full (int_elt i64) Z_ops (fun _ => true) fuelZ KAuto ex_data ex_L = Ok (inr (45, nb, es)).
Proof. eexists _, _. vm_compute. reflexivity. Qed.

(* auto_both_accept: both constituents accept on ex_data, Sturges' width is not smaller *)
Example ex_auto_both :
  from_array (int_elt i64) 0 KFD ex_data ex_L = Ok (inr (45, 35, 1659)) /\
  from_array (int_elt i64) 0 KSturges ex_data ex_L = Ok (inr (324, 35, 1659)) /\
  ltb (int_elt i64) 324 45 = false.
Proof. vm_compute. repeat split; reflexivity. Qed.

(* ... and an input where Sturges' width is the smaller one (FD 2 * 10 / 1 = 20, Sturges 30 / 3 = 10) *)
Definition ex_L4 : libm := mk_libm 4609827837958778428 4611686018427387904.   (* cbrt 4, log2 4 = 2 *)
Example ex_auto_both_sturges :
  from_array (int_elt i64) 0 KFD [0; 10; 20; 30] ex_L4 = Ok (inr (20, 0, 30)) /\
  from_array (int_elt i64) 0 KSturges [0; 10; 20; 30] ex_L4 = Ok (inr (10, 0, 30)) /\
  from_array (int_elt i64) 0 KAuto [0; 10; 20; 30] ex_L4 = Ok (inr (10, 0, 30)).
Proof. vm_compute. repeat split; reflexivity. Qed.

(* from_array_int_constant_simple / _fd / _auto: the side conditions hold for 4 copies of 7 in i64 *)
Example ex_constant_hyps :
  in_range i64 0 = true /\ in_range i64 2 = true /\ Z.of_nat 4 <= 2 ^ 53 /\
  0 < count_bins KSqrt (Z.of_nat 4) ex_L4 <= imax i64 /\
  0 < count_bins KRice (Z.of_nat 4) ex_L4 <= imax i64 /\
  0 < count_bins KSturges (Z.of_nat 4) ex_L4 <= imax i64 /\
  int_of_f64 i64 (l_cbrt ex_L4) = Some 1.
Proof. vm_compute. repeat split; intros; discriminate. Qed.

(* from_array_int_count_zero is not vacuous: a libm oracle reporting log2 = -1 for Sturges gives
   count 0 + 1 = 1, never 0; for Rice a cube root of 0.1 gives round(0.2) = 0 bins: division by zero *)
Example ex_rice_zero_count :
  count_bins KRice 12 (mk_libm 4591870180066957722 0) = 0 /\
  m_head_int true 64 1 ex_data 4591870180066957722 0 = [3].
Proof. vm_compute. repeat split; reflexivity. Qed.

(* from_array_int_count_unrepresentable: 2^15 u8 values under Sqrt ask for 181 bins - representable;
   i8 with 2^16 values would ask for 256 > 127.  A small instance: a libm log2 of 200 for Sturges *)
Example ex_sturges_unrepresentable_i8 :
  in_range {| signed := true; bits := 8 |}
    (count_bins KSturges 2 (mk_libm 0 4641240890982006784)) = false /\
  m_head_int true 8 2 [1; 2] 0 4641240890982006784 = [3].
Proof. vm_compute. repeat split; reflexivity. Qed.

(* FINDING K6 (N64): data -1e308, 1e308: max - min overflows to +infinity, which N64 allows; the width
   +infinity passes EquiSpaced::new.  The generic grid placement (Hist/Strategies.v, total binary64
   operations) would compute min + 0 * inf = NaN, count 0 bins and return the single edge NaN; N64
   arithmetic (debug profile) panics on the NaN product, which is what the executable N64 instance
   m_full_n64 (Run/RunWidths.v) reports: an accepted data set whose construction panics. *)
Example ex_n64_infinite_width :
  m_head_n64 0 [18438243695727462560; 9214871658872686752] 0 0 =
    [0; 9218868437227405312; 18438243695727462560; 9214871658872686752] /\
  m_full_n64 0 [18438243695727462560; 9214871658872686752] 0 0 = [3] /\
  enc_full bits_of_f64
    (strategy_full n64_elt (f64_ops [] []) (fun _ => true) (fun _ _ _ => 100%nat) KSqrt
       (map f64_of_bits [18438243695727462560; 9214871658872686752]) (mk_libm 0 0)) =
    [0; 9218868437227405312; 0; 0; 1; 9221120237041090560].
Proof. vm_compute. repeat split; reflexivity. Qed.
