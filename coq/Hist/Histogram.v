(* Histogram (histogram/histograms.rs): counts in row-major order of the grid's
   shape; add_observation and the matrix form. *)
From Coq Require Import List Arith Bool.
Import ListNotations.
From NS Require Import Base.Res Hist.Edges.

Definition prod_list (l : list nat) : nat := fold_left Nat.mul l 1.

(* row-major flat index of an index tuple *)
Fixpoint ravel_from (acc : nat) (shape idx : list nat) : nat :=
  match shape, idx with
  | s :: shape', i :: idx' => ravel_from (acc * s + i) shape' idx'
  | _, _ => acc
  end.
Definition ravel (shape idx : list nat) : nat := ravel_from 0 shape idx.

Fixpoint bump (k : nat) (counts : list nat) : list nat :=
  match counts, k with
  | [], _ => []
  | c :: t, 0 => S c :: t
  | c :: t, S k' => c :: bump k' t
  end.

Section H.
Variable A : Type.
Variable leb : A -> A -> bool.

(* Histogram::new: ArrayD::zeros(grid.shape()) *)
Definition hist_init (g : grid A) : list nat := repeat 0 (prod_list (grid_shape A g)).

Inductive add_out := Added | BinNotFound.

(* Histogram::add_observation *)
Definition add_observation (g : grid A) (counts : list nat) (pt : list A) : res (list nat * add_out) :=
  r <- grid_index_of A leb g pt ;;
  match r with
  | Some idx =>
    (* self.counts[&*bin_index] += 1: indexing the counts array out of bounds panics *)
    let k := ravel (grid_shape A g) idx in
    if k <? length counts then Ok (bump k counts, Added) else Panic
  | None => Ok (counts, BinNotFound)
  end.

(* a history of single inserts, rejected ones included *)
Fixpoint add_all (g : grid A) (counts : list nat) (h : list (list A)) : res (list nat) :=
  match h with
  | [] => Ok counts
  | pt :: t => r <- add_observation g counts pt ;; add_all g (fst r) t
  end.

(* HistogramExt::histogram: for point in axis_iter(Axis(0)) { let _ = add_observation(point) } *)
Definition histogram (g : grid A) (rows : list (list A)) : res (list nat) :=
  add_all g (hist_init g) rows.
End H.
