(* Proofs about Hist/Widths.v: the bin width computed by the five strategies' from_array and its
   composition with EquiSpaced (strategy_full).
     Part A  (generic element type): outcomes of from_array (W1, W2), first_min / first_max (W3),
             strategy_full refines from_array + n_bins + strategy_bins (W4), constant data (W5),
             Auto picks one of FD / Sturges (W7), representability of indexes (repr lemma).
   The integer instance is in Hist/WidthsZ.v. *)
From Coq Require Import List Arith ZArith Lia Bool.
Import ListNotations.
From Flocq Require Import Core BinarySingleNaN.
From NS Require Import Base.Order Base.Res Base.SortDedup Num.Ops Num.F64 Quantile.Index Quantile.Interp
  Quantile.Lane Quantile.Spec Hist.Edges Hist.Strategies Hist.Widths.

(* ================================================================== *)
(* bind inversion                                                      *)
(* ================================================================== *)

Lemma bind_Ok_inv : forall {A B} (r : res A) (f : A -> res B) (y : B),
  bind r f = Ok y -> exists x, r = Ok x /\ f x = Ok y.
Proof.
  intros A B r f y H. destruct r as [x | |]; cbn [bind] in H; try discriminate H.
  exists x. split; [reflexivity | exact H].
Qed.

Lemma unwrap_Ok_inv : forall {A} (o : option A) (x : A), unwrap o = Ok x -> o = Some x.
Proof. intros A [a |] x H; cbn [unwrap] in H; [injection H as ->; reflexivity | discriminate H]. Qed.

Section Generic.
Context {T : Type}.
Variable E : elt T.
Notation leb := (e_leb E).

(* ================================================================== *)
(* W1: empty data                                                      *)
(* ================================================================== *)

Theorem from_array_empty : forall zero k L, from_array E zero k [] L = Ok (inl SE_Empty).
Proof. intros zero [] L; reflexivity. Qed.

Theorem strategy_full_empty : forall (O : ops T) repr fuel_of k L,
  strategy_full E O repr fuel_of k [] L = Ok (inl SE_Empty).
Proof. intros O repr fuel_of k L. unfold strategy_full. rewrite from_array_empty. reflexivity. Qed.

(* ================================================================== *)
(* W2: an accepted outcome carries a width that passed EquiSpaced::new, *)
(*     the first minimum and the first maximum                          *)
(* ================================================================== *)

Lemma simple_from_array_inr : forall zero k x t L w mn mx,
  simple_from_array E zero k (x :: t) L = Ok (inr (w, mn, mx)) ->
  width_of_count E (first_min E x t) (first_max E x t) (count_bins k (Z.of_nat (length (x :: t))) L) = Ok w /\
  accepts E zero w mn mx = true /\ mn = first_min E x t /\ mx = first_max E x t.
Proof.
  intros zero k x t L w mn mx H. cbn [simple_from_array] in H.
  apply bind_Ok_inv in H. destruct H as (w0 & Hw0 & H).
  destruct (accepts E zero w0 (first_min E x t) (first_max E x t)) eqn:Hacc; [| discriminate H].
  injection H as -> <- <-. repeat split; assumption.
Qed.

Lemma fd_from_array_inr : forall zero x t L w mn mx,
  fd_from_array E zero (x :: t) L = Ok (inr (w, mn, mx)) ->
  fd_width E (x :: t) L = Ok w /\
  accepts E zero w mn mx = true /\ mn = first_min E x t /\ mx = first_max E x t.
Proof.
  intros zero x t L w mn mx H. cbn [fd_from_array] in H.
  apply bind_Ok_inv in H. destruct H as (w0 & Hw0 & H).
  destruct (accepts E zero w0 (first_min E x t) (first_max E x t)) eqn:Hacc; [| discriminate H].
  injection H as -> <- <-. repeat split; assumption.
Qed.

(* the shape of Auto's result, in terms of its two constituents *)
Lemma auto_unfold : forall zero data L,
  from_array E zero KAuto data L =
  (fd <- from_array E zero KFD data L ;;
   st <- from_array E zero KSturges data L ;;
   match fd, st with
   | inl _, inr s => Ok (inr s)
   | inr f, inl _ => Ok (inr f)
   | inr (wf, mnf, mxf), inr (ws, mns, mxs) =>
     if ltb E ws wf then Ok (inr (ws, mns, mxs)) else Ok (inr (wf, mnf, mxf))
   | inl e, inl _ => Ok (inl e)
   end).
Proof. reflexivity. Qed.

(* Auto returns what FD returned or what Sturges returned *)
Theorem auto_is_fd_or_sturges : forall zero data L,
  from_array E zero KAuto data L = from_array E zero KFD data L \/
  from_array E zero KAuto data L = from_array E zero KSturges data L.
Proof.
  intros zero data L. rewrite auto_unfold.
  destruct (from_array E zero KFD data L) as [fd | |]; cbn [bind]; [| left; reflexivity | left; reflexivity].
  destruct (from_array E zero KSturges data L) as [st | |]; cbn [bind]; [| right; reflexivity | right; reflexivity].
  destruct fd as [ef | [[wf mnf] mxf]], st as [es | [[ws mns] mxs]].
  - left; reflexivity.
  - right; reflexivity.
  - left; reflexivity.
  - destruct (ltb E ws wf); [right | left]; reflexivity.
Qed.

Theorem from_array_inr : forall zero k x t L w mn mx,
  from_array E zero k (x :: t) L = Ok (inr (w, mn, mx)) ->
  accepts E zero w mn mx = true /\ mn = first_min E x t /\ mx = first_max E x t.
Proof.
  assert (Hsimple : forall zero k x t L w mn mx,
    simple_from_array E zero k (x :: t) L = Ok (inr (w, mn, mx)) ->
    accepts E zero w mn mx = true /\ mn = first_min E x t /\ mx = first_max E x t).
  { intros zero k x t L w mn mx H. apply simple_from_array_inr in H. tauto. }
  assert (Hfd : forall zero x t L w mn mx,
    fd_from_array E zero (x :: t) L = Ok (inr (w, mn, mx)) ->
    accepts E zero w mn mx = true /\ mn = first_min E x t /\ mx = first_max E x t).
  { intros zero x t L w mn mx H. apply fd_from_array_inr in H. tauto. }
  intros zero k x t L w mn mx H.
  destruct k.
  - exact (Hsimple _ _ _ _ _ _ _ _ H).
  - exact (Hsimple _ _ _ _ _ _ _ _ H).
  - exact (Hsimple _ _ _ _ _ _ _ _ H).
  - exact (Hfd _ _ _ _ _ _ _ H).
  - destruct (auto_is_fd_or_sturges zero (x :: t) L) as [Eq | Eq]; rewrite Eq in H.
    + exact (Hfd _ _ _ _ _ _ _ H).
    + exact (Hsimple _ _ _ _ _ _ _ _ H).
Qed.

(* which width it is *)
Theorem from_array_inr_width : forall zero k x t L w mn mx,
  from_array E zero k (x :: t) L = Ok (inr (w, mn, mx)) ->
  match k with
  | KSqrt | KRice | KSturges =>
    width_of_count E mn mx (count_bins k (Z.of_nat (S (length t))) L) = Ok w
  | KFD => fd_width E (x :: t) L = Ok w
  | KAuto =>
    fd_width E (x :: t) L = Ok w \/
    width_of_count E mn mx (count_bins KSturges (Z.of_nat (S (length t))) L) = Ok w
  end.
Proof.
  intros zero k x t L w mn mx H.
  destruct k.
  - apply simple_from_array_inr in H. destruct H as (H & _ & -> & ->). exact H.
  - apply simple_from_array_inr in H. destruct H as (H & _ & -> & ->). exact H.
  - apply simple_from_array_inr in H. destruct H as (H & _ & -> & ->). exact H.
  - apply fd_from_array_inr in H. tauto.
  - destruct (auto_is_fd_or_sturges zero (x :: t) L) as [Eq | Eq]; rewrite Eq in H.
    + left. apply fd_from_array_inr in H. tauto.
    + right. apply simple_from_array_inr in H. destruct H as (H & _ & -> & ->). exact H.
Qed.

(* an accepted outcome needs non-empty data *)
Lemma from_array_inr_nonempty : forall zero k data L r,
  from_array E zero k data L = Ok (inr r) -> exists x t, data = x :: t.
Proof.
  intros zero k [| x t] L r H.
  - rewrite from_array_empty in H. discriminate H.
  - exists x, t. reflexivity.
Qed.

(* ================================================================== *)
(* W3: first_min / first_max                                           *)
(* ================================================================== *)

Lemma ltb_irrefl : forall a, ltb E a a = false.
Proof. intros a. unfold ltb. destruct (leb a a); reflexivity. Qed.

Lemma ltb_true : forall a b, ltb E a b = true <-> leb a b = true /\ leb b a = false.
Proof. intros a b. unfold ltb. rewrite andb_true_iff, negb_true_iff. tauto. Qed.

Lemma first_min_cons : forall x y t,
  first_min E x (y :: t) = first_min E (if ltb E y x then y else x) t.
Proof. reflexivity. Qed.

Lemma first_max_cons : forall x y t,
  first_max E x (y :: t) = first_max E (if ltb E x y then y else x) t.
Proof. reflexivity. Qed.

Lemma first_min_In : forall t x, In (first_min E x t) (x :: t).
Proof.
  induction t as [| y t IH]; intros x.
  - left. reflexivity.
  - rewrite first_min_cons. specialize (IH (if ltb E y x then y else x)).
    destruct IH as [IH | IH].
    + destruct (ltb E y x); [right; left | left]; exact IH.
    + right; right; exact IH.
Qed.

Lemma first_max_In : forall t x, In (first_max E x t) (x :: t).
Proof.
  induction t as [| y t IH]; intros x.
  - left. reflexivity.
  - rewrite first_max_cons. specialize (IH (if ltb E x y then y else x)).
    destruct IH as [IH | IH].
    + destruct (ltb E x y); [right; left | left]; exact IH.
    + right; right; exact IH.
Qed.

Section Ordered.
Hypothesis leb_total : total leb.
Hypothesis leb_trans : transitive leb.

Lemma leb_refl : forall a, leb a a = true.
Proof. intros a. destruct (leb_total a a); assumption. Qed.

Lemma ltb_false_le : forall a b, ltb E a b = false -> leb b a = true.
Proof.
  intros a b H. unfold ltb in H. destruct (leb b a) eqn:Hba; [reflexivity |].
  destruct (leb_total a b) as [Hab | Hab]; [| congruence].
  rewrite Hab in H. discriminate H.
Qed.

(* the accumulator only decreases *)
Lemma first_min_le_acc : forall t x, leb (first_min E x t) x = true.
Proof.
  induction t as [| y t IH]; intros x.
  - apply leb_refl.
  - rewrite first_min_cons. destruct (ltb E y x) eqn:Hyx.
    + apply ltb_true in Hyx. eapply leb_trans; [apply IH | tauto].
    + apply IH.
Qed.

Lemma first_max_ge_acc : forall t x, leb x (first_max E x t) = true.
Proof.
  induction t as [| y t IH]; intros x.
  - apply leb_refl.
  - rewrite first_max_cons. destruct (ltb E x y) eqn:Hxy.
    + apply ltb_true in Hxy. eapply leb_trans; [| apply IH]. tauto.
    + apply IH.
Qed.

Theorem first_min_le : forall t x y, In y (x :: t) -> leb (first_min E x t) y = true.
Proof.
  induction t as [| z t IH]; intros x y Hy.
  - destruct Hy as [<- | []]. apply leb_refl.
  - rewrite first_min_cons. destruct Hy as [<- | [<- | Hy]].
    + eapply leb_trans; [apply first_min_le_acc |].
      destruct (ltb E z x) eqn:Hzx; [apply ltb_true in Hzx; tauto | apply leb_refl].
    + eapply leb_trans; [apply first_min_le_acc |].
      destruct (ltb E z x) eqn:Hzx; [apply leb_refl | apply ltb_false_le; exact Hzx].
    + apply IH. right. exact Hy.
Qed.

Theorem first_max_ge : forall t x y, In y (x :: t) -> leb y (first_max E x t) = true.
Proof.
  induction t as [| z t IH]; intros x y Hy.
  - destruct Hy as [<- | []]. apply leb_refl.
  - rewrite first_max_cons. destruct Hy as [<- | [<- | Hy]].
    + eapply leb_trans; [| apply first_max_ge_acc].
      destruct (ltb E x z) eqn:Hxz; [apply ltb_true in Hxz; tauto | apply leb_refl].
    + eapply leb_trans; [| apply first_max_ge_acc].
      destruct (ltb E x z) eqn:Hxz; [apply leb_refl | apply ltb_false_le; exact Hxz].
    + apply IH. right. exact Hy.
Qed.

(* FIRST: the result occurs at a position before which every element is strictly greater (min) /
   strictly smaller (max) *)
Theorem first_min_first : forall t x,
  exists pre post, x :: t = pre ++ first_min E x t :: post /\
    forall y, In y pre -> leb y (first_min E x t) = false.
Proof.
  induction t as [| z t IH]; intros x.
  - exists [], []. split; [reflexivity | intros y []].
  - rewrite first_min_cons. destruct (ltb E z x) eqn:Hzx.
    + destruct (IH z) as (pre & post & Heq & Hpre).
      exists (x :: pre), post. split; [cbn [app]; rewrite <- Heq; reflexivity |].
      intros y [<- | Hy]; [| apply Hpre; exact Hy].
      apply ltb_true in Hzx. destruct Hzx as [_ Hxz].
      destruct (leb x (first_min E z t)) eqn:Hc; [| reflexivity].
      rewrite <- Hxz. symmetry. eapply leb_trans; [exact Hc | apply first_min_le_acc].
    + destruct (IH x) as (pre & post & Heq & Hpre).
      destruct pre as [| p pre].
      * cbn [app] in Heq. injection Heq as Hx Ht.
        exists [], (z :: t). split; [cbn [app]; rewrite <- Hx; reflexivity | intros y []].
      * cbn [app] in Heq. injection Heq as Hp Ht. subst p.
        exists (x :: z :: pre), post. split; [cbn [app]; rewrite <- Ht; reflexivity |].
        intros y [<- | [<- | Hy]].
        -- apply Hpre. left. reflexivity.
        -- (* z is not below x, and x is strictly above the result *)
           assert (Hx : leb x (first_min E x t) = false) by (apply Hpre; left; reflexivity).
           destruct (leb z (first_min E x t)) eqn:Hc; [| reflexivity].
           rewrite <- Hx. symmetry. eapply leb_trans; [| exact Hc]. apply ltb_false_le. exact Hzx.
        -- apply Hpre. right. exact Hy.
Qed.

Theorem first_max_first : forall t x,
  exists pre post, x :: t = pre ++ first_max E x t :: post /\
    forall y, In y pre -> leb (first_max E x t) y = false.
Proof.
  induction t as [| z t IH]; intros x.
  - exists [], []. split; [reflexivity | intros y []].
  - rewrite first_max_cons. destruct (ltb E x z) eqn:Hxz.
    + destruct (IH z) as (pre & post & Heq & Hpre).
      exists (x :: pre), post. split; [cbn [app]; rewrite <- Heq; reflexivity |].
      intros y [<- | Hy]; [| apply Hpre; exact Hy].
      apply ltb_true in Hxz. destruct Hxz as [_ Hzx].
      destruct (leb (first_max E z t) x) eqn:Hc; [| reflexivity].
      rewrite <- Hzx. symmetry. eapply leb_trans; [apply first_max_ge_acc | exact Hc].
    + destruct (IH x) as (pre & post & Heq & Hpre).
      destruct pre as [| p pre].
      * cbn [app] in Heq. injection Heq as Hx Ht.
        exists [], (z :: t). split; [cbn [app]; rewrite <- Hx; reflexivity | intros y []].
      * cbn [app] in Heq. injection Heq as Hp Ht. subst p.
        exists (x :: z :: pre), post. split; [cbn [app]; rewrite <- Ht; reflexivity |].
        intros y [<- | [<- | Hy]].
        -- apply Hpre. left. reflexivity.
        -- assert (Hx : leb (first_max E x t) x = false) by (apply Hpre; left; reflexivity).
           destruct (leb (first_max E x t) z) eqn:Hc; [| reflexivity].
           rewrite <- Hx. symmetry. eapply leb_trans; [exact Hc |]. apply ltb_false_le. exact Hxz.
        -- apply Hpre. right. exact Hy.
Qed.

(* the whole of W3 in one statement *)
Theorem first_min_spec : forall x t,
  In (first_min E x t) (x :: t) /\
  (forall y, In y (x :: t) -> leb (first_min E x t) y = true) /\
  exists pre post, x :: t = pre ++ first_min E x t :: post /\
    forall y, In y pre -> leb y (first_min E x t) = false.
Proof.
  intros x t. split; [apply first_min_In |]. split; [apply first_min_le | apply first_min_first].
Qed.

Theorem first_max_spec : forall x t,
  In (first_max E x t) (x :: t) /\
  (forall y, In y (x :: t) -> leb y (first_max E x t) = true) /\
  exists pre post, x :: t = pre ++ first_max E x t :: post /\
    forall y, In y pre -> leb (first_max E x t) y = false.
Proof.
  intros x t. split; [apply first_max_In |]. split; [apply first_max_ge | apply first_max_first].
Qed.

End Ordered.

(* ================================================================== *)
(* W4: strategy_full = from_array, then n_bins and strategy_bins        *)
(* ================================================================== *)

Section Refines.
Variable O : ops T.
Variable repr : nat -> bool.
Variable fuel_of : T -> T -> T -> nat.

Lemma accepts_is_equispaced_ok : forall w mn mx,
  accepts E (o_zero O) w mn mx = equispaced_ok O leb w mn mx.
Proof. reflexivity. Qed.

Theorem strategy_full_refines : forall k data L w nb es,
  strategy_full E O repr fuel_of k data L = Ok (inr (w, nb, es)) ->
  exists mn mx,
    from_array E (o_zero O) k data L = Ok (inr (w, mn, mx)) /\
    n_bins O leb repr (fuel_of w mn mx) mn w mx = Ok nb /\
    build O leb repr (fuel_of w mn mx) mn w mx = Ok es /\
    strategy_bins O leb repr (fuel_of w mn mx) data mn mx w = Ok (inr es).
Proof.
  intros k data L w nb es H. unfold strategy_full in H.
  apply bind_Ok_inv in H. destruct H as (r & Hr & H).
  destruct r as [e | [[w0 mn] mx]]; [discriminate H |].
  apply bind_Ok_inv in H. destruct H as (nb0 & Hnb & H).
  apply bind_Ok_inv in H. destruct H as (es0 & Hes & H).
  injection H as -> -> ->.
  exists mn, mx. split; [exact Hr |]. split; [exact Hnb |]. split; [exact Hes |].
  destruct (from_array_inr_nonempty _ _ _ _ _ Hr) as (x & t & ->).
  apply from_array_inr in Hr. destruct Hr as (Hacc & _ & _).
  cbn [strategy_bins]. rewrite <- accepts_is_equispaced_ok, Hacc, Hes. reflexivity.
Qed.

(* the converse: what strategy_full is, given from_array's outcome *)
Theorem strategy_full_of_from_array_inr : forall k data L w mn mx,
  from_array E (o_zero O) k data L = Ok (inr (w, mn, mx)) ->
  strategy_full E O repr fuel_of k data L =
  (nb <- n_bins O leb repr (fuel_of w mn mx) mn w mx ;;
   es <- build O leb repr (fuel_of w mn mx) mn w mx ;; Ok (inr (w, nb, es))).
Proof. intros k data L w mn mx H. unfold strategy_full. rewrite H. reflexivity. Qed.

Theorem strategy_full_of_from_array_inl : forall k data L e,
  from_array E (o_zero O) k data L = Ok (inl e) ->
  strategy_full E O repr fuel_of k data L = Ok (inl e).
Proof. intros k data L e H. unfold strategy_full. rewrite H. reflexivity. Qed.

Theorem strategy_full_err_iff : forall k data L e,
  strategy_full E O repr fuel_of k data L = Ok (inl e) <->
  from_array E (o_zero O) k data L = Ok (inl e).
Proof.
  intros k data L e. split; [| apply strategy_full_of_from_array_inl].
  intros H. unfold strategy_full in H.
  apply bind_Ok_inv in H. destruct H as (r & Hr & H).
  destruct r as [e0 | [[w0 mn] mx]].
  - injection H as ->. exact Hr.
  - apply bind_Ok_inv in H. destruct H as (nb0 & _ & H).
    apply bind_Ok_inv in H. destruct H as (es0 & _ & H). discriminate H.
Qed.

(* a failing from_array is a failing strategy_full, with the same failure *)
Theorem strategy_full_of_from_array_panic : forall k data L,
  from_array E (o_zero O) k data L = Panic -> strategy_full E O repr fuel_of k data L = Panic.
Proof. intros k data L H. unfold strategy_full. rewrite H. reflexivity. Qed.

(* strategy_full depends on the kind only through from_array's outcome *)
Lemma strategy_full_congr : forall k k' data L,
  from_array E (o_zero O) k data L = from_array E (o_zero O) k' data L ->
  strategy_full E O repr fuel_of k data L = strategy_full E O repr fuel_of k' data L.
Proof. intros k k' data L H. unfold strategy_full. rewrite H. reflexivity. Qed.

(* ---- W7: Auto ---- *)

(* when both accept, Auto uses the smaller width (Sturges' only when strictly smaller) *)
Theorem auto_both_accept : forall zero data L wf mnf mxf ws mns mxs,
  from_array E zero KFD data L = Ok (inr (wf, mnf, mxf)) ->
  from_array E zero KSturges data L = Ok (inr (ws, mns, mxs)) ->
  from_array E zero KAuto data L =
    Ok (inr (if ltb E ws wf then (ws, mns, mxs) else (wf, mnf, mxf))) /\
  mnf = mns /\ mxf = mxs.
Proof.
  intros zero data L wf mnf mxf ws mns mxs Hf Hs.
  split.
  - rewrite auto_unfold, Hf, Hs. cbn [bind]. destruct (ltb E ws wf); reflexivity.
  - destruct (from_array_inr_nonempty _ _ _ _ _ Hf) as (x & t & ->).
    apply from_array_inr in Hf. apply from_array_inr in Hs.
    destruct Hf as (_ & -> & ->). destruct Hs as (_ & -> & ->). split; reflexivity.
Qed.

Theorem auto_only_sturges : forall zero data L e s,
  from_array E zero KFD data L = Ok (inl e) ->
  from_array E zero KSturges data L = Ok (inr s) ->
  from_array E zero KAuto data L = Ok (inr s).
Proof. intros zero data L e s Hf Hs. rewrite auto_unfold, Hf, Hs. reflexivity. Qed.

Theorem auto_only_fd : forall zero data L e f,
  from_array E zero KFD data L = Ok (inr f) ->
  from_array E zero KSturges data L = Ok (inl e) ->
  from_array E zero KAuto data L = Ok (inr f).
Proof. intros zero data L e f Hf Hs. rewrite auto_unfold, Hf, Hs. destruct f as [[? ?] ?]. reflexivity. Qed.

Theorem auto_neither : forall zero data L e e',
  from_array E zero KFD data L = Ok (inl e) ->
  from_array E zero KSturges data L = Ok (inl e') ->
  from_array E zero KAuto data L = Ok (inl e).
Proof. intros zero data L e e' Hf Hs. rewrite auto_unfold, Hf, Hs. reflexivity. Qed.

(* Auto's grid is exactly the grid of the strategy it picked *)
Theorem auto_grid_is_fd_or_sturges : forall data L,
  strategy_full E O repr fuel_of KAuto data L = strategy_full E O repr fuel_of KFD data L \/
  strategy_full E O repr fuel_of KAuto data L = strategy_full E O repr fuel_of KSturges data L.
Proof.
  intros data L.
  destruct (auto_is_fd_or_sturges (o_zero O) data L) as [H | H]; [left | right];
    apply strategy_full_congr; exact H.
Qed.

Theorem auto_grid_both_accept : forall data L wf mnf mxf ws mns mxs,
  from_array E (o_zero O) KFD data L = Ok (inr (wf, mnf, mxf)) ->
  from_array E (o_zero O) KSturges data L = Ok (inr (ws, mns, mxs)) ->
  strategy_full E O repr fuel_of KAuto data L =
    if ltb E ws wf then strategy_full E O repr fuel_of KSturges data L
    else strategy_full E O repr fuel_of KFD data L.
Proof.
  intros data L wf mnf mxf ws mns mxs Hf Hs.
  destruct (auto_both_accept _ _ _ _ _ _ _ _ _ Hf Hs) as (Ha & _).
  destruct (ltb E ws wf); apply strategy_full_congr; rewrite Ha; symmetry; assumption.
Qed.

End Refines.

(* ================================================================== *)
(* W5 (generic): constant data is never accepted                        *)
(* ================================================================== *)

Lemma first_min_const : forall x t, Forall (fun y => y = x) t -> first_min E x t = x.
Proof.
  intros x t H. induction H as [| y t -> _ IH]; [reflexivity |].
  rewrite first_min_cons, ltb_irrefl. exact IH.
Qed.

Lemma first_max_const : forall x t, Forall (fun y => y = x) t -> first_max E x t = x.
Proof.
  intros x t H. induction H as [| y t -> _ IH]; [reflexivity |].
  rewrite first_max_cons, ltb_irrefl. exact IH.
Qed.

Lemma accepts_same_false : forall zero w x, leb x x = true -> accepts E zero w x x = false.
Proof. intros zero w x H. unfold accepts. rewrite H. apply andb_false_r. Qed.

Lemma simple_const : forall zero k x t L r, leb x x = true -> Forall (fun y => y = x) t ->
  simple_from_array E zero k (x :: t) L = Ok r -> r = inl SE_Strategy.
Proof.
  intros zero k x t L r Hxx Hc H. cbn [simple_from_array] in H.
  rewrite (first_min_const x t Hc), (first_max_const x t Hc) in H.
  apply bind_Ok_inv in H. destruct H as (w & _ & H).
  rewrite (accepts_same_false zero w x Hxx) in H. injection H as <-. reflexivity.
Qed.

Lemma fd_const : forall zero x t L r, leb x x = true -> Forall (fun y => y = x) t ->
  fd_from_array E zero (x :: t) L = Ok r -> r = inl SE_Strategy.
Proof.
  intros zero x t L r Hxx Hc H. cbn [fd_from_array] in H.
  rewrite (first_min_const x t Hc), (first_max_const x t Hc) in H.
  apply bind_Ok_inv in H. destruct H as (w & _ & H).
  rewrite (accepts_same_false zero w x Hxx) in H. injection H as <-. reflexivity.
Qed.

(* whenever from_array returns at all on constant data, it returns the Strategy error *)
Theorem from_array_constant : forall zero k x t L r,
  leb x x = true -> Forall (fun y => y = x) t ->
  from_array E zero k (x :: t) L = Ok r -> r = inl SE_Strategy.
Proof.
  intros zero k x t L r Hxx Hc H. destruct k.
  - exact (simple_const _ _ _ _ _ _ Hxx Hc H).
  - exact (simple_const _ _ _ _ _ _ Hxx Hc H).
  - exact (simple_const _ _ _ _ _ _ Hxx Hc H).
  - exact (fd_const _ _ _ _ _ Hxx Hc H).
  - destruct (auto_is_fd_or_sturges zero (x :: t) L) as [Eq | Eq]; rewrite Eq in H.
    + exact (fd_const _ _ _ _ _ Hxx Hc H).
    + exact (simple_const _ _ _ _ _ _ Hxx Hc H).
Qed.

Corollary from_array_constant_total : forall zero k x t L r,
  total leb -> Forall (fun y => y = x) t ->
  from_array E zero k (x :: t) L = Ok r -> r = inl SE_Strategy.
Proof.
  intros zero k x t L r Ht. apply from_array_constant. destruct (Ht x x); assumption.
Qed.

(* the failure outcomes: element types whose arithmetic never reports OutOfFuel *)
Definition arith_no_oof : Prop :=
  (forall a b, e_sub E a b <> OutOfFuel) /\ (forall a b, e_mul E a b <> OutOfFuel) /\
  (forall a b, e_div E a b <> OutOfFuel).

Lemma bind_not_oof : forall {A B} (r : res A) (f : A -> res B),
  r <> OutOfFuel -> (forall x, f x <> OutOfFuel) -> bind r f <> OutOfFuel.
Proof. intros A B [x | |] f Hr Hf; cbn [bind]; [apply Hf | discriminate | congruence]. Qed.

Lemma unwrap_not_oof : forall {A} (o : option A), unwrap o <> OutOfFuel.
Proof. intros A [a |]; discriminate. Qed.

Lemma get_not_oof : forall {A} (l : list A) i, get l i <> OutOfFuel.
Proof. intros A l i. unfold get. destruct (nth_error l i); discriminate. Qed.

Lemma qspec_nearest_not_oof : forall (srt : list T) q, qspec (e_car E) Nearest srt q <> OutOfFuel.
Proof.
  intros srt q. unfold qspec.
  apply bind_not_oof.
  - destruct (needs_lower Nearest q (length srt)); [| discriminate].
    apply bind_not_oof; [apply unwrap_not_oof |]. intros i.
    apply bind_not_oof; [apply get_not_oof |]. intros v. discriminate.
  - intros lo. apply bind_not_oof.
    + destruct (needs_higher Nearest q (length srt)); [| discriminate].
      apply bind_not_oof; [apply unwrap_not_oof |]. intros i.
      apply bind_not_oof; [apply get_not_oof |]. intros v. discriminate.
    + intros hi. cbn [interpolate].
      destruct (needs_lower Nearest q (length srt)); apply unwrap_not_oof.
Qed.

Theorem from_array_not_oof : arith_no_oof -> forall zero k data L,
  from_array E zero k data L <> OutOfFuel.
Proof.
  intros (Hsub & Hmul & Hdiv).
  assert (Hsimple : forall zero k data L, simple_from_array E zero k data L <> OutOfFuel).
  { intros zero k [| x t] L; [discriminate |]. cbn [simple_from_array].
    apply bind_not_oof.
    - unfold width_of_count. apply bind_not_oof; [apply Hsub |]. intros r.
      apply bind_not_oof; [apply unwrap_not_oof |]. intros d. apply Hdiv.
    - intros w. destruct (accepts E zero w _ _); discriminate. }
  assert (Hfd : forall zero data L, fd_from_array E zero data L <> OutOfFuel).
  { intros zero [| x t] L; [discriminate |]. cbn [fd_from_array].
    apply bind_not_oof.
    - unfold fd_width.
      apply bind_not_oof; [apply qspec_nearest_not_oof |]. intros a.
      apply bind_not_oof; [apply qspec_nearest_not_oof |]. intros b.
      apply bind_not_oof; [apply Hsub |]. intros iqr.
      apply bind_not_oof; [apply unwrap_not_oof |]. intros two.
      apply bind_not_oof; [apply Hmul |]. intros num.
      apply bind_not_oof; [apply unwrap_not_oof |]. intros den. apply Hdiv.
    - intros w. destruct (accepts E zero w _ _); discriminate. }
  intros zero k data L. destruct k; try apply Hsimple; try apply Hfd.
  destruct (auto_is_fd_or_sturges zero data L) as [Eq | Eq]; rewrite Eq; [apply Hfd | apply Hsimple].
Qed.

(* W5 as a dichotomy *)
Theorem from_array_constant_cases : arith_no_oof -> forall zero k x t L,
  leb x x = true -> Forall (fun y => y = x) t ->
  from_array E zero k (x :: t) L = Ok (inl SE_Strategy) \/ from_array E zero k (x :: t) L = Panic.
Proof.
  intros Hno zero k x t L Hxx Hc.
  pose proof (from_array_not_oof Hno zero k (x :: t) L) as Hoof.
  pose proof (from_array_constant zero k x t L) as Hr.
  destruct (from_array E zero k (x :: t) L) as [r | |].
  - left. rewrite (Hr r Hxx Hc eq_refl). reflexivity.
  - right. reflexivity.
  - congruence.
Qed.

End Generic.

(* ================================================================== *)
(* indexes: a successful run never consulted an unrepresentable index   *)
(* ================================================================== *)

Section Repr.
Context {T : Type}.
Variable O : ops T.
Variable leb : T -> T -> bool.
Variable repr : nat -> bool.
Notation allr := (fun _ : nat => true).

Lemma edge_repr_cases : forall mn w i,
  edge O repr mn w i = Panic \/ edge O repr mn w i = edge O allr mn w i.
Proof. intros mn w i. unfold edge. destruct (repr i); [right | left]; reflexivity. Qed.

Lemma n_bins_loop_repr_cases : forall fuel mn w mx n,
  n_bins_loop O leb repr fuel mn w mx n = Panic \/
  n_bins_loop O leb repr fuel mn w mx n = n_bins_loop O leb allr fuel mn w mx n.
Proof.
  induction fuel as [| f IH]; intros mn w mx n; cbn [n_bins_loop]; [right; reflexivity |].
  unfold edge. destruct (repr n); cbn [bind]; [| left; reflexivity].
  destruct (leb _ mx); [apply IH | right; reflexivity].
Qed.

Lemma edges_upto_repr_cases : forall k mn w i,
  edges_upto O repr mn w k i = Panic \/ edges_upto O repr mn w k i = edges_upto O allr mn w k i.
Proof.
  induction k as [| k IH]; intros mn w i; cbn [edges_upto]; [right; reflexivity |].
  unfold edge. destruct (repr i); cbn [bind]; [| left; reflexivity].
  destruct (IH mn w (S i)) as [-> | ->]; [left | right]; reflexivity.
Qed.

Theorem n_bins_repr_cases : forall fuel mn w mx,
  n_bins O leb repr fuel mn w mx = Panic \/
  n_bins O leb repr fuel mn w mx = n_bins O leb allr fuel mn w mx.
Proof. intros. apply n_bins_loop_repr_cases. Qed.

Theorem build_repr_cases : forall fuel mn w mx,
  build O leb repr fuel mn w mx = Panic \/
  build O leb repr fuel mn w mx = build O leb allr fuel mn w mx.
Proof.
  intros fuel mn w mx. unfold build.
  destruct (n_bins_repr_cases fuel mn w mx) as [-> | ->]; [left; reflexivity |].
  destruct (n_bins O leb allr fuel mn w mx) as [n | |]; cbn [bind]; try (right; reflexivity).
  destruct (edges_upto_repr_cases (S n) mn w 0) as [-> | ->]; [left | right]; reflexivity.
Qed.

Theorem n_bins_repr_ok : forall fuel mn w mx n,
  n_bins O leb repr fuel mn w mx = Ok n -> n_bins O leb allr fuel mn w mx = Ok n.
Proof.
  intros fuel mn w mx n H. destruct (n_bins_repr_cases fuel mn w mx) as [Hp | <-]; [congruence | exact H].
Qed.

Theorem build_repr_ok : forall fuel mn w mx es,
  build O leb repr fuel mn w mx = Ok es -> build O leb allr fuel mn w mx = Ok es.
Proof.
  intros fuel mn w mx es H. destruct (build_repr_cases fuel mn w mx) as [Hp | <-]; [congruence | exact H].
Qed.

End Repr.

Section ReprFull.
Context {T : Type}.
Variable E : elt T.
Variable O : ops T.
Variable repr : nat -> bool.
Notation allr := (fun _ : nat => true).

Theorem strategy_full_repr_cases : forall fuel_of k data L,
  strategy_full E O repr fuel_of k data L = Panic \/
  strategy_full E O repr fuel_of k data L = strategy_full E O allr fuel_of k data L.
Proof.
  intros fuel_of k data L. unfold strategy_full.
  destruct (from_array E (o_zero O) k data L) as [[e | [[w mn] mx]] | |]; cbn [bind];
    try (right; reflexivity).
  destruct (n_bins_repr_cases O (e_leb E) repr (fuel_of w mn mx) mn w mx) as [-> | ->];
    [left; reflexivity |].
  destruct (n_bins O (e_leb E) allr (fuel_of w mn mx) mn w mx) as [n | |]; cbn [bind];
    try (right; reflexivity).
  destruct (build_repr_cases O (e_leb E) repr (fuel_of w mn mx) mn w mx) as [-> | ->];
    [left | right]; reflexivity.
Qed.

Theorem strategy_full_repr_ok : forall fuel_of k data L r,
  strategy_full E O repr fuel_of k data L = Ok r ->
  strategy_full E O allr fuel_of k data L = Ok r.
Proof.
  intros fuel_of k data L r H.
  destruct (strategy_full_repr_cases fuel_of k data L) as [Hp | <-]; [congruence | exact H].
Qed.

End ReprFull.

(* ================================================================== *)
(* the dichotomy "Strategy error or Panic" on constant data needs the   *)
(* element arithmetic not to report OutOfFuel: literally, for EVERY elt *)
(* with a total order, it is false                                      *)
(* ================================================================== *)

Definition oof_elt : elt unit := {|
  e_leb := fun _ _ => true;
  e_sub := fun _ _ => OutOfFuel; e_mul := fun _ _ => OutOfFuel; e_div := fun _ _ => OutOfFuel;
  e_of_usize := fun _ => Some tt; e_of_f64 := fun _ => Some tt;
  e_car := {| c_leb := fun _ _ => true; c_midpoint := fun _ _ => Ok tt; c_linear := fun _ _ _ => Ok tt |} |}.

Example constant_dichotomy_refuted_for_arbitrary_elt :
  exists (T : Type) (E : elt T) zero k x t L,
    total (e_leb E) /\ transitive (e_leb E) /\ Forall (fun y => y = x) t /\
    from_array E zero k (x :: t) L <> Ok (inl SE_Strategy) /\ from_array E zero k (x :: t) L <> Panic.
Proof.
  exists unit, oof_elt, tt, KSqrt, tt, [tt], {| l_cbrt := fzero; l_log2 := fzero |}.
  split; [intros a b; left; reflexivity |]. split; [intros a b c _ _; reflexivity |].
  split; [constructor; [reflexivity | constructor] |].
  assert (H : from_array oof_elt tt KSqrt [tt; tt] {| l_cbrt := fzero; l_log2 := fzero |} = OutOfFuel)
    by reflexivity.
  rewrite H. split; discriminate.
Qed.
