(* Proofs about the Histogram model (Hist/Histogram.v): row-major flattening is a
   bijection on in-range tuples, every accepted observation lands in range, and
   the counts are exactly the number of observations per bin tuple, independent
   of order.  Nothing here needs any order hypothesis on [leb]. *)
From Coq Require Import List Arith Lia Permutation Bool.
Import ListNotations.
From NS Require Import Base.Res Base.ArrLemmas Hist.Edges Hist.Histogram.

(* ------------------------------------------------------------------ *)
(* 1. prod_list                                                        *)
(* ------------------------------------------------------------------ *)
Lemma fold_left_mul_acc l : forall a, fold_left Nat.mul l a = a * fold_left Nat.mul l 1.
Proof.
  induction l as [|x l IH]; intros a; cbn [fold_left].
  - lia.
  - rewrite (IH (a * x)), (IH (1 * x)). ring.
Qed.

Lemma prod_list_nil : prod_list [] = 1.
Proof. reflexivity. Qed.

Lemma prod_list_cons s t : prod_list (s :: t) = s * prod_list t.
Proof.
  unfold prod_list. cbn [fold_left]. rewrite fold_left_mul_acc. ring.
Qed.

Lemma prod_list_zero l : In 0 l -> prod_list l = 0.
Proof.
  induction l as [|x l IH]; intros Hin.
  - destruct Hin.
  - rewrite prod_list_cons. destruct Hin as [Hx | Hin].
    + subst. reflexivity.
    + rewrite (IH Hin). lia.
Qed.

(* ------------------------------------------------------------------ *)
(* 2. ravel                                                            *)
(* ------------------------------------------------------------------ *)
Lemma ravel_from_lt idx shape :
  Forall2 lt idx shape -> forall acc, ravel_from acc shape idx < S acc * prod_list shape.
Proof.
  induction 1 as [|i s idx shape Hlt HF IH]; intros acc.
  - cbn [ravel_from]. rewrite prod_list_nil. lia.
  - cbn [ravel_from]. rewrite prod_list_cons.
    specialize (IH (acc * s + i)).
    assert (Hle : S (acc * s + i) <= S acc * s) by nia.
    apply Nat.lt_le_trans with (1 := IH).
    rewrite Nat.mul_assoc. apply Nat.mul_le_mono_r. exact Hle.
Qed.

Lemma ravel_lt : forall shape idx, Forall2 lt idx shape -> ravel shape idx < prod_list shape.
Proof.
  intros shape idx HF. unfold ravel.
  pose proof (ravel_from_lt idx shape HF 0) as HL. lia.
Qed.

Lemma ravel_from_inj idx shape :
  Forall2 lt idx shape -> forall idx', Forall2 lt idx' shape ->
  forall acc acc', ravel_from acc shape idx = ravel_from acc' shape idx' ->
  acc = acc' /\ idx = idx'.
Proof.
  induction 1 as [|i s idx shape Hlt HF IH]; intros idx' HF'; inversion HF' as [|i' s' idx'' shape' Hlt' HF'' E1 E2]; subst;
    intros acc acc' E.
  - cbn [ravel_from] in E. auto.
  - cbn [ravel_from] in E. apply (IH _ HF'') in E. destruct E as [Ea Ei]. subst idx''.
    assert (Hacc : acc = acc').
    { destruct (lt_eq_lt_dec acc acc') as [[Hl | He] | Hg]; [exfalso; nia | exact He | exfalso; nia]. }
    subst acc'. assert (i = i') by lia. subst i'. auto.
Qed.

Lemma ravel_inj : forall shape idx idx',
  Forall2 lt idx shape -> Forall2 lt idx' shape ->
  ravel shape idx = ravel shape idx' -> idx = idx'.
Proof.
  intros shape idx idx' H1 H2 E. unfold ravel in E.
  apply (ravel_from_inj idx shape H1 idx' H2) in E. tauto.
Qed.

(* ------------------------------------------------------------------ *)
(* 3. bump                                                             *)
(* ------------------------------------------------------------------ *)
Lemma bump_length : forall k c, length (bump k c) = length c.
Proof.
  intros k c; revert k. induction c as [|x c IH]; intros k; [destruct k; reflexivity|].
  destruct k; simpl; [reflexivity | now rewrite IH].
Qed.

Lemma nth_bump_eq : forall k c, k < length c -> nth k (bump k c) 0 = S (nth k c 0).
Proof.
  intros k c; revert k. induction c as [|x c IH]; intros k Hk; simpl in Hk; [lia|].
  destruct k; simpl; [reflexivity | apply IH; lia].
Qed.

Lemma nth_bump_neq : forall k m c, k <> m -> nth m (bump k c) 0 = nth m c 0.
Proof.
  intros k m c; revert k m. induction c as [|x c IH]; intros k m Hkm; [destruct k; reflexivity|].
  destruct k, m; simpl; try reflexivity; [lia | apply IH; lia].
Qed.

Lemma bump_comm : forall k m c, bump k (bump m c) = bump m (bump k c).
Proof.
  intros k m c; revert k m. induction c as [|x c IH]; intros k m; [destruct k, m; reflexivity|].
  destruct k, m; simpl; try reflexivity. now rewrite IH.
Qed.

Lemma list_sum_bump : forall k c, k < length c -> list_sum (bump k c) = S (list_sum c).
Proof.
  intros k c; revert k. induction c as [|x c IH]; intros k Hk; simpl in Hk; [lia|].
  destruct k; simpl; [reflexivity | rewrite IH; lia].
Qed.

Lemma nth_repeat0 n k : nth k (repeat 0 n) 0 = 0.
Proof.
  revert k. induction n as [|n IH]; intros k; destruct k; simpl; auto.
Qed.

Section HP.
Variable A : Type.
Variable leb : A -> A -> bool.

(* ------------------------------------------------------------------ *)
(* 4. lookups are in range                                             *)
(* ------------------------------------------------------------------ *)
Lemma bsearch_bounds es v : forall pos found k,
  bsearch A leb es v pos = (found, k) ->
  pos <= k <= pos + length es /\ (found = true -> k < pos + length es).
Proof.
  induction es as [|e t IH]; intros pos found k Hb; simpl in Hb.
  - inversion Hb; subst. simpl. split; [lia | discriminate].
  - match type of Hb with (if ?b then _ else _) = _ => destruct b end.
    + inversion Hb; subst. simpl. split; lia.
    + match type of Hb with (if ?b then _ else _) = _ => destruct b end.
      * apply IH in Hb. destruct Hb as [Hr Hf]. simpl. split; [lia|].
        intros Ht. specialize (Hf Ht). lia.
      * inversion Hb; subst. simpl. split; [lia | discriminate].
Qed.

Lemma bins_len_eq es : bins_len A es = length es - 1.
Proof. unfold bins_len. destruct (length es); lia. Qed.

Lemma index_of_bound : forall es v i, index_of A leb es v = Some i -> i < bins_len A es.
Proof.
  intros es v i. unfold index_of, indices_of. cbv zeta. rewrite bins_len_eq.
  destruct (bsearch A leb es v 0) as [f k] eqn:E.
  apply bsearch_bounds in E. destruct E as [[E1 E2] E3]. destruct f.
  - specialize (E3 eq_refl).
    destruct (Nat.eqb_spec k (length es - 1)); intros H; inversion H; subst; lia.
  - destruct k as [|k]; [discriminate|].
    destruct (Nat.eqb_spec (S k) (length es)); intros H; inversion H; subst; lia.
Qed.

Lemma index_all_in_shape : forall g pt idx,
  length pt = length g -> index_all A leb g pt = Some idx -> Forall2 lt idx (grid_shape A g).
Proof.
  induction g as [|es g IH]; intros pt idx Hlen Hi.
  - destruct pt; simpl in Hi; inversion Hi; constructor.
  - destruct pt as [|v pt]; simpl in Hlen; [discriminate|]. simpl in Hi.
    destruct (index_of A leb es v) as [i|] eqn:Ei; [|discriminate].
    destruct (index_all A leb g pt) as [r|] eqn:Er; [|discriminate].
    inversion Hi; subst. change (grid_shape A (es :: g)) with (bins_len A es :: grid_shape A g).
    constructor.
    + eapply index_of_bound; eauto.
    + apply IH with pt; auto.
Qed.

Lemma grid_index_of_arity_ok g pt :
  length pt = length g -> grid_index_of A leb g pt = Ok (index_all A leb g pt).
Proof. intros H. unfold grid_index_of. rewrite H, Nat.eqb_refl. reflexivity. Qed.

Lemma grid_index_of_Ok_len g pt r : grid_index_of A leb g pt = Ok r -> length pt = length g.
Proof.
  unfold grid_index_of. destruct (Nat.eqb_spec (length pt) (length g)); [auto | discriminate].
Qed.

Lemma grid_index_of_not_fuel g pt : grid_index_of A leb g pt <> OutOfFuel.
Proof. unfold grid_index_of. destruct (length pt =? length g); discriminate. Qed.

Lemma grid_index_of_in_shape : forall g pt idx,
  grid_index_of A leb g pt = Ok (Some idx) -> Forall2 lt idx (grid_shape A g).
Proof.
  intros g pt idx H. pose proof (grid_index_of_Ok_len _ _ _ H) as Hlen.
  rewrite (grid_index_of_arity_ok _ _ Hlen) in H. inversion H as [Hi].
  eapply index_all_in_shape; eauto.
Qed.

(* ------------------------------------------------------------------ *)
(* 5. add_observation, case by case                                    *)
(* ------------------------------------------------------------------ *)
Lemma add_observation_arity : forall g c pt,
  length pt <> length g -> add_observation A leb g c pt = Panic.
Proof.
  intros g c pt H. unfold add_observation, grid_index_of.
  apply Nat.eqb_neq in H. rewrite H. reflexivity.
Qed.

Lemma add_observation_reject : forall g c pt,
  grid_index_of A leb g pt = Ok None -> add_observation A leb g c pt = Ok (c, BinNotFound).
Proof. intros g c pt H. unfold add_observation. rewrite H. reflexivity. Qed.

(* the accepted case needs the flat index to be inside the counts array ... *)
Lemma add_observation_accept : forall g c pt idx,
  grid_index_of A leb g pt = Ok (Some idx) ->
  ravel (grid_shape A g) idx < length c ->
  add_observation A leb g c pt = Ok (bump (ravel (grid_shape A g) idx) c, Added).
Proof.
  intros g c pt idx H Hk. unfold add_observation. rewrite H. cbn [bind]. cbv zeta.
  destruct (Nat.ltb_spec (ravel (grid_shape A g) idx) (length c)) as [Hlt | Hge]; [reflexivity | lia].
Qed.

(* ... which is automatic when the counts array has the grid's size *)
Lemma add_observation_accept_len : forall g c pt idx,
  grid_index_of A leb g pt = Ok (Some idx) ->
  length c = prod_list (grid_shape A g) ->
  add_observation A leb g c pt = Ok (bump (ravel (grid_shape A g) idx) c, Added).
Proof.
  intros g c pt idx H Hlen. apply add_observation_accept; [exact H|].
  rewrite Hlen. apply ravel_lt. eapply grid_index_of_in_shape; exact H.
Qed.

(* ... and otherwise the indexing [self.counts[&*bin_index]] panics *)
Lemma add_observation_accept_oob : forall g c pt idx,
  grid_index_of A leb g pt = Ok (Some idx) ->
  length c <= ravel (grid_shape A g) idx ->
  add_observation A leb g c pt = Panic.
Proof.
  intros g c pt idx H Hk. unfold add_observation. rewrite H. cbn [bind]. cbv zeta.
  destruct (Nat.ltb_spec (ravel (grid_shape A g) idx) (length c)) as [Hlt | Hge]; [lia | reflexivity].
Qed.

Lemma add_observation_not_fuel g c pt : add_observation A leb g c pt <> OutOfFuel.
Proof.
  unfold add_observation, grid_index_of.
  destruct (length pt =? length g); [destruct (index_all A leb g pt) as [idx|]|]; cbn [bind]; cbv zeta;
    try discriminate.
  destruct (Nat.ltb_spec (ravel (grid_shape A g) idx) (length c)) as [Hlt | Hge]; discriminate.
Qed.

(* inversion: the only two ways of getting [Ok] *)
Lemma add_observation_Ok_inv : forall g c pt r,
  add_observation A leb g c pt = Ok r ->
  (grid_index_of A leb g pt = Ok None /\ r = (c, BinNotFound)) \/
  (exists idx, grid_index_of A leb g pt = Ok (Some idx) /\
     ravel (grid_shape A g) idx < length c /\
     r = (bump (ravel (grid_shape A g) idx) c, Added)).
Proof.
  intros g c pt r H. unfold add_observation in H.
  destruct (grid_index_of A leb g pt) as [[idx|]| |]; cbn [bind] in H; cbv zeta in H; try discriminate.
  - destruct (Nat.ltb_spec (ravel (grid_shape A g) idx) (length c)) as [Hlt | Hge]; [|discriminate].
    right. exists idx. inversion H; subst. auto.
  - left. inversion H; subst. auto.
Qed.

Lemma add_observation_length : forall g c pt r,
  add_observation A leb g c pt = Ok r -> length (fst r) = length c.
Proof.
  intros g c pt r H. apply add_observation_Ok_inv in H.
  destruct H as [[_ Hr] | [idx [_ [_ Hr]]]]; subst r; cbn [fst]; [reflexivity | apply bump_length].
Qed.

(* ------------------------------------------------------------------ *)
(* 6. main invariant                                                   *)
(* ------------------------------------------------------------------ *)
Definition lands (g : grid A) (idx : list nat) (pt : list A) : bool :=
  match grid_index_of A leb g pt with
  | Ok (Some idx') => if list_eq_dec Nat.eq_dec idx' idx then true else false
  | _ => false
  end.

Definition hits (g : grid A) (idx : list nat) (h : list (list A)) : nat :=
  length (filter (lands g idx) h).

Lemma lands_iff g idx pt : lands g idx pt = true <-> grid_index_of A leb g pt = Ok (Some idx).
Proof.
  unfold lands. destruct (grid_index_of A leb g pt) as [[idx'|]| |]; try (split; discriminate).
  destruct (list_eq_dec Nat.eq_dec idx' idx) as [E|N]; split; intros H; try congruence.
Qed.

Lemma hits_cons g idx pt t :
  hits g idx (pt :: t) = (if lands g idx pt then 1 else 0) + hits g idx t.
Proof. unfold hits. simpl. destruct (lands g idx pt); reflexivity. Qed.

Theorem hist_inv : forall g h c0 c,
  Forall (fun pt => length pt = length g) h ->
  length c0 = prod_list (grid_shape A g) ->
  add_all A leb g c0 h = Ok c ->
  length c = length c0 /\
  forall idx, Forall2 lt idx (grid_shape A g) ->
    nth (ravel (grid_shape A g) idx) c 0 = nth (ravel (grid_shape A g) idx) c0 0 + hits g idx h.
Proof.
  intros g h. induction h as [|pt t IH]; intros c0 c HF Hlen Hadd.
  - simpl in Hadd. inversion Hadd; subst. split; [reflexivity|].
    intros idx _. unfold hits. simpl. lia.
  - inversion HF as [|? ? Hpt HF']; subst. cbn [add_all] in Hadd.
    pose proof (grid_index_of_arity_ok g pt Hpt) as Hg.
    destruct (index_all A leb g pt) as [idx'|] eqn:Eia.
    + rewrite (add_observation_accept_len _ c0 _ _ Hg Hlen) in Hadd. cbn [bind fst] in Hadd.
      pose proof (grid_index_of_in_shape _ _ _ Hg) as Hin.
      pose proof (ravel_lt _ _ Hin) as Hk.
      apply IH in Hadd; [| exact HF' | rewrite bump_length; exact Hlen].
      destruct Hadd as [Hl Hn]. rewrite bump_length in Hl. split; [exact Hl|].
      intros idx Hidx. rewrite (Hn idx Hidx), hits_cons.
      unfold lands. rewrite Hg.
      destruct (list_eq_dec Nat.eq_dec idx' idx) as [E|N].
      * subst idx'. rewrite nth_bump_eq by lia. lia.
      * rewrite nth_bump_neq; [lia|].
        intros E. apply N. eapply ravel_inj; eauto.
    + rewrite (add_observation_reject _ c0 _ Hg) in Hadd. cbn [bind fst] in Hadd.
      apply IH in Hadd; [| exact HF' | exact Hlen].
      destruct Hadd as [Hl Hn]. split; [exact Hl|].
      intros idx Hidx. rewrite (Hn idx Hidx), hits_cons.
      unfold lands. rewrite Hg. lia.
Qed.

(* the length of the counts array never changes *)
Lemma add_all_length : forall g h c0 c,
  add_all A leb g c0 h = Ok c -> length c = length c0.
Proof.
  intros g h. induction h as [|pt t IH]; intros c0 c Hadd.
  - simpl in Hadd. inversion Hadd; subst. reflexivity.
  - cbn [add_all] in Hadd.
    destruct (add_observation A leb g c0 pt) as [r| |] eqn:E; cbn [bind] in Hadd; try discriminate.
    apply IH in Hadd. rewrite Hadd. eapply add_observation_length; exact E.
Qed.

Theorem add_all_ok : forall g h c0,
  Forall (fun pt => length pt = length g) h ->
  length c0 = prod_list (grid_shape A g) ->
  exists c, add_all A leb g c0 h = Ok c.
Proof.
  intros g h. induction h as [|pt t IH]; intros c0 HF Hlen.
  - exists c0. reflexivity.
  - inversion HF as [|? ? Hpt HF']; subst. cbn [add_all].
    pose proof (grid_index_of_arity_ok g pt Hpt) as Hg.
    destruct (index_all A leb g pt) as [idx'|].
    + rewrite (add_observation_accept_len _ c0 _ _ Hg Hlen). cbn [bind fst].
      apply IH; [exact HF' | rewrite bump_length; exact Hlen].
    + rewrite (add_observation_reject _ c0 _ Hg). cbn [bind fst]. apply IH; [exact HF' | exact Hlen].
Qed.

(* ------------------------------------------------------------------ *)
(* 7. matrix form                                                      *)
(* ------------------------------------------------------------------ *)
Lemma hist_init_length g : length (hist_init A g) = prod_list (grid_shape A g).
Proof. unfold hist_init. apply repeat_length. Qed.

Theorem histogram_spec : forall g rows,
  Forall (fun pt => length pt = length g) rows ->
  exists c, histogram A leb g rows = Ok c /\
    length c = prod_list (grid_shape A g) /\
    forall idx, Forall2 lt idx (grid_shape A g) ->
      nth (ravel (grid_shape A g) idx) c 0 = hits g idx rows.
Proof.
  intros g rows HF. unfold histogram.
  destruct (add_all_ok g rows (hist_init A g) HF (hist_init_length g)) as [c Hc].
  exists c. split; [exact Hc|].
  destruct (hist_inv g rows _ c HF (hist_init_length g) Hc) as [Hl Hn].
  split; [rewrite Hl; apply hist_init_length|].
  intros idx Hidx. rewrite (Hn idx Hidx). unfold hist_init. rewrite nth_repeat0. lia.
Qed.

Lemma add_all_arity_panic : forall g rows,
  Exists (fun pt => length pt <> length g) rows ->
  forall c0, add_all A leb g c0 rows = Panic.
Proof.
  intros g rows. induction rows as [|pt t IH]; intros HE c0; inversion HE as [? ? Hbad | ? ? Htl]; subst;
    cbn [add_all].
  - rewrite add_observation_arity by exact Hbad. reflexivity.
  - destruct (add_observation A leb g c0 pt) as [r| |] eqn:E; cbn [bind].
    + apply IH; exact Htl.
    + reflexivity.
    + exfalso. eapply add_observation_not_fuel; eauto.
Qed.

Theorem histogram_arity_panic : forall g rows,
  Exists (fun pt => length pt <> length g) rows -> histogram A leb g rows = Panic.
Proof. intros g rows HE. unfold histogram. apply add_all_arity_panic; exact HE. Qed.

(* ------------------------------------------------------------------ *)
(* 8. order independence                                               *)
(* ------------------------------------------------------------------ *)
(* Stronger than asked: the whole result (Ok / Panic alike) is invariant, with no
   arity hypothesis and no hypothesis on [length c0].  This survives the
   out-of-bounds Panic: [bump] preserves the length, so whether a given point is
   in bounds does not depend on what was inserted before it; if either of two
   swapped points is out of bounds (or has the wrong arity) both orders Panic. *)
Lemma add_all_perm_eq : forall g h h',
  Permutation h h' -> forall c0, add_all A leb g c0 h = add_all A leb g c0 h'.
Proof.
  intros g h h' HP. induction HP as [| x l l' HP IH | x y l | l l' l'' HP1 IH1 HP2 IH2]; intros c0.
  - reflexivity.
  - cbn [add_all]. destruct (add_observation A leb g c0 x) as [r| |]; cbn [bind]; auto.
  - cbn [add_all]. unfold add_observation.
    pose proof (grid_index_of_not_fuel g x) as Nx.
    pose proof (grid_index_of_not_fuel g y) as Ny.
    destruct (grid_index_of A leb g y) as [[iy|]| |];
      destruct (grid_index_of A leb g x) as [[ix|]| |]; cbn [bind fst]; cbv zeta;
      try reflexivity; try congruence.
    + (* both accepted *)
      set (kx := ravel (grid_shape A g) ix). set (ky := ravel (grid_shape A g) iy).
      destruct (Nat.ltb_spec kx (length c0)) as [Hx | Hx];
        destruct (Nat.ltb_spec ky (length c0)) as [Hy | Hy]; cbn [bind fst];
        rewrite ?bump_length; try reflexivity.
      * destruct (Nat.ltb_spec kx (length c0)) as [Hx' | Hx']; [|lia].
        destruct (Nat.ltb_spec ky (length c0)) as [Hy' | Hy']; [|lia].
        cbn [bind fst]. rewrite bump_comm. reflexivity.
      * destruct (Nat.ltb_spec ky (length c0)) as [Hy' | Hy']; [lia | reflexivity].
      * destruct (Nat.ltb_spec kx (length c0)) as [Hx' | Hx']; [lia | reflexivity].
    + (* y accepted, x wrong arity (accepted/rejected pairs are closed by reflexivity) *)
      destruct (Nat.ltb_spec (ravel (grid_shape A g) iy) (length c0)) as [Hy | Hy]; reflexivity.
    + (* y wrong arity, x accepted *)
      destruct (Nat.ltb_spec (ravel (grid_shape A g) ix) (length c0)) as [Hx | Hx]; reflexivity.
  - rewrite IH1. apply IH2.
Qed.

Theorem hist_perm : forall g h h' c0 c,
  Permutation h h' ->
  Forall (fun pt => length pt = length g) h ->
  add_all A leb g c0 h = Ok c -> add_all A leb g c0 h' = Ok c.
Proof.
  intros g h h' c0 c HP _ Hadd. rewrite <- (add_all_perm_eq g h h' HP c0). exact Hadd.
Qed.

(* ------------------------------------------------------------------ *)
(* 9. total count                                                      *)
(* ------------------------------------------------------------------ *)
(* No hypothesis on [length c0] is needed any more: an accepted observation whose
   flat index is outside the counts array is a Panic (see counts_oob_panics below),
   so an [Ok] result means every accepted observation really was counted.  The
   arity hypothesis is not needed either ([Ok] already implies it). *)
Theorem total_count_gen : forall g h c0 c,
  add_all A leb g c0 h = Ok c ->
  list_sum c = list_sum c0 +
    length (filter (fun pt => match grid_index_of A leb g pt with
                              | Ok (Some _) => true | _ => false end) h).
Proof.
  intros g h. induction h as [|pt t IH]; intros c0 c Hadd.
  - simpl in Hadd. inversion Hadd; subst. simpl. lia.
  - cbn [add_all] in Hadd. cbn [filter].
    destruct (add_observation A leb g c0 pt) as [r| |] eqn:E; cbn [bind] in Hadd; try discriminate.
    apply IH in Hadd. apply add_observation_Ok_inv in E.
    destruct E as [[Hg Hr] | [idx [Hg [Hk Hr]]]]; subst r; cbn [fst] in Hadd; rewrite Hg.
    + exact Hadd.
    + rewrite Hadd, list_sum_bump by exact Hk. simpl. lia.
Qed.

Theorem total_count : forall g h c0 c,
  Forall (fun pt => length pt = length g) h ->
  add_all A leb g c0 h = Ok c ->
  list_sum c = list_sum c0 +
    length (filter (fun pt => match grid_index_of A leb g pt with
                              | Ok (Some _) => true | _ => false end) h).
Proof. intros g h c0 c _ Hadd. apply total_count_gen; exact Hadd. Qed.

(* ------------------------------------------------------------------ *)
(* 10. an axis with no bins                                            *)
(* ------------------------------------------------------------------ *)
Lemma index_all_zero es : bins_len A es = 0 -> forall g pt,
  In es g -> length pt = length g -> index_all A leb g pt = None.
Proof.
  intros Hz. induction g as [|es' g IH]; intros pt Hin Hlen; [destruct Hin|].
  destruct pt as [|v pt]; [discriminate|]. simpl in Hlen. simpl.
  destruct Hin as [E | Hin].
  - subst es'. destruct (index_of A leb es v) as [i|] eqn:Ei; [|reflexivity].
    apply index_of_bound in Ei. lia.
  - destruct (index_of A leb es' v); [|reflexivity].
    rewrite IH by (auto; lia). reflexivity.
Qed.

Theorem zero_bin_axis : forall g es,
  In es g -> bins_len A es = 0 ->
  prod_list (grid_shape A g) = 0 /\ hist_init A g = [] /\
  forall pt, length pt = length g -> grid_index_of A leb g pt = Ok None.
Proof.
  intros g es Hin Hz.
  assert (Hp : prod_list (grid_shape A g) = 0).
  { apply prod_list_zero. unfold grid_shape. rewrite <- Hz. apply in_map. exact Hin. }
  split; [exact Hp|]. split.
  - unfold hist_init. rewrite Hp. reflexivity.
  - intros pt Hlen. rewrite (grid_index_of_arity_ok _ _ Hlen).
    rewrite (index_all_zero es Hz g pt Hin Hlen). reflexivity.
Qed.
End HP.

(* ------------------------------------------------------------------ *)
(* Examples on Z                                                       *)
(* ------------------------------------------------------------------ *)
From Coq Require Import ZArith.

Example histogram_Z_example :
  histogram Z Z.leb [[1;3;5]%Z; [0;10]%Z] [[1;5];[3;0];[4;9];[5;5];[2;10]]%Z = Ok [1; 2].
Proof. vm_compute. reflexivity. Qed.

(* an accepted observation on a too-short counts array panics, as
   [self.counts[&*bin_index] += 1] does in the Rust code *)
Example counts_oob_panics : add_all Z Z.leb [[0;10]%Z] [] [[5%Z]] = Panic.
Proof. vm_compute. reflexivity. Qed.

Print Assumptions prod_list_cons.
Print Assumptions prod_list_nil.
Print Assumptions prod_list_zero.
Print Assumptions ravel_lt.
Print Assumptions ravel_inj.
Print Assumptions bump_length.
Print Assumptions nth_bump_eq.
Print Assumptions nth_bump_neq.
Print Assumptions bump_comm.
Print Assumptions index_of_bound.
Print Assumptions grid_index_of_in_shape.
Print Assumptions add_observation_arity.
Print Assumptions add_observation_reject.
Print Assumptions add_observation_accept.
Print Assumptions add_observation_accept_len.
Print Assumptions add_observation_accept_oob.
Print Assumptions add_observation_not_fuel.
Print Assumptions add_observation_Ok_inv.
Print Assumptions add_observation_length.
Print Assumptions add_all_length.
Print Assumptions hist_inv.
Print Assumptions add_all_ok.
Print Assumptions histogram_spec.
Print Assumptions add_all_arity_panic.
Print Assumptions histogram_arity_panic.
Print Assumptions add_all_perm_eq.
Print Assumptions hist_perm.
Print Assumptions total_count_gen.
Print Assumptions total_count.
Print Assumptions zero_bin_axis.
Print Assumptions histogram_Z_example.
Print Assumptions counts_oob_panics.
