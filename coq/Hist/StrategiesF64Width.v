(* The EquiSpaced bin builder of Hist/Strategies.v at IEEE-754 binary64, continued
   (Hist/StrategiesF64.v has the edge value, monotonicity, termination of the counting loop):
   W1. rounding error of one edge and of the width of one bin; separation of consecutive edges;
   W2. the grid starts at the minimum, has at least one bin, its last edge is above the maximum by
       at most one width plus roundoff;
   W3. every value between minimum and maximum is in exactly one bin: on the raw edges, and - by
       transporting the generic theorem build_cover_exactly_one through a totalisation of fle - on
       the list returned by build with the model's bin search; all observations are counted;
   W4. the number of bins against the real quotient (max - min) / width;
   W5. counterexamples to the exact (integer) statements, and satisfiability examples.
   All bounds are in u64 = 2^-53; there is NO underflow term: i * w is a multiple of 2^-1074, so the
   product rounds with a pure relative error, and sums of binary64 numbers always do. *)
From Coq Require Import List Arith ZArith Lia Bool Sorting.Sorted.
From Flocq Require Import Core BinarySingleNaN Relative Operations.
Require Import Reals Lra Psatz.
From NS Require Import Base.Order Base.Res Base.SortDedup Num.Ops Num.F64 Num.F64Inst
  Hist.Edges Hist.EdgesProofs Hist.Histogram Hist.HistogramProofs
  Hist.Strategies Hist.StrategiesProofs
  Quantile.IndexProofs Num.SumF64 Quantile.InterpF64 Hist.StrategiesF64.
Import ListNotations.
Open Scope R_scope.

Local Instance prec64_gt_0w : Prec_gt_0 53 := Hprec64.
Local Instance vexp64w : Valid_exp (SpecFloat.fexp 53 1024) := fexp_correct 53 1024 Hprec64.

Lemma fix_of_fmt (x : R) : fmt x -> exists m : Z, x = IZR m * bpow radix2 (-1074).
Proof.
  intros G.
  apply (generic_format_FIX_FLT radix2 (-1074) 53) in G.
  apply FIX_format_generic in G. destruct G as [[m e] E He].
  cbn [Fexp] in He. subst e. exists m. rewrite E. reflexivity.
Qed.

Lemma fmt_of_fix_small (m : Z) :
  Rabs (IZR m * bpow radix2 (-1074)) <= bpow radix2 (-1021) -> fmt (IZR m * bpow radix2 (-1074)).
Proof.
  intros Hs.
  apply (generic_format_FLT_FIX radix2 (-1074) 53); [exact Hs|].
  apply generic_format_FIX.
  apply (FIX_spec radix2 (-1074) _ (Float radix2 m (-1074))); reflexivity.
Qed.

Definition u64' : R := u64 / (1 + u64).

Lemma rnd_fix_model (m : Z) : exists e : R,
  Rabs e <= u64' /\ rnd (IZR m * bpow radix2 (-1074)) = IZR m * bpow radix2 (-1074) * (1 + e).
Proof.
  set (x := IZR m * bpow radix2 (-1074)).
  destruct (Rle_or_lt (Rabs x) (bpow radix2 (-1021))) as [Small | Big].
  - exists 0. split.
    + rewrite Rabs_R0. unfold u64'. pose proof u64_pos. apply Rlt_le, Rdiv_lt_0_compat; lra.
    + rewrite rnd_id by (apply fmt_of_fix_small; exact Small). ring.
  - destruct (relative_error_N_FLX'_ex radix2 53 Hprec64 (fun z => negb (Z.even z)) x) as (d & Hd & E).
    exists d. split.
    + unfold u64'. rewrite u64_u_ro. exact Hd.
    + rewrite <- E. apply (round_FLT_FLX radix2 (-1074) 53).
      apply Rlt_le. eapply Rle_lt_trans; [|exact Big]. apply bpow_le. lia.
Qed.

Lemma rnd_int_mul_model (k : Z) (W : R) : fmt W -> exists e : R,
  Rabs e <= u64' /\ rnd (IZR k * W) = IZR k * W * (1 + e).
Proof.
  intros G. destruct (fix_of_fmt W G) as (m & ->).
  destruct (rnd_fix_model (k * m)) as (e & He & E).
  exists e. split; [exact He|].
  rewrite mult_IZR in E. rewrite <- Rmult_assoc. exact E.
Qed.

Lemma u64'_props : 0 <= u64' /\ u64' <= u64 /\ u64' * (1 + u64') <= u64.
Proof.
  pose proof u64_pos as Hu0.
  assert (Ht0 : 0 <= u64') by (unfold u64'; apply Rlt_le, Rdiv_lt_0_compat; lra).
  assert (Htu : u64' * (1 + u64) = u64) by (unfold u64'; field; lra).
  split; [exact Ht0|]. split; [nra|].
  apply (t_1pt_le u64 u64' (Rlt_le _ _ Hu0) Ht0 Htu).
Qed.

(* one edge, on the reals: two roundings, no underflow term *)
Theorem edge_error_R (M W : R) (k : Z) : fmt M -> fmt W -> 0 <= W -> (0 <= k)%Z ->
  Rabs (rnd (M + rnd (IZR k * W)) - (M + IZR k * W))
    <= u64 * (Rabs (M + IZR k * W) + IZR k * W).
Proof.
  intros GM GW HW Hk.
  destruct (rnd_int_mul_model k W GW) as (d1 & Hd1 & E1).
  destruct (rnd_plus_model M (rnd (IZR k * W)) GM (rnd_fmt _)) as (d2 & Hd2 & E2).
  fold u64' in Hd2.
  destruct u64'_props as (Ht0 & Htu & Htt).
  assert (HP : 0 <= IZR k * W) by (apply Rmult_le_pos; [apply IZR_le; lia | exact HW]).
  rewrite E2, E1. set (P := IZR k * W) in *.
  replace ((M + P * (1 + d1)) * (1 + d2) - (M + P)) with ((M + P) * d2 + P * (d1 * (1 + d2))) by ring.
  eapply Rle_trans; [apply Rabs_triang|].
  rewrite !Rabs_mult. rewrite (Rabs_pos_eq P HP).
  assert (H1 : Rabs (1 + d2) <= 1 + u64').
  { eapply Rle_trans; [apply Rabs_triang|]. rewrite Rabs_R1. lra. }
  pose proof (Rabs_pos (M + P)) as A0. pose proof (Rabs_pos d1) as a1. pose proof (Rabs_pos d2) as a2.
  pose proof (Rabs_pos (1 + d2)) as a3.
  set (A := Rabs (M + P)) in *. set (x1 := Rabs d1) in *. set (x2 := Rabs d2) in *. set (x3 := Rabs (1 + d2)) in *.
  assert (Q1 : A * x2 <= A * u64) by (apply Rmult_le_compat_l; lra).
  assert (Q2 : x1 * x3 <= u64' * (1 + u64')) by (apply Rmult_le_compat; lra).
  assert (Q3 : P * (x1 * x3) <= P * u64) by (apply Rmult_le_compat_l; lra).
  lra.
Qed.

Corollary edge_error_R' (M W : R) (k : Z) : fmt M -> fmt W -> 0 <= W -> (0 <= k)%Z ->
  Rabs (rnd (M + rnd (IZR k * W)) - (M + IZR k * W)) <= u64 * (Rabs M + 2 * (IZR k * W)).
Proof.
  intros GM GW HW Hk.
  eapply Rle_trans; [apply (edge_error_R M W k GM GW HW Hk)|].
  assert (HP : 0 <= IZR k * W) by (apply Rmult_le_pos; [apply IZR_le; lia | exact HW]).
  pose proof u64_pos as Hu0.
  apply Rmult_le_compat_l; [lra|].
  pose proof (Rabs_triang M (IZR k * W)) as T. rewrite (Rabs_pos_eq _ HP) in T. lra.
Qed.

(* consecutive edges, on the reals *)
Theorem width_error_R (M W : R) (k : Z) : fmt M -> fmt W -> 0 <= W -> (0 <= k)%Z ->
  Rabs ((rnd (M + rnd (IZR (k + 1) * W)) - rnd (M + rnd (IZR k * W))) - W)
    <= 2 * u64 * (Rabs M + (2 * IZR k + 1) * W).
Proof.
  intros GM GW HW Hk.
  pose proof (edge_error_R' M W k GM GW HW Hk) as E0.
  pose proof (edge_error_R' M W (k + 1) GM GW HW ltac:(lia)) as E1.
  rewrite plus_IZR in *.
  set (a := rnd (M + rnd ((IZR k + 1) * W))) in *. set (b := rnd (M + rnd (IZR k * W))) in *.
  replace (a - b - W) with ((a - (M + (IZR k + 1) * W)) - (b - (M + IZR k * W))) by ring.
  eapply Rle_trans; [apply Rabs_triang|]. rewrite Rabs_Ropp. lra.
Qed.

(* ------------------------------------------------------------------ *)
(* a sufficient no-overflow condition in terms of the inputs            *)
(* ------------------------------------------------------------------ *)
Definition iR (i : nat) : R := IZR (Z.of_nat i).

Definition grid_safe (mn w : F64) (N : nat) : Prop :=
  (Z.of_nat N <= 2 ^ 53)%Z /\
  Rabs (B2R mn) + (iR N + 1) * B2R w <= bpow radix2 1022.

Lemma iR_le (i j : nat) : (i <= j)%nat -> iR i <= iR j.
Proof. intros H. apply IZR_le. lia. Qed.
Lemma iR_ge_0 (i : nat) : 0 <= iR i.
Proof. apply IZR_le. lia. Qed.
Lemma iR_S (i : nat) : iR (S i) = iR i + 1.
Proof. unfold iR. rewrite Nat2Z.inj_succ, <- Z.add_1_r, plus_IZR. reflexivity. Qed.

Lemma grid_safe_le (mn w : F64) (N i : nat) :
  0 <= B2R w -> grid_safe mn w N -> (i <= N)%nat -> grid_safe mn w i.
Proof.
  intros HW (H1 & H2) Hi. split; [lia|].
  pose proof (iR_le i N Hi) as L.
  assert ((iR i + 1) * B2R w <= (iR N + 1) * B2R w) by (apply Rmult_le_compat_r; lra).
  lra.
Qed.

Lemma bpow1022_lt : bpow radix2 1022 + bpow radix2 1022 = bpow radix2 1023.
Proof. change 1023%Z with (1022 + 1)%Z. rewrite bpow_plus. change (bpow radix2 1) with 2. ring. Qed.

(* it implies the raw side conditions of edgeF_correct / C12_f64_edge_value *)
Theorem grid_safe_side (mn w : F64) (N i : nat) :
  0 <= B2R w -> grid_safe mn w N -> (i <= N)%nat ->
  (Z.of_nat i <= 2 ^ 53)%Z /\
  Rabs (rnd (IZR (Z.of_nat i) * B2R w)) < bpow radix2 1024 /\
  Rabs (rnd (B2R mn + rnd (IZR (Z.of_nat i) * B2R w))) < bpow radix2 1024.
Proof.
  intros HW HS Hi. destruct (grid_safe_le mn w N i HW HS Hi) as (H1 & H2).
  fold (iR i). set (W := B2R w) in *. set (M := B2R mn) in *.
  pose proof (iR_ge_0 i) as I0. pose proof (Rabs_pos M) as M0.
  assert (P0 : 0 <= iR i * W) by (apply Rmult_le_pos; assumption).
  assert (PB : iR i * W <= bpow radix2 1022) by nra.
  assert (R0 : 0 <= rnd (iR i * W)) by (apply rnd_ge_0; exact P0).
  assert (R1 : rnd (iR i * W) <= bpow radix2 1022) by (apply rnd_le_fmt; [apply fmt_bpow; lia | exact PB]).
  assert (MB : Rabs M <= bpow radix2 1022) by nra.
  assert (L : bpow radix2 1023 < bpow radix2 1024) by (apply bpow_lt; lia).
  assert (L2 : bpow radix2 1022 < bpow radix2 1023) by (apply bpow_lt; lia).
  pose proof bpow1022_lt as D.
  split; [exact H1|]. split.
  - rewrite Rabs_pos_eq by exact R0. lra.
  - apply Rabs_le_inv in MB.
    assert (U : rnd (M + rnd (iR i * W)) <= bpow radix2 1023).
    { apply rnd_le_fmt; [apply fmt_bpow; lia | lra]. }
    assert (V : - bpow radix2 1023 <= rnd (M + rnd (iR i * W))).
    { apply rnd_ge_fmt; [apply generic_format_opp, fmt_bpow; lia | lra]. }
    apply Rabs_def1; lra.
Qed.

Theorem grid_safe_edge (mn w : F64) (N i : nat) :
  fis_finite mn = true -> fis_finite w = true -> 0 <= B2R w -> grid_safe mn w N -> (i <= N)%nat ->
  fis_finite (edgeF mn w i) = true /\
  B2R (edgeF mn w i) = rnd (B2R mn + rnd (iR i * B2R w)).
Proof.
  intros Fm Fw HW HS Hi.
  destruct (grid_safe_side mn w N i HW HS Hi) as (H1 & H2 & H3).
  exact (edgeF_correct mn w i Fm Fw H1 H2 H3).
Qed.

(* ------------------------------------------------------------------ *)
(* 1. width of a bin                                                    *)
(* ------------------------------------------------------------------ *)
Theorem edge_error_f64 (mn w : F64) (i : nat) :
  fis_finite mn = true -> fis_finite w = true -> 0 <= B2R w -> grid_safe mn w i ->
  Rabs (B2R (edgeF mn w i) - (B2R mn + iR i * B2R w))
    <= u64 * (Rabs (B2R mn + iR i * B2R w) + iR i * B2R w).
Proof.
  intros Fm Fw HW HS.
  destruct (grid_safe_edge mn w i i Fm Fw HW HS (le_n _)) as (_ & E). rewrite E.
  apply edge_error_R; [apply fmt_B2R | apply fmt_B2R | exact HW | lia].
Qed.

Corollary edge_error_f64' (mn w : F64) (i : nat) :
  fis_finite mn = true -> fis_finite w = true -> 0 <= B2R w -> grid_safe mn w i ->
  Rabs (B2R (edgeF mn w i) - (B2R mn + iR i * B2R w)) <= u64 * (Rabs (B2R mn) + 2 * (iR i * B2R w)).
Proof.
  intros Fm Fw HW HS.
  destruct (grid_safe_edge mn w i i Fm Fw HW HS (le_n _)) as (_ & E). rewrite E.
  apply edge_error_R'; [apply fmt_B2R | apply fmt_B2R | exact HW | lia].
Qed.

Theorem width_error_f64 (mn w : F64) (i : nat) :
  fis_finite mn = true -> fis_finite w = true -> 0 <= B2R w -> grid_safe mn w (S i) ->
  Rabs ((B2R (edgeF mn w (S i)) - B2R (edgeF mn w i)) - B2R w)
    <= 2 * u64 * (Rabs (B2R mn) + (2 * iR i + 1) * B2R w).
Proof.
  intros Fm Fw HW HS.
  destruct (grid_safe_edge mn w (S i) (S i) Fm Fw HW HS (le_n _)) as (_ & E1).
  destruct (grid_safe_edge mn w (S i) i Fm Fw HW HS (le_S _ _ (le_n _))) as (_ & E0).
  rewrite E1, E0. unfold iR. replace (Z.of_nat (S i)) with (Z.of_nat i + 1)%Z by lia.
  apply width_error_R; [apply fmt_B2R | apply fmt_B2R | exact HW | lia].
Qed.

(* the requested shape c * u * (|mn| + (i+1) w), c = 4 *)
Corollary width_error_f64' (mn w : F64) (i : nat) :
  fis_finite mn = true -> fis_finite w = true -> 0 <= B2R w -> grid_safe mn w (S i) ->
  Rabs ((B2R (edgeF mn w (S i)) - B2R (edgeF mn w i)) - B2R w)
    <= 4 * u64 * (Rabs (B2R mn) + (iR i + 1) * B2R w).
Proof.
  intros Fm Fw HW HS.
  eapply Rle_trans; [apply (width_error_f64 mn w i Fm Fw HW HS)|].
  pose proof u64_pos as Hu. pose proof (Rabs_pos (B2R mn)) as M0. pose proof (iR_ge_0 i) as I0.
  assert (0 <= iR i * B2R w) by (apply Rmult_le_pos; assumption).
  nra.
Qed.

(* width large enough to separate consecutive edges *)
Theorem edges_separated_f64 (mn w : F64) (i : nat) :
  fis_finite mn = true -> fis_finite w = true -> 0 <= B2R w -> grid_safe mn w (S i) ->
  2 * u64 * (Rabs (B2R mn) + (2 * iR i + 1) * B2R w) < B2R w ->
  B2R (edgeF mn w i) < B2R (edgeF mn w (S i)).
Proof.
  intros Fm Fw HW HS Hsep.
  pose proof (width_error_f64 mn w i Fm Fw HW HS) as E. apply Rabs_le_inv in E. lra.
Qed.

Corollary edges_separated_f64' (mn w : F64) (i : nat) :
  fis_finite mn = true -> fis_finite w = true -> 0 < B2R w -> grid_safe mn w (S i) ->
  u64 * (Rabs (B2R mn) + (iR i + 1) * B2R w) * 4 <= B2R w / 4 ->
  B2R (edgeF mn w i) < B2R (edgeF mn w (S i)) /\
  3 / 4 * B2R w <= B2R (edgeF mn w (S i)) - B2R (edgeF mn w i) <= 5 / 4 * B2R w.
Proof.
  intros Fm Fw HW HS Hsep.
  pose proof (width_error_f64' mn w i Fm Fw (Rlt_le _ _ HW) HS) as E. apply Rabs_le_inv in E. lra.
Qed.

(* ------------------------------------------------------------------ *)
(* the exit of the counting loop, in binary64                           *)
(* ------------------------------------------------------------------ *)
Lemma n_bins_f64_exit (fuel : nat) (mn w mx : F64) (n : nat) :
  n_bins O64 fle (fun _ => true) fuel mn w mx = Ok n ->
  (forall i, (i < n)%nat -> fle (edgeF mn w i) mx = true) /\ fle (edgeF mn w n) mx = false.
Proof.
  intros H. destruct (n_bins_spec O64 fle (fun _ => true) fuel mn w mx n H) as (H1 & e & He & Hf).
  split.
  - intros i Hi. destruct (H1 i Hi) as (e' & He' & Ht).
    change (edge O64 (fun _ => true) mn w i) with (Ok (edgeF mn w i)) in He'.
    injection He' as <-. exact Ht.
  - change (edge O64 (fun _ => true) mn w n) with (Ok (edgeF mn w n)) in He.
    injection He as <-. exact Hf.
Qed.

Section Grid.
Variables (fuel : nat) (mn w mx : F64) (n : nat).
Hypothesis Fm : fis_finite mn = true.
Hypothesis Fw : fis_finite w = true.
Hypothesis Fx : fis_finite mx = true.
Hypothesis HW : 0 < B2R w.
Hypothesis Hmm : B2R mn <= B2R mx.
Hypothesis Hrun : n_bins O64 fle (fun _ => true) fuel mn w mx = Ok n.
Hypothesis HS : grid_safe mn w n.

Let HW0 : 0 <= B2R w := Rlt_le _ _ HW.

Lemma grid_fin (i : nat) : (i <= n)%nat -> fis_finite (edgeF mn w i) = true.
Proof. intros Hi. apply (grid_safe_edge mn w n i Fm Fw HW0 HS Hi). Qed.

Lemma grid_mono (i j : nat) : (i <= j)%nat -> (j <= n)%nat -> B2R (edgeF mn w i) <= B2R (edgeF mn w j).
Proof.
  intros Hij Hj. destruct HS as (H53 & _).
  apply (edge_mono mn w i j HW0 Hij); [lia | apply grid_fin; exact Hj].
Qed.

(* 3. the grid starts at the minimum, and there is at least one bin *)
Theorem first_edge_f64 : B2R (edgeF mn w 0) = B2R mn /\ (1 <= n)%nat.
Proof.
  destruct (edgeF_0 mn w Fm Fw) as (F0 & E0). split; [exact E0|].
  destruct (n_bins_f64_exit fuel mn w mx n Hrun) as (_ & Hf).
  destruct (Nat.eq_dec n 0) as [Z0 | NZ]; [exfalso | lia].
  assert (T : fle (edgeF mn w 0) mx = true) by (apply (fle_spec _ _ F0 Fx); lra).
  rewrite Z0, T in Hf. discriminate Hf.
Qed.

Lemma below_max (i : nat) : (i < n)%nat -> B2R (edgeF mn w i) <= B2R mx.
Proof.
  intros Hi. destruct (n_bins_f64_exit fuel mn w mx n Hrun) as (Ht & _).
  apply (fle_spec _ _ (grid_fin i ltac:(lia)) Fx). apply Ht. exact Hi.
Qed.

Lemma above_max : B2R mx < B2R (edgeF mn w n).
Proof.
  destruct (n_bins_f64_exit fuel mn w mx n Hrun) as (_ & Hf).
  destruct (Rlt_or_le (B2R mx) (B2R (edgeF mn w n))) as [L | G]; [exact L|].
  apply (fle_spec _ _ (grid_fin n (le_n _)) Fx) in G. rewrite G in Hf. discriminate Hf.
Qed.

(* 2. the last edge *)
Theorem last_edge_f64 :
  B2R mx < B2R (edgeF mn w n) /\
  B2R (edgeF mn w n) <= B2R mx + B2R w + 2 * u64 * (Rabs (B2R mn) + (2 * iR n - 1) * B2R w).
Proof.
  split; [exact above_max|].
  destruct first_edge_f64 as (_ & Hn1).
  set (n' := Nat.pred n). assert (En : n = S n') by (unfold n'; lia).
  assert (HS' : grid_safe mn w (S n')) by (rewrite <- En; exact HS).
  pose proof (width_error_f64 mn w n' Fm Fw HW0 HS') as E. apply Rabs_le_inv in E.
  rewrite <- En in E.
  pose proof (below_max n' ltac:(lia)) as B.
  assert (EI : iR n = iR n' + 1) by (rewrite En at 1; apply iR_S).
  rewrite EI. lra.
Qed.

(* 4. every value between the minimum and the maximum lies in exactly one bin *)
Lemma discrete_ivt (f : nat -> R) (x : R) : forall k, f 0%nat <= x < f k ->
  exists i, (i < k)%nat /\ f i <= x < f (S i).
Proof.
  induction k as [| k IH]; intros H; [lra|].
  destruct (Rlt_or_le x (f k)) as [L | G].
  - destruct (IH (conj (proj1 H) L)) as (i & Hi & Hx). exists i. split; [lia | exact Hx].
  - exists k. split; [lia|]. split; [exact G | exact (proj2 H)].
Qed.

Theorem cover_f64 (x : R) : B2R mn <= x <= B2R mx ->
  exists i, (i < n)%nat /\ B2R (edgeF mn w i) <= x < B2R (edgeF mn w (S i)) /\
    forall j, (j < n)%nat -> B2R (edgeF mn w j) <= x < B2R (edgeF mn w (S j)) -> j = i.
Proof.
  intros Hx.
  destruct first_edge_f64 as (E0 & _). pose proof above_max as A.
  destruct (discrete_ivt (fun i => B2R (edgeF mn w i)) x n) as (i & Hi & Hin).
  { cbv beta. rewrite E0. lra. }
  cbv beta in Hin. exists i. split; [exact Hi|]. split; [exact Hin|].
  intros j Hj Hjn.
  destruct (lt_eq_lt_dec j i) as [[L | E] | G]; [exfalso | exact E | exfalso].
  - pose proof (grid_mono (S j) i ltac:(lia) ltac:(lia)). lra.
  - pose proof (grid_mono (S i) j ltac:(lia) ltac:(lia)). lra.
Qed.

(* the same with the comparisons the implementation performs *)
Corollary cover_f64_fle (x : F64) : fis_finite x = true -> B2R mn <= B2R x <= B2R mx ->
  exists i, (i < n)%nat /\ fle (edgeF mn w i) x = true /\ fle (edgeF mn w (S i)) x = false /\
    forall j, (j < n)%nat -> fle (edgeF mn w j) x = true -> fle (edgeF mn w (S j)) x = false -> j = i.
Proof.
  intros Fx' Hx. destruct (cover_f64 (B2R x) Hx) as (i & Hi & (H1 & H2) & Hu).
  exists i. split; [exact Hi|].
  split. { apply (fle_spec _ _ (grid_fin i ltac:(lia)) Fx'). exact H1. }
  split. { apply fle_false_of_lt; [apply grid_fin; lia | exact Fx' | exact H2]. }
  intros j Hj T F. apply (Hu j Hj). split.
  - apply (fle_spec _ _ (grid_fin j ltac:(lia)) Fx'). exact T.
  - destruct (Rlt_or_le (B2R x) (B2R (edgeF mn w (S j)))) as [L | G]; [exact L|].
    apply (fle_spec _ _ (grid_fin (S j) ltac:(lia)) Fx') in G. rewrite G in F. discriminate F.
Qed.

(* 5. the number of bins against the real quotient *)
Theorem n_bins_estimate_f64 :
  let q := (B2R mx - B2R mn) / B2R w in
  let d := u64 * (Rabs (B2R mn) / B2R w + 2 * iR n) in
  q - d < iR n <= q + 1 + d.
Proof.
  intros q d.
  destruct first_edge_f64 as (_ & Hn1).
  pose proof above_max as A.
  pose proof (edge_error_f64' mn w n Fm Fw HW0 HS) as En. apply Rabs_le_inv in En.
  pose proof u64_pos as Hu. pose proof (Rabs_pos (B2R mn)) as M0.
  set (M := B2R mn) in *. set (W := B2R w) in *. set (X := B2R mx) in *.
  assert (Hq : q * W = X - M) by (unfold q; field; lra).
  assert (Hd : d * W = u64 * (Rabs M + 2 * (iR n * W))) by (unfold d; field; lra).
  split.
  - apply (Rmult_lt_reg_r W); [exact HW|]. rewrite Rmult_minus_distr_r, Hq, Hd. lra.
  - set (n' := Nat.pred n). assert (En' : n = S n') by (unfold n'; lia).
    pose proof (below_max n' ltac:(lia)) as B.
    assert (HS' : grid_safe mn w n') by (apply (grid_safe_le mn w n n' HW0 HS); lia).
    pose proof (edge_error_f64' mn w n' Fm Fw HW0 HS') as Ep. apply Rabs_le_inv in Ep.
    assert (EI : iR n = iR n' + 1) by (rewrite En' at 1; apply iR_S).
    rewrite EI in *. pose proof (iR_ge_0 n') as I0.
    apply (Rmult_le_reg_r W); [exact HW|].
    rewrite !Rmult_plus_distr_r, Hq, Hd.
    assert (UW : 0 <= u64 * W) by (apply Rmult_le_pos; lra). fold M W X in Ep, B. lra.
Qed.

End Grid.

(* termination from the inputs alone *)
Theorem n_bins_f64_terminates_safe (mn w mx : F64) (N : nat) :
  fis_finite mn = true -> fis_finite w = true -> fis_finite mx = true -> 0 <= B2R w ->
  grid_safe mn w N ->
  B2R mx + u64 * (Rabs (B2R mn) + 2 * (iR N * B2R w)) < B2R mn + iR N * B2R w ->
  exists n, (n <= N)%nat /\ n_bins O64 fle (fun _ => true) (S N) mn w mx = Ok n /\ grid_safe mn w n.
Proof.
  intros Fm Fw Fx HW HS Hbig.
  destruct (grid_safe_side mn w N N HW HS (le_n _)) as (H1 & H2 & H3).
  destruct (n_bins_f64_terminates_R mn w mx N Fm Fw Fx HW H1 H2 H3) as (n & Hn & Hrun & _).
  - pose proof (edge_error_R' (B2R mn) (B2R w) (Z.of_nat N) (fmt_B2R _) (fmt_B2R _) HW ltac:(lia)) as E.
    apply Rabs_le_inv in E. fold (iR N) in E. fold (iR N). lra.
  - exists n. split; [exact Hn|]. split; [exact Hrun|]. exact (grid_safe_le mn w N n HW HS Hn).
Qed.

(* ------------------------------------------------------------------ *)
(* exact comparison of concrete binary64 values, for the examples       *)
(* ------------------------------------------------------------------ *)
Definition F_of (x : F64) : float radix2 :=
  match x with
  | B754_finite s m e _ => Float radix2 (cond_Zopp s (Zpos m)) e
  | _ => Float radix2 0 0
  end.

Lemma B2R_F_of (x : F64) : B2R x = F2R (F_of x).
Proof. destruct x as [s | s | | s m e H]; cbn [B2R F_of]; try reflexivity; symmetry; apply F2R_0. Qed.

Lemma B2R_lt_compute (a b : F64) : (0 < Fnum (Fminus (F_of b) (F_of a)))%Z -> B2R a < B2R b.
Proof.
  intros H. apply F2R_gt_0 in H. rewrite F2R_minus, <- !B2R_F_of in H. lra.
Qed.

Lemma B2R_le_compute (a b : F64) : (0 <= Fnum (Fminus (F_of b) (F_of a)))%Z -> B2R a <= B2R b.
Proof.
  intros H. apply F2R_ge_0 in H. rewrite F2R_minus, <- !B2R_F_of in H. lra.
Qed.

(* a + b < c, exactly *)
Lemma B2R_sum_lt_compute (a b c : F64) :
  (0 < Fnum (Fminus (F_of c) (Fplus (F_of a) (F_of b))))%Z -> B2R a + B2R b < B2R c.
Proof.
  intros H. apply F2R_gt_0 in H. rewrite F2R_minus, F2R_plus, <- !B2R_F_of in H. lra.
Qed.

Lemma B2R_le_Z_compute (a : F64) (z : Z) : (0 <= Fnum (Fminus (Float radix2 z 0) (F_of a)))%Z -> B2R a <= IZR z.
Proof.
  intros H. apply F2R_ge_0 in H. rewrite F2R_minus, <- B2R_F_of in H.
  unfold F2R at 1 in H. cbn [Fnum Fexp bpow] in H. lra.
Qed.

(* ------------------------------------------------------------------ *)
(* Examples: mn = 0.1, w = 0.3, mx = 1.7                                *)
(* ------------------------------------------------------------------ *)
Definition ex_mn : F64 := f64_of_bits 4591870180066957722.  (* 0.1 *)
Definition ex_w  : F64 := f64_of_bits 4599075939470750515.  (* 0.3 *)
Definition ex_mx : F64 := f64_of_bits 4610334938539176755.  (* 1.7 *)

Example ex_run : n_bins O64 fle (fun _ => true) 100 ex_mn ex_w ex_mx = Ok 6%nat.
Proof. vm_compute. reflexivity. Qed.

Example ex_edges :
  map (fun i => bits_of_f64 (edgeF ex_mn ex_w i)) (seq 0 7) =
  [4591870180066957722; 4600877379321698714; 4604480259023595110; 4607182418800017407;
   4608533498688228557; 4609884578576439706; 4611235658464650854]%Z.
Proof. vm_compute. reflexivity. Qed.

Lemma ex_fin : fis_finite ex_mn = true /\ fis_finite ex_w = true /\ fis_finite ex_mx = true.
Proof. repeat split; vm_compute; reflexivity. Qed.

Lemma ex_w_pos : 0 < B2R ex_w.
Proof. change 0 with (B2R fzero). apply B2R_lt_compute. vm_compute. reflexivity. Qed.

Lemma F2R_le_B2R_compute (f : float radix2) (a : F64) : (0 <= Fnum (Fminus (F_of a) f))%Z -> F2R f <= B2R a.
Proof.
  intros H. apply F2R_ge_0 in H. rewrite F2R_minus, <- B2R_F_of in H. lra.
Qed.

Lemma ex_w_ge : / 4 <= B2R ex_w.
Proof.
  change (/ 4) with (bpow radix2 (-2)).
  replace (bpow radix2 (-2)) with (F2R (Float radix2 1 (-2))) by (unfold F2R; cbn [Fnum Fexp]; ring).
  apply F2R_le_B2R_compute. vm_compute. discriminate.
Qed.

Lemma ex_bounds : 0 <= B2R ex_mn <= 1 /\ B2R ex_w <= 1 /\ B2R ex_mn <= B2R ex_mx.
Proof.
  split; [split|split].
  - change 0 with (B2R fzero). apply B2R_le_compute. vm_compute. discriminate.
  - apply (B2R_le_Z_compute ex_mn 1). vm_compute. discriminate.
  - apply (B2R_le_Z_compute ex_w 1). vm_compute. discriminate.
  - apply B2R_le_compute. vm_compute. discriminate.
Qed.

Lemma u64_le_1024 : u64 <= / 1024.
Proof.
  unfold u64. change (/ 1024) with (bpow radix2 (-10)). apply bpow_le. lia.
Qed.

Lemma iR_small (i : nat) : (i <= 7)%nat -> iR i <= 7.
Proof. intros H. unfold iR. apply IZR_le. lia. Qed.

Example ex_safe : grid_safe ex_mn ex_w 6.
Proof.
  destruct ex_bounds as ((M0 & M1) & W1 & _). pose proof ex_w_pos as W0.
  split; [cbn; lia|].
  rewrite Rabs_pos_eq by exact M0.
  apply Rle_trans with (bpow radix2 4); [|apply bpow_le; lia].
  change (bpow radix2 4) with 16. unfold iR. cbn [Z.of_nat Pos.of_succ_nat Pos.succ]. lra.
Qed.

(* the separation hypothesis holds at every index of the example grid *)
Example ex_separated (i : nat) : (i < 6)%nat ->
  2 * u64 * (Rabs (B2R ex_mn) + (2 * iR i + 1) * B2R ex_w) < B2R ex_w.
Proof.
  intros Hi. destruct ex_bounds as ((M0 & M1) & W1 & _). pose proof ex_w_ge as W4.
  pose proof u64_le_1024 as U. pose proof u64_pos as U0.
  pose proof (iR_small i ltac:(lia)) as I7. pose proof (iR_ge_0 i) as I0.
  rewrite Rabs_pos_eq by exact M0.
  assert (B : Rabs (B2R ex_mn) + (2 * iR i + 1) * B2R ex_w <= 16).
  { rewrite Rabs_pos_eq by exact M0. nra. }
  rewrite Rabs_pos_eq in B by exact M0. nra.
Qed.

(* ------------------------------------------------------------------ *)
(* the model's list functions only depend on the comparisons they make *)
(* ------------------------------------------------------------------ *)
Section Ext.
Context {A : Type} (l1 l2 : A -> A -> bool) (P : A -> Prop).
Hypothesis agree : forall a b, P a -> P b -> l1 a b = l2 a b.

Lemma insert_ext (x : A) (l : list A) : P x -> Forall P l ->
  insert A l1 x l = insert A l2 x l /\ Forall P (insert A l1 x l).
Proof.
  intros Px Hl. induction Hl as [| h t Ph Ht IH]; cbn [insert].
  - split; [reflexivity | constructor; [exact Px | constructor]].
  - rewrite <- (agree x h Px Ph). destruct IH as (IH1 & IH2). destruct (l1 x h).
    + split; [reflexivity|]. constructor; [exact Px|]. constructor; assumption.
    + rewrite IH1. split; [reflexivity|]. constructor; [exact Ph|]. rewrite <- IH1. exact IH2.
Qed.

Lemma isort_ext (l : list A) : Forall P l ->
  isort A l1 l = isort A l2 l /\ Forall P (isort A l1 l).
Proof.
  intros Hl. induction Hl as [| h t Ph Ht IH]; cbn [isort].
  - split; [reflexivity | constructor].
  - destruct IH as (IH1 & IH2). rewrite <- IH1. apply insert_ext; assumption.
Qed.

Lemma eqv_ext (a b : A) : P a -> P b -> eqv A l1 a b = eqv A l2 a b.
Proof. intros Pa Pb. unfold eqv. rewrite (agree a b Pa Pb), (agree b a Pb Pa). reflexivity. Qed.

Lemma sltb_ext (a b : A) : P a -> P b -> sltb A l1 a b = sltb A l2 a b.
Proof. intros Pa Pb. unfold sltb. rewrite (agree b a Pb Pa). reflexivity. Qed.

Lemma dedup_from_ext (l : list A) : Forall P l -> forall p, P p ->
  dedup_from A l1 p l = dedup_from A l2 p l /\ Forall P (dedup_from A l1 p l).
Proof.
  intros Hl. induction Hl as [| h t Ph Ht IH]; intros p Pp; cbn [dedup_from].
  - split; [reflexivity | constructor].
  - rewrite <- (eqv_ext p h Pp Ph). destruct (eqv A l1 p h).
    + apply IH. exact Pp.
    + destruct (IH h Ph) as (IH1 & IH2). rewrite IH1. split; [reflexivity|].
      constructor; [exact Ph|]. rewrite <- IH1. exact IH2.
Qed.

Lemma sort_dedup_ext (l : list A) : Forall P l ->
  sort_dedup A l1 l = sort_dedup A l2 l /\ Forall P (sort_dedup A l1 l).
Proof.
  intros Hl. unfold sort_dedup. destruct (isort_ext l Hl) as (E & F). rewrite <- E.
  destruct F as [| h t Ph Ht]; cbn [dedup]; [split; [reflexivity | constructor]|].
  destruct (dedup_from_ext t Ht h Ph) as (E1 & F1). rewrite E1.
  split; [reflexivity|]. constructor; [exact Ph|]. rewrite <- E1. exact F1.
Qed.

Lemma bsearch_ext (es : list A) (v : A) : Forall P es -> P v -> forall pos,
  bsearch A l1 es v pos = bsearch A l2 es v pos.
Proof.
  intros Hes Pv. induction Hes as [| h t Ph Ht IH]; intros pos; cbn [bsearch]; [reflexivity|].
  rewrite <- (eqv_ext h v Ph Pv), <- (sltb_ext h v Ph Pv), IH. reflexivity.
Qed.

Lemma index_of_ext (es : list A) (v : A) : Forall P es -> P v ->
  index_of A l1 es v = index_of A l2 es v.
Proof.
  intros Hes Pv. unfold index_of, indices_of. rewrite (bsearch_ext es v Hes Pv 0). reflexivity.
Qed.

Lemma n_bins_loop_ext (O : ops A) (repr : nat -> bool) (mn w mx : A) : P mx ->
  forall fuel n0 n,
  n_bins_loop O l1 repr fuel mn w mx n0 = Ok n ->
  (forall i e, (n0 <= i <= n)%nat -> edge O repr mn w i = Ok e -> P e) ->
  n_bins_loop O l2 repr fuel mn w mx n0 = Ok n.
Proof.
  intros Pmx. induction fuel as [| f IH]; intros n0 n H HP; [discriminate H|].
  pose proof (n_bins_loop_spec O l1 repr (S f) mn w mx n0 n H) as (Hle & _).
  cbn [n_bins_loop] in H |- *.
  destruct (edge O repr mn w n0) as [e | |] eqn:He; cbn [bind] in H |- *; try discriminate H.
  assert (Pe : P e) by (apply (HP n0 e); [lia | exact He]).
  rewrite <- (agree e mx Pe Pmx). destruct (l1 e mx).
  - apply IH; [exact H|]. intros i e' Hi. apply HP.
    pose proof (n_bins_loop_spec O l1 repr f mn w mx (S n0) n H) as (Hle' & _). lia.
  - exact H.
Qed.
End Ext.

(* ------------------------------------------------------------------ *)
(* fle totalised: NaN placed below everything                           *)
(* ------------------------------------------------------------------ *)
Definition nn (x : F64) : Prop := fis_nan x = false.
Definition fle_t (a b : F64) : bool :=
  if fis_nan a then true else if fis_nan b then false else fle a b.

Lemma fle_t_agree (a b : F64) : nn a -> nn b -> fle a b = fle_t a b.
Proof. unfold nn, fle_t. intros -> ->. reflexivity. Qed.

Lemma fle_t_total : total fle_t.
Proof.
  intros a b. unfold fle_t.
  destruct (fis_nan a) eqn:Na; [left; reflexivity|].
  destruct (fis_nan b) eqn:Nb; [right; reflexivity|].
  apply fle_total_nonnan; assumption.
Qed.

Lemma fle_t_trans : transitive fle_t.
Proof.
  intros a b c. unfold fle_t.
  destruct (fis_nan a) eqn:Na; [reflexivity|].
  destruct (fis_nan b) eqn:Nb; [discriminate|].
  destruct (fis_nan c) eqn:Nc; [intros _ H; exact H|].
  apply fle_trans_nonnan.
Qed.

(* the generic theorem cannot be used with fle itself *)
Example fle_not_total : ~ total fle.
Proof. intros T. destruct (T B754_nan B754_nan) as [H | H]; discriminate H. Qed.

Lemma edges_upto_f64 (mn0 w0 : F64) : forall k i,
  edges_upto O64 (fun _ => true) mn0 w0 k i = Ok (map (edgeF mn0 w0) (seq i k)).
Proof.
  induction k as [| k IH]; intros i; cbn [edges_upto seq map]; [reflexivity|].
  change (edge O64 (fun _ => true) mn0 w0 i) with (Ok (edgeF mn0 w0 i)). cbn [bind].
  rewrite IH. reflexivity.
Qed.

(* the builder's result once the loop has returned n *)
Lemma build_f64_ok (fuel : nat) (mn w mx : F64) (n : nat) :
  n_bins O64 fle (fun _ => true) fuel mn w mx = Ok n ->
  build O64 fle (fun _ => true) fuel mn w mx = Ok (edges_from F64 fle (map (edgeF mn w) (seq 0 (S n)))).
Proof. intros H. unfold build. rewrite H. cbn [bind]. rewrite edges_upto_f64. reflexivity. Qed.

Section GridBuild.
Variables (fuel : nat) (mn w mx : F64) (n : nat) (es : list F64).
Hypothesis Fm : fis_finite mn = true.
Hypothesis Fw : fis_finite w = true.
Hypothesis Fx : fis_finite mx = true.
Hypothesis HW : 0 < B2R w.
Hypothesis Hmm : B2R mn <= B2R mx.
Hypothesis Hrun : n_bins O64 fle (fun _ => true) fuel mn w mx = Ok n.
Hypothesis HS : grid_safe mn w n.
Hypothesis Hbuild : build O64 fle (fun _ => true) fuel mn w mx = Ok es.

Let allr' : nat -> bool := fun _ => true.

Lemma placed_nn : exists placed,
  edges_upto O64 allr' mn w (S n) 0 = Ok placed /\ es = edges_from F64 fle placed /\ Forall nn placed.
Proof.
  destruct (build_inv O64 fle allr' fuel mn w mx es Hbuild) as (n0 & placed & Hn0 & Hp & Hes).
  unfold allr' in Hn0. rewrite Hrun in Hn0. injection Hn0 as <-.
  exists placed. split; [exact Hp|]. split; [exact Hes|].
  destruct (edges_upto_spec O64 allr' (S n) mn w 0 placed Hp) as (Hlen & Hnth).
  apply Forall_forall. intros e He.
  destruct (In_nth_error _ _ He) as (j & Hj).
  assert (Hjn : (j < S n)%nat) by (rewrite <- Hlen; apply nth_error_Some; congruence).
  destruct (Hnth j Hjn) as (e' & He' & Hj'). rewrite Hj in Hj'. injection Hj' as <-.
  cbn [Nat.add] in He'. change (edge O64 allr' mn w j) with (Ok (edgeF mn w j)) in He'.
  injection He' as <-. apply finite_not_nan.
  apply (grid_fin mn w n Fm Fw HW HS j). lia.
Qed.

Lemma n_bins_fle_t : n_bins O64 fle_t allr' fuel mn w mx = Ok n.
Proof.
  unfold n_bins. apply (n_bins_loop_ext fle fle_t nn fle_t_agree O64 allr' mn w mx (finite_not_nan mx Fx) fuel 0 n Hrun).
  intros i e Hi He. change (edge O64 allr' mn w i) with (Ok (edgeF mn w i)) in He. injection He as <-.
  apply finite_not_nan. apply (grid_fin mn w n Fm Fw HW HS i). lia.
Qed.

Lemma build_fle_t : build O64 fle_t allr' fuel mn w mx = Ok es /\ Forall nn es.
Proof.
  destruct placed_nn as (placed & Hp & Hes & Hnn).
  destruct (sort_dedup_ext fle fle_t nn fle_t_agree placed Hnn) as (E & F).
  split.
  - unfold build.
    rewrite n_bins_fle_t. cbn [bind]. rewrite Hp. cbn [bind]. unfold edges_from. rewrite <- E.
    rewrite Hes. reflexivity.
  - rewrite Hes. exact F.
Qed.

(* 4'. the generic coverage theorem, transported to binary64 with fle: the bin search of the model
   (Hist/Edges.v index_of) on the edge list returned by build finds exactly one bin *)
Theorem cover_build_f64 (x : F64) : fis_finite x = true -> B2R mn <= B2R x <= B2R mx ->
  exists i, index_of F64 fle es x = Some i /\
    forall i', (exists a b, nth_error es i' = Some a /\ nth_error es (i' + 1) = Some b /\
                            fle a x = true /\ sltb F64 fle x b = true) <-> i' = i.
Proof.
  intros Fx' Hx. destruct build_fle_t as (Hb & Hnn).
  pose proof (finite_not_nan x Fx') as Nx.
  destruct (edgeF_0 mn w Fm Fw) as (F0 & E0).
  destruct (build_cover_exactly_one O64 fle_t allr' fle_t_total fle_t_trans fuel mn w mx es Hb
              (edgeF mn w 0) eq_refl x) as (i & Hi & Hu).
  - rewrite <- fle_t_agree by (try apply finite_not_nan; assumption).
    apply (fle_spec _ _ F0 Fx'). lra.
  - rewrite <- fle_t_agree by (try apply finite_not_nan; assumption).
    apply (fle_spec _ _ Fx' Fx). lra.
  - exists i. split.
    + rewrite (index_of_ext fle fle_t nn fle_t_agree es x Hnn Nx). exact Hi.
    + intros i'. rewrite <- (Hu i'). rewrite Forall_forall in Hnn.
      split; intros (a & b & Ha & Hb' & H1 & H2); exists a, b;
        (split; [exact Ha|]; split; [exact Hb'|]);
        pose proof (Hnn a (nth_error_In _ _ Ha)) as Na; pose proof (Hnn b (nth_error_In _ _ Hb')) as Nb.
      * rewrite <- (fle_t_agree a x Na Nx). rewrite <- (sltb_ext fle fle_t nn fle_t_agree x b Nx Nb). split; assumption.
      * rewrite (fle_t_agree a x Na Nx). rewrite (sltb_ext fle fle_t nn fle_t_agree x b Nx Nb). split; assumption.
Qed.

(* 1'. when the width separates consecutive edges, the list returned by build is exactly
   edge 0, ..., edge n (nothing merged by dedup) and has n bins *)
Theorem build_edges_f64 :
  (forall i, (i < n)%nat -> 2 * u64 * (Rabs (B2R mn) + (2 * iR i + 1) * B2R w) < B2R w) ->
  es = map (edgeF mn w) (seq 0 (S n)) /\ bins_len F64 es = n /\
  forall i, (i <= n)%nat -> nth_error es i = Some (edgeF mn w i).
Proof.
  intros Hsep. destruct build_fle_t as (Hb & _).
  assert (HW0 : 0 <= B2R w) by lra.
  assert (Hlt : forall i j, (i < j <= n)%nat -> sltb F64 fle_t (edgeF mn w i) (edgeF mn w j) = true).
  { intros i j Hij. unfold sltb. apply negb_true_iff.
    pose proof (grid_fin mn w n Fm Fw HW HS i ltac:(lia)) as Fi.
    pose proof (grid_fin mn w n Fm Fw HW HS j ltac:(lia)) as Fj.
    rewrite <- fle_t_agree by (apply finite_not_nan; assumption).
    apply fle_false_of_lt; [exact Fj | exact Fi|].
    assert (HSi : grid_safe mn w (S i)) by (apply (grid_safe_le mn w n (S i) HW0 HS); lia).
    pose proof (edges_separated_f64 mn w i Fm Fw HW0 HSi (Hsep i ltac:(lia))) as L.
    pose proof (grid_mono mn w n Fm Fw HW HS (S i) j ltac:(lia) ltac:(lia)) as Mo. lra. }
  assert (Hst : forall k i, (i + k <= S n)%nat -> strict F64 fle_t (map (edgeF mn w) (seq i k))).
  { unfold strict. induction k as [| k IH]; intros i Hik; cbn [seq map]; constructor.
    - apply IH. lia.
    - apply Forall_forall. intros y Hy. apply in_map_iff in Hy. destruct Hy as (j & <- & Hj).
      apply in_seq in Hj. apply Hlt. lia. }
  destruct (build_bins_len O64 fle_t allr' fle_t_total fuel mn w mx es n (map (edgeF mn w) (seq 0 (S n))) Hb) as (E & L).
  - exact n_bins_fle_t.
  - apply edges_upto_f64.
  - apply Hst. lia.
  - split; [exact E|]. split; [exact L|]. intros i Hi. rewrite E.
    rewrite (map_nth_error (edgeF mn w) i (seq 0 (S n)) (d := i)); [reflexivity|].
    rewrite (nth_error_nth' _ 0%nat) by (rewrite seq_length; lia). rewrite seq_nth by lia. reflexivity.
Qed.

(* 4''. all observations are counted by the model's histogram over the built grid *)
Theorem all_counted_f64 (data : list F64) :
  Forall (fun x => fis_finite x = true /\ B2R mn <= B2R x <= B2R mx) data ->
  exists c, histogram F64 fle [es] (map (fun x => [x]) data) = Ok c /\ list_sum c = length data.
Proof.
  intros Hdata.
  destruct (histogram_spec F64 fle [es] (map (fun x => [x]) data)) as (c & Hc & _).
  { apply Forall_forall. intros r Hr. apply in_map_iff in Hr.
    destruct Hr as (x & <- & _). reflexivity. }
  exists c. split; [exact Hc|].
  unfold histogram in Hc.
  rewrite (total_count_gen F64 fle _ _ _ _ Hc).
  unfold hist_init. rewrite list_sum_repeat0. cbn [Nat.add].
  rewrite filter_all; [apply map_length|].
  apply Forall_forall. intros r Hr. apply in_map_iff in Hr.
  destruct Hr as (x & <- & Hx).
  rewrite Forall_forall in Hdata. destruct (Hdata x Hx) as (Fx' & Hxr).
  unfold grid_index_of. cbn [length Nat.eqb index_all].
  destruct (cover_build_f64 x Fx' Hxr) as (i & Hi & _). rewrite Hi. reflexivity.
Qed.
End GridBuild.

Corollary n_bins_estimate_sep_f64 (fuel : nat) (mn w mx : F64) (n : nat) :
  fis_finite mn = true -> fis_finite w = true -> fis_finite mx = true ->
  0 < B2R w -> B2R mn <= B2R mx ->
  n_bins O64 fle (fun _ => true) fuel mn w mx = Ok n -> grid_safe mn w n ->
  u64 * (Rabs (B2R mn) + (iR n + 1) * B2R w) * 4 <= B2R w / 4 ->
  (B2R mx - B2R mn) / B2R w - / 8 < iR n <= (B2R mx - B2R mn) / B2R w + 1 + / 8.
Proof.
  intros Fm Fw Fx HW Hmm Hrun HS Hsep.
  pose proof (n_bins_estimate_f64 fuel mn w mx n Fm Fw Fx HW Hmm Hrun HS) as E. cbv zeta in E.
  set (q := (B2R mx - B2R mn) / B2R w) in *.
  set (d := u64 * (Rabs (B2R mn) / B2R w + 2 * iR n)) in *.
  assert (Hd : d * B2R w = u64 * (Rabs (B2R mn) + 2 * (iR n * B2R w))) by (unfold d; field; lra).
  pose proof u64_pos as Hu. pose proof (Rabs_pos (B2R mn)) as M0. pose proof (iR_ge_0 n) as I0.
  assert (UW : 0 <= u64 * B2R w) by (apply Rmult_le_pos; lra).
  assert (UM : 0 <= u64 * Rabs (B2R mn)) by (apply Rmult_le_pos; lra).
  assert (D8 : d <= / 8).
  { apply (Rmult_le_reg_r (B2R w)); [exact HW|]. rewrite Hd. lra. }
  lra.
Qed.

(* ------------------------------------------------------------------ *)
(* counterexamples: the exact (integer) statements fail in binary64     *)
(* ------------------------------------------------------------------ *)
Lemma B2R_lt_sum_compute (a b c : F64) :
  (0 < Fnum (Fminus (Fplus (F_of b) (F_of c)) (F_of a)))%Z -> B2R a < B2R b + B2R c.
Proof.
  intros H. apply F2R_gt_0 in H. rewrite F2R_minus, F2R_plus, <- !B2R_F_of in H. lra.
Qed.

(* bins are not exactly equally wide: with mn = 0.1, w = 0.3 the first bin is wider than w and
   the second narrower *)
Example cx_unequal_width :
  B2R (edgeF ex_mn ex_w 0) + B2R ex_w < B2R (edgeF ex_mn ex_w 1) /\
  B2R (edgeF ex_mn ex_w 2) < B2R (edgeF ex_mn ex_w 1) + B2R ex_w.
Proof.
  split.
  - apply B2R_sum_lt_compute. vm_compute. reflexivity.
  - apply B2R_lt_sum_compute. vm_compute. reflexivity.
Qed.

(* the last edge may exceed max + w: mn = 0.1, w = 0.3, max = 1.9 (= edge 6) gives 7 bins and
   edge 7 > max + w as real numbers *)
Definition cx_mx : F64 := f64_of_bits 4611235658464650854.  (* edge 6, about 1.9 *)
Example cx_last_edge :
  n_bins O64 fle (fun _ => true) 100 ex_mn ex_w cx_mx = Ok 7%nat /\
  B2R cx_mx + B2R ex_w < B2R (edgeF ex_mn ex_w 7).
Proof.
  split; [vm_compute; reflexivity|]. apply B2R_sum_lt_compute. vm_compute. reflexivity.
Qed.

(* without the separation hypothesis consecutive edges can coincide: mn = 1, w = 2^-60 *)
Definition cx_one : F64 := f64_of_bits 4607182418800017408.  (* 1.0 *)
Definition cx_tiny : F64 := f64_of_bits 4336966441157787648. (* 2^-60 *)
Example cx_not_separated :
  fis_finite cx_one = true /\ fis_finite cx_tiny = true /\ 0 < B2R cx_tiny /\
  bits_of_f64 (edgeF cx_one cx_tiny 1) = bits_of_f64 (edgeF cx_one cx_tiny 0).
Proof.
  split; [vm_compute; reflexivity|]. split; [vm_compute; reflexivity|]. split.
  - change 0 with (B2R fzero). apply B2R_lt_compute. vm_compute. reflexivity.
  - vm_compute. reflexivity.
Qed.

(* the example grid: 6 bins, first edge 0.1, all the theorems' hypotheses hold *)
Example ex_estimate :
  (B2R ex_mx - B2R ex_mn) / B2R ex_w - / 8 < iR 6 <= (B2R ex_mx - B2R ex_mn) / B2R ex_w + 1 + / 8.
Proof.
  destruct ex_fin as (Fm & Fw & Fx). destruct ex_bounds as ((M0 & M1) & W1 & Hmm).
  apply (n_bins_estimate_sep_f64 100 ex_mn ex_w ex_mx 6 Fm Fw Fx ex_w_pos Hmm ex_run ex_safe).
  pose proof ex_w_ge as W4. pose proof u64_le_1024 as U. pose proof u64_pos as U0.
  rewrite Rabs_pos_eq by exact M0.
  assert (I : iR 6 = 6) by (unfold iR; cbn [Z.of_nat Pos.of_succ_nat Pos.succ]; reflexivity).
  rewrite I.
  assert (U2 : u64 <= / 1024 / 1024).
  { unfold u64. change (/ 1024 / 1024) with (bpow radix2 (-10) * bpow radix2 (-10)).
    rewrite <- bpow_plus. apply bpow_le. lia. }
  nra.
Qed.

(* termination from the inputs: N = 7 is large enough for the example *)
Example ex_safe7 : grid_safe ex_mn ex_w 7.
Proof.
  destruct ex_bounds as ((M0 & M1) & W1 & _). pose proof ex_w_pos as W0.
  split; [cbn; lia|].
  rewrite Rabs_pos_eq by exact M0.
  apply Rle_trans with (bpow radix2 4); [|apply bpow_le; lia].
  change (bpow radix2 4) with 16. unfold iR. cbn [Z.of_nat Pos.of_succ_nat Pos.succ]. lra.
Qed.

Example ex_terminates : exists n, (n <= 7)%nat /\
  n_bins O64 fle (fun _ => true) 8 ex_mn ex_w ex_mx = Ok n /\ grid_safe ex_mn ex_w n.
Proof.
  destruct ex_fin as (Fm & Fw & Fx). destruct ex_bounds as ((M0 & M1) & W1 & Hmm).
  apply (n_bins_f64_terminates_safe ex_mn ex_w ex_mx 7 Fm Fw Fx (Rlt_le _ _ ex_w_pos) ex_safe7).
  assert (W19 : 19 / 64 <= B2R ex_w).
  { replace (19 / 64) with (F2R (Float radix2 19 (-6))).
    - apply F2R_le_B2R_compute. vm_compute. discriminate.
    - unfold F2R. cbn [Fnum Fexp]. change (bpow radix2 (-6)) with (/ 64). lra. }
  assert (X2 : B2R ex_mx <= 2) by (apply (B2R_le_Z_compute ex_mx 2); vm_compute; discriminate).
  pose proof u64_le_1024 as U. pose proof u64_pos as U0.
  rewrite Rabs_pos_eq by exact M0.
  assert (I : iR 7 = 7) by (unfold iR; cbn [Z.of_nat Pos.of_succ_nat Pos.succ]; reflexivity).
  rewrite I. nra.
Qed.

Print Assumptions edge_error_R.
Print Assumptions width_error_R.
Print Assumptions grid_safe_side.
Print Assumptions edge_error_f64.
Print Assumptions width_error_f64.
Print Assumptions edges_separated_f64.
Print Assumptions first_edge_f64.
Print Assumptions last_edge_f64.
Print Assumptions cover_f64.
Print Assumptions cover_f64_fle.
Print Assumptions n_bins_estimate_f64.
Print Assumptions n_bins_estimate_sep_f64.
Print Assumptions n_bins_f64_terminates_safe.
Print Assumptions build_edges_f64.
Print Assumptions cover_build_f64.
Print Assumptions all_counted_f64.
Print Assumptions cx_unequal_width.
Print Assumptions cx_last_edge.
Print Assumptions cx_not_separated.
Print Assumptions ex_terminates.
