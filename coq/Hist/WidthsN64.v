(* Hist/Widths.v at N64, end to end: strategy_full n64_elt O64 composed with the binary64 grid
   theorems of Hist/StrategiesF64Width.v.  For finite data every hypothesis about minimum, maximum
   and width of those theorems is DERIVED from the run; what remains is the no-overflow side
   condition of the grid (grid_safe) and finiteness of the width (an infinite width is accepted by
   EquiSpaced::new, see Hist/WidthsExamples.v ex_n64_infinite_width). *)
From Coq Require Import List Arith ZArith Lia Bool.
From Flocq Require Import Core BinarySingleNaN.
Require Import Reals Lra Psatz.
From NS Require Import Base.Order Base.Res Base.SortDedup Num.Ops Num.F64 Num.F64Inst
  Quantile.Index Quantile.Interp Quantile.Lane Quantile.Spec Quantile.IndexProofs Quantile.InterpF64
  Num.SumF64 Hist.Edges Hist.Histogram Hist.Strategies Hist.StrategiesProofs Hist.StrategiesF64
  Hist.StrategiesF64Width Hist.Widths Hist.WidthsProofs Hist.WidthsF64.
Import ListNotations.
Local Open Scope R_scope.

(* ================================================================== *)
(* first_min / first_max depend on the order only where it is consulted *)
(* ================================================================== *)

Section MinMaxExt.
Context {T : Type}.
Variables (E1 E2 : elt T) (P : T -> Prop).
Hypothesis agree : forall a b, P a -> P b -> e_leb E1 a b = e_leb E2 a b.

Lemma ltb_ext : forall a b, P a -> P b -> ltb E1 a b = ltb E2 a b.
Proof. intros a b Pa Pb. unfold ltb. rewrite (agree a b Pa Pb), (agree b a Pb Pa). reflexivity. Qed.

Lemma first_min_ext : forall t x, P x -> Forall P t ->
  first_min E1 x t = first_min E2 x t /\ P (first_min E1 x t).
Proof.
  induction t as [| y t IH]; intros x Px Pt.
  - split; [reflexivity | exact Px].
  - inversion Pt as [| ? ? Py Pt']; subst.
    rewrite !first_min_cons, (ltb_ext y x Py Px).
    apply IH; [destruct (ltb E2 y x); assumption | exact Pt'].
Qed.

Lemma first_max_ext : forall t x, P x -> Forall P t ->
  first_max E1 x t = first_max E2 x t /\ P (first_max E1 x t).
Proof.
  induction t as [| y t IH]; intros x Px Pt.
  - split; [reflexivity | exact Px].
  - inversion Pt as [| ? ? Py Pt']; subst.
    rewrite !first_max_cons, (ltb_ext x y Px Py).
    apply IH; [destruct (ltb E2 x y); assumption | exact Pt'].
Qed.
End MinMaxExt.

(* n64_elt with the order totalised (NaN below everything): only its e_leb is used *)
Definition n64t_elt : elt F64 := {|
  e_leb := fle_t;
  e_sub := e_sub n64_elt; e_mul := e_mul n64_elt; e_div := e_div n64_elt;
  e_of_usize := e_of_usize n64_elt; e_of_f64 := e_of_f64 n64_elt; e_car := e_car n64_elt |}.

Lemma n64_agree : forall a b, nn a -> nn b -> e_leb n64_elt a b = e_leb n64t_elt a b.
Proof. intros a b Na Nb. exact (fle_t_agree a b Na Nb). Qed.

(* the minimum and maximum of finite N64 data *)
Theorem first_min_n64 : forall x l, Forall (fun y => fis_finite y = true) (x :: l) ->
  In (first_min n64_elt x l) (x :: l) /\ fis_finite (first_min n64_elt x l) = true /\
  Forall (fun y => B2R (first_min n64_elt x l) <= B2R y) (x :: l).
Proof.
  intros x l Hfin.
  pose proof (first_min_In n64_elt l x) as Hin.
  assert (Fm : fis_finite (first_min n64_elt x l) = true).
  { rewrite Forall_forall in Hfin. apply Hfin. exact Hin. }
  split; [exact Hin |]. split; [exact Fm |].
  assert (Hnn : Forall nn (x :: l)).
  { eapply Forall_impl; [| exact Hfin]. intros a Fa. apply finite_not_nan. exact Fa. }
  inversion Hnn as [| ? ? Nx Nl]; subst.
  destruct (first_min_ext n64_elt n64t_elt nn n64_agree l x Nx Nl) as (Eq & Nm).
  apply Forall_forall. intros y Hy.
  pose proof (first_min_le n64t_elt fle_t_total fle_t_trans l x y Hy) as Hle.
  rewrite <- Eq in Hle. cbn [e_leb n64t_elt] in Hle.
  assert (Fy : fis_finite y = true) by (rewrite Forall_forall in Hfin; apply Hfin; exact Hy).
  rewrite <- (fle_t_agree _ _ Nm (finite_not_nan y Fy)) in Hle.
  apply (fle_spec _ _ Fm Fy). exact Hle.
Qed.

Theorem first_max_n64 : forall x l, Forall (fun y => fis_finite y = true) (x :: l) ->
  In (first_max n64_elt x l) (x :: l) /\ fis_finite (first_max n64_elt x l) = true /\
  Forall (fun y => B2R y <= B2R (first_max n64_elt x l)) (x :: l).
Proof.
  intros x l Hfin.
  pose proof (first_max_In n64_elt l x) as Hin.
  assert (Fm : fis_finite (first_max n64_elt x l) = true).
  { rewrite Forall_forall in Hfin. apply Hfin. exact Hin. }
  split; [exact Hin |]. split; [exact Fm |].
  assert (Hnn : Forall nn (x :: l)).
  { eapply Forall_impl; [| exact Hfin]. intros a Fa. apply finite_not_nan. exact Fa. }
  inversion Hnn as [| ? ? Nx Nl]; subst.
  destruct (first_max_ext n64_elt n64t_elt nn n64_agree l x Nx Nl) as (Eq & Nm).
  apply Forall_forall. intros y Hy.
  pose proof (first_max_ge n64t_elt fle_t_total fle_t_trans l x y Hy) as Hle.
  rewrite <- Eq in Hle. cbn [e_leb n64t_elt] in Hle.
  assert (Fy : fis_finite y = true) by (rewrite Forall_forall in Hfin; apply Hfin; exact Hy).
  rewrite <- (fle_t_agree _ _ (finite_not_nan y Fy) Nm) in Hle.
  apply (fle_spec _ _ Fy Fm). exact Hle.
Qed.

(* ================================================================== *)
(* N64 end to end                                                       *)
(* ================================================================== *)

Lemma o_zero_O64 : o_zero O64 = fzero. Proof. reflexivity. Qed.

Theorem strategy_full_n64_spec : forall fuel_of k data L w nb es,
  Forall (fun y => fis_finite y = true) data ->
  strategy_full n64_elt O64 (fun _ => true) fuel_of k data L = Ok (inr (w, nb, es)) ->
  exists x l, data = x :: l /\
    let mn := first_min n64_elt x l in
    let mx := first_max n64_elt x l in
    from_array n64_elt fzero k data L = Ok (inr (w, mn, mx)) /\
    In mn data /\ In mx data /\ fis_finite mn = true /\ fis_finite mx = true /\
    Forall (fun y => B2R mn <= B2R y <= B2R mx) data /\
    B2R mn < B2R mx /\
    fis_nan w = false /\
    (w = B754_infinity false \/ (fis_finite w = true /\ 0 < B2R w)) /\
    n_bins O64 fle (fun _ => true) (fuel_of w mn mx) mn w mx = Ok nb /\
    build O64 fle (fun _ => true) (fuel_of w mn mx) mn w mx = Ok es /\
    (fis_finite w = true -> grid_safe mn w nb ->
       (1 <= nb)%nat /\
       B2R (edgeF mn w 0) = B2R mn /\
       B2R mx < B2R (edgeF mn w nb) /\
       B2R (edgeF mn w nb) <= B2R mx + B2R w + 2 * u64 * (Rabs (B2R mn) + (2 * iR nb - 1) * B2R w) /\
       (forall y, In y data ->
          exists i, index_of F64 fle es y = Some i /\
            forall i', (exists a b, nth_error es i' = Some a /\ nth_error es (i' + 1) = Some b /\
                                    fle a y = true /\ sltb F64 fle y b = true) <-> i' = i) /\
       (exists c, histogram F64 fle [es] (map (fun y => [y]) data) = Ok c /\
                  list_sum c = length data) /\
       ((forall i, (i < nb)%nat -> 2 * u64 * (Rabs (B2R mn) + (2 * iR i + 1) * B2R w) < B2R w) ->
          es = map (edgeF mn w) (seq 0 (S nb)) /\ bins_len F64 es = nb)).
Proof.
  intros fuel_of k data L w nb es Hfin H.
  destruct (strategy_full_refines n64_elt O64 _ fuel_of k data L w nb es H)
    as (mn & mx & Hfa & Hnb & Hb & _).
  rewrite o_zero_O64 in Hfa. rewrite n64_leb in Hnb, Hb.
  destruct (from_array_inr_nonempty _ _ _ _ _ _ Hfa) as (x & l & ->).
  exists x, l. split; [reflexivity |]. cbv zeta.
  pose proof (from_array_n64_accepted k (x :: l) L w mn mx Hfa) as (Nw & _ & Hmm & Hwpos).
  pose proof Hfa as Hfa'. apply from_array_inr in Hfa'. destruct Hfa' as (_ & Emn & Emx).
  rewrite <- Emn, <- Emx.
  destruct (first_min_n64 x l Hfin) as (Imn & Fmn & Lmn).
  destruct (first_max_n64 x l Hfin) as (Imx & Fmx & Lmx).
  rewrite <- Emn in Imn, Fmn, Lmn. rewrite <- Emx in Imx, Fmx, Lmx.
  assert (Hrange : Forall (fun y => B2R mn <= B2R y <= B2R mx) (x :: l)).
  { rewrite Forall_forall in *. intros y Hy. split; [apply Lmn | apply Lmx]; exact Hy. }
  assert (Hlt : B2R mn < B2R mx).
  { destruct (Rlt_or_le (B2R mn) (B2R mx)) as [Hl | Hg]; [exact Hl |].
    apply (fle_spec _ _ Fmx Fmn) in Hg. congruence. }
  split; [exact Hfa |]. split; [exact Imn |]. split; [exact Imx |].
  split; [exact Fmn |]. split; [exact Fmx |]. split; [exact Hrange |]. split; [exact Hlt |].
  split; [exact Nw |]. split; [exact Hwpos |]. split; [exact Hnb |]. split; [exact Hb |].
  intros Fw HS.
  assert (HW : 0 < B2R w).
  { destruct Hwpos as [Ei | [_ Hp]]; [subst w; discriminate Fw | exact Hp]. }
  assert (Hle : B2R mn <= B2R mx) by lra.
  destruct (first_edge_f64 _ mn w mx nb Fmn Fw Fmx Hle Hnb) as (E0 & Hn1).
  destruct (last_edge_f64 _ mn w mx nb Fmn Fw Fmx HW Hle Hnb HS) as (Hab & Hlast).
  split; [exact Hn1 |]. split; [exact E0 |]. split; [exact Hab |]. split; [exact Hlast |].
  split.
  { intros y Hy.
    assert (Fy : fis_finite y = true) by (rewrite Forall_forall in Hfin; apply Hfin; exact Hy).
    rewrite Forall_forall in Hrange.
    exact (cover_build_f64 _ mn w mx nb es Fmn Fw Fmx HW Hnb HS Hb y Fy (Hrange y Hy)). }
  split.
  { apply (all_counted_f64 _ mn w mx nb es Fmn Fw Fmx HW Hnb HS Hb).
    rewrite Forall_forall in *. intros y Hy. split; [apply Hfin | apply Hrange]; exact Hy. }
  intros Hsep.
  destruct (build_edges_f64 _ mn w mx nb es Fmn Fw Fmx HW Hnb HS Hb Hsep) as (E1 & E2 & _).
  split; assumption.
Qed.

Print Assumptions strategy_full_n64_spec.

(* ---- the hypotheses are satisfiable: 1.0, 2.0, 4.0, 8.5 under Sqrt (width 3.75, 3 bins) ---- *)
Definition exn_data : list F64 :=
  map f64_of_bits [4607182418800017408; 4611686018427387904; 4616189618054758400; 4620974692658839552]%Z.
Definition exn_L : libm := {| l_cbrt := fzero; l_log2 := fzero |}.
Definition exn_run : res (serr + F64 * nat * list F64) :=
  strategy_full n64_elt O64 (fun _ => true) (fun _ _ _ => 100%nat) KSqrt exn_data exn_L.
Definition exn_w : F64 := match exn_run with Ok (inr (w, _, _)) => w | _ => fzero end.
Definition exn_mn : F64 := first_min n64_elt (hd fzero exn_data) (tl exn_data).

Example exn_hypotheses :
  (exists es, exn_run = Ok (inr (exn_w, 3%nat, es))) /\
  Forall (fun y => fis_finite y = true) exn_data /\
  fis_finite exn_w = true /\
  grid_safe exn_mn exn_w 3 /\
  (forall i, (i < 3)%nat -> 2 * u64 * (Rabs (B2R exn_mn) + (2 * iR i + 1) * B2R exn_w) < B2R exn_w).
Proof.
  assert (H1 : match exn_run with Ok (inr (_, nb, _)) => nb = 3%nat | _ => False end)
    by (vm_compute; reflexivity).
  assert (H2 : forallb fis_finite exn_data = true) by (vm_compute; reflexivity).
  assert (H3 : fis_finite exn_w = true) by (vm_compute; reflexivity).
  assert (M0 : 0 <= B2R exn_mn).
  { change 0 with (B2R fzero). apply B2R_le_compute. vm_compute. discriminate. }
  assert (M1 : B2R exn_mn <= 1) by (apply (B2R_le_Z_compute exn_mn 1); vm_compute; discriminate).
  assert (W4 : B2R exn_w <= 4) by (apply (B2R_le_Z_compute exn_w 4); vm_compute; discriminate).
  assert (W1 : 1 <= B2R exn_w).
  { replace 1 with (F2R (Float radix2 1 0)) by (unfold F2R; cbn [Fnum Fexp bpow]; ring).
    apply F2R_le_B2R_compute. vm_compute. discriminate. }
  pose proof u64_le_1024 as U. pose proof u64_pos as U0.
  split.
  { unfold exn_w. destruct exn_run as [[e | [[w nb] es]] | |]; try contradiction.
    subst nb. exists es. reflexivity. }
  split.
  { apply Forall_forall. intros y Hy. exact (proj1 (forallb_forall _ _) H2 y Hy). }
  split; [exact H3 |].
  split.
  - split; [cbn; lia |].
    rewrite Rabs_pos_eq by exact M0.
    apply Rle_trans with (bpow radix2 5); [| apply bpow_le; lia].
    change (bpow radix2 5) with 32. unfold iR. cbn [Z.of_nat Pos.of_succ_nat Pos.succ]. lra.
  - intros i Hi. rewrite Rabs_pos_eq by exact M0.
    pose proof (iR_small i ltac:(lia)) as I7. pose proof (iR_ge_0 i) as I0.
    assert (B : B2R exn_mn + (2 * iR i + 1) * B2R exn_w <= 64) by nra.
    nra.
Qed.
