(* The EquiSpaced bin builder of Hist/Strategies.v instantiated at IEEE-754 binary64
   (Num/F64Inst.v, fle, every index representable):
   B1. value and monotonicity of the grid edges, termination of the repaired counting loop;
   B2. fle is a total preorder on the non-NaN values (what N64 contains). *)
From Coq Require Import List Arith ZArith Lia Bool.
From Flocq Require Import Core BinarySingleNaN.
Require Import Reals Lra Psatz.
From NS Require Import Base.Res Num.Ops Num.F64 Num.F64Inst Hist.Strategies
  Quantile.IndexProofs Quantile.InterpF64.
Import ListNotations.
Open Scope R_scope.

Notation B2R := (@BinarySingleNaN.B2R 53 1024).
Notation rnd := (round radix2 (SpecFloat.fexp 53 1024) ZnearestE).
Notation fmt := (generic_format radix2 (SpecFloat.fexp 53 1024)).

Definition O64 : ops F64 := f64_ops [] [].
Definition allr : nat -> bool := fun _ => true.

(* the i-th grid edge in binary64: min + (i as f64) * width *)
Definition edgeF (mn w : F64) (i : nat) : F64 := fadd mn (fmul (f64_of_Z (Z.of_nat i)) w).

(* ------------------------------------------------------------------ *)
(* B1a: the edges                                                      *)
(* ------------------------------------------------------------------ *)
Theorem edge_f64 (mn w : F64) (i : nat) :
  edge O64 (fun _ => true) mn w i = Ok (fadd mn (fmul (f64_of_Z (Z.of_nat i)) w)).
Proof. reflexivity. Qed.

Lemma edge_edgeF (mn w : F64) (i : nat) : edge O64 allr mn w i = Ok (edgeF mn w i).
Proof. reflexivity. Qed.

Lemma fadd_finite_args (x y : F64) :
  fis_finite (fadd x y) = true -> fis_finite x = true /\ fis_finite y = true.
Proof.
  intros H.
  destruct x as [sx | sx | | sx mx ex Hx]; destruct y as [sy | sy | | sy my ey Hy];
    try (split; reflexivity); exfalso; revert H; try destruct sx; try destruct sy; discriminate.
Qed.

Lemma fmul_finite_args (x y : F64) :
  fis_finite (fmul x y) = true -> fis_finite x = true /\ fis_finite y = true.
Proof.
  intros H.
  destruct x as [sx | sx | | sx mx ex Hx]; destruct y as [sy | sy | | sy my ey Hy];
    try (split; reflexivity); exfalso; revert H; discriminate.
Qed.

(* forward: the value when neither operation overflows *)
Theorem edgeF_correct (mn w : F64) (i : nat) :
  fis_finite mn = true -> fis_finite w = true -> (Z.of_nat i <= 2 ^ 53)%Z ->
  Rabs (rnd (IZR (Z.of_nat i) * B2R w)) < bpow radix2 1024 ->
  Rabs (rnd (B2R mn + rnd (IZR (Z.of_nat i) * B2R w))) < bpow radix2 1024 ->
  fis_finite (edgeF mn w i) = true /\
  B2R (edgeF mn w i) = rnd (B2R mn + rnd (IZR (Z.of_nat i) * B2R w)).
Proof.
  intros Fm Fw Hi B1 B2.
  destruct (f64_of_Z_exact (Z.of_nat i)) as (Fi & Ei); [lia|].
  destruct (fmul_correct (f64_of_Z (Z.of_nat i)) w Fi Fw) as (Fp & Ep).
  { rewrite Ei. exact B1. }
  rewrite Ei in Ep.
  destruct (fadd_correct mn (fmul (f64_of_Z (Z.of_nat i)) w) Fm Fp) as (Fe & Ee).
  { rewrite Ep. exact B2. }
  rewrite Ep in Ee. unfold edgeF. split; assumption.
Qed.

(* backward: a finite edge has finite inputs and the expected value *)
Theorem edgeF_value (mn w : F64) (i : nat) :
  (Z.of_nat i <= 2 ^ 53)%Z -> fis_finite (edgeF mn w i) = true ->
  fis_finite mn = true /\ fis_finite w = true /\
  Rabs (rnd (IZR (Z.of_nat i) * B2R w)) < bpow radix2 1024 /\
  B2R (edgeF mn w i) = rnd (B2R mn + rnd (IZR (Z.of_nat i) * B2R w)).
Proof.
  intros Hi Fe. unfold edgeF in *.
  destruct (fadd_finite_args _ _ Fe) as (Fm & Fp).
  destruct (fmul_finite_args _ _ Fp) as (Fi & Fw).
  destruct (f64_of_Z_exact (Z.of_nat i)) as (_ & Ei); [lia|].
  pose proof (fmul_finite_inv _ _ Fp) as B1. rewrite Ei in B1.
  destruct (fmul_correct (f64_of_Z (Z.of_nat i)) w Fi Fw) as (_ & Ep).
  { rewrite Ei. exact B1. }
  rewrite Ei in Ep.
  pose proof (fadd_finite_inv _ _ Fm Fp Fe) as B2.
  destruct (fadd_correct mn (fmul (f64_of_Z (Z.of_nat i)) w) Fm Fp B2) as (_ & Ee).
  rewrite Ep in Ee.
  split; [exact Fm|]. split; [exact Fw|]. split; [exact B1 | exact Ee].
Qed.

(* the first edge is the minimum (as a real number: the sign of a zero may differ) *)
Theorem edgeF_0 (mn w : F64) :
  fis_finite mn = true -> fis_finite w = true ->
  fis_finite (edgeF mn w 0) = true /\ B2R (edgeF mn w 0) = B2R mn.
Proof.
  intros Fm Fw.
  assert (Z0 : rnd (IZR (Z.of_nat 0) * B2R w) = 0).
  { cbn [Z.of_nat]. rewrite Rmult_0_l. apply rnd_0. }
  assert (Zm : rnd (B2R mn + rnd (IZR (Z.of_nat 0) * B2R w)) = B2R mn).
  { rewrite Z0, Rplus_0_r. apply rnd_id, fmt_B2R. }
  destruct (edgeF_correct mn w 0 Fm Fw) as (Fe & Ee).
  - cbn [Z.of_nat]. lia.
  - rewrite Z0, Rabs_R0. apply bpow_gt_0.
  - rewrite Zm. apply B2R_bound. exact Fm.
  - split; [exact Fe|]. rewrite Ee. exact Zm.
Qed.

(* edges are monotone in the index, and finiteness is downward closed *)
Theorem edge_mono (mn w : F64) (i j : nat) :
  0 <= B2R w -> (i <= j)%nat -> (Z.of_nat j <= 2 ^ 53)%Z ->
  fis_finite (edgeF mn w j) = true ->
  fis_finite (edgeF mn w i) = true /\ B2R (edgeF mn w i) <= B2R (edgeF mn w j).
Proof.
  intros Hw Hij Hj Fj.
  destruct (edgeF_value mn w j Hj Fj) as (Fm & Fw & Bj & Ej).
  set (W := B2R w) in *. set (M := B2R mn) in *.
  assert (Ii : 0 <= IZR (Z.of_nat i)) by (apply IZR_le; lia).
  assert (Iij : IZR (Z.of_nat i) <= IZR (Z.of_nat j)) by (apply IZR_le; lia).
  assert (P0 : 0 <= rnd (IZR (Z.of_nat i) * W)) by (apply rnd_ge_0; nra).
  assert (Pij : rnd (IZR (Z.of_nat i) * W) <= rnd (IZR (Z.of_nat j) * W)) by (apply rnd_le; nra).
  assert (Lo : M <= rnd (M + rnd (IZR (Z.of_nat i) * W))).
  { apply rnd_ge_fmt; [apply fmt_B2R | lra]. }
  assert (Hi : rnd (M + rnd (IZR (Z.of_nat i) * W)) <= rnd (M + rnd (IZR (Z.of_nat j) * W))).
  { apply rnd_le. lra. }
  destruct (edgeF_correct mn w i Fm Fw) as (Fi & Ei).
  - lia.
  - fold W. rewrite Rabs_pos_eq by exact P0. apply Rabs_def2 in Bj. lra.
  - fold W M. apply (between_bound M (B2R (edgeF mn w j))).
    + apply B2R_bound. exact Fm.
    + apply B2R_bound. exact Fj.
    + rewrite Ej. split; assumption.
  - split; [exact Fi|]. rewrite Ei, Ej. exact Hi.
Qed.

(* ------------------------------------------------------------------ *)
(* B1b: termination of the counting loop                               *)
(* ------------------------------------------------------------------ *)

(* over any carrier: if SOME index has its edge above the maximum, the loop stops at the
   least such index, within that many steps *)
Section Loop.
Context {T : Type} (O : ops T) (leb : T -> T -> bool).
Let e (mn w : T) (i : nat) : T := o_add O mn (o_mul O (o_of_nat O i) w).

Lemma n_bins_loop_least (mn w mx : T) : forall k n0,
  leb (e mn w (n0 + k)) mx = false ->
  exists n, (n0 <= n <= n0 + k)%nat /\
    n_bins_loop O leb (fun _ => true) (S k) mn w mx n0 = Ok n /\
    leb (e mn w n) mx = false /\
    forall i, (n0 <= i < n)%nat -> leb (e mn w i) mx = true.
Proof.
  induction k as [| k IH]; intros n0 Hk.
  - rewrite Nat.add_0_r in Hk. exists n0. split; [lia|].
    split. { cbn [n_bins_loop edge bind]. fold (e mn w n0). rewrite Hk. reflexivity. }
    split; [exact Hk|]. intros i Hi. lia.
  - destruct (leb (e mn w n0) mx) eqn:H0.
    + replace (n0 + S k)%nat with (S n0 + k)%nat in Hk by lia.
      destruct (IH (S n0) Hk) as (n & Hn & Hrun & Hf & Hlt).
      exists n. split; [lia|].
      split. { cbn [n_bins_loop edge bind]. fold (e mn w n0). rewrite H0. exact Hrun. }
      split; [exact Hf|]. intros i Hi.
      destruct (Nat.eq_dec i n0) as [-> | Hne]; [exact H0 | apply Hlt; lia].
    + exists n0. split; [lia|].
      split. { cbn [n_bins_loop edge bind]. fold (e mn w n0). rewrite H0. reflexivity. }
      split; [exact H0|]. intros i Hi. lia.
Qed.
End Loop.

(* binary64: termination within N + 1 steps whenever edge N exceeds the maximum;
   the result is the least index whose edge exceeds the maximum *)
Theorem n_bins_f64_terminates (mn w mx : F64) (N : nat) :
  fle (edgeF mn w N) mx = false ->
  exists n, (n <= N)%nat /\
    n_bins O64 fle (fun _ => true) (S N) mn w mx = Ok n /\
    fle (edgeF mn w n) mx = false /\
    forall i, (i < n)%nat -> fle (edgeF mn w i) mx = true.
Proof.
  intros HN.
  destruct (n_bins_loop_least O64 fle mn w mx N 0 HN) as (n & Hn & Hrun & Hf & Hlt).
  exists n. split; [lia|]. split; [exact Hrun|]. split; [exact Hf|].
  intros i Hi. apply Hlt. lia.
Qed.

(* ... and, by monotonicity, it is a threshold: every later finite edge also exceeds the maximum *)
Theorem n_bins_f64_threshold (mn w mx : F64) (N n : nat) :
  fis_finite mx = true -> 0 <= B2R w ->
  n_bins O64 fle (fun _ => true) (S N) mn w mx = Ok n ->
  fle (edgeF mn w n) mx = false ->
  forall j, (n <= j)%nat -> (Z.of_nat j <= 2 ^ 53)%Z -> fis_finite (edgeF mn w j) = true ->
    fle (edgeF mn w j) mx = false /\ B2R mx < B2R (edgeF mn w j).
Proof.
  intros Fx Hw _ Hn j Hj Hj53 Fj.
  destruct (edge_mono mn w n j Hw Hj Hj53 Fj) as (Fn & Hle).
  assert (Hlt : B2R mx < B2R (edgeF mn w n)).
  { destruct (Rlt_or_le (B2R mx) (B2R (edgeF mn w n))) as [L | G]; [exact L|].
    apply (fle_spec _ _ Fn Fx) in G. rewrite G in Hn. discriminate Hn. }
  split; [|lra].
  destruct (fle (edgeF mn w j) mx) eqn:E; [|reflexivity].
  apply (fle_spec _ _ Fj Fx) in E. lra.
Qed.

(* real-number form of the hypothesis: edge N is finite and lies above the maximum *)
Lemma fle_false_of_lt (a b : F64) :
  fis_finite a = true -> fis_finite b = true -> B2R b < B2R a -> fle a b = false.
Proof.
  intros Fa Fb H. destruct (fle a b) eqn:E; [|reflexivity].
  apply (fle_spec _ _ Fa Fb) in E. lra.
Qed.

Corollary n_bins_f64_terminates_R (mn w mx : F64) (N : nat) :
  fis_finite mn = true -> fis_finite w = true -> fis_finite mx = true ->
  0 <= B2R w -> (Z.of_nat N <= 2 ^ 53)%Z ->
  Rabs (rnd (IZR (Z.of_nat N) * B2R w)) < bpow radix2 1024 ->
  Rabs (rnd (B2R mn + rnd (IZR (Z.of_nat N) * B2R w))) < bpow radix2 1024 ->
  B2R mx < rnd (B2R mn + rnd (IZR (Z.of_nat N) * B2R w)) ->
  exists n, (n <= N)%nat /\
    n_bins O64 fle (fun _ => true) (S N) mn w mx = Ok n /\
    (forall i, (i < n)%nat -> B2R (edgeF mn w i) <= B2R mx) /\
    (forall j, (n <= j <= N)%nat -> B2R mx < B2R (edgeF mn w j)).
Proof.
  intros Fm Fw Fx Hw HN B1 B2 Hgt.
  destruct (edgeF_correct mn w N Fm Fw HN B1 B2) as (FN & EN).
  assert (HfN : fle (edgeF mn w N) mx = false).
  { apply fle_false_of_lt; [exact FN | exact Fx | rewrite EN; exact Hgt]. }
  destruct (n_bins_f64_terminates mn w mx N HfN) as (n & Hn & Hrun & Hf & Hlt).
  exists n. split; [exact Hn|]. split; [exact Hrun|]. split.
  - intros i Hi.
    destruct (edge_mono mn w i N Hw) as (Fi & _); [lia | exact HN | exact FN|].
    apply (fle_spec _ _ Fi Fx). apply Hlt. exact Hi.
  - intros j Hj.
    destruct (edge_mono mn w j N Hw) as (Fj & _); [lia | exact HN | exact FN|].
    apply (n_bins_f64_threshold mn w mx N n Fx Hw Hrun Hf j); [lia | lia | exact Fj].
Qed.

(* ------------------------------------------------------------------ *)
(* B2: fle is a total preorder on the non-NaN binary64 values           *)
(* ------------------------------------------------------------------ *)
(* The generic coverage theorem (Hist/StrategiesProofs.v, build_cover) assumes leb total and
   transitive on the WHOLE carrier.  On F64 totality fails exactly at NaN (fle NaN x = fle x NaN =
   false).  N64 excludes NaN by construction (noisy_float panics on NaN), so the carrier the
   implementation works over is the subset {x : F64 | fis_nan x = false}; on that subset fle is
   reflexive, total and transitive (below), which are the only facts about leb that build_cover
   uses.  Every value build_cover compares is either an input (mn, mx, x: N64 values, non-NaN)
   or an edge returned by `edge`, which n64 arithmetic would have rejected with a panic had it
   been NaN. *)

Lemma fle_char (a b : F64) : fis_nan a = false -> fis_nan b = false ->
  (fle a b = true <->
   a = B754_infinity true \/ b = B754_infinity false \/
   (fis_finite a = true /\ fis_finite b = true /\ B2R a <= B2R b)).
Proof.
  intros Na Nb.
  destruct a as [sa | [|] | | sa ma ea Ha]; try discriminate Na;
  destruct b as [sb | [|] | | sb mb eb Hb]; try discriminate Nb;
  try (rewrite fle_spec by reflexivity; split;
       [ intros H; right; right; split; [reflexivity | split; [reflexivity | exact H]]
       | intros [H | [H | (_ & _ & H)]]; [discriminate H | discriminate H | exact H] ]);
  try (split; [ intros _; auto; fail | intros _; reflexivity ]);
  try (split; [ intros H; discriminate H
              | intros [H | [H | (H1 & H2 & _)]]; try discriminate H; try discriminate H1; discriminate H2 ]).
Qed.

Lemma fle_true_not_nan (a b : F64) : fle a b = true -> fis_nan a = false /\ fis_nan b = false.
Proof.
  intros H. destruct a as [sa | sa | | sa ma ea Ha]; destruct b as [sb | sb | | sb mb eb Hb];
    try (split; reflexivity); discriminate H.
Qed.

Lemma nonnan_cases (a : F64) : fis_nan a = false ->
  a = B754_infinity true \/ a = B754_infinity false \/ fis_finite a = true.
Proof.
  intros Na. destruct a as [sa | [|] | | sa ma ea Ha]; try discriminate Na; auto.
Qed.

Theorem fle_refl_nonnan (a : F64) : fis_nan a = false -> fle a a = true.
Proof.
  intros Na. apply (fle_char a a Na Na).
  destruct (nonnan_cases a Na) as [E | [E | Fa]]; auto. right. right. split; [exact Fa|]. split; [exact Fa | lra].
Qed.

Theorem fle_total_nonnan (a b : F64) :
  fis_nan a = false -> fis_nan b = false -> fle a b = true \/ fle b a = true.
Proof.
  intros Na Nb.
  destruct (nonnan_cases a Na) as [Ea | [Ea | Fa]].
  - left. apply (fle_char a b Na Nb). auto.
  - right. apply (fle_char b a Nb Na). auto.
  - destruct (nonnan_cases b Nb) as [Eb | [Eb | Fb]].
    + right. apply (fle_char b a Nb Na). auto.
    + left. apply (fle_char a b Na Nb). auto.
    + destruct (Rle_or_lt (B2R a) (B2R b)) as [H | H].
      * left. apply (fle_char a b Na Nb). auto.
      * right. apply (fle_char b a Nb Na). right. right. split; [exact Fb|]. split; [exact Fa | lra].
Qed.

Theorem fle_trans_nonnan (a b c : F64) :
  fle a b = true -> fle b c = true -> fle a c = true.
Proof.
  intros Hab Hbc.
  destruct (fle_true_not_nan a b Hab) as (Na & Nb). destruct (fle_true_not_nan b c Hbc) as (_ & Nc).
  apply (fle_char a b Na Nb) in Hab. apply (fle_char b c Nb Nc) in Hbc. apply (fle_char a c Na Nc).
  destruct Hab as [Ea | [Eb | (Fa & Fb & Hab)]]; [auto | |].
  - destruct Hbc as [Eb' | [Ec | (Fb & _)]]; [| auto |].
    + rewrite Eb in Eb'. discriminate Eb'.
    + rewrite Eb in Fb. discriminate Fb.
  - destruct Hbc as [Eb' | [Ec | (_ & Fc & Hbc)]]; [| auto |].
    + rewrite Eb' in Fb. discriminate Fb.
    + right. right. split; [exact Fa|]. split; [exact Fc | lra].
Qed.

(* the values the builder handles stay non-NaN as long as they are finite *)
Lemma edgeF_finite_not_nan (mn w : F64) (i : nat) :
  fis_finite (edgeF mn w i) = true -> fis_nan (edgeF mn w i) = false.
Proof. apply finite_not_nan. Qed.

Print Assumptions edge_f64.
Print Assumptions edgeF_correct.
Print Assumptions edgeF_value.
Print Assumptions edgeF_0.
Print Assumptions edge_mono.
Print Assumptions n_bins_f64_terminates.
Print Assumptions n_bins_f64_threshold.
Print Assumptions n_bins_f64_terminates_R.
Print Assumptions fle_refl_nonnan.
Print Assumptions fle_total_nonnan.
Print Assumptions fle_trans_nonnan.
