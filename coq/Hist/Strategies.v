(* histogram/strategies.rs: EquiSpaced (validity check, n_bins, build) shared by the Sqrt,
   Rice, Sturges, FreedmanDiaconis and Auto strategies, over an abstract ordered carrier.
   The advised bin width is an INPUT of this model (it is read from the implementation's
   bin_width(): it involves sqrt / powf / log2 / a quantile, and the property constrains it only
   through the validity check).  [repr i] says whether T::from_usize(i) is Some. *)
From Coq Require Import List Arith Bool.
Import ListNotations.
From NS Require Import Base.Res Base.SortDedup Num.Ops Hist.Edges.

Section S.
Context {T : Type}.
Variable O : ops T.
Variable leb : T -> T -> bool.
Variable repr : nat -> bool.

(* EquiSpaced::new: Err(Strategy) if bin_width <= 0 or min >= max *)
Definition equispaced_ok (w mn mx : T) : bool :=
  negb (leb w (o_zero O)) && negb (leb mx mn).

(* min + T::from_usize(i).unwrap() * bin_width *)
Definition edge (mn w : T) (i : nat) : res T :=
  if repr i then Ok (o_add O mn (o_mul O (o_of_nat O i) w)) else Panic.

(* n_bins (repaired, D4): let mut n = 0; while min + from_usize(n) * w <= max { n += 1 } *)
Fixpoint n_bins_loop (fuel : nat) (mn w mx : T) (n : nat) : res nat :=
  match fuel with
  | 0 => OutOfFuel
  | S f =>
    e <- edge mn w n ;;
    if leb e mx then n_bins_loop f mn w mx (S n) else Ok n
  end.
Definition n_bins (fuel : nat) (mn w mx : T) : res nat := n_bins_loop fuel mn w mx 0.

Fixpoint edges_upto (mn w : T) (k : nat) (i : nat) : res (list T) :=
  (* edge i, edge (i+1), ..., k more *)
  match k with
  | 0 => Ok []
  | S k' => e <- edge mn w i ;; r <- edges_upto mn w k' (S i) ;; Ok (e :: r)
  end.

(* build: for i in 0..=n_bins { edges.push(min + from_usize(i) * w) }; Bins::new(Edges::from(edges)) *)
Definition build (fuel : nat) (mn w mx : T) : res (list T) :=
  n <- n_bins fuel mn w mx ;;
  es <- edges_upto mn w (S n) 0 ;;
  Ok (edges_from T leb es).

(* pre-repair n_bins (defect D4): accumulate the width *)
Fixpoint n_bins_v0_loop (fuel : nat) (w mx me : T) (n : nat) : res nat :=
  match fuel with
  | 0 => OutOfFuel
  | S f => if leb me mx then n_bins_v0_loop f w mx (o_add O me w) (S n) else Ok n
  end.
Definition n_bins_v0 (fuel : nat) (mn w mx : T) : res nat := n_bins_v0_loop fuel w mx mn 0.
Definition build_v0 (fuel : nat) (mn w mx : T) : res (list T) :=
  n <- n_bins_v0 fuel mn w mx ;;
  es <- edges_upto mn w (S n) 0 ;;
  Ok (edges_from T leb es).

(* outcome of from_array + build, given the data's min / max and the advised width *)
Inductive serr := SE_Empty | SE_Strategy.
Definition strategy_bins (fuel : nat) (data : list T) (mn mx w : T) : res (serr + list T) :=
  match data with
  | [] => Ok (inl SE_Empty)
  | _ => if equispaced_ok w mn mx then (es <- build fuel mn w mx ;; Ok (inr es)) else Ok (inl SE_Strategy)
  end.
End S.
