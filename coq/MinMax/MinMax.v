(* min / max / argmin / argmax of QuantileExt (quantile/mod.rs) over a partial
   comparison, as in Rust's PartialOrd::partial_cmp.  The data list is the array
   in logical (row-major) order; positions are flat logical positions (the harness
   and Layout/Index.v turn them into index tuples).  [trav] is the order in which
   ndarray's fold visits the elements (layout dependent: any permutation). *)
From Coq Require Import List Arith Bool.
Import ListNotations.

Inductive mm_res (T : Type) := MM_Ok (x : T) | MM_Empty | MM_Undef.
Arguments MM_Ok {T}. Arguments MM_Empty {T}. Arguments MM_Undef {T}.

Section MM.
Variable A : Type.
Variable cmp : A -> A -> option comparison.

(* for (pattern, elem) in indexed_iter: if elem.partial_cmp(cur)? == want { cur := elem } *)
Fixpoint arg_loop (want : comparison) (l : list A) (pos : nat) (cur : A) (curpos : nat) : mm_res nat :=
  match l with
  | [] => MM_Ok curpos
  | x :: t =>
    match cmp x cur with
    | None => MM_Undef
    | Some c =>
      if match c, want with Lt, Lt | Gt, Gt => true | _, _ => false end
      then arg_loop want t (S pos) x pos
      else arg_loop want t (S pos) cur curpos
    end
  end.

Definition arg_ext (want : comparison) (data : list A) : mm_res nat :=
  match data with
  | [] => MM_Empty
  | h :: _ => arg_loop want data 0 h 0
  end.

Definition argmin := arg_ext Lt.
Definition argmax := arg_ext Gt.

(* self.fold(Ok(first), |acc, elem| match elem.partial_cmp(acc)? { want => elem, _ => acc }) *)
Fixpoint val_loop (want : comparison) (l : list A) (acc : A) : mm_res A :=
  match l with
  | [] => MM_Ok acc
  | x :: t =>
    match cmp x acc with
    | None => MM_Undef
    | Some c =>
      if match c, want with Lt, Lt | Gt, Gt => true | _, _ => false end
      then val_loop want t x
      else val_loop want t acc
    end
  end.

Definition val_ext (want : comparison) (data trav : list A) : mm_res A :=
  match data with
  | [] => MM_Empty
  | h :: _ => val_loop want trav h
  end.

Definition min_trav := val_ext Lt.
Definition max_trav := val_ext Gt.
End MM.
